"""C17: base packages for spec/SwayMutate.tla, mechanical application of TLC's replay records, rendering.

TLC (MC_SwayMutate) defines, enumerates AND applies the mutations; a replay record carries for every mutation
the top-level part of the package it touched after all edits:
    {"base": id, "muts": [{"kind", "p", "a"}...], "edits": [{"root": path, "node": value}...]}
`apply` sets part := node; `MutRenderer` prints the (possibly off-schema) AST.  No judgement here.
"""
import copy, hashlib, json
from lib.swaygen import Gen, Renderer, normalize, r_type, r_lit, BINOPS

NCASE = 3


def base_package(seed):
    """NCASE ordinary generated test cases over one set of declarations (no register-pressure case: its 50-deep
    operator expression makes every ill-typed mutant hit the exponential type-checking time of finding
    c17_deep_operator_expr_error_hang)."""
    g = Gen(seed)
    tests = [normalize(g.case("case_%d" % i)) for i in range(NCASE)]
    prog = dict(normalize(g.prog))
    prog["dups"] = []
    prog["kind"] = "script"
    return {"id": "g%d" % seed, "prog": prog, "tests": tests}


def mutant_key(rec):
    """Stable identifier of a mutant: base + (kind, path, argument) of every mutation."""
    parts = []
    for m in rec["muts"]:
        a = m["a"] if isinstance(m["a"], (str, int)) else json.dumps(m["a"], sort_keys=True, separators=(",", ":"))
        parts.append("%s@%s(%s)" % (m["kind"], ".".join(str(x) for x in m["p"]), a))
    return "%s:%s" % (rec["base"], "+".join(parts))


def mutant_id(rec):
    return "m" + hashlib.sha256(mutant_key(rec).encode()).hexdigest()[:14]


def apply(base, rec):
    """The mutated package: every edit replaces one top-level part (1-based indices as in TLA+)."""
    pkg = copy.deepcopy(base)
    for ed in rec["edits"]:
        root, node = ed["root"], ed["node"]
        if root[0] == "tests":
            pkg["tests"][root[1] - 1] = node
        elif root[0] == "prog" and len(root) == 3:
            pkg["prog"][root[1]][root[2]] = node
        elif root[0] == "prog" and len(root) == 2:
            pkg["prog"][root[1]] = node
        else:
            raise ValueError("unexpected edit root %r" % (root,))
    return pkg


class MutRenderer(Renderer):
    """Renderer for mutated ASTs: never looks a name up in the declarations (a mutation may have removed or
    changed them) -- fields are f<i>, variants V<i> as the generator names them -- and prints the off-schema
    nodes SwayMutate.tla introduces."""

    def _variant_has_payload(self, name, v, payload_is_trivial):
        vs = self.p["enums"].get(name)
        if vs is not None and 0 <= v < len(vs):
            return vs[v]["ty"]["t"] != "unit"
        return not payload_is_trivial

    def expr(self, e):
        k = e["k"]
        if k == "raw":
            return e["s"]
        if k == "struct":
            return "%s { %s }" % (e["name"], ", ".join("f%d: %s" % (i, self.expr(x)) for i, x in enumerate(e["es"])))
        if k == "structx":
            return "%s { %s }" % (e["name"], ", ".join("%s: %s" % (f["n"], self.expr(f["e"])) for f in e["fs"]))
        if k == "enum":
            if self._variant_has_payload(e["name"], e["v"], e["e"]["k"] == "unit"):
                return "%s::V%d(%s)" % (e["name"], e["v"], self.expr(e["e"]))
            return "%s::V%d" % (e["name"], e["v"])
        if k == "enumx":
            if e["e"]["k"] == "unit":
                return "%s::%s" % (e["name"], e["vn"])
            return "%s::%s(%s)" % (e["name"], e["vn"], self.expr(e["e"]))
        if k == "field":
            if "sname" in e:
                return "%s.f%d" % (self.expr(e["e"]), e["i"] - 1)
            return "%s.%d" % (self.expr(e["e"]), e["i"] - 1)
        if k == "fieldx":
            return "%s.%s" % (self.expr(e["e"]), e["fname"])
        if k == "match":
            arms = " ".join("%s => { %s }," % (self.pat(a["p"]), self.expr(a["b"])) for a in e["arms"])
            sc = self.expr(e["e"])
            if e["e"]["k"] in ("struct", "structx"):
                sc = "(" + sc + ")"
            return "(match %s { %s })" % (sc, arms)
        return super().expr(e)

    def pat(self, p):
        k = p["k"]
        if k == "struct":
            return "%s { %s }" % (p["name"], ", ".join("f%d: %s" % (i, self.pat(x)) for i, x in enumerate(p["ps"])))
        if k == "structx":
            return "%s { %s }" % (p["name"], ", ".join("%s: %s" % (f["n"], self.pat(f["p"])) for f in p["fs"]))
        if k == "variant":
            if self._variant_has_payload(p["name"], p["v"], p["p"]["k"] == "wild"):
                return "%s::V%d(%s)" % (p["name"], p["v"], self.pat(p["p"]))
            return "%s::V%d" % (p["name"], p["v"])
        if k == "variantx":
            if p["p"]["k"] == "wild":
                return "%s::%s" % (p["name"], p["vn"])
            return "%s::%s(%s)" % (p["name"], p["vn"], self.pat(p["p"]))
        return super().pat(p)

    def _struct(self, name, fs):
        return "struct %s { %s }" % (name, ", ".join("%s: %s" % (f["n"], r_type(f["ty"])) for f in fs))

    def _enum(self, name, vs):
        return "enum %s { %s }" % (name, ", ".join("%s: %s" % (v["n"], r_type(v["ty"])) for v in vs))

    def _fn(self, name, f):
        tps = ("<" + ", ".join(f["tparams"]) + ">") if f.get("tparams") else ""
        attr = "#[inline(never)] " if f.get("noinline") else ("#[inline(always)] " if f.get("inline") else "")
        ret = "" if f["ret"]["t"] == "unit" else " -> " + r_type(f["ret"])
        return "%sfn %s%s(%s)%s %s" % (attr, name, tps, ", ".join("%s: %s" % (p["n"], r_type(p["ty"])) for p in f["params"]),
                                     ret, self.block(f["body"]))

    def decls(self):
        out = []
        for name, fs in self.p["structs"].items():
            out.append(self._struct(name, fs))
        for name, vs in self.p["enums"].items():
            out.append(self._enum(name, vs))
        for name, f in self.p["fns"].items():
            out.append(self._fn(name, f))
        for d in self.p.get("dups", []):
            node = self.p[d["sort"]][d["name"]]
            out.append({"structs": self._struct, "enums": self._enum, "fns": self._fn}[d["sort"]](d["name"], node))
        return out

    def package_source(self, tests):
        kind = self.p.get("kind", "script")
        lines = ["%s;" % kind]
        if kind == "script":
            lines.append("fn main() {}")
        elif kind == "predicate":
            lines.append("fn main() -> bool { true }")
        lines += self.decls()
        for t in tests:
            lines.append("#[test] fn %s() %s" % (t["name"], self.block(t["body"])))
        return "\n".join(lines) + "\n"


def render(pkg):
    return MutRenderer(pkg["prog"]).package_source(pkg["tests"])
