"""Sway-mini: AST (JSON) generator and renderer to concrete Sway syntax.

The AST is the exchange format between the TLA+ semantics (spec/SwaySem.tla evaluates it) and the
real toolchain (rendered to Sway source, built by vh-exec).  Everything here is mechanical: the
generator chooses programs (seeded, deterministic), the renderer prints them.  No expected values
are computed in Python.

Conventions that keep the semantics unambiguous:
  * variable names are unique within a function (no shadowing);
  * struct initialisers are rendered in declaration order;
  * index expressions inside assignment targets are side-effect free;
  * dynamic array indices stay in range (out-of-range dynamic indexing is finding F15) unless the
    case is generated with oob=True.
"""
import random

INT_T = ["u8", "u16", "u32", "u64", "u256"]
WIDTH = {"u8": 1, "u16": 2, "u32": 4, "u64": 8, "u256": 32, "b256": 32}


def T(t):
    return {"t": t}


def be(n, w):
    return list(n.to_bytes(w, "big"))


def lit(t, n):
    return {"k": "lit", "t": t, "b": be(n, WIDTH[t])}


def boolean(v):
    return {"k": "bool", "v": bool(v)}


UNIT = {"k": "unit"}


def block(ss, tail=None):
    return {"ss": ss, "tail": tail if tail is not None else UNIT}


# ------------------------------------------------------------------ rendering
def r_type(ty):
    t = ty["t"]
    if t in WIDTH or t == "bool":
        return t
    if t == "unit":
        return "()"
    if t == "tuple":
        if len(ty["es"]) == 1:
            return "(%s,)" % r_type(ty["es"][0])
        return "(" + ", ".join(r_type(e) for e in ty["es"]) + ")"
    if t == "array":
        return "[%s; %d]" % (r_type(ty["e"]), ty["n"])
    if t in ("struct", "enum"):
        return ty["name"]
    if t == "param":
        return ty["name"]
    raise ValueError(ty)


def r_lit(e):
    t = e["t"]
    n = int.from_bytes(bytes(e["b"]), "big")
    if t == "b256":
        return "0x%064x" % n
    if t == "u256":
        return "0x%xu256" % n
    return "%d%s" % (n, t)


BINOPS = {"add": "+", "sub": "-", "mul": "*", "div": "/", "mod": "%", "shl": "<<", "shr": ">>",
          "and": "&", "or": "|", "xor": "^", "eq": "==", "ne": "!=", "lt": "<", "le": "<=",
          "gt": ">", "ge": ">=", "land": "&&", "lor": "||"}


class Renderer:
    def __init__(self, prog):
        self.p = prog

    def field_name(self, sname, i):
        return self.p["structs"][sname][i - 1]["n"]

    def expr(self, e):
        k = e["k"]
        if k == "lit":
            return r_lit(e)
        if k == "bool":
            return "true" if e["v"] else "false"
        if k == "alit":
            return "(asm(r: %s) { r: %s })" % (r_lit(e), e["t"])
        if k == "abool":
            return "(asm(r: %du64) { r: bool })" % (1 if e["v"] else 0)
        if k == "unit":
            return "()"
        if k == "var":
            return e["x"]
        if k == "un":
            return "(!%s)" % self.expr(e["e"])
        if k == "bin":
            return "(%s %s %s)" % (self.expr(e["l"]), BINOPS[e["op"]], self.expr(e["r"]))
        if k == "if":
            return "(if %s %s else %s)" % (self.expr(e["c"]), self.block(e["t"]), self.block(e["f"]))
        if k == "block":
            return self.block(e["b"])
        if k == "tuple":
            if len(e["es"]) == 1:
                return "(%s,)" % self.expr(e["es"][0])
            return "(" + ", ".join(self.expr(x) for x in e["es"]) + ")"
        if k == "array":
            return "[" + ", ".join(self.expr(x) for x in e["es"]) + "]"
        if k == "arep":
            return "[%s; %d]" % (self.expr(e["e"]), e["n"])
        if k == "struct":
            fs = self.p["structs"][e["name"]]
            return "%s { %s }" % (e["name"], ", ".join("%s: %s" % (f["n"], self.expr(x)) for f, x in zip(fs, e["es"])))
        if k == "enum":
            v = self.p["enums"][e["name"]][e["v"]]
            if v["ty"]["t"] == "unit":
                return "%s::%s" % (e["name"], v["n"])
            return "%s::%s(%s)" % (e["name"], v["n"], self.expr(e["e"]))
        if k == "field":
            if "sname" in e:
                return "%s.%s" % (self.expr(e["e"]), self.field_name(e["sname"], e["i"]))
            return "%s.%d" % (self.expr(e["e"]), e["i"] - 1)
        if k == "index":
            return "%s[%s]" % (self.expr(e["e"]), self.expr(e["i"]))
        if k == "call":
            targs = ""
            if e.get("targs"):
                targs = "::<" + ", ".join(r_type(t) for t in e["targs"]) + ">"
            return "%s%s(%s)" % (e["f"], targs, ", ".join(self.expr(a) for a in e["args"]))
        if k == "match":
            arms = " ".join("%s => { %s }," % (self.pat(a["p"]), self.expr(a["b"])) for a in e["arms"])
            sc = self.expr(e["e"])
            if e["e"]["k"] == "struct":
                sc = "(" + sc + ")"
            return "(match %s { %s })" % (sc, arms)
        if k == "cast":
            return "%s.as_%s()" % (self.expr(e["e"]), e["t"])
        if k == "trycast":
            return "%s::try_from(%s).unwrap()" % (e["t"], self.expr(e["e"]))
        raise ValueError(k)

    def pat(self, p):
        k = p["k"]
        if k == "wild":
            return "_"
        if k == "bind":
            return p["x"]
        if k == "lit":
            return r_lit(p)
        if k == "bool":
            return "true" if p["v"] else "false"
        if k == "range":
            t = p["t"]
            return "%s..=%s" % (r_lit({"t": t, "b": p["lo"]}), r_lit({"t": t, "b": p["hi"]}))
        if k == "tuple":
            if len(p["ps"]) == 1:
                return "(%s,)" % self.pat(p["ps"][0])
            return "(" + ", ".join(self.pat(x) for x in p["ps"]) + ")"
        if k == "struct":
            fs = self.p["structs"][p["name"]]
            return "%s { %s }" % (p["name"], ", ".join("%s: %s" % (f["n"], self.pat(x)) for f, x in zip(fs, p["ps"])))
        if k == "variant":
            v = self.p["enums"][p["name"]][p["v"]]
            if v["ty"]["t"] == "unit":
                return "%s::%s" % (p["name"], v["n"])
            return "%s::%s(%s)" % (p["name"], v["n"], self.pat(p["p"]))
        if k == "or":
            return " | ".join(self.pat(x) for x in p["ps"])
        raise ValueError(k)

    def stmt(self, s):
        k = s["k"]
        if k == "let":
            return "let %s%s: %s = %s;" % ("mut " if s.get("mut") else "", s["x"], r_type(s["ty"]), self.expr(s["e"]))
        if k == "letpat":
            return "let %s = %s;" % (self.pat(s["p"]), self.expr(s["e"]))
        if k == "assign":
            tgt = s["x"]
            for st in s["path"]:
                if st["k"] == "f":
                    tgt += "." + (st["name"] if "name" in st else str(st["i"] - 1))
                else:
                    tgt += "[%s]" % self.expr(st["e"])
            return "%s = %s;" % (tgt, self.expr(s["e"]))
        if k in ("expr", "expr2"):
            e = s["e"]
            if e["k"] == "if":
                return "if %s %s else %s;" % (self.expr(e["c"]), self.block(e["t"]), self.block(e["f"]))
            return "let _ = %s;" % self.expr(e)
        if k == "log":
            return "log(%s);" % self.expr(s["e"])
        if k == "while":
            return "while %s %s" % (self.expr(s["c"]), self.block(s["b"]))
        if k == "break":
            return "break;"
        if k == "continue":
            return "continue;"
        if k == "return":
            return "return %s;" % self.expr(s["e"])
        if k == "require":
            return "require(%s, %s);" % (self.expr(s["c"]), self.expr(s["code"]))
        if k == "assert":
            return "assert(%s);" % self.expr(s["c"])
        if k == "revert":
            return "revert(%s);" % self.expr(s["code"])
        raise ValueError(k)

    def block(self, b):
        parts = [self.stmt(s) for s in b["ss"]]
        if b["tail"]["k"] != "unit":
            t = self.expr(b["tail"])
            if t.startswith("["):
                t = "(" + t + ")"     # `}` followed by `[` would parse as indexing
            parts.append(t)
        if len(parts) <= 1 and sum(len(x) for x in parts) < 60:
            return "{ " + " ".join(parts) + " }"
        return "{\n" + "\n".join(parts) + "\n}"

    def decls(self):
        out = []
        for name, fs in self.p["structs"].items():
            out.append("struct %s { %s }" % (name, ", ".join("%s: %s" % (f["n"], r_type(f["ty"])) for f in fs)))
        for name, vs in self.p["enums"].items():
            out.append("enum %s { %s }" % (name, ", ".join("%s: %s" % (v["n"], r_type(v["ty"])) for v in vs)))
        for name, f in self.p["fns"].items():
            tps = ("<" + ", ".join(f["tparams"]) + ">") if f.get("tparams") else ""
            attr = "#[inline(never)] " if f.get("noinline") else ("#[inline(always)] " if f.get("inline") else "")
            ret = "" if f["ret"]["t"] == "unit" else " -> " + r_type(f["ret"])
            out.append("%sfn %s%s(%s)%s %s" % (attr, name, tps,
                                              ", ".join("%s: %s" % (p["n"], r_type(p["ty"])) for p in f["params"]),
                                              ret, self.block(f["body"])))
        return out

    def package(self, tests, kind="script", extra_items=(), main=None):
        lines = ["%s;" % kind]
        if kind == "script" and main is not None:
            ret = "" if main["ret"]["t"] == "unit" else " -> " + r_type(main["ret"])
            lines.append("fn main()%s %s" % (ret, self.block(main["body"])))
        elif kind == "script":
            lines.append("fn main() {}")
        lines += list(extra_items)
        lines += self.decls()
        for t in tests:
            lines.append("#[test] fn %s() %s" % (t["name"], self.block(t["body"])))
        return "\n".join(lines) + "\n"


# ------------------------------------------------------------------ generation
BOUND = {}
for _t, _w in WIDTH.items():
    m = (1 << (8 * _w)) - 1
    BOUND[_t] = sorted({0, 1, 2, 3, 7, 8, 255 & m, 256 & m, m, m - 1, m >> 1, (m >> 1) + 1, 1 << (4 * _w), (1 << (4 * _w)) - 1,
                        0xAA & m, int("A5" * _w, 16), int("5A" * _w, 16)})


class Gen:
    """Random generator of well-typed Sway-mini programs (one Gen = one package's shared declarations)."""

    def __init__(self, seed, allow_abort=True, oob=False, big=False):
        self.r = random.Random(seed)
        self.n = 0
        self.allow_abort = allow_abort
        self.big = big
        self.prog = {"structs": {}, "enums": {}, "fns": {}}
        self.mk_decls()

    def fresh(self, p="v"):
        self.n += 1
        return "%s%d" % (p, self.n)

    # ---- types
    def scalar_type(self):
        return T(self.r.choice(["u8", "u16", "u32", "u64", "u64", "u64", "u256", "bool", "b256"]))

    def int_type(self):
        return T(self.r.choice(["u8", "u16", "u32", "u64", "u64", "u256"]))

    def any_type(self, depth=2):
        c = self.r.random()
        if depth == 0 or c < 0.45:
            return self.scalar_type()
        if c < 0.6:
            return {"t": "tuple", "es": [self.any_type(depth - 1) for _ in range(self.r.randint(1, 3))]}
        if c < 0.72:
            return {"t": "array", "e": self.any_type(depth - 1), "n": self.r.randint(1, 4)}
        if c < 0.87 and self.prog["structs"]:
            return {"t": "struct", "name": self.r.choice(list(self.prog["structs"]))}
        if self.prog["enums"]:
            return {"t": "enum", "name": self.r.choice(list(self.prog["enums"]))}
        return self.scalar_type()

    def mk_decls(self):
        r = self.r
        for i in range(r.randint(1, 3)):
            name = "S%d" % i
            self.prog["structs"][name] = [{"n": "f%d" % j, "ty": self.any_type(1)} for j in range(r.randint(1, 4))]
        for i in range(r.randint(1, 2)):
            name = "E%d" % i
            vs = []
            for j in range(r.randint(2, 4)):
                ty = T("unit") if r.random() < 0.3 else self.any_type(1)
                vs.append({"n": "V%d" % j, "ty": ty})
            self.prog["enums"][name] = vs
        # laundering identity functions (never inlined) per scalar type, and a generic one
        for t in ["u8", "u16", "u32", "u64", "u256", "bool", "b256"]:
            self.prog["fns"]["id_" + t] = {"params": [{"n": "x", "ty": T(t)}], "ret": T(t), "noinline": True,
                                          "body": block([], {"k": "var", "x": "x"})}
        self.prog["fns"]["gid"] = {"tparams": ["T"], "params": [{"n": "x", "ty": {"t": "param", "name": "T"}}],
                                   "ret": {"t": "param", "name": "T"}, "body": block([], {"k": "var", "x": "x"})}
        self.prog["fns"]["gsecond"] = {"tparams": ["A", "B"],
                                       "params": [{"n": "a", "ty": {"t": "param", "name": "A"}}, {"n": "b", "ty": {"t": "param", "name": "B"}}],
                                       "ret": {"t": "param", "name": "B"}, "body": block([], {"k": "var", "x": "b"})}
        # helper functions with random bodies; near-duplicates differing in one constant (fn-dedup bait)
        self.helpers = []
        for i in range(r.randint(2, 4)):
            self.mk_helper("h%d" % i)
        if self.helpers:
            base = r.choice(self.helpers)
            self.mk_near_duplicate(base)

    def mk_helper(self, name):
        r = self.r
        params = [{"n": self.fresh("p"), "ty": self.any_type(1)} for _ in range(r.randint(1, 3))]
        ret = self.any_type(1)
        scope = Scope(None)
        for p in params:
            scope.add(p["n"], p["ty"], False)
        ss = self.stmts(scope, r.randint(0, 4), depth=2, in_fn=True, ret=ret)
        body = block(ss, self.expr(ret, scope, 2))
        self.prog["fns"][name] = {"params": params, "ret": ret, "body": body,
                                  "noinline": r.random() < 0.4, "inline": False}
        self.helpers.append(name)

    def mk_near_duplicate(self, base):
        import copy
        f = copy.deepcopy(self.prog["fns"][base])
        lits = []

        def walk(x):
            if isinstance(x, dict):
                if x.get("k") == "lit" and x["t"] != "b256":
                    lits.append(x)
                for key, v in x.items():
                    # literals inside index expressions keep dynamic indices in range: leave them alone
                    if (x.get("k") == "index" and key == "i") or key == "path":
                        continue
                    walk(v)
            elif isinstance(x, list):
                for v in x:
                    walk(v)
        walk(f["body"])
        if not lits:
            return
        l = self.r.choice(lits)
        n = int.from_bytes(bytes(l["b"]), "big")
        m = (1 << (8 * WIDTH[l["t"]])) - 1
        l["b"] = be((n + 1) & m, WIDTH[l["t"]])
        # rename locals to keep names unique per function is unnecessary: different function
        self.prog["fns"][base + "_dup"] = f
        self.helpers.append(base + "_dup")

    # ---- literals / values
    def int_lit(self, t, small=None):
        r = self.r
        if small is None:
            small = r.random() < 0.75
        if small:
            n = r.randint(0, 12)
        else:
            n = r.choice(BOUND[t])
        return lit(t, n)

    def value(self, ty, depth=2):
        """a constant expression of type ty"""
        t = ty["t"]
        if t in INT_T:
            return self.int_lit(t)
        if t == "b256":
            return lit("b256", self.r.choice(BOUND["b256"]))
        if t == "bool":
            return boolean(self.r.random() < 0.5)
        if t == "unit":
            return UNIT
        if t == "tuple":
            return {"k": "tuple", "es": [self.value(e, depth) for e in ty["es"]]}
        if t == "array":
            return {"k": "array", "es": [self.value(ty["e"], depth) for _ in range(ty["n"])]}
        if t == "struct":
            return {"k": "struct", "name": ty["name"], "es": [self.value(f["ty"], depth) for f in self.prog["structs"][ty["name"]]]}
        if t == "enum":
            vs = self.prog["enums"][ty["name"]]
            i = self.r.randrange(len(vs))
            return {"k": "enum", "name": ty["name"], "v": i, "e": self.value(vs[i]["ty"], depth)}
        raise ValueError(ty)

    # ---- expressions
    def expr(self, ty, scope, depth):
        r = self.r
        t = ty["t"]
        cands = scope.of_type(ty)
        if depth <= 0:
            if cands and r.random() < 0.7:
                return {"k": "var", "x": r.choice(cands)}
            return self.value(ty, 0)
        c = r.random()
        # generic alternatives available for every type
        if c < 0.18 and cands:
            return {"k": "var", "x": r.choice(cands)}
        if c < 0.26:
            return {"k": "if", "c": self.expr(T("bool"), scope, depth - 1),
                    "t": block([], self.expr(ty, scope, depth - 1)), "f": block([], self.expr(ty, scope, depth - 1))}
        if c < 0.33:
            proj = self.projection(ty, scope, depth)
            if proj is not None:
                return proj
        if c < 0.40:
            call = self.call(ty, scope, depth)
            if call is not None:
                return call
        if c < 0.46:
            m = self.match_expr(ty, scope, depth)
            if m is not None:
                return m
        if c < 0.50 and t != "unit":
            return {"k": "call", "f": "gid", "targs": [ty], "args": [self.expr(ty, scope, depth - 1)]}
        if t in INT_T:
            return self.int_expr(t, scope, depth)
        if t == "bool":
            return self.bool_expr(scope, depth)
        if t == "b256":
            c2 = r.random()
            if c2 < 0.3:
                return {"k": "bin", "op": r.choice(["and", "or", "xor"]), "l": self.expr(ty, scope, depth - 1), "r": self.expr(ty, scope, depth - 1)}
            if c2 < 0.4:
                return {"k": "un", "op": "not", "e": self.expr(ty, scope, depth - 1)}
            if c2 < 0.55:
                return {"k": "call", "f": "id_b256", "args": [self.expr(ty, scope, depth - 1)]}
            return self.value(ty)
        if t == "unit":
            return UNIT
        if t == "tuple":
            return {"k": "tuple", "es": [self.expr(e, scope, depth - 1) for e in ty["es"]]}
        if t == "array":
            return {"k": "array", "es": [self.expr(ty["e"], scope, depth - 1) for _ in range(ty["n"])]}
        if t == "struct":
            return {"k": "struct", "name": ty["name"], "es": [self.expr(f["ty"], scope, depth - 1) for f in self.prog["structs"][ty["name"]]]}
        if t == "enum":
            vs = self.prog["enums"][ty["name"]]
            i = r.randrange(len(vs))
            return {"k": "enum", "name": ty["name"], "v": i, "e": self.expr(vs[i]["ty"], scope, depth - 1)}
        raise ValueError(ty)

    def int_expr(self, t, scope, depth):
        r = self.r
        ty = T(t)
        c = r.random()
        if c < 0.15:
            return self.int_lit(t)
        if c < 0.25:
            return {"k": "call", "f": "id_" + t, "args": [self.expr(ty, scope, depth - 1)]}
        if c < 0.62:
            op = r.choice(["add", "add", "sub", "mul", "div", "mod"])
            l = self.expr(ty, scope, depth - 1)
            rr = self.expr(ty, scope, depth - 1)
            if True:
                # Arithmetic nested inside expressions never traps (operands are masked / the divisor is
                # made non-zero): the optimizer deliberately removes *dead* trapping arithmetic
                # (InstOp::may_have_side_effect), so a trap whose value is unused is not observable the
                # same way in every build.  Possibly-trapping operations are generated only by
                # trap_stmt(), where the result is logged immediately.
                if op in ("div", "mod"):
                    rr = {"k": "bin", "op": "or", "l": rr, "r": lit(t, 1)}
                elif op == "sub":
                    l = {"k": "bin", "op": "or", "l": l, "r": lit(t, (1 << (8 * WIDTH[t])) - 1 - ((1 << (8 * WIDTH[t] - 1)) - 1))}
                    rr = {"k": "bin", "op": "and", "l": rr, "r": lit(t, (1 << (8 * WIDTH[t] - 1)) - 1)}
                elif op == "add":
                    m = (1 << (8 * WIDTH[t] - 1)) - 1
                    l = {"k": "bin", "op": "and", "l": l, "r": lit(t, m)}
                    rr = {"k": "bin", "op": "and", "l": rr, "r": lit(t, m)}
                else:
                    m = (1 << (4 * WIDTH[t])) - 1
                    l = {"k": "bin", "op": "and", "l": l, "r": lit(t, m)}
                    rr = {"k": "bin", "op": "and", "l": rr, "r": lit(t, m)}
            return {"k": "bin", "op": op, "l": l, "r": rr}
        if c < 0.74:
            op = r.choice(["shl", "shr"])
            amt = self.int_lit("u64", small=True) if r.random() < 0.6 else lit("u64", r.choice([0, 1, 7, 8, 15, 16, 31, 32, 63, 64, 65, 255, 256, 257]))
            if r.random() < 0.3:
                amt = {"k": "call", "f": "id_u64", "args": [amt]}
            return {"k": "bin", "op": op, "l": self.expr(ty, scope, depth - 1), "r": amt}
        if c < 0.9:
            return {"k": "bin", "op": r.choice(["and", "or", "xor"]), "l": self.expr(ty, scope, depth - 1), "r": self.expr(ty, scope, depth - 1)}
        return {"k": "un", "op": "not", "e": self.expr(ty, scope, depth - 1)}

    def bool_expr(self, scope, depth):
        r = self.r
        c = r.random()
        if c < 0.12:
            return boolean(r.random() < 0.5)
        if c < 0.55:
            t = r.choice(INT_T)
            return {"k": "bin", "op": r.choice(["eq", "ne", "lt", "le", "gt", "ge"]), "l": self.expr(T(t), scope, depth - 1), "r": self.expr(T(t), scope, depth - 1)}
        if c < 0.62:
            ty = r.choice([T("bool"), T("b256")])
            return {"k": "bin", "op": r.choice(["eq", "ne"]), "l": self.expr(ty, scope, depth - 1), "r": self.expr(ty, scope, depth - 1)}
        if c < 0.8:
            return {"k": "bin", "op": r.choice(["land", "lor"]), "l": self.expr(T("bool"), scope, depth - 1), "r": self.expr(T("bool"), scope, depth - 1)}
        if c < 0.9:
            return {"k": "un", "op": "not", "e": self.expr(T("bool"), scope, depth - 1)}
        return {"k": "call", "f": "id_bool", "args": [self.expr(T("bool"), scope, depth - 1)]}

    def projection(self, ty, scope, depth):
        """an expression of type ty obtained by projecting a field / element out of a variable in scope"""
        r = self.r
        opts = []
        for name, (vty, _m) in scope.all().items():
            if vty["t"] == "tuple":
                for i, e in enumerate(vty["es"]):
                    if e == ty:
                        opts.append({"k": "field", "e": {"k": "var", "x": name}, "i": i + 1})
            elif vty["t"] == "struct":
                for i, f in enumerate(self.prog["structs"][vty["name"]]):
                    if f["ty"] == ty:
                        opts.append({"k": "field", "e": {"k": "var", "x": name}, "i": i + 1, "sname": vty["name"]})
            elif vty["t"] == "array" and vty["e"] == ty:
                n = vty["n"]
                if r.random() < 0.5:
                    ix = lit("u64", r.randrange(n))
                else:
                    # dynamic, in range by construction: (e % n)
                    ix = {"k": "bin", "op": "mod", "l": self.expr(T("u64"), scope, depth - 1), "r": lit("u64", n)}
                opts.append({"k": "index", "e": {"k": "var", "x": name}, "i": ix})
        return r.choice(opts) if opts else None

    def call(self, ty, scope, depth):
        fs = [n for n in self.helpers if self.prog["fns"][n]["ret"] == ty and not getattr(scope, "in_helper", False)]
        if not fs or scope.root().in_fn:
            return None
        f = self.r.choice(fs)
        return {"k": "call", "f": f, "args": [self.expr(p["ty"], scope, depth - 1) for p in self.prog["fns"][f]["params"]]}

    def pattern(self, ty, scope, binds, depth=2):
        """a pattern for type ty; binds collects (name, type). Returns (pattern, irrefutable?)"""
        r = self.r
        t = ty["t"]
        c = r.random()
        if c < 0.2 or depth == 0:
            return {"k": "wild"}, True
        if c < 0.4:
            x = self.fresh("b")
            binds.append((x, ty))
            return {"k": "bind", "x": x}, True
        if t in INT_T:
            l = self.int_lit(t)
            if t == "u256" and int.from_bytes(bytes(l["b"]), "big") >= 1 << 64:
                # a u256 literal pattern >= 2^64 panics the compiler (finding F16, probed by C17)
                l = lit(t, int.from_bytes(bytes(l["b"]), "big") % (1 << 64))
            return {"k": "lit", "t": t, "b": l["b"]}, False
        if t == "bool":
            return boolean(r.random() < 0.5), False
        if t == "tuple":
            ps, irr = [], True
            for e in ty["es"]:
                p, i = self.pattern(e, scope, binds, depth - 1)
                ps.append(p)
                irr = irr and i
            return {"k": "tuple", "ps": ps}, irr
        if t == "struct":
            ps, irr = [], True
            for f in self.prog["structs"][ty["name"]]:
                p, i = self.pattern(f["ty"], scope, binds, depth - 1)
                ps.append(p)
                irr = irr and i
            return {"k": "struct", "name": ty["name"], "ps": ps}, irr
        if t == "enum":
            vs = self.prog["enums"][ty["name"]]
            i = r.randrange(len(vs))
            if vs[i]["ty"]["t"] == "unit":
                return {"k": "variant", "name": ty["name"], "v": i, "p": {"k": "wild"}}, False
            p, _ = self.pattern(vs[i]["ty"], scope, binds, depth - 1)
            return {"k": "variant", "name": ty["name"], "v": i, "p": p}, False
        return {"k": "wild"}, True

    def match_expr(self, ty, scope, depth):
        r = self.r
        sty = self.any_type(1) if r.random() < 0.5 else r.choice([T("u8"), T("u64"), T("bool")] + [{"t": "enum", "name": n} for n in self.prog["enums"]])
        if sty["t"] in ("b256", "unit", "array"):
            return None
        scrut = self.expr(sty, scope, depth - 1)
        arms = []
        for _ in range(r.randint(1, 3)):
            binds = []
            p, irr = self.pattern(sty, scope, binds)
            sc = Scope(scope)
            for (x, t) in binds:
                sc.add(x, t, False)
            arms.append({"p": p, "b": self.expr(ty, sc, depth - 1)})
            if irr:
                break
        else:
            arms.append({"p": {"k": "wild"}, "b": self.expr(ty, scope, depth - 1)})
        return {"k": "match", "e": scrut, "arms": arms}

    # ---- statements
    def stmts(self, scope, n, depth, in_fn=False, ret=None, loop=None):
        out = []
        root = scope.root()
        if in_fn:
            root.in_fn = True
        for _ in range(n):
            out += self.stmt(scope, depth, ret, loop)
        return out

    def stmt(self, scope, depth, ret, loop):
        r = self.r
        c = r.random()
        if c < 0.35:
            ty = self.any_type(2)
            x = self.fresh()
            e = self.expr(ty, scope, depth)
            mut = r.random() < 0.5
            scope.add(x, ty, mut)
            return [{"k": "let", "x": x, "mut": mut, "ty": ty, "e": e}]
        if c < 0.55:
            a = self.assign(scope, depth)
            if a:
                return [a]
        if c < 0.72:
            vs = list(scope.all().items())
            if vs and r.random() < 0.7:
                name, (ty, _m) = r.choice(vs)
                if ty["t"] != "unit":
                    return [{"k": "log", "e": {"k": "var", "x": name}}]
            ty = self.any_type(1)
            if ty["t"] == "unit":
                ty = T("u64")
            return [{"k": "log", "e": self.expr(ty, scope, depth)}]
        if c < 0.82 and depth > 0:
            return self.while_loop(scope, depth, ret)
        if c < 0.88 and depth > 0:
            t = block(self.stmts(Scope(scope), r.randint(1, 2), depth - 1, ret=ret, loop=loop))
            f = block(self.stmts(Scope(scope), r.randint(0, 2), depth - 1, ret=ret, loop=loop))
            return [{"k": "expr2", "e": {"k": "if", "c": self.expr(T("bool"), scope, depth - 1), "t": t, "f": f}}]
        if c < 0.91 and loop is not None:
            return [{"k": "expr2", "e": {"k": "if", "c": self.expr(T("bool"), scope, 1),
                                         "t": block([{"k": r.choice(["break", "continue"])}]), "f": block([])}}]
        if c < 0.915 and self.allow_abort:
            return self.trap_stmt(scope)
        if c < 0.94 and self.allow_abort:
            k = r.random()
            if k < 0.4:
                return [{"k": "require", "c": self.expr(T("bool"), scope, 1), "code": self.int_lit("u64")}]
            if k < 0.8:
                return [{"k": "assert", "c": self.expr(T("bool"), scope, 1)}]
            return [{"k": "expr2", "e": {"k": "if", "c": self.expr(T("bool"), scope, 1),
                                         "t": block([{"k": "revert", "code": self.int_lit("u64")}]), "f": block([])}}]
        if c < 0.97 and ret is not None:
            return [{"k": "expr2", "e": {"k": "if", "c": self.expr(T("bool"), scope, 1),
                                         "t": block([{"k": "return", "e": self.expr(ret, scope, 1)}]), "f": block([])}}]
        ty = self.any_type(1)
        x = self.fresh()
        e = self.expr(ty, scope, depth)
        scope.add(x, ty, False)
        return [{"k": "let", "x": x, "mut": False, "ty": ty, "e": e}]

    def trap_stmt(self, scope):
        """let x: T = a op b; log(x);  with unmasked boundary-biased operands: may overflow / divide by zero.
        The result is used at once, so the trap is observable in every build configuration."""
        r = self.r
        t = r.choice(INT_T)
        ty = T(t)
        op = r.choice(["add", "sub", "mul", "div", "mod"])

        def operand():
            c = r.random()
            cands = scope.of_type(ty)
            if c < 0.3 and cands:
                return {"k": "var", "x": r.choice(cands)}
            e = self.int_lit(t, small=r.random() < 0.4)
            if r.random() < 0.6:
                e = {"k": "call", "f": "id_" + t, "args": [e]}
            return e
        x = self.fresh()
        e = {"k": "bin", "op": op, "l": operand(), "r": operand()}
        scope.add(x, ty, False)
        return [{"k": "let", "x": x, "mut": False, "ty": ty, "e": e},
                {"k": "log", "e": {"k": "var", "x": x}}]

    def assign(self, scope, depth):
        r = self.r
        muts = [(n, ty) for n, (ty, m) in scope.all().items() if m]
        if not muts:
            return None
        name, ty = r.choice(muts)
        path = []
        while ty["t"] in ("tuple", "struct", "array") and r.random() < 0.6:
            if ty["t"] == "tuple":
                i = r.randrange(len(ty["es"]))
                path.append({"k": "f", "i": i + 1})
                ty = ty["es"][i]
            elif ty["t"] == "struct":
                fs = self.prog["structs"][ty["name"]]
                i = r.randrange(len(fs))
                path.append({"k": "f", "i": i + 1, "name": fs[i]["n"]})
                ty = fs[i]["ty"]
            else:
                n = ty["n"]
                cands = scope.of_type(T("u64"))
                if cands and r.random() < 0.5:
                    ix = {"k": "bin", "op": "mod", "l": {"k": "var", "x": r.choice(cands)}, "r": lit("u64", n)}
                else:
                    ix = lit("u64", r.randrange(n))
                path.append({"k": "ix", "e": ix})
                ty = ty["e"]
        return {"k": "assign", "x": name, "path": path, "e": self.expr(ty, scope, depth)}

    def while_loop(self, scope, depth, ret):
        r = self.r
        i = self.fresh("i")
        n = r.randint(0, 6)
        scope.add(i, T("u64"), False)   # readable, never assigned by generated code
        inner = Scope(scope)
        body = [{"k": "assign", "x": i, "path": [], "e": {"k": "bin", "op": "add", "l": {"k": "var", "x": i}, "r": lit("u64", 1)}}]
        body += self.stmts(inner, r.randint(1, 3), depth - 1, ret=ret, loop=True)
        return [{"k": "let", "x": i, "mut": True, "ty": T("u64"), "e": lit("u64", 0)},
                {"k": "while", "c": {"k": "bin", "op": "lt", "l": {"k": "var", "x": i}, "r": lit("u64", n)}, "b": block(body)}]

    # ---- pattern cases: fixed program shapes with random parameters, generated from their own RNG stream
    # (appending them does not change the programs the other generators produce for a seed)
    def pattern_cases(self, seed):
        r = random.Random(seed * 7919 + 13)
        out = []

        def v(x):
            return {"k": "var", "x": x}

        def bin_(op, l, rr):
            return {"k": "bin", "op": op, "l": l, "r": rr}

        # (1) the same two run-time values compared in both operand orders, by every predicate
        t = r.choice(["u8", "u16", "u32", "u64", "u64", "u256"])
        m = (1 << (8 * WIDTH[t])) - 1
        xa = r.choice([0, 1, 5, 7, m, m - 1, r.randint(0, min(m, 1 << 30))])
        xb = r.choice([xa, xa, 0, 3, 7, m, r.randint(0, min(m, 1 << 30))])
        a, b = "pa%d" % seed, "pb%d" % seed
        idf = "id_" + t
        ss = [{"k": "let", "x": a, "mut": False, "ty": T(t), "e": {"k": "call", "f": idf, "args": [lit(t, xa)]}},
              {"k": "let", "x": b, "mut": False, "ty": T(t), "e": {"k": "call", "f": idf, "args": [lit(t, xb)]}},
              {"k": "log", "e": {"k": "if", "c": bin_("lt", v(a), v(b)), "t": block([], lit("u64", 1)),
                                 "f": block([], {"k": "if", "c": bin_("lt", v(b), v(a)), "t": block([], lit("u64", 2)), "f": block([], lit("u64", 0))})}}]
        names = []
        for i, (op, l, rr) in enumerate([("lt", a, b), ("lt", b, a), ("gt", a, b), ("gt", b, a), ("le", a, b), ("le", b, a),
                                         ("ge", a, b), ("ge", b, a), ("eq", a, b), ("eq", b, a), ("ne", a, b), ("ne", b, a)]):
            x = "pc%d_%d" % (seed, i)
            ss.append({"k": "let", "x": x, "mut": False, "ty": T("bool"), "e": bin_(op, v(l), v(rr))})
            names.append(x)
        ss.append({"k": "log", "e": {"k": "tuple", "es": [v(x) for x in names[:6]]}})
        ss.append({"k": "log", "e": {"k": "tuple", "es": [v(x) for x in names[6:]]}})
        # non-commutative arithmetic in both orders as well (masked so that it cannot trap)
        if t != "u256":
            ss.append({"k": "log", "e": {"k": "tuple", "es": [
                bin_("sub", bin_("or", v(a), lit(t, (m >> 1) + 1)), bin_("and", v(b), lit(t, m >> 1))),
                bin_("sub", bin_("or", v(b), lit(t, (m >> 1) + 1)), bin_("and", v(a), lit(t, m >> 1))),
                bin_("div", v(a), bin_("or", v(b), lit(t, 1))), bin_("div", v(b), bin_("or", v(a), lit(t, 1))),
                bin_("shl", v(a), lit("u64", 1)), bin_("shr", v(b), lit("u64", 1))]}})
        out.append({"name": "case_cmp", "body": block(ss)})

        # (2) search loop with several exits that carry different values into the loop's exit block; the first
        # guard is never taken and is a constant only at some level (source literal / IR-opaque asm constant /
        # run-time value)
        fname = "search_%d" % seed
        guard_kind = r.choice(["abool", "alit", "dyn", "lit"])
        if guard_kind == "abool":
            guard = {"k": "abool", "v": False}
        elif guard_kind == "alit":
            guard = bin_("gt", bin_("mul", {"k": "alit", "t": "u64", "b": be(3, 8)}, {"k": "alit", "t": "u64", "b": be(3, 8)}), lit("u64", 100))
        elif guard_kind == "dyn":
            guard = {"k": "call", "f": "id_bool", "args": [boolean(False)]}
        else:
            guard = boolean(False)
        res, i = "sr%d" % seed, "si%d" % seed
        body = [
            {"k": "let", "x": res, "mut": True, "ty": {"t": "tuple", "es": [T("bool"), T("u64")]}, "e": {"k": "tuple", "es": [boolean(False), lit("u64", 999)]}},
            {"k": "let", "x": i, "mut": True, "ty": T("u64"), "e": lit("u64", 0)},
            {"k": "while", "c": bin_("lt", v(i), v("max")), "b": block([
                {"k": "expr", "e": {"k": "if", "c": guard, "t": block([{"k": "break"}]), "f": block([])}},
                {"k": "assign", "x": i, "path": [], "e": bin_("add", v(i), lit("u64", 1))},
                {"k": "expr", "e": {"k": "if", "c": bin_("eq", bin_("mul", v(i), v(i)), v("n")),
                                    "t": block([{"k": "assign", "x": res, "path": [{"k": "f", "i": 1}], "e": boolean(True)},
                                                {"k": "assign", "x": res, "path": [{"k": "f", "i": 2}], "e": v(i)},
                                                {"k": "break"}]),
                                    "f": block([])}}])},
        ]
        tail = {"k": "if", "c": {"k": "field", "e": v(res), "i": 1}, "t": block([], {"k": "field", "e": v(res), "i": 2}), "f": block([], lit("u64", 999))}
        self.prog["fns"][fname] = {"params": [{"n": "n", "ty": T("u64")}, {"n": "max", "ty": T("u64")}], "ret": T("u64"),
                                   "noinline": r.random() < 0.7, "body": block(body, tail)}
        calls = [(49, 10), (50, 10), (81, 5), (r.randint(0, 40), r.randint(0, 8)), (r.choice([1, 4, 9, 16, 25]), r.randint(3, 7))]
        ss2 = [{"k": "log", "e": {"k": "call", "f": fname, "args": [lit("u64", n), lit("u64", mx)]}} for (n, mx) in calls]
        out.append({"name": "case_search", "body": block(ss2)})

        # (3) immediate-operand boundaries of the FuelVM instruction formats (12, 18 and 24 bits) around a run-time value
        x = "px%d" % seed
        xv = r.choice([0, 1, 4095, 4096, 262143, 262144, r.randint(0, 1 << 20), r.randint(0, 1 << 20)])
        hi = bin_("or", v(x), lit("u64", 1 << 40))
        K = [4095, 4096, 262143, 262144, 16777215, 16777216]

        def tup(es):
            return {"k": "log", "e": {"k": "tuple", "es": es}}
        ss3 = [{"k": "let", "x": x, "mut": False, "ty": T("u64"), "e": {"k": "call", "f": "id_u64", "args": [lit("u64", xv)]}},
               tup([bin_("add", v(x), lit("u64", k)) for k in K]),
               tup([bin_("sub", hi, lit("u64", k)) for k in K]),
               tup([bin_("mul", v(x), lit("u64", k)) for k in K]),
               tup([bin_("and", v(x), lit("u64", 4095)), bin_("and", v(x), lit("u64", 4096)), bin_("or", v(x), lit("u64", 262143)),
                    bin_("xor", v(x), lit("u64", 262144)), bin_("and", hi, lit("u64", 16777215)), bin_("mod", v(x), lit("u64", 4096))]),
               tup([bin_("eq", v(x), lit("u64", 4095)), bin_("lt", v(x), lit("u64", 4096)), bin_("gt", v(x), lit("u64", 262143)),
                    bin_("ge", v(x), lit("u64", 262144)), bin_("ne", v(x), lit("u64", 16777215)), bin_("le", v(x), lit("u64", 16777216))]),
               tup([bin_("shl", v(x), lit("u64", 12)), bin_("shr", hi, lit("u64", 12)), bin_("shl", v(x), lit("u64", 18)),
                    bin_("shr", hi, lit("u64", 18)), bin_("div", hi, lit("u64", 4095)), bin_("div", hi, lit("u64", 4096))])]
        out.append({"name": "case_imm", "body": block(ss3)})

        # (4) a stack frame larger than the 12-bit word offset of load/store instructions: locals on both sides of the
        # boundary, constant and run-time indices
        na = r.choice([2040, 2050, 4090])
        nb = 4100 - na + r.randint(0, 8)
        aa, bb, cc, kk, zz = ("p%s%d" % (c, seed) for c in "fghkz")
        arr = lambda n: {"t": "array", "e": T("u64"), "n": n}
        ixp = lambda e: [{"k": "ix", "e": e}]
        ss4 = [{"k": "let", "x": aa, "mut": True, "ty": arr(na), "e": {"k": "arep", "e": {"k": "call", "f": "id_u64", "args": [lit("u64", 1)]}, "n": na}},
               {"k": "let", "x": bb, "mut": True, "ty": arr(nb), "e": {"k": "arep", "e": lit("u64", 7), "n": nb}},
               {"k": "let", "x": cc, "mut": True, "ty": arr(6), "e": {"k": "array", "es": [lit("u64", 20 + j) for j in range(6)]}},
               {"k": "let", "x": kk, "mut": False, "ty": T("u64"), "e": {"k": "call", "f": "id_u64", "args": [lit("u64", na - 1)]}},
               {"k": "let", "x": zz, "mut": True, "ty": T("u64"), "e": {"k": "call", "f": "id_u64", "args": [lit("u64", 5)]}},
               {"k": "assign", "x": aa, "path": ixp(lit("u64", 0)), "e": lit("u64", 11)},
               {"k": "assign", "x": aa, "path": ixp(v(kk)), "e": lit("u64", 12)},
               {"k": "assign", "x": bb, "path": ixp(lit("u64", 0)), "e": v(zz)},
               {"k": "assign", "x": bb, "path": ixp(lit("u64", nb - 1)), "e": lit("u64", 14)},
               {"k": "assign", "x": cc, "path": ixp(bin_("mod", v(kk), lit("u64", 6))), "e": lit("u64", 15)},
               {"k": "assign", "x": zz, "path": [], "e": bin_("add", v(zz), {"k": "index", "e": v(cc), "i": lit("u64", 5)})},
               tup([{"k": "index", "e": v(aa), "i": lit("u64", 0)}, {"k": "index", "e": v(aa), "i": v(kk)},
                    {"k": "index", "e": v(aa), "i": lit("u64", 1)}, {"k": "index", "e": v(aa), "i": lit("u64", na - 2)}]),
               tup([{"k": "index", "e": v(bb), "i": lit("u64", 0)}, {"k": "index", "e": v(bb), "i": lit("u64", nb - 1)},
                    {"k": "index", "e": v(bb), "i": lit("u64", 1)}, v(zz)]),
               {"k": "log", "e": v(cc)}]
        out.append({"name": "case_frame", "body": block(ss4)})

        # (5) a call with more arguments than argument registers, of mixed sizes, combined non-commutatively; called
        # with the same values in two different orders
        gname = "many_%d" % seed
        ptys = [T("u64"), T("u8"), T("u256"), T("u64"), {"t": "tuple", "es": [T("u64"), T("bool")]}, T("u32"), T("u64"), T("u64"), T("u16")]
        nargs = r.randint(7, 9)
        ptys = ptys[:nargs]
        ps = [{"n": "q%d" % j, "ty": ptys[j]} for j in range(nargs)]

        def as64(j):
            t_ = ptys[j]["t"]
            if t_ == "u64":
                return v("q%d" % j)
            if t_ in ("u8", "u16", "u32"):
                return {"k": "cast", "t": "u64", "e": v("q%d" % j)}
            if t_ == "tuple":
                return {"k": "if", "c": {"k": "field", "e": v("q%d" % j), "i": 2}, "t": block([], {"k": "field", "e": v("q%d" % j), "i": 1}), "f": block([], lit("u64", 3))}
            return {"k": "if", "c": bin_("gt", v("q%d" % j), lit("u256", 1 << 70)), "t": block([], lit("u64", 77)), "f": block([], lit("u64", 33))}
        acc = lit("u64", 1)
        for j in range(nargs):
            acc = bin_("add", bin_("mul", bin_("and", acc, lit("u64", (1 << 40) - 1)), lit("u64", 31)), bin_("and", as64(j), lit("u64", (1 << 20) - 1)))
        self.prog["fns"][gname] = {"params": ps, "ret": {"t": "tuple", "es": [T("u64"), T("u256")]}, "noinline": r.random() < 0.7,
                                   "body": block([], {"k": "tuple", "es": [acc, v("q2")]})}

        def argval(j, salt):
            t_ = ptys[j]["t"]
            if t_ == "tuple":
                return {"k": "tuple", "es": [lit("u64", 100 + salt), boolean(salt % 2 == 0)]}
            if t_ == "u256":
                return lit("u256", (1 << 200) + salt if salt % 3 else salt)
            mm = (1 << (8 * WIDTH[t_])) - 1
            return lit(t_, (salt * 37 + 5) % (mm + 1))
        u64pos = [j for j in range(nargs) if ptys[j]["t"] == "u64"]
        c1 = [argval(j, j + 1) for j in range(nargs)]
        c2 = list(c1)
        c2[u64pos[0]], c2[u64pos[-1]] = c1[u64pos[-1]], c1[u64pos[0]]
        c3 = [argval(j, r.randint(0, 50)) for j in range(nargs)]
        c3[u64pos[1]] = {"k": "call", "f": "id_u64", "args": [lit("u64", r.randint(0, 1 << 30))]}
        ss5 = [{"k": "log", "e": {"k": "call", "f": gname, "args": c}} for c in (c1, c2, c3)]
        out.append({"name": "case_args", "body": block(ss5)})

        # (6) partial updates of an aggregate on different paths of branches and of a loop, then read as a whole
        st, cnd, it = "pt%d" % seed, "pd%d" % seed, "pj%d" % seed
        tty = {"t": "tuple", "es": [T("u64"), {"t": "tuple", "es": [T("u8"), T("u64")]}, {"t": "array", "e": T("u64"), "n": 3}]}
        fld = lambda *ix: [{"k": "f", "i": i_} for i_ in ix]
        cval = r.randint(0, 9)
        ss6 = [{"k": "let", "x": st, "mut": True, "ty": tty, "e": {"k": "tuple", "es": [lit("u64", 1), {"k": "tuple", "es": [lit("u8", 2), lit("u64", 3)]},
                                                                                       {"k": "array", "es": [lit("u64", 4), lit("u64", 5), lit("u64", 6)]}]}},
               {"k": "let", "x": cnd, "mut": False, "ty": T("u64"), "e": {"k": "call", "f": "id_u64", "args": [lit("u64", cval)]}},
               {"k": "let", "x": it, "mut": True, "ty": T("u64"), "e": lit("u64", 0)},
               {"k": "expr", "e": {"k": "if", "c": bin_("lt", v(cnd), lit("u64", 5)),
                                   "t": block([{"k": "assign", "x": st, "path": fld(1), "e": bin_("add", v(cnd), lit("u64", 40))}]),
                                   "f": block([{"k": "assign", "x": st, "path": fld(2, 2), "e": bin_("add", v(cnd), lit("u64", 50))}])}},
               {"k": "while", "c": bin_("lt", v(it), lit("u64", 3)), "b": block([
                   {"k": "expr", "e": {"k": "if", "c": bin_("eq", bin_("mod", bin_("add", v(it), v(cnd)), lit("u64", 2)), lit("u64", 0)),
                                       "t": block([{"k": "assign", "x": st, "path": fld(3) + [{"k": "ix", "e": v(it)}],
                                                    "e": bin_("add", {"k": "field", "e": v(st), "i": 1}, v(it))}]),
                                       "f": block([{"k": "assign", "x": st, "path": fld(1),
                                                    "e": bin_("add", {"k": "index", "e": {"k": "field", "e": v(st), "i": 3}, "i": v(it)}, lit("u64", 100))}])}},
                   {"k": "assign", "x": it, "path": [], "e": bin_("add", v(it), lit("u64", 1))}])},
               {"k": "log", "e": v(st)}]
        out.append({"name": "case_paths", "body": block(ss6)})

        # (7) loop-carried values rotated / swapped / used after their successor is computed (parallel-copy shapes)
        ra, rb, rt, ri, rx, ry, rs = ("p%s%d" % (c, seed) for c in "abtixys")
        ra, rb = "qa%d" % seed, "qb%d" % seed
        n1, n2, n3 = r.randint(2, 12), r.randint(1, 4), r.randint(2, 6)
        let = lambda x, e, mut=True, ty="u64": {"k": "let", "x": x, "mut": mut, "ty": T(ty), "e": e}
        asg = lambda x, e: {"k": "assign", "x": x, "path": [], "e": e}
        idc = lambda n: {"k": "call", "f": "id_u64", "args": [lit("u64", n)]}
        ss7 = [let(ra, idc(r.randint(0, 3))), let(rb, idc(r.randint(1, 5))), let(ri, lit("u64", 0)),
               {"k": "while", "c": bin_("lt", v(ri), lit("u64", n1)), "b": block([
                   let(rt, bin_("add", v(ra), v(rb)), mut=False), asg(ra, v(rb)), asg(rb, v(rt)), asg(ri, bin_("add", v(ri), lit("u64", 1)))])},
               tup([v(ra), v(rb), v(ri)]),
               let(rx, idc(r.randint(0, 99))), let(ry, idc(r.randint(100, 199))), asg(ri, lit("u64", 0)),
               {"k": "while", "c": bin_("lt", v(ri), lit("u64", n2)), "b": block([
                   let(rt, v(rx), mut=False), asg(rx, v(ry)), asg(ry, v(rt)), asg(ri, bin_("add", v(ri), lit("u64", 1)))])},
               tup([v(rx), v(ry)]),
               let(rs, lit("u64", 0)), asg(ri, idc(0)),
               {"k": "while", "c": bin_("lt", v(ri), lit("u64", n3)), "b": block([
                   let(rt, bin_("add", v(ri), lit("u64", 1)), mut=False), asg(rs, bin_("add", v(rs), bin_("mul", v(ri), v(rt)))), asg(ri, v(rt))])},
               tup([v(ri), v(rs)])]
        out.append({"name": "case_rotate", "body": block(ss7)})

        # (8) degenerate control flow: conditionals whose arms are empty or identical, on conditions that are constant
        # only after aggregates are split (a literal's field), constant at once, or known only at run time;
        # loops that never run or leave at once
        et, ec, ei, ea = ("p%s%d" % (c, seed) for c in "uvwy")
        flag = r.random() < 0.5
        lim = r.randint(1, 9)
        tt = {"t": "tuple", "es": [T("bool"), T("u64")]}
        empty = block([])
        ifs = lambda c, t_, f_: {"k": "expr", "e": {"k": "if", "c": c, "t": t_, "f": f_}}
        ss8 = [let(et, {"k": "tuple", "es": [boolean(flag), lit("u64", lim)]}, mut=False, ty=None),
               ifs({"k": "field", "e": v(et), "i": 1}, empty, empty),
               {"k": "log", "e": {"k": "field", "e": v(et), "i": 2}},
               let(ec, {"k": "call", "f": "id_bool", "args": [boolean(not flag)]}, mut=False, ty="bool"),
               ifs(v(ec), empty, empty),
               ifs(boolean(True), empty, empty),
               ifs({"k": "un", "e": {"k": "field", "e": v(et), "i": 1}}, empty, block([{"k": "log", "e": lit("u64", 71)}])),
               let(ei, lit("u64", 0)),
               {"k": "while", "c": boolean(False), "b": block([asg(ei, bin_("add", v(ei), lit("u64", 1)))])},
               {"k": "while", "c": bin_("lt", v(ei), {"k": "field", "e": v(et), "i": 2}), "b": block([
                   ifs(bin_("eq", v(ei), lit("u64", 3)), block([{"k": "break"}]), empty),
                   ifs({"k": "field", "e": v(et), "i": 1}, empty, empty),
                   asg(ei, bin_("add", v(ei), lit("u64", 1)))])},
               let(ea, {"k": "if", "c": v(ec), "t": block([], v(ei)), "f": block([], v(ei))}, mut=False),
               tup([v(ei), v(ea), {"k": "match", "e": v(ec), "arms": [{"p": {"k": "bool", "v": True}, "b": lit("u64", 5)},
                                                                  {"p": {"k": "wild"}, "b": lit("u64", 5)}]}])]
        ss8[0]["ty"] = tt
        out.append({"name": "case_empty", "body": block(ss8)})
        return out

    def main_fn(self):
        """a `main` with a few statements and a tail expression of a random type (script-level return path)"""
        scope = Scope(None)
        ss = self.stmts(scope, self.r.randint(1, 5), depth=2)
        ret = self.any_type(2)
        if ret["t"] == "unit":
            ret = T("u64")
        return {"ret": ret, "body": block(ss, self.expr(ret, scope, 2))}

    def spill_case(self, name, nlive=56):
        """Many simultaneously live values (more than the allocatable registers): forces spilling."""
        r = self.r
        ss = []
        names = []
        for k in range(nlive):
            x = self.fresh("s")
            e = {"k": "call", "f": "id_u64", "args": [lit("u64", r.randint(0, 1 << 20))]}
            if names and r.random() < 0.5:
                e = {"k": "bin", "op": r.choice(["xor", "or", "and"]), "l": e, "r": {"k": "var", "x": r.choice(names)}}
            ss.append({"k": "let", "x": x, "mut": False, "ty": T("u64"), "e": e})
            names.append(x)
        # a loop in the middle keeps everything live across a back edge
        i = self.fresh("i")
        acc = self.fresh("acc")
        ss.append({"k": "let", "x": acc, "mut": True, "ty": T("u64"), "e": lit("u64", 0)})
        ss.append({"k": "let", "x": i, "mut": True, "ty": T("u64"), "e": lit("u64", 0)})
        body = [{"k": "assign", "x": i, "path": [], "e": {"k": "bin", "op": "add", "l": {"k": "var", "x": i}, "r": lit("u64", 1)}},
                {"k": "assign", "x": acc, "path": [], "e": {"k": "bin", "op": "xor", "l": {"k": "var", "x": acc},
                                                           "r": {"k": "bin", "op": "and", "l": {"k": "var", "x": r.choice(names)}, "r": {"k": "var", "x": i}}}}]
        ss.append({"k": "while", "c": {"k": "bin", "op": "lt", "l": {"k": "var", "x": i}, "r": lit("u64", 3)}, "b": block(body)})
        # use all of them afterwards, in reverse order
        e = {"k": "var", "x": acc}
        for x in reversed(names):
            e = {"k": "bin", "op": r.choice(["xor", "or"]), "l": e, "r": {"k": "var", "x": x}}
        ss.append({"k": "log", "e": e})
        for x in r.sample(names, 6):
            ss.append({"k": "log", "e": {"k": "var", "x": x}})
        return {"name": name, "body": block(ss)}

    def case(self, name, nstmts=None):
        scope = Scope(None)
        n = nstmts if nstmts is not None else self.r.randint(3, 9)
        ss = self.stmts(scope, n, depth=3 if self.big else 2)
        # make sure something is observable at the end: log every scalar-ish variable still in scope
        for v, (ty, _m) in list(scope.all().items())[-4:]:
            if ty["t"] != "unit":
                ss.append({"k": "log", "e": {"k": "var", "x": v}})
        return {"name": name, "body": block(ss)}


class Scope:
    def __init__(self, parent):
        self.parent = parent
        self.vars = {}
        self.in_fn = False

    def root(self):
        s = self
        while s.parent is not None:
            s = s.parent
        return s

    def add(self, x, ty, mut):
        self.vars[x] = (ty, mut)

    def all(self):
        d = dict(self.parent.all()) if self.parent else {}
        d.update(self.vars)
        return d

    def of_type(self, ty):
        return [n for n, (t, _m) in self.all().items() if t == ty]


def normalize(node):
    """`expr2` is a statement-position expression (if without value); SwaySem calls it `expr`."""
    if isinstance(node, dict):
        if node.get("k") == "expr2":
            node["k"] = "expr"
        for v in node.values():
            normalize(v)
    elif isinstance(node, list):
        for v in node:
            normalize(v)
    return node
