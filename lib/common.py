"""Shared driver machinery: TLC runner, vh builder/runner, evidence writer, known findings.

Exit codes of ./check: 0 = property held on everything explored; 1 = VIOLATION line printed;
2 = tool failure (TLC crash, cargo error, timeout) -- never accompanied by a VIOLATION line.
"""
import json, os, re, shutil, subprocess, sys, time, hashlib

ROOT = os.path.dirname(os.path.dirname(os.path.abspath(__file__)))
SPEC = os.path.join(ROOT, "spec")
VH = os.path.join(ROOT, "vh")
REPO = "/repo"
JAR_CP = "/opt/veriftools/tla/tla2tools.jar:/opt/veriftools/tla/CommunityModules-deps.jar"


class ToolError(Exception):
    pass


def log(*a):
    print(*a, file=sys.stderr, flush=True)


class TlcResult:
    def __init__(self, rc, out):
        self.rc = rc
        self.out = out
        self.generated = 0
        self.distinct = 0
        self.depth = 0
        m = re.findall(r"(\d+) states generated, (\d+) distinct states found", out)
        if m:
            self.generated, self.distinct = int(m[-1][0]), int(m[-1][1])
        m = re.search(r"depth of the complete state graph search is (\d+)", out)
        if m:
            self.depth = int(m.group(1))
        # simulation mode reports differently
        m = re.search(r"The number of states generated: (\d+)", out)
        if m and not self.generated:
            self.generated = int(m.group(1))
        self.violated = None
        m = re.search(r"Invariant (\S+) is violated", out)
        if m:
            self.violated = m.group(1)
        elif re.search(r"Temporal properties were violated|Action property .* is violated", out):
            self.violated = "temporal"
        elif "Deadlock reached" in out:
            self.violated = "deadlock"
        elif re.search(r"Error: Postcondition .* is false", out):
            self.violated = "postcondition"
        self.ok = (rc == 0 and self.violated is None
                   and "Model checking completed. No error has been found." in out) or \
                  (rc == 0 and self.violated is None and "Finished in" in out and "Error:" not in out)

    def printed(self, tag):
        """Values printed by PrintT(<<tag, jsonstring>>) -> list of parsed JSON objects."""
        res = []
        pat = '<<"%s", "' % tag
        for line in self.out.splitlines():
            i = line.find(pat)
            if i < 0:
                continue
            body = line[i + len(pat):]
            j = body.rfind('">>')
            if j < 0:
                continue
            body = body[:j]
            body = body.replace('\\"', '"').replace("\\\\", "\\")
            try:
                res.append(json.loads(body))
            except Exception as e:  # pragma: no cover
                raise ToolError("cannot parse TLC printed record: %s (%s)" % (body[:200], e))
        return res

    def first_unmatched(self):
        """Index printed by a trace spec's Accepted postcondition: <<"FIRST-UNMATCHED", k, ...>>"""
        m = re.search(r'<<"FIRST-UNMATCHED", (\d+)', self.out)
        return int(m.group(1)) if m else None

    def coverage_actions(self):
        """Per-action counts from -coverage 1 output: {action: (distinct, total)}"""
        cov = {}
        for m in re.finditer(r"<(\w+) line \d+, col \d+ to line \d+, col \d+ of module (\w+)>: (\d+):(\d+)", self.out):
            cov[m.group(1)] = (int(m.group(3)), int(m.group(4)))
        return cov

    def counterexample(self):
        """The error trace text (states) if any."""
        i = self.out.find("Error: The behavior up to this point is")
        if i < 0:
            i = self.out.find("Error: The following behavior constitutes a counter-example")
        return self.out[i:] if i >= 0 else ""


class Ctx:
    def __init__(self, pid, tier, seed):
        self.pid = pid
        self.tier = tier
        self.seed = seed
        self.t0 = time.time()
        self.work = os.path.join(ROOT, "work", pid)
        shutil.rmtree(self.work, ignore_errors=True)
        os.makedirs(self.work, exist_ok=True)
        self.tmp = os.path.join(self.work, "tmp")
        os.makedirs(self.tmp, exist_ok=True)
        self.violations = []
        self.known_hits = []
        self.tlc_states = 0
        self.tlc_transitions = 0
        self.tlc_runs = []
        self._built = set()
        kf = os.path.join(ROOT, "known_findings.json")
        self.known_findings = json.load(open(kf)) if os.path.exists(kf) else []
        # long per-property lists live in known_findings.d/<ID>.json (same entry format, committed, read-only)
        kd = os.path.join(ROOT, "known_findings.d")
        if os.path.isdir(kd):
            for fn in sorted(os.listdir(kd)):
                if fn.endswith(".json"):
                    self.known_findings += json.load(open(os.path.join(kd, fn)))
        self._known_index = {(k.get("property"), k.get("match")): k for k in self.known_findings if k.get("kind") == "known"}

    @property
    def quick(self):
        return self.tier == "quick"

    # ---------------------------------------------------------------- TLC
    def tlc(self, module, cfg=None, workers=4, env=None, timeout=1800, simulate=None,
            depth=None, tlc_seed=None, coverage=False, deque=False, xmx="4g", xss=None,
            extra=None, name=None, count=True, deadlock=False):
        """Run TLC on spec/<module>.tla with spec/<cfg>. Returns TlcResult. Raises ToolError on
        crash/timeout (a property violation is *not* an error: see result.violated)."""
        name = name or (cfg or module).replace(".cfg", "")
        meta = os.path.join(self.work, "tlc-" + name)
        shutil.rmtree(meta, ignore_errors=True)
        jopts = ["-XX:+UseParallelGC", "-Xmx" + xmx, "-Djava.io.tmpdir=" + self.tmp]
        if xss:
            jopts.append("-Xss" + xss)
        if deque:
            jopts.append("-Dtlc2.tool.queue.IStateQueue=StateDeque")
        cmd = ["java"] + jopts + ["-cp", JAR_CP, "tlc2.TLC", "-workers", str(workers),
                                  "-metadir", meta, "-cleanup", "-noGenerateSpecTE",
                                  "-checkpoint", "0"]       # no checkpoints: StateDeque (trace validation) cannot write them
        if not deadlock:
            pass  # deadlock checking is governed by CHECK_DEADLOCK in the cfg
        if cfg:
            cmd += ["-config", cfg if cfg.endswith(".cfg") else cfg + ".cfg"]
        if coverage:
            cmd += ["-coverage", "1"]
        if simulate:
            cmd += ["-simulate", "num=%d" % simulate]
            if depth:
                cmd += ["-depth", str(depth)]
        if tlc_seed is not None:
            cmd += ["-seed", str(tlc_seed)]
        if extra:
            cmd += extra
        cmd.append(module if module.endswith(".tla") else module + ".tla")
        e = dict(os.environ)
        e.pop("JAVA_TOOL_OPTIONS", None)
        if env:
            e.update({k: str(v) for k, v in env.items()})
        t = time.time()
        try:
            p = subprocess.run(cmd, cwd=SPEC, env=e, stdout=subprocess.PIPE, stderr=subprocess.STDOUT,
                               timeout=timeout, text=True, errors="replace")
        except subprocess.TimeoutExpired:
            raise ToolError("TLC timeout (%ds) on %s/%s" % (timeout, module, cfg))
        finally:
            shutil.rmtree(meta, ignore_errors=True)
        out = p.stdout
        with open(os.path.join(self.work, "tlc-%s.out" % name), "w") as f:
            f.write(out)
        r = TlcResult(p.returncode, out)
        r.wall = time.time() - t
        if r.violated is None and not r.ok:
            raise ToolError("TLC failed on %s/%s (rc=%d); see %s\n%s" % (
                module, cfg, p.returncode, os.path.join(self.work, "tlc-%s.out" % name), out[-3000:]))
        if count:
            self.tlc_states += r.distinct or r.generated
            self.tlc_transitions += r.generated
        self.tlc_runs.append({"module": module, "cfg": cfg, "generated": r.generated,
                              "distinct": r.distinct, "depth": r.depth, "wall_s": round(r.wall, 1),
                              "violated": r.violated})
        return r

    def tlc_trace(self, module, cfg, trace_path, env=None, timeout=1800, xmx="4g", name=None, count=True):
        """Trace validation run: single worker, StateDeque, big stack; TRACE env names the ndjson."""
        e = {"TRACE": trace_path}
        if env:
            e.update(env)
        return self.tlc(module, cfg, workers=1, env=e, timeout=timeout, deque=True, xss="1g", xmx=xmx,
                        name=name, count=count)

    # ---------------------------------------------------------------- vh
    def build_vh(self, binname):
        if binname in self._built:
            return
        lock_src = os.path.join(REPO, "Cargo.lock")
        lock_dst = os.path.join(VH, "Cargo.lock")
        if not os.path.exists(lock_dst):
            shutil.copy(lock_src, lock_dst)
        e = dict(os.environ, CARGO_NET_OFFLINE="true")
        t = time.time()
        p = subprocess.run(["cargo", "build", "--release", "--offline", "--bin", binname], cwd=VH, env=e,
                           stdout=subprocess.PIPE, stderr=subprocess.STDOUT, text=True)
        if p.returncode != 0:
            raise ToolError("cargo build of vh bin %s failed:\n%s" % (binname, p.stdout[-6000:]))
        log("[vh] built %s in %.0fs" % (binname, time.time() - t))
        self._built.add(binname)

    def vh_path(self, binname):
        return os.path.join(VH, "target", "release", binname)

    def vh(self, binname, args, env=None, timeout=3600, stdin=None, check=True, cwd=None):
        self.build_vh(binname)
        e = dict(os.environ)
        e["TMPDIR"] = self.tmp
        if env:
            e.update({k: str(v) for k, v in env.items()})
        try:
            p = subprocess.run([self.vh_path(binname)] + [str(a) for a in args], env=e, cwd=cwd or self.work,
                               stdout=subprocess.PIPE, stderr=subprocess.PIPE, text=True, errors="replace",
                               timeout=timeout, input=stdin)
        except subprocess.TimeoutExpired:
            raise ToolError("vh %s timeout (%ds)" % (binname, timeout))
        if check and p.returncode != 0:
            raise ToolError("vh %s %s failed rc=%d:\n%s" % (binname, args, p.returncode, p.stderr[-4000:]))
        return p

    # ---------------------------------------------------------------- findings
    def match_known(self, key):
        """key: a string identifying the specific failing input / call site / mechanism."""
        return self._known_index.get((self.pid, key))

    def report(self, key, what, replay):
        """Report a disagreement. Known finding -> KNOWN-FINDING line (once per key); else violation."""
        k = self.match_known(key)
        if k:
            if key not in self.known_hits:
                self.known_hits.append(key)
                print("KNOWN-FINDING: property=%s %s" % (self.pid, k.get("what", what)), flush=True)
            return False
        n = len(self.violations) + 1
        path = os.path.join(self.work, "violation-%d.json" % n)
        with open(path, "w") as f:
            json.dump({"property": self.pid, "key": key, "what": what, "replay": replay}, f, indent=1, default=str)
        self.violations.append(path)
        if n <= 20:
            print("VIOLATION property=%s replay=%s" % (self.pid, os.path.relpath(path, ROOT)), flush=True)
            log("  -> %s: %s" % (key, what))
        return True

    # ---------------------------------------------------------------- evidence
    def finish(self, level, coverage, assumptions=None):
        cov = dict(coverage)
        if level == "model_checking":
            cov.setdefault("states", self.tlc_states)
            cov.setdefault("transitions", self.tlc_transitions)
            cov.setdefault("traces_validated_against_impl", 0)
        if "exhaustive" in cov and not isinstance(cov["exhaustive"], bool):
            cov["exhaustive_scope"] = cov.pop("exhaustive")
        cov.setdefault("tlc_runs", self.tlc_runs)
        if getattr(self, "retried_timeouts", 0):
            cov.setdefault("builds_repeated_alone_after_watchdog", self.retried_timeouts)
        cov.setdefault("known_findings_hit", self.known_hits)
        ev = {
            "property_id": self.pid,
            "tier": self.tier,
            "seed": self.seed,
            "level": level,
            "coverage": cov,
            "assumptions": assumptions or [],
            "wall_s": round(time.time() - self.t0, 1),
            "violations": len(self.violations),
        }
        os.makedirs(os.path.join(ROOT, "evidence"), exist_ok=True)
        with open(os.path.join(ROOT, "evidence", self.pid + ".json"), "w") as f:
            json.dump(ev, f, indent=1, default=str)
        shutil.rmtree(self.tmp, ignore_errors=True)
        return 1 if self.violations else 0


def write_ndjson(path, records):
    with open(path, "w") as f:
        for r in records:
            f.write(json.dumps(r, separators=(",", ":")) + "\n")


def read_ndjson(path):
    out = []
    with open(path) as f:
        for line in f:
            line = line.strip()
            if line:
                out.append(json.loads(line))
    return out


def slice_for_seed(items, seed, n):
    """Deterministic slice of a finite pool: VERIF_SEED only selects *which* n items (rotating window
    over a fixed pseudo-random permutation of the pool)."""
    if n >= len(items):
        return list(items)
    idx = sorted(range(len(items)), key=lambda i: hashlib.sha256(("%d" % i).encode()).digest())
    start = (seed * n) % len(items)
    pick = [idx[(start + k) % len(items)] for k in range(n)]
    return [items[i] for i in sorted(pick)]
