"""C27: render StdModels replay records (operation histories / numeric cases) to Sway `#[test]` functions.

Purely mechanical: a history is a list of operations [op, i, j, v] produced by TLC (MC_StdModels.tla); every
operation becomes one call of a small `#[inline(never)]` helper that performs the std call, logs what it returned and
then logs every query of the public API (`dump`).  No expectation is computed here: Trace_StdModels.tla compares the
logged bytes with the model.

Conventions shared with StdModels.tla (the only "knowledge" in this file):
  * element number e of type u8 / u64 / u256 / pair is the literal  e u8 | e u64 | 0xee..ee u256 | (e u8, e+256 u64)
    (StdModels!EncElem is its canonical encoding);
  * index 2147483647 (StdModels!HugeIx) is rendered `u64::max()`;
  * append(j, v): the other Bytes holds v consecutive values from j; splice(i, j, v): the replacement holds v
    consecutive values from 100 + v; from_ascii(j, v): the source Bytes holds v consecutive values from j
    (StdModels!CollStep);  from_str(i): literal number i of StdModels!StrLits.
"""
import json

HUGE = 2147483647
STRLITS = ["", "a", "fuel", "Sway lang!"]

ETY = {
    "u8": "u8",
    "u64": "u64",
    "u256": "u256",
    "pair": "(u8, u64)",
}


def elem(ety, e):
    if ety == "u8":
        return "%du8" % e
    if ety == "u64":
        return "%du64" % e
    if ety == "u256":
        return "0x" + ("%02x" % e) * 32 + "u256"
    if ety == "pair":
        return "(%du8, %du64)" % (e, e + 256)
    raise ValueError(ety)


def ix(i):
    return "u64::max()" if i == HUGE else str(i)


# ----------------------------------------------------------------------------- helpers (Sway text)
def vec_helpers(ety):
    T = ETY[ety]
    return """
#[inline(never)]
fn dump(v: Vec<{T}>) {{
    log(v.len());
    log(v.capacity());
    log(v.is_empty());
    log(v.last());
    log(v.get(v.len()));
    let mut i = 0;
    while i < v.len() {{
        log(v.get(i));
        i += 1;
    }}
    log(v);
}}
#[inline(never)] fn o_new() -> Vec<{T}> {{ let v: Vec<{T}> = Vec::new(); dump(v); v }}
#[inline(never)] fn o_with_capacity(c: u64) -> Vec<{T}> {{ let v: Vec<{T}> = Vec::with_capacity(c); dump(v); v }}
#[inline(never)] fn o_push(ref mut v: Vec<{T}>, x: {T}) {{ v.push(x); dump(v); }}
#[inline(never)] fn o_pop(ref mut v: Vec<{T}>) {{ log(v.pop()); dump(v); }}
#[inline(never)] fn o_insert(ref mut v: Vec<{T}>, i: u64, x: {T}) {{ v.insert(i, x); dump(v); }}
#[inline(never)] fn o_remove(ref mut v: Vec<{T}>, i: u64) {{ log(v.remove(i)); dump(v); }}
#[inline(never)] fn o_swap(ref mut v: Vec<{T}>, i: u64, j: u64) {{ v.swap(i, j); dump(v); }}
#[inline(never)] fn o_set(ref mut v: Vec<{T}>, i: u64, x: {T}) {{ v.set(i, x); dump(v); }}
#[inline(never)] fn o_clear(ref mut v: Vec<{T}>) {{ v.clear(); dump(v); }}
#[inline(never)] fn o_resize(ref mut v: Vec<{T}>, n: u64, x: {T}) {{ v.resize(n, x); dump(v); }}
#[inline(never)] fn o_get(v: Vec<{T}>, i: u64) {{ log(v.get(i)); dump(v); }}
#[inline(never)] fn o_clone(v: Vec<{T}>) -> Vec<{T}> {{ let c = v.clone(); dump(c); c }}
#[inline(never)] fn o_iter(v: Vec<{T}>, x: {T}) {{
    for e in v.iter() {{
        log(e);
    }}
    let mut c = v.clone();
    log(c == v);
    c.push(x);
    log(c == v);
    dump(v);
}}
""".format(T=T)


BYTES_HELPERS = """
#[inline(never)]
fn dump(v: Bytes) {
    log(v.len());
    log(v.capacity());
    log(v.is_empty());
    log(v.get(v.len()));
    let mut i = 0;
    while i < v.len() {
        log(v.get(i));
        i += 1;
    }
    log(v);
    log(v.are_all_zero());
}
#[inline(never)] fn o_new() -> Bytes { let v = Bytes::new(); dump(v); v }
#[inline(never)] fn o_with_capacity(c: u64) -> Bytes { let v = Bytes::with_capacity(c); dump(v); v }
#[inline(never)] fn o_push(ref mut v: Bytes, x: u8) { v.push(x); dump(v); }
#[inline(never)] fn o_pop(ref mut v: Bytes) { log(v.pop()); dump(v); }
#[inline(never)] fn o_insert(ref mut v: Bytes, i: u64, x: u8) { v.insert(i, x); dump(v); }
#[inline(never)] fn o_remove(ref mut v: Bytes, i: u64) { log(v.remove(i)); dump(v); }
#[inline(never)] fn o_swap(ref mut v: Bytes, i: u64, j: u64) { v.swap(i, j); dump(v); }
#[inline(never)] fn o_set(ref mut v: Bytes, i: u64, x: u8) { v.set(i, x); dump(v); }
#[inline(never)] fn o_clear(ref mut v: Bytes) { v.clear(); dump(v); }
#[inline(never)] fn o_resize(ref mut v: Bytes, n: u64, x: u8) { v.resize(n, x); dump(v); }
#[inline(never)] fn o_get(v: Bytes, i: u64) { log(v.get(i)); dump(v); }
#[inline(never)] fn o_clone(v: Bytes) -> Bytes { let c = v.clone(); dump(c); c }
#[inline(never)] fn o_iter(v: Bytes, x: u8) {
    for e in v.iter() {
        log(e);
    }
    let mut c = v.clone();
    log(c == v);
    c.push(x);
    log(c == v);
    dump(v);
}
#[inline(never)] fn o_append(ref mut v: Bytes, ref mut other: Bytes) { v.append(other); log(other); dump(v); }
#[inline(never)] fn o_append_self(ref mut v: Bytes) { v.append(v); dump(v); }
#[inline(never)] fn o_split_at(v: Bytes, mid: u64) {
    let (l, r) = v.split_at(mid);
    log(l);
    log(l.capacity());
    log(r);
    log(r.capacity());
    dump(v);
}
#[inline(never)] fn o_splice(ref mut v: Bytes, start: u64, end: u64, repl: Bytes) {
    let s = v.splice(start, end, repl);
    log(s);
    log(repl);
    dump(v);
}
#[inline(never)] fn o_via_vec(v: Bytes) -> Bytes {
    let w: Vec<u8> = Vec::<u8>::from(v);
    let c = Bytes::from(w);
    dump(c);
    c
}
"""

STRING_HELPERS = """
#[inline(never)]
fn dump(s: String) {
    log(s.len());
    log(s.capacity());
    log(s.is_empty());
    log(s);
    log(s.as_bytes());
}
#[inline(never)] fn o_new() -> String { let s = String::new(); dump(s); s }
#[inline(never)] fn o_with_capacity(c: u64) -> String { let s = String::with_capacity(c); dump(s); s }
#[inline(never)] fn o_from_str(l: str) -> String { let s = String::from_ascii_str(l); dump(s); s }
#[inline(never)] fn o_from_ascii(ref mut src: Bytes) -> String {
    let s = String::from_ascii(src);
    // the content was copied: later changes of the source must stay invisible
    if src.len() > 0 {
        src.set(0, 35u8);
    }
    src.push(33u8);
    dump(s);
    s
}
#[inline(never)] fn o_clear(ref mut s: String) { s.clear(); dump(s); }
#[inline(never)] fn o_clone(s: String) -> String { let c = s.clone(); dump(c); c }
#[inline(never)] fn o_as_bytes_mut(s: String) {
    let mut b = s.as_bytes();
    b.push(33u8);
    log(b);
    dump(s);
}
#[inline(never)] fn o_via_bytes(s: String) -> String { let c = String::from_ascii(s.as_bytes()); dump(c); c }
"""


def coll_header(kind, ety):
    h = "script;\nuse std::bytes::Bytes;\nuse std::string::String;\nfn main() {}\n"
    if kind == "vec":
        return h + vec_helpers(ety)
    if kind == "bytes":
        return h + BYTES_HELPERS
    if kind == "string":
        return h + STRING_HELPERS
    raise ValueError(kind)


def _bytes_lit(var, base, n):
    s = "    let mut %s = Bytes::new();\n" % var
    for x in range(n):
        s += "    %s.push(%du8);\n" % (var, base + x)
    return s


def render_history(name, rec):
    """rec: {"kind","ety","ops":[{"op","i","j","v"}...]} -> text of one #[test] function"""
    kind, ety = rec["kind"], rec["ety"]
    lit = (lambda e: elem(ety, e)) if kind == "vec" else (lambda e: "%du8" % e)
    out = "#[test]\nfn %s() {\n" % name
    declared = False

    def assign(expr):
        nonlocal declared
        if declared:
            return "    v = %s;\n" % expr
        declared = True
        return "    let mut v = %s;\n" % expr

    for n, o in enumerate(rec["ops"]):
        op, i, j, v = o["op"], o["i"], o["j"], o["v"]
        if op == "new":
            out += assign("o_new()")
        elif op == "with_capacity":
            out += assign("o_with_capacity(%d)" % i)
        elif op == "from_str":
            out += assign('o_from_str("%s")' % STRLITS[i])
        elif op == "from_ascii":
            out += _bytes_lit("src%d" % n, j, v)
            out += assign("o_from_ascii(src%d)" % n)
        elif op in ("clone", "via_vec", "via_bytes"):
            out += assign("o_%s(v)" % op)
        elif op in ("push", "iter"):
            out += "    o_%s(v, %s);\n" % (op, lit(v))
        elif op in ("pop", "clear", "append_self", "as_bytes_mut"):
            out += "    o_%s(v);\n" % op
        elif op in ("insert", "set"):
            out += "    o_%s(v, %s, %s);\n" % (op, ix(i), lit(v))
        elif op in ("remove", "get", "split_at"):
            out += "    o_%s(v, %s);\n" % (op, ix(i))
        elif op == "swap":
            out += "    o_swap(v, %s, %s);\n" % (ix(i), ix(j))
        elif op == "resize":
            out += "    o_resize(v, %s, %s);\n" % (ix(i), lit(v))
        elif op == "append":
            out += _bytes_lit("oth%d" % n, j, v)
            out += "    o_append(v, oth%d);\n" % n
        elif op == "splice":
            out += _bytes_lit("rep%d" % n, 100 + v, v)
            out += "    o_splice(v, %s, %s, rep%d);\n" % (ix(i), ix(j), n)
        else:
            raise ValueError("unknown op %r" % op)
    return out + "}\n"


# ----------------------------------------------------------------------------- numerics
NTY = {"u8": "u8", "u16": "u16", "u32": "u32", "u64": "u64", "u128": "U128", "u256": "u256"}
NW = {"u8": 1, "u16": 2, "u32": 4, "u64": 8, "u128": 16, "u256": 32}


def num_lit(ty, be):
    """big-endian byte list -> Sway literal / constructor expression of type ty"""
    n = int.from_bytes(bytes(be), "big")
    if ty == "u128":
        return "U128::from((%du64, %du64))" % (n >> 64, n & ((1 << 64) - 1))
    if ty == "u256":
        return "0x%064xu256" % n
    return "%d%s" % (n, ty)


MODE_PRE = {"D": "", "W": "let _ = disable_panic_on_overflow(); ", "U": "let _ = disable_panic_on_unsafe_math(); "}
BIN = {"add": "+", "sub": "-", "mul": "*", "div": "/", "mod": "%", "and": "&", "or": "|"}


def num_helper_name(c):
    return "n_%s_%s_%s%s" % (c["ty"], c["op"], c["mode"], ("_" + c["t2"]) if c["t2"] else "")


def num_helper(c):
    """Sway text of the helper for the (ty, op, mode[, t2]) of case c"""
    T = NTY[c["ty"]]
    op, pre, name = c["op"], MODE_PRE[c["mode"]], num_helper_name(c)
    hd = "#[inline(never)] fn %s" % name
    if op == "divmod":
        return "%s(a: %s, b: %s) { %slog((a / b, a %% b)); }\n" % (hd, T, T, pre)
    if op in BIN:
        return "%s(a: %s, b: %s) { %slog(a %s b); }\n" % (hd, T, T, pre, BIN[op])
    if op in ("wrapping_add", "wrapping_sub", "wrapping_mul"):
        plain = {"wrapping_add": "+", "wrapping_sub": "-", "wrapping_mul": "*"}[op]
        return "%s(a: %s, b: %s) { log(a.%s(b)); log(a %s b); }\n" % (hd, T, T, op, plain)
    if op in ("overflowing_add", "overflowing_mul"):
        return "%s(a: %s, b: %s) { log(a.%s(b)); }\n" % (hd, T, T, op)
    if op == "pow":
        return "%s(a: %s, e: u32) { %slog(a.pow(e)); }\n" % (hd, T, pre)
    if op == "sqrt":
        return "%s(a: %s) { %slog(a.sqrt()); }\n" % (hd, T, pre)
    if op == "log":
        return "%s(a: %s, b: %s) { %slog(a.log(b)); }\n" % (hd, T, T, pre)
    if op == "log2":
        return "%s(a: %s) { %slog(a.log2()); }\n" % (hd, T, pre)
    if op in ("shl", "shr"):
        return "%s(a: %s, n: u64) { log(a %s n); }\n" % (hd, T, "<<" if op == "shl" else ">>")
    if op == "not":
        return "%s(a: %s) { log(!a); }\n" % (hd, T)
    if op == "cmp":
        return "%s(a: %s, b: %s) { log(a < b); log(a > b); log(a == b); }\n" % (hd, T, T)
    if op == "widen":
        t2 = c["t2"]
        if t2 == "u128":
            e = "U128::from(a)"
        elif c["ty"] == "u128":
            e = "a.as_u256()"
        else:
            e = "a.as_%s()" % t2
        return "%s(a: %s) { log(%s); }\n" % (hd, T, e)
    if op == "narrow":
        return "%s(a: %s) { log(%s::try_from(a)); }\n" % (hd, T, NTY[c["t2"]])
    if op == "try_as_u64":
        return "%s(a: %s) { log(a.try_as_u64()); }\n" % (hd, T)
    raise ValueError("unknown numeric op %r" % op)


def render_num_case(name, c):
    args = [num_lit(c["ty"], c["a"])]
    if c["op"] in ("pow",):
        args.append("%du32" % c["n"])
    elif c["op"] in ("shl", "shr"):
        args.append("%du64" % c["n"])
    elif c["b"]:
        args.append(num_lit(c["ty"], c["b"]))
    return "#[test]\nfn %s() {\n    %s(%s);\n}\n" % (name, num_helper_name(c), ", ".join(args))


NUM_HEADER = ("script;\nuse std::u128::*;\nuse std::math::*;\nuse std::flags::*;\nuse std::convert::TryFrom;\n"
              "use std::primitive_conversions::{u8::*, u16::*, u32::*, u64::*, u256::*};\nfn main() {}\n")


# ----------------------------------------------------------------------------- packages
# Package size is bounded by the number of operations (helper calls): the data section of one program is limited to
# 4096 words and literals of the wide element types fill it faster.
PER_PKG_OPS = {"u8": 9000, "u64": 9000, "u256": 2400, "pair": 2400}


def coll_packages(recs, prefix, ops_per_pkg=None):
    """recs: history records (each has rec["id"]). Returns list of vh-exec package records and a map
    (pkgid, testname) -> rec."""
    groups = {}
    for r in recs:
        groups.setdefault((r["kind"], r["ety"]), []).append(r)
    pkgs, where = [], {}
    for (kind, ety), rs in sorted(groups.items()):
        budget = ops_per_pkg or PER_PKG_OPS[ety]
        chunks, cur, used = [], [], 0
        for r in rs:
            if cur and used + len(r["ops"]) > budget:
                chunks.append(cur)
                cur, used = [], 0
            cur.append(r)
            used += len(r["ops"])
        if cur:
            chunks.append(cur)
        for b, chunk in enumerate(chunks):
            pid = "%s%s%s%03d" % (prefix, kind[0], {"u8": "b", "u64": "w", "u256": "q", "pair": "p"}[ety], b)
            src = coll_header(kind, ety)
            for n, r in enumerate(chunk):
                name = "h%04d" % n
                src += render_history(name, r)
                where[(pid, name)] = r
            pkgs.append({"id": pid, "files": {"src/main.sw": src}})
    return pkgs, where


def num_packages(cases, prefix, per_pkg=2000):
    pkgs, where = [], {}
    cases = sorted(cases, key=lambda c: (c["ty"], c["op"], c["mode"], c["t2"], c["a"], c["b"], c["n"]))
    chunks = []
    for ty in sorted({c["ty"] for c in cases}):               # one operand type per package: a compile error stays local
        of_ty = [c for c in cases if c["ty"] == ty]
        chunks += [of_ty[b:b + per_pkg] for b in range(0, len(of_ty), per_pkg)]
    for k, chunk in enumerate(chunks):
        pid = "%sn%03d" % (prefix, k)
        helpers = {}
        for c in chunk:
            helpers.setdefault(num_helper_name(c), num_helper(c))
        src = NUM_HEADER + "".join(helpers[k] for k in sorted(helpers))
        for n, c in enumerate(chunk):
            name = "c%04d" % n
            src += render_num_case(name, c)
            where[(pid, name)] = c
        pkgs.append({"id": pid, "files": {"src/main.sw": src}})
    return pkgs, where
