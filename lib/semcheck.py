"""Shared machinery for the SwaySem-based checks (C01, C02, C03, C07, and C04/C05 piggy-backing).

generate packages (deterministic pool) -> build+run under configurations (vh-exec) ->
trace records -> TLC (Trace_SwaySem.tla) decides every observation.
"""
import json, os, re, hashlib
from concurrent.futures import ThreadPoolExecutor
from lib.common import ToolError, write_ndjson, log
from lib.swaygen import Gen, Renderer, normalize
from lib.swayexec import run_packages, observe

NCASE = 12


def gen_package(seed, ncase=NCASE, **kw):
    g = Gen(seed, **kw)
    tests = [normalize(g.case("case_%d" % i)) for i in range(ncase)]
    if seed % 4 == 0:
        tests.append(normalize(g.spill_case("case_spill")))     # register pressure: > allocatable registers live at once
    for t in g.pattern_cases(seed):
        tests.append(normalize(t))
    normalize(g.prog)
    return {"id": "g%d" % seed, "seed": seed, "prog": g.prog, "tests": tests,
            "src": Renderer(g.prog).package(tests)}


def gen_main_package(seed):
    """One script whose `main` returns a value (observed through the script's own return receipts)."""
    g = Gen(seed)
    m = normalize(g.main_fn())
    normalize(g.prog)
    return {"id": "m%d" % seed, "seed": seed, "prog": g.prog, "main": m, "tests": [{"name": "main", "body": m["body"]}],
            "src": Renderer(g.prog).package([], main=m)}


def run_main_configs(ctx, packages, configs, procs=8):
    """Build scripts and run `main` (vh-exec run_main). Returns (obs, failures) in the shape of run_configs."""
    from lib.swayexec import observe_main
    jobs = []
    for p in packages:
        for c in configs:
            jobs.append({"id": "%s__%s" % (p["id"], c["name"]), "files": {"src/main.sw": p["src"]}, "profile": c["profile"],
                         "env": c.get("env", {}), "run_main": True, "run": False})
    res = run_packages(ctx, jobs, procs=procs)
    obs = {p["id"]: {"main": []} for p in packages}
    failures = []
    for p in packages:
        for c in configs:
            r = res["%s__%s" % (p["id"], c["name"])]
            b = r["built"]
            if r["crashed"] or b is None or not b["ok"]:
                kind = "crash" if (r["crashed"] or b is None) else ("timeout" if b.get("timeout") else ("panic" if b.get("panic") else "build"))
                d = (b or {}).get("diag") or ""
                errs = [x for x in d.split("____") if x.strip().startswith("error")]
                failures.append({"pkg": p["id"], "cfg": c["name"], "kind": kind, "detail": ((b or {}).get("panic") or "") + " ".join(e.strip()[-600:] for e in errs[:2])})
                continue
            if r["main"] is None or "state" not in r["main"]:
                failures.append({"pkg": p["id"], "cfg": c["name"], "kind": "run", "detail": json.dumps(r["main"])[:600]})
                continue
            o = observe_main(r["main"])
            o["cfg"] = c["name"]
            obs[p["id"]]["main"].append(o)
    return obs, failures


def probe_packages():
    """Hand-written probes of documented latitude / known findings. Rejections on these packages are reported
    under fixed keys `probe:<name>:<test>` so that known_findings.json can list them individually."""
    from lib.swaygen import lit, block, T, UNIT
    def var(x): return {"k": "var", "x": x}
    def call(f, *a, **kw):
        d = {"k": "call", "f": f, "args": list(a)}
        d.update(kw)
        return d
    idfn = lambda t: {"params": [{"n": "x", "ty": T(t)}], "ret": T(t), "noinline": True, "body": block([], var("x"))}
    gsecond = {"tparams": ["A", "B"], "params": [{"n": "a", "ty": {"t": "param", "name": "A"}}, {"n": "b", "ty": {"t": "param", "name": "B"}}],
               "ret": {"t": "param", "name": "B"}, "body": block([], var("b"))}
    prog = {"structs": {}, "enums": {}, "fns": {"id_u64": idfn("u64"), "gsecond": gsecond}}
    div0 = {"k": "bin", "op": "div", "l": call("id_u64", lit("u64", 1)), "r": call("id_u64", lit("u64", 0))}
    arr = {"t": "array", "e": T("u64"), "n": 3}
    tests_oob = [{"name": "oob_read", "body": block([
        {"k": "let", "x": "a", "mut": False, "ty": arr, "e": {"k": "array", "es": [lit("u64", 1), lit("u64", 2), lit("u64", 3)]}},
        {"k": "let", "x": "i", "mut": False, "ty": T("u64"), "e": call("id_u64", lit("u64", 3))},
        {"k": "log", "e": {"k": "index", "e": var("a"), "i": var("i")}}])}]
    tests_dce = [
        {"name": "dead_let", "body": block([
            {"k": "let", "x": "d", "mut": False, "ty": T("u64"), "e": div0},
            {"k": "log", "e": lit("u64", 7)}])},
        {"name": "dead_tuple_elem", "body": block([
            {"k": "let", "x": "t", "mut": False, "ty": {"t": "tuple", "es": [T("u64"), T("u64")]}, "e": {"k": "tuple", "es": [div0, lit("u64", 5)]}},
            {"k": "log", "e": {"k": "field", "e": var("t"), "i": 2}}])},
        {"name": "dead_argument", "body": block([
            {"k": "log", "e": call("gsecond", div0, lit("u64", 7), targs=[T("u64"), T("u64")])}])},
    ]
    out = []
    for name, tests in (("probe_oob", tests_oob), ("probe_dce", tests_dce)):
        out.append({"id": name, "seed": name, "prog": prog, "tests": tests, "src": Renderer(prog).package(tests), "probe": True})
    return out


def cfg_name(cfg):
    return cfg["name"]


def run_configs(ctx, packages, configs, procs=8, trace_passes=False, pkg_timeout=600):
    """Build and run every package under every configuration.
    Returns (obs, failures, passes):
      obs[pkgid][testname] = [ {cfg, logs, out, code} ... ]
      failures = [ {pkg, cfg, kind: build|crash|timeout|panic|run, detail} ]
      passes[(pkgid, cfgname)] = list of pass events (if trace_passes)"""
    jobs = []
    for p in packages:
        for c in configs:
            rec = {"id": "%s__%s" % (p["id"], c["name"]), "files": {"src/main.sw": p["src"]},
                   "profile": c["profile"], "env": c.get("env", {})}
            if trace_passes:
                rec["trace_passes"] = True
            jobs.append(rec)
    res = run_packages(ctx, jobs, procs=procs)
    obs = {p["id"]: {t["name"]: [] for t in p["tests"]} for p in packages}
    failures, passes = [], {}
    for p in packages:
        for c in configs:
            r = res["%s__%s" % (p["id"], c["name"])]
            b = r["built"]
            if r.get("passes"):
                passes[(p["id"], c["name"])] = r["passes"]
            if r["crashed"]:
                failures.append({"pkg": p["id"], "cfg": c["name"], "kind": "crash", "detail": r["crashed"].get("stderr", "")[-800:]})
                continue
            if b is None:
                failures.append({"pkg": p["id"], "cfg": c["name"], "kind": "crash", "detail": "no Built event"})
                continue
            if r.get("passes"):
                passes[(p["id"], c["name"])] = r["passes"]
            if not b["ok"]:
                kind = "timeout" if b.get("timeout") else ("panic" if b.get("panic") else "build")
                d = b.get("diag") or ""
                errs = [x for x in d.split("____") if x.strip().startswith("error")]
                failures.append({"pkg": p["id"], "cfg": c["name"], "kind": kind,
                                 "detail": (b.get("panic") or "") + " ".join(e.strip()[-600:] for e in errs[:2])})
                continue
            if r["runfailed"]:
                failures.append({"pkg": p["id"], "cfg": c["name"], "kind": "run", "detail": json.dumps(r["runfailed"])[-800:]})
                continue
            seen = set()
            for t in r["tests"]:
                o = observe(t)
                o["cfg"] = c["name"]
                if t["test"] in obs[p["id"]]:
                    obs[p["id"]][t["test"]].append(o)
                    seen.add(t["test"])
            for t in p["tests"]:
                if t["name"] not in seen:
                    failures.append({"pkg": p["id"], "cfg": c["name"], "kind": "run", "detail": "test %s produced no result" % t["name"]})
    return obs, failures, passes


def trace_records(packages, obs):
    recs = []
    for p in packages:
        tests = [{"name": t["name"], "body": t["body"], "obs": obs[p["id"]][t["name"]]} for t in p["tests"]
                 if obs[p["id"]][t["name"]]]
        if tests:
            recs.append({"id": p["id"], "prog": p["prog"], "tests": tests})
    return recs


def _validate_shard(ctx, idx, recs):
    """Returns (validated_tests, rejections) for one shard; continues after each rejection."""
    validated, rejections = 0, []
    recs = [dict(r) for r in recs]
    rnd = 0
    while recs:
        rnd += 1
        tp = os.path.join(ctx.work, "semtrace-%d-%d.ndjson" % (idx, rnd))
        write_ndjson(tp, recs)
        tr = ctx.tlc_trace("Trace_SwaySem", "Trace_SwaySem", tp, name="sem-%d-%d" % (idx, rnd), timeout=3600)
        os.remove(tp)
        if tr.violated is None:
            validated += sum(len(r["tests"]) for r in recs)
            break
        m = re.search(r'<<"FIRST-UNMATCHED", (\d+), (\d+), "([^"]*)", "([^"]*)", "(.*)">>', tr.out)
        if tr.violated != "postcondition" or not m:
            raise ToolError("Trace_SwaySem failed unexpectedly (%s); see work/%s/tlc-sem-%d-%d.out" % (tr.violated, ctx.pid, idx, rnd))
        l, k = int(m.group(1)), int(m.group(2))
        expected = json.loads(m.group(5).replace('\\"', '"'))
        bad_rec = recs[l - 1]
        bad_test = bad_rec["tests"][k - 1]
        validated += sum(len(r["tests"]) for r in recs[:l - 1]) + (k - 1)
        rejections.append({"pkg": bad_rec["id"], "test": bad_test["name"], "expected": expected, "obs": bad_test["obs"],
                           "body": bad_test["body"], "prog": bad_rec["prog"]})
        rest = dict(bad_rec)
        rest["tests"] = bad_rec["tests"][k:]
        recs = ([rest] if rest["tests"] else []) + recs[l:]
    return validated, rejections


def validate(ctx, packages, obs, shard_pkgs=12, par=4):
    recs = trace_records(packages, obs)
    shards = [recs[i:i + shard_pkgs] for i in range(0, len(recs), shard_pkgs)]
    with ThreadPoolExecutor(max_workers=par) as ex:
        results = list(ex.map(lambda a: _validate_shard(ctx, a[0], a[1]), enumerate(shards)))
    validated = sum(r[0] for r in results)
    rejections = [x for r in results for x in r[1]]
    return validated, rejections


def report_rejections(ctx, rejections, packages):
    by_id = {p["id"]: p for p in packages}
    for rj in rejections:
        p = by_id[rj["pkg"]]
        wrong = [o["cfg"] for o in rj["obs"]
                 if not (o["logs"] == rj["expected"]["logs"] and o["out"] == rj["expected"]["out"] and o["code"] == rj["expected"]["code"])]
        src = Renderer(p["prog"]).package([t for t in p["tests"] if t["name"] == rj["test"]])
        key = "sem:%s:%s:%s" % (rj["pkg"], rj["test"], ",".join(wrong))
        if p.get("probe"):
            key = "probe:%s:%s:%s" % (rj["pkg"], rj["test"], ",".join(wrong))
        ctx.report(key,
                   "observation of %s/%s under %s differs from SwaySem.Run" % (rj["pkg"], rj["test"], wrong),
                   {"package_seed": p["seed"], "test": rj["test"], "configs_disagreeing": wrong,
                    "expected_by_spec": rj["expected"], "observed": rj["obs"], "source_of_test": src})


def report_failures(ctx, failures):
    for f in failures:
        ctx.report("%s:%s:%s" % (f["kind"], f["pkg"], f["cfg"]),
                   "%s of valid generated package %s under configuration %s: %s" % (f["kind"], f["pkg"], f["cfg"], f["detail"][:300]), f)


def nontrivial_count(obs):
    n = 0
    for pk in obs.values():
        for t, os_ in pk.items():
            if os_ and (os_[0]["logs"] or os_[0]["out"] == "revert"):
                n += 1
    return n
