"""The generated contract of C28: nine storage fields (StorageVec<u64>, StorageVec<T3>, StorageVec<u8>,
StorageMap<u64,u64>, StorageMap<(u64,u64),T3>, nested map, map of vectors, StorageBytes, StorageString), one ABI
method `run(ops)` that interprets a history -- a Vec of (field, op, a, b, c) codes -- and after every operation
logs a full read-back of every field and key (`dump`).  Purely mechanical rendering; the codes are the tables below
(the specification uses the names)."""

FIELD_CODE = {"vecA": 1, "vecB": 2, "vecC": 3, "mapA": 4, "mapB": 5, "mapN": 6, "mapV": 7, "bytesA": 8, "strA": 9}
VEC_OP = {"push": 1, "pop": 2, "set": 3, "insert": 4, "remove": 5, "swap_remove": 6, "swap": 7, "reverse": 8,
          "fill": 9, "resize": 10, "store_vec": 11, "clear": 12}
MAP_OP = {"insert": 1, "remove": 2, "try_insert": 3}
MAPV_OP = {"push": 1, "pop": 2, "clear": 3}
SLICE_OP = {"write": 1, "clear": 2}
START_MARK = 0xD0D0D0D000000000
END_MARK = 0xEDEDEDED00000000


def op_code(f, op):
    if f in ("vecA", "vecB", "vecC"):
        return VEC_OP[op]
    if f in ("mapA", "mapB", "mapN"):
        return MAP_OP[op]
    if f == "mapV":
        return MAPV_OP[op]
    return SLICE_OP[op]


def vec_block(name, ty, val):
    return '''
#[storage(read, write)]
fn %(n)s_op(op: u64, a: u64, b: u64) {
    if op == 1 { storage.%(n)s.push(%(v)s(a)); }
    else if op == 2 { log(storage.%(n)s.pop()); }
    else if op == 3 { storage.%(n)s.set(a, %(v)s(b)); }
    else if op == 4 { storage.%(n)s.insert(a, %(v)s(b)); }
    else if op == 5 { log(storage.%(n)s.remove(a)); }
    else if op == 6 { log(storage.%(n)s.swap_remove(a)); }
    else if op == 7 { storage.%(n)s.swap(a, b); }
    else if op == 8 { storage.%(n)s.reverse(); }
    else if op == 9 { storage.%(n)s.fill(%(v)s(a)); }
    else if op == 10 { storage.%(n)s.resize(a, %(v)s(b)); }
    else if op == 11 {
        let mut v: Vec<%(t)s> = Vec::new();
        let mut d = a;
        while d > 0 { v.push(%(v)s(d %% 10)); d = d / 10; }
        storage.%(n)s.store_vec(v);
    }
    else if op == 12 { let _ = storage.%(n)s.clear(); }
}
#[storage(read)]
fn %(n)s_dump() {
    let n = storage.%(n)s.len();
    log(n);
    log(storage.%(n)s.is_empty());
    let mut i = 0;
    while i < n { log(storage.%(n)s.get(i).unwrap().read()); i += 1; }
    log(storage.%(n)s.get(n).is_none());
    let first: Option<%(t)s> = match storage.%(n)s.first() { Some(k) => Some(k.read()), None => None, };
    log(first);
    let last: Option<%(t)s> = match storage.%(n)s.last() { Some(k) => Some(k.read()), None => None, };
    log(last);
    log(storage.%(n)s.load_vec());
}
''' % {"n": name, "t": ty, "v": val}


def contract_source():
    src = '''contract;
use std::storage::storage_vec::*;
use std::storage::storage_bytes::*;
use std::storage::storage_string::*;
use std::storage::storage_map::*;
use std::hash::*;
use std::bytes::Bytes;
use std::string::String;

struct T3 { f1: u64, f2: u64, f3: u64 }

abi M {
    #[storage(read, write)] fn run(ops: Vec<(u64, u64, u64, u64, u64)>);
}

storage {
    vecA: StorageVec<u64> = StorageVec {},
    vecB: StorageVec<T3> = StorageVec {},
    vecC: StorageVec<u8> = StorageVec {},
    mapA: StorageMap<u64, u64> = StorageMap {},
    mapB: StorageMap<(u64, u64), T3> = StorageMap {},
    mapN: StorageMap<u64, StorageMap<u64, u64>> = StorageMap {},
    mapV: StorageMap<u64, StorageVec<u64>> = StorageMap {},
    bytesA: StorageBytes = StorageBytes {},
    strA: StorageString = StorageString {},
}

// the typed value of a code: every byte of a word is the code, the last one also carries the position
fn w(cd: u64, pos: u64) -> u64 { cd * 0x0101010101010100 + 16 * cd + pos }
fn v64(cd: u64) -> u64 { w(cd, 0) }
fn v3(cd: u64) -> T3 { T3 { f1: w(cd, 1), f2: w(cd, 2), f3: w(cd, 3) } }
fn v8(cd: u64) -> u8 { (17 * cd).try_as_u8().unwrap() }
fn mkbytes(n: u64, seed: u64) -> Bytes {
    let mut r = Bytes::new();
    let mut i = 1;
    while i <= n { r.push((33 + ((7 * seed + i) % 90)).try_as_u8().unwrap()); i += 1; }
    r
}
'''
    src += vec_block("vecA", "u64", "v64") + vec_block("vecB", "T3", "v3") + vec_block("vecC", "u8", "v8")
    src += '''
#[storage(read, write)]
fn mapA_op(op: u64, a: u64, b: u64) {
    if op == 1 { storage.mapA.insert(a, v64(b)); }
    else if op == 2 { log(storage.mapA.remove(a)); }
    else if op == 3 { log(storage.mapA.try_insert(a, v64(b))); }
}
#[storage(read, write)]
fn mapB_op(op: u64, a: u64, b: u64) {
    if op == 1 { storage.mapB.insert((a, a + 10), v3(b)); }
    else if op == 2 { log(storage.mapB.remove((a, a + 10))); }
    else if op == 3 { log(storage.mapB.try_insert((a, a + 10), v3(b))); }
}
#[storage(read, write)]
fn mapN_op(op: u64, a: u64, b: u64, c: u64) {
    if op == 1 { storage.mapN.get(a).insert(b, v64(c)); }
    else if op == 2 { log(storage.mapN.get(a).remove(b)); }
}
#[storage(read, write)]
fn mapV_op(op: u64, a: u64, b: u64) {
    if op == 1 { storage.mapV.get(a).push(v64(b)); }
    else if op == 2 { log(storage.mapV.get(a).pop()); }
    else if op == 3 { let _ = storage.mapV.get(a).clear(); }
}
#[storage(read, write)]
fn bytesA_op(op: u64, a: u64, b: u64) {
    if op == 1 { storage.bytesA.write_slice(mkbytes(a, b)); }
    else if op == 2 { let _ = storage.bytesA.clear(); }
}
#[storage(read, write)]
fn strA_op(op: u64, a: u64, b: u64) {
    if op == 1 { storage.strA.write_slice(String::from_ascii(mkbytes(a, b))); }
    else if op == 2 { let _ = storage.strA.clear(); }
}
#[storage(read)]
fn maps_dump() {
    let mut k = 1;
    while k <= 3 { log(storage.mapA.get(k).try_read()); k += 1; }
    k = 1;
    while k <= 3 { log(storage.mapB.get((k, k + 10)).try_read()); k += 1; }
    k = 1;
    while k <= 3 {
        let mut j = 1;
        while j <= 3 { log(storage.mapN.get(k).get(j).try_read()); j += 1; }
        k += 1;
    }
    k = 1;
    while k <= 3 {
        let n = storage.mapV.get(k).len();
        log(n);
        let mut i = 0;
        while i < n { log(storage.mapV.get(k).get(i).unwrap().read()); i += 1; }
        k += 1;
    }
}
#[storage(read)]
fn slices_dump() {
    log(storage.bytesA.len());
    log(storage.bytesA.read_slice());
    log(storage.strA.len());
    log(storage.strA.read_slice());
}

impl M for Contract {
    #[storage(read, write)]
    fn run(ops: Vec<(u64, u64, u64, u64, u64)>) {
        let mut i = 0;
        while i < ops.len() {
            let o = ops.get(i).unwrap();
            if o.0 == 1 { vecA_op(o.1, o.2, o.3); }
            else if o.0 == 2 { vecB_op(o.1, o.2, o.3); }
            else if o.0 == 3 { vecC_op(o.1, o.2, o.3); }
            else if o.0 == 4 { mapA_op(o.1, o.2, o.3); }
            else if o.0 == 5 { mapB_op(o.1, o.2, o.3); }
            else if o.0 == 6 { mapN_op(o.1, o.2, o.3, o.4); }
            else if o.0 == 7 { mapV_op(o.1, o.2, o.3); }
            else if o.0 == 8 { bytesA_op(o.1, o.2, o.3); }
            else if o.0 == 9 { strA_op(o.1, o.2, o.3); }
            log(START_MARK + i);
            vecA_dump(); vecB_dump(); vecC_dump(); maps_dump(); slices_dump();
            log(END_MARK + i);
            i += 1;
        }
    }
}
'''
    return src.replace("START_MARK", "0x%016x" % START_MARK).replace("END_MARK", "0x%016x" % END_MARK)


def test_source(name, ops):
    """One #[test]: the whole history inside ONE call (every test starts from the deployment state)."""
    pushes = "\n    ".join("o.push((%d, %d, %d, %d, %d));" % (FIELD_CODE[o["f"]], op_code(o["f"], o["op"]), o["a"], o["b"], o["c"]) for o in ops)
    return "#[test]\nfn %s() {\n    let c = abi(M, CONTRACT_ID);\n    let mut o: Vec<(u64, u64, u64, u64, u64)> = Vec::new();\n    %s\n    c.run(o);\n}\n" % (name, pushes)


def split_history(logs, nops):
    """Per operation: the logs before its START marker (the returned value, if any) and the logs between START and
    END (the read-back).  Mechanical; an operation whose END marker is missing has dump = None."""
    obs, cur_ret, cur_dump, k = [], [], None, 0
    for lg in logs:
        if cur_dump is None and lg == list((START_MARK + k).to_bytes(8, "big")):
            cur_dump = []
        elif cur_dump is not None and lg == list((END_MARK + k).to_bytes(8, "big")):
            obs.append({"ret": cur_ret, "dump": cur_dump})
            cur_ret, cur_dump, k = [], None, k + 1
        elif cur_dump is None:
            cur_ret.append(lg)
        else:
            cur_dump.append(lg)
    tail = {"ret": cur_ret, "dump": cur_dump if cur_dump is not None else []}
    return obs, tail
