"""C15 package pool (deterministic, finite): generated slice + corpus slice + hand-written packages that
exercise the artifacts the property names (storage slots JSON, configurables in the ABI, predicate root).

Every pool entry is a vh-exec input record without profile: {"id", "files", "manifest"?, "origin"}.
"""
import hashlib
from lib import corpus
from lib.semcheck import gen_package
from lib.swaygen import Renderer

CONTRACT_STORAGE = """contract;

use std::hash::*;
use std::storage::storage_vec::*;

struct Inner { a: u64, b: b256, c: (bool, u8) }
enum Kind { A: (), B: u64, C: Inner }

configurable {
    FEE: u64 = 42,
    OWNER: b256 = 0x1111111111111111111111111111111111111111111111111111111111111111,
    FLAGS: [bool; 3] = [true, false, true],
    START: Inner = Inner { a: 7, b: 0x2222222222222222222222222222222222222222222222222222222222222222, c: (true, 9) },
    NAME: str[5] = __to_str_array("hello"),
}

storage {
    counter: u64 = 1,
    big: u256 = 0x123456789abcdef0123456789abcdef0u256,
    owner: b256 = 0x3333333333333333333333333333333333333333333333333333333333333333,
    inner: Inner = Inner { a: 5, b: 0x4444444444444444444444444444444444444444444444444444444444444444, c: (false, 3) },
    kind: Kind = Kind::B(77),
    kind2: Kind = Kind::C(Inner { a: 1, b: 0x5555555555555555555555555555555555555555555555555555555555555555, c: (true, 1) }),
    name: str[9] = __to_str_array("determin."),
    map: StorageMap<u64, b256> = StorageMap {},
    vec: StorageVec<u64> = StorageVec {},
    ns1 {
        x: u64 = 10,
        y: (u64, u64, u64, u64, u64) = (1, 2, 3, 4, 5),
        ns2 {
            z: bool = true,
        },
    },
}

abi Det {
    #[storage(read, write)]
    fn bump(by: u64) -> u64;
    #[storage(read)]
    fn get_inner() -> Inner;
    #[storage(read, write)]
    fn put(k: u64, v: b256);
    #[storage(read)]
    fn get(k: u64) -> Option<b256>;
    fn fee(kind: Kind) -> u64;
    fn name() -> str[5];
}

impl Det for Contract {
    #[storage(read, write)]
    fn bump(by: u64) -> u64 {
        let c = storage.counter.read() + by + storage::ns1.x.read();
        storage.counter.write(c);
        storage.vec.push(c);
        log(c);
        c
    }
    #[storage(read)]
    fn get_inner() -> Inner {
        storage.inner.read()
    }
    #[storage(read, write)]
    fn put(k: u64, v: b256) {
        storage.map.insert(k, v);
        log(sha256(v));
    }
    #[storage(read)]
    fn get(k: u64) -> Option<b256> {
        storage.map.get(k).try_read()
    }
    fn fee(kind: Kind) -> u64 {
        match kind {
            Kind::A => FEE,
            Kind::B(n) => FEE + n,
            Kind::C(i) => if FLAGS[1] { 0 } else { i.a + START.a },
        }
    }
    fn name() -> str[5] {
        NAME
    }
}

#[test]
fn t_bump() {
    let c = abi(Det, CONTRACT_ID);
    assert(c.bump(2) == 13);
    assert(c.fee(Kind::B(1)) == 43);
}
"""

PREDICATE_CONF = """predicate;

use std::hash::*;

struct P { x: u64, y: bool }

configurable {
    SECRET: b256 = 0x0101010101010101010101010101010101010101010101010101010101010101,
    LIMIT: u64 = 1000,
    PAIR: (u8, u16) = (1, 2),
    CONF: P = P { x: 3, y: true },
}

fn check(v: u64, p: P) -> bool {
    let mut i = 0;
    let mut acc = 0;
    while i < 4 {
        acc += v * i + p.x;
        i += 1;
    }
    acc < LIMIT && p.y == CONF.y
}

fn main(v: u64, h: b256, p: P) -> bool {
    (sha256(v) == h || h == SECRET) && check(v, p) && PAIR.0 == 1u8
}
"""

SCRIPT_CONF = """script;

use std::hash::*;

enum E { A: u64, B: (bool, b256), C: () }
struct S<T> { t: T, n: u64 }

impl<T> S<T> {
    fn n2(self) -> u64 { self.n * 2 }
}

configurable {
    A: u64 = 5,
    B: E = E::B((true, 0x0707070707070707070707070707070707070707070707070707070707070707)),
    C: [u8; 4] = [1, 2, 3, 4],
    D: u256 = 0x1000000000000000000000000u256,
    UNUSED: u8 = 0,
}

fn f(e: E) -> u64 {
    match e {
        E::A(x) => x + A,
        E::B((b, h)) => if b { 1 } else { 2 },
        E::C => 0,
    }
}

fn main(x: u64, e: E) -> (u64, b256, u256) {
    let s = S { t: e, n: x };
    let s2 = S { t: C, n: 3 };
    log(s2.n2());
    log(D);
    (f(B) + f(s.t) + s.n2(), sha256((x, C[2])), D + 1)
}

#[test]
fn t() {
    assert(f(E::A(1)) == 6);
}
"""

HAND = [("hand_contract_storage", CONTRACT_STORAGE), ("hand_predicate_conf", PREDICATE_CONF), ("hand_script_conf", SCRIPT_CONF)]

# corpus programs that are always part of the pool (quick tier too): storage slots JSON and configurables
CORPUS_ALWAYS = ["should_pass/storage_slots_json_generation", "should_pass/language/configurable_consts"]


def _h(s):
    return int(hashlib.sha256(s.encode()).hexdigest()[:8], 16)


def _corpus_all():
    out = []
    for cat in ("run", "compile", "unit_tests_pass"):
        for p in corpus.programs(cat, subdir="should_pass"):
            if p["flags"] == "special":
                continue
            out.append(p)
    out.sort(key=lambda p: p["rel"])
    return out


def corpus_entry(p, idx):
    return {"id": "c%03d_%s" % (idx, "".join(ch if ch.isalnum() else "_" for ch in p["name"])[:40]),
            "files": p["files"], "manifest": p["manifest"], "origin": "corpus:" + p["rel"]}


def pool(n_gen, n_corpus):
    """The first entries are the hand-written and always-included corpus packages; then n_gen generated
    packages (seeds 0..n_gen-1, alternately rendered as script and contract) and n_corpus corpus programs
    (a fixed pseudo-random selection of the should_pass corpus)."""
    out = []
    for name, src in HAND:
        out.append({"id": name, "files": {"src/main.sw": src}, "origin": "hand"})
    call = _corpus_all()
    by_rel = {p["rel"]: p for p in call}
    k = 0
    for rel in CORPUS_ALWAYS:
        if rel in by_rel:
            out.append(corpus_entry(by_rel[rel], k))
            k += 1
    rest = sorted([p for p in call if p["rel"] not in CORPUS_ALWAYS], key=lambda p: _h(p["rel"]))
    for p in rest[:n_corpus]:
        out.append(corpus_entry(p, k))
        k += 1
    for seed in range(n_gen):
        g = gen_package(seed, ncase=6)
        kind = "contract" if seed % 3 == 2 else "script"
        src = g["src"] if kind == "script" else Renderer(g["prog"]).package(g["tests"], kind="contract")
        out.append({"id": "gen%d_%s" % (seed, kind), "files": {"src/main.sw": src}, "origin": "gen:%d:%s" % (seed, kind)})
    return out
