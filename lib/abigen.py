"""Rendering of AbiCodec.tla type / value terms to Sway source, and projection of a program's JSON ABI
back to a term (C09, C10, C13).  Purely mechanical: no expected bytes are computed here, nothing is judged.

Terms (identical to the TLA+ records, via ToJson / ndJsonDeserialize):
  type  {"k": kind, "n": int, "es": [types]}     kinds: u8 u16 u32 u64 u256 b256 bool unit strarr str bytes string
                                                        tuple struct enum array option result vec
  value {"k":"i","t":kind,"b":[little-endian bytes]} | {"k":"b","v":bool} | {"k":"u"} | {"k":"a","es":[..]}
        | {"k":"e","tag":n,"v":value} | {"k":"s","b":[bytes]} | {"k":"v","es":[..]}
Conventions shared with the spec (AbiCodec!AbiDescribes, LeafLogs): struct fields are f0, f1, ...; enum
variants V0, V1, ...; the leaf walk visits components in declaration order.
"""
import json

WORD = {"u8": 1, "u16": 2, "u32": 4, "u64": 8, "u256": 32, "b256": 32}
LEAF = set(WORD) | {"bool", "unit", "strarr", "str", "bytes", "string"}
ENUMLIKE = {"enum", "option", "result"}
REFKINDS = {"tuple", "struct", "enum", "option", "result", "array"}     # aggregates: always in memory


def tkey(t):
    return json.dumps(t, sort_keys=True, separators=(",", ":"))


def is_static(t):
    return t["k"] not in ("str", "bytes", "string", "vec") and all(is_static(e) for e in t["es"])


class Decls:
    """Struct / enum declarations of one package, deduplicated structurally."""

    def __init__(self):
        self.names = {}
        self.order = []

    def name(self, t):
        k = tkey(t)
        if k not in self.names:
            for e in t["es"]:
                self.ty(e)
            self.names[k] = ("S%d" if t["k"] == "struct" else "E%d") % len(self.names)
            self.order.append(t)
        return self.names[k]

    def ty(self, t):
        k = t["k"]
        if k in WORD or k in ("bool", "str"):
            return k
        if k == "unit":
            return "()"
        if k == "strarr":
            return "str[%d]" % t["n"]
        if k == "bytes":
            return "Bytes"
        if k == "string":
            return "String"
        if k == "tuple":
            if not t["es"]:
                raise ValueError("empty tuple is the unit leaf")
            if len(t["es"]) == 1:
                return "(%s,)" % self.ty(t["es"][0])
            return "(" + ", ".join(self.ty(e) for e in t["es"]) + ")"
        if k == "array":
            return "[%s; %d]" % (self.ty(t["es"][0]), t["n"])
        if k == "option":
            return "Option<%s>" % self.ty(t["es"][0])
        if k == "result":
            return "Result<%s, %s>" % (self.ty(t["es"][0]), self.ty(t["es"][1]))
        if k == "vec":
            return "Vec<%s>" % self.ty(t["es"][0])
        if k in ("struct", "enum"):
            return self.name(t)
        raise ValueError(k)

    def render(self):
        out = []
        for t in self.order:
            n = self.names[tkey(t)]
            if t["k"] == "struct":
                out.append("struct %s { %s }" % (n, ", ".join("f%d: %s" % (i, self.ty(e)) for i, e in enumerate(t["es"]))))
            else:
                out.append("enum %s { %s }" % (n, ", ".join("V%d: %s" % (i, self.ty(e)) for i, e in enumerate(t["es"]))))
        return "\n".join(out)


def variants(t):
    return [{"k": "unit", "n": 0, "es": []}, t["es"][0]] if t["k"] == "option" else t["es"]


def sway_str(bs):
    s = bytes(bs).decode("ascii")
    assert all(32 <= b < 127 and chr(b) not in '"\\' for b in bs), bs
    return '"%s"' % s


class Body:
    """Statements of one test function."""

    def __init__(self, decls):
        self.d = decls
        self.ss = []
        self.n = 0

    def fresh(self, p="x"):
        self.n += 1
        return "%s%d" % (p, self.n)

    # ---------------------------------------------------------------- constructor expressions
    def expr(self, t, v):
        k = t["k"]
        if k in WORD:
            n = int.from_bytes(bytes(v["b"]), "little")
            if k == "b256":
                return "0x%064x" % n
            if k == "u256":
                return "0x%xu256" % n
            return "%d%s" % (n, k)
        if k == "bool":
            return "true" if v["v"] else "false"
        if k == "unit":
            return "()"
        if k == "strarr":
            return "__to_str_array(%s)" % sway_str(v["b"])
        if k == "str":
            return sway_str(v["b"])
        if k == "string":
            return "String::from_ascii_str(%s)" % sway_str(v["b"])
        if k == "bytes":
            x = self.fresh("w")
            self.ss.append("let mut %s: Bytes = Bytes::new();" % x)
            for b in v["b"]:
                self.ss.append("%s.push(%du8);" % (x, b))
            return x
        if k == "vec":
            es = [self.expr(t["es"][0], e) for e in v["es"]]
            x = self.fresh("w")
            self.ss.append("let mut %s: %s = Vec::new();" % (x, self.d.ty(t)))
            for e in es:
                self.ss.append("%s.push(%s);" % (x, e))
            return x
        if k == "tuple":
            es = [self.expr(a, b) for a, b in zip(t["es"], v["es"])]
            return "(%s,)" % es[0] if len(es) == 1 else "(" + ", ".join(es) + ")"
        if k == "struct":
            es = [self.expr(a, b) for a, b in zip(t["es"], v["es"])]
            return "%s { %s }" % (self.d.ty(t), ", ".join("f%d: %s" % (i, e) for i, e in enumerate(es)))
        if k == "array":
            es = [self.expr(t["es"][0], e) for e in v["es"]]
            if not es:
                x = self.fresh("w")
                self.ss.append("let %s: %s = [];" % (x, self.d.ty(t)))
                return x
            return "[" + ", ".join(es) + "]"
        if k in ENUMLIKE:
            vt = variants(t)[v["tag"]]
            if k == "enum":
                head = "%s::V%d" % (self.d.ty(t), v["tag"])
            elif k == "option":
                head = "Option::None" if v["tag"] == 0 else "Option::Some"
            else:
                head = "Result::Ok" if v["tag"] == 0 else "Result::Err"
            if (k == "enum" and vt["k"] == "unit") or (k == "option" and v["tag"] == 0):
                return head
            x = self.fresh("w")                      # annotate so that generic arguments are known
            self.ss.append("let %s: %s = %s(%s);" % (x, self.d.ty(t), head, self.expr(vt, v["v"])))
            return x
        raise ValueError(k)

    # ---------------------------------------------------------------- leaf walk (AbiCodec!LeafLogs)
    def walk(self, t, v, e):
        k = t["k"]
        if k == "unit":
            return
        if k in LEAF:
            self.ss.append("log(%s);" % e)
            return
        if k in ("tuple", "struct"):
            for i, (a, b) in enumerate(zip(t["es"], v["es"])):
                x = self.fresh()
                self.ss.append("let %s: %s = %s.%s;" % (x, self.d.ty(a), e, ("f%d" % i) if k == "struct" else str(i)))
                self.walk(a, b, x)
            return
        if k == "array":
            for i, b in enumerate(v["es"]):
                x = self.fresh()
                self.ss.append("let %s: %s = %s[%d];" % (x, self.d.ty(t["es"][0]), e, i))
                self.walk(t["es"][0], b, x)
            return
        if k == "vec":
            self.ss.append("log(%s.len());" % e)
            for i, b in enumerate(v["es"]):
                x = self.fresh()
                self.ss.append("let %s: %s = %s.get(%d).unwrap();" % (x, self.d.ty(t["es"][0]), e, i))
                self.walk(t["es"][0], b, x)
            return
        if k in ENUMLIKE:
            vs = variants(t)
            vt = vs[v["tag"]]
            if k == "enum":
                head = "%s::V%d" % (self.d.ty(t), v["tag"])
            elif k == "option":
                head = "Option::None" if v["tag"] == 0 else "Option::Some"
            else:
                head = "Result::Ok" if v["tag"] == 0 else "Result::Err"
            x = self.fresh()
            unit_pat = (k == "enum" and vt["k"] == "unit") or (k == "option" and v["tag"] == 0)
            self.ss.append("match %s { %s => {" % (e, head if unit_pat else "%s(%s)" % (head, x)))
            if not unit_pat:
                self.walk(vt, v["v"], x)
            self.ss.append("}," + (" _ => { revert(7777); }," if len(vs) > 1 else "") + " };")
            return
        raise ValueError(k)

    def byte_array(self, name, bs):
        """let name: [u8; N] = [...]; (at least one element)"""
        bs = list(bs) if bs else [0]
        self.ss.append("let %s: [u8; %d] = [%s];" % (name, len(bs), ", ".join("%du8" % b for b in bs)))

    def text(self):
        return "\n    ".join(self.ss)


PRELUDE = "script;\nuse std::codec::*;\nuse std::bytes::Bytes;\nuse std::string::String;\n"


def has_memdump(t, size):
    return t["k"] in REFKINDS and is_static(t) and size > 0


def case_test(decls, name, t, v, enc, size, memdump=True, decode=True):
    """log(v); log(encode(v)); [raw memory]; decode the spec's canonical bytes; log whole + leaf walk."""
    b = Body(decls)
    ty = decls.ty(t)
    e = b.expr(t, v)
    b.ss.append("let v: %s = %s;" % (ty, e))
    b.ss.append("log(v);")
    b.ss.append("log(encode(v));")
    if memdump and has_memdump(t, size):
        b.ss.append("log(raw_slice::from_parts::<u8>(__addr_of(v), __size_of::<%s>()));" % ty)
    if decode:
        b.byte_array("bytes", enc)
        b.ss.append("let d: %s = abi_decode::<%s>(raw_slice::from_parts::<u8>(__addr_of(bytes), %d));" % (ty, ty, len(enc)))
        b.ss.append("log(d);")
        b.walk(t, v, "d")
    return "#[test]\nfn %s() {\n    %s\n}\n" % (name, b.text())


def class_test(decls, name, t):
    ty = decls.ty(t)
    return ("#[test]\nfn %s() {\n    log(is_encode_trivial::<%s>());\n    log(is_decode_trivial::<%s>());\n"
            "    log(__runtime_mem_id::<%s>() == __encoding_mem_id::<%s>());\n    log(__size_of::<%s>());\n}\n"
            % (name, ty, ty, ty, ty, ty))


def invalid_test(decls, name, t, bs, ln):
    """abi_decode of ln bytes of the array bs; a decoded value is logged (the test is expected to revert)."""
    b = Body(decls)
    ty = decls.ty(t)
    b.byte_array("bytes", bs)
    b.ss.append("let d: %s = abi_decode::<%s>(raw_slice::from_parts::<u8>(__addr_of(bytes), %d));" % (ty, ty, ln))
    b.ss.append("log(d);")
    return "#[test]\nfn %s() {\n    %s\n}\n" % (name, b.text())


def package(decls, tests, main="fn main() {}"):
    return PRELUDE + "\n" + decls.render() + "\n\n" + main + "\n\n" + "\n".join(tests)


# ------------------------------------------------------------------------------------------------
# JSON ABI -> term [k, n, name, es, ns, targs]  (mechanical projection; AbiCodec!AbiDescribes judges it)
# ------------------------------------------------------------------------------------------------
import re


class AbiView:
    def __init__(self, abi):
        self.abi = abi
        self.concrete = {c["concreteTypeId"]: c for c in abi.get("concreteTypes", [])}
        self.meta = {m["metadataTypeId"]: m for m in abi.get("metadataTypes", [])}
        self.logged = {str(l["logId"]): l["concreteTypeId"] for l in abi.get("loggedTypes", [])}

    def term_of_log(self, rb_bytes):
        lid = str(int.from_bytes(bytes(rb_bytes), "big"))
        cid = self.logged.get(lid)
        return self.concrete_term(cid) if cid is not None else None

    def concrete_term(self, cid):
        c = self.concrete[cid]
        targs = [self.concrete_term(a) for a in c.get("typeArguments") or []]
        if "metadataTypeId" in c:
            m = self.meta[c["metadataTypeId"]]
            env = dict(zip(m.get("typeParameters") or [], targs))
            return self.meta_term(m, env, targs)
        return self.leaf(c["type"])

    def leaf(self, s):
        term = {"k": "?", "n": 0, "name": s, "es": [], "ns": [], "targs": []}
        m = re.fullmatch(r"str\[(\d+)\]", s)
        if m:
            term.update(k="strarr", n=int(m.group(1)))
        elif s == "()":
            term.update(k="unit")
        elif s in ("u8", "u16", "u32", "u64", "u256", "b256", "bool", "str"):
            term.update(k=s)
        elif s.startswith("struct "):          # an empty struct has neither components nor a metadata entry
            term.update(k="struct", name=s[len("struct "):])
        elif s.startswith("enum "):
            term.update(k="enum", name=s[len("enum "):])
        else:
            term.update(k="other")
        return term

    def resolve(self, type_id, env, type_args=None):
        """type_id: concrete id (str) or metadata id (int); env: generic metadata id -> term"""
        if isinstance(type_id, str):
            return self.concrete_term(type_id)
        if type_id in env:
            return env[type_id]
        m = self.meta[type_id]
        targs = [self.resolve(a["typeId"], env, a.get("typeArguments")) for a in (type_args or [])]
        env2 = dict(env)
        env2.update(zip(m.get("typeParameters") or [], targs))
        return self.meta_term(m, env2, targs)

    def meta_term(self, m, env, targs):
        s = m["type"]
        comps = m.get("components")
        term = {"k": "other", "n": 0, "name": s, "es": [], "ns": [], "targs": targs}
        if comps is None and (s.startswith("struct ") or s.startswith("enum ")):
            comps = []                      # the ABI omits `components` of an empty struct
        if comps is None:
            lf = self.leaf(s)
            lf["targs"] = targs
            return lf
        term["ns"] = [c["name"] for c in comps]
        term["es"] = [self.resolve(c["typeId"], env, c.get("typeArguments")) for c in comps]
        ma = re.fullmatch(r"\[_; (\d+)\]", s)
        if ma:
            term.update(k="array", n=int(ma.group(1)))
        elif s.startswith("("):
            term.update(k="tuple")
        elif s.startswith("struct "):
            term.update(k="struct", name=s[len("struct "):])
        elif s.startswith("enum "):
            term.update(k="enum", name=s[len("enum "):])
        return term


# ------------------------------------------------------------------------------------------------
# Trace validation with continue-after-rejection (Trace_AbiCodec / Trace_DataSection)
# ------------------------------------------------------------------------------------------------
def validate_trace(ctx, module, cfg, records, name, shard=1500, par=4, timeout=3600):
    """Run the trace spec over `records` in shards; after a rejection, note it and continue with the rest.
    Returns (validated_count, rejections) with rejections = [{"rec": record, "failed": str, "expected": str}]."""
    import os
    from concurrent.futures import ThreadPoolExecutor
    from lib.common import write_ndjson, ToolError

    def one(arg):
        idx, recs = arg
        ok, rej, rnd = 0, [], 0
        while recs:
            rnd += 1
            tp = os.path.join(ctx.work, "%s-%d-%d.ndjson" % (name, idx, rnd))
            write_ndjson(tp, recs)
            tr = ctx.tlc_trace(module, cfg, tp, name="%s-%d-%d" % (name, idx, rnd), timeout=timeout)
            os.remove(tp)
            if tr.violated is None:
                ok += len(recs)
                break
            m = re.search(r'<<"FIRST-UNMATCHED", (\d+), (\{[^}]*\}), "(.*)">>', tr.out)
            if tr.violated != "postcondition" or not m:
                raise ToolError("%s failed unexpectedly (%s); see work/%s/tlc-%s-%d-%d.out" % (module, tr.violated, ctx.pid, name, idx, rnd))
            k = int(m.group(1))
            ok += k - 1
            rej.append({"rec": recs[k - 1], "failed": m.group(2), "expected": m.group(3).replace('\\"', '"')})
            recs = recs[k:]
        return ok, rej

    shards = [(i, records[p:p + shard]) for i, p in enumerate(range(0, len(records), shard))]
    with ThreadPoolExecutor(max_workers=par) as ex:
        res = list(ex.map(one, shards))
    return sum(r[0] for r in res), [x for r in res for x in r[1]]
