"""Rendering of AbiCodec.tla type / value terms to Sway source, and projection of a program's JSON ABI
back to a term (C09, C10, C13).  Purely mechanical: no expected bytes are computed here, nothing is judged.

Terms (identical to the TLA+ records, via ToJson / ndJsonDeserialize):
  type  {"k": kind, "n": int, "es": [types]}     kinds: u8 u16 u32 u64 u256 b256 bool unit strarr str bytes string
                                                        tuple struct enum array option result vec
  value {"k":"i","t":kind,"b":[little-endian bytes]} | {"k":"b","v":bool} | {"k":"u"} | {"k":"a","es":[..]}
        | {"k":"e","tag":n,"v":value} | {"k":"s","b":[bytes]} | {"k":"v","es":[..]}
Conventions shared with the spec (AbiCodec!AbiDescribes, LeafLogs): struct fields are f0, f1, ...; enum
variants V0, V1, ...; the leaf walk visits components in declaration order.
"""
import json

WORD = {"u8": 1, "u16": 2, "u32": 4, "u64": 8, "u256": 32, "b256": 32}
LEAF = set(WORD) | {"bool", "unit", "strarr", "str", "bytes", "string"}
ENUMLIKE = {"enum", "option", "result"}
REFKINDS = {"tuple", "struct", "enum", "option", "result", "array"}     # aggregates: always in memory


def tkey(t):
    return json.dumps(t, sort_keys=True, separators=(",", ":"))


def is_static(t):
    return t["k"] not in ("str", "bytes", "string", "vec") and all(is_static(e) for e in t["es"])


class Decls:
    """Struct / enum declarations of one package, deduplicated structurally."""

    def __init__(self):
        self.names = {}
        self.order = []

    def name(self, t):
        k = tkey(t)
        if k not in self.names:
            for e in t["es"]:
                self.ty(e)
            self.names[k] = ("S%d" if t["k"] == "struct" else "E%d") % len(self.names)
            self.order.append(t)
        return self.names[k]

    def ty(self, t):
        k = t["k"]
        if k in WORD or k in ("bool", "str"):
            return k
        if k == "unit":
            return "()"
        if k == "strarr":
            return "str[%d]" % t["n"]
        if k == "bytes":
            return "Bytes"
        if k == "string":
            return "String"
        if k == "tuple":
            if not t["es"]:
                raise ValueError("empty tuple is the unit leaf")
            if len(t["es"]) == 1:
                return "(%s,)" % self.ty(t["es"][0])
            return "(" + ", ".join(self.ty(e) for e in t["es"]) + ")"
        if k == "array":
            return "[%s; %d]" % (self.ty(t["es"][0]), t["n"])
        if k == "option":
            return "Option<%s>" % self.ty(t["es"][0])
        if k == "result":
            return "Result<%s, %s>" % (self.ty(t["es"][0]), self.ty(t["es"][1]))
        if k == "vec":
            return "Vec<%s>" % self.ty(t["es"][0])
        if k in ("struct", "enum"):
            return self.name(t)
        raise ValueError(k)

    def render(self):
        out = []
        for t in self.order:
            n = self.names[tkey(t)]
            if t["k"] == "struct":
                out.append("struct %s { %s }" % (n, ", ".join("f%d: %s" % (i, self.ty(e)) for i, e in enumerate(t["es"]))))
            else:
                out.append("enum %s { %s }" % (n, ", ".join("V%d: %s" % (i, self.ty(e)) for i, e in enumerate(t["es"]))))
        return "\n".join(out)


def variants(t):
    return [{"k": "unit", "n": 0, "es": []}, t["es"][0]] if t["k"] == "option" else t["es"]


def sway_str(bs):
    s = bytes(bs).decode("ascii")
    assert all(32 <= b < 127 and chr(b) not in '"\\' for b in bs), bs
    return '"%s"' % s


class Body:
    """Statements of one test function."""

    def __init__(self, decls):
        self.d = decls
        self.ss = []
        self.n = 0

    def fresh(self, p="x"):
        self.n += 1
        return "%s%d" % (p, self.n)

    # ---------------------------------------------------------------- constructor expressions
    def expr(self, t, v):
        k = t["k"]
        if k in WORD:
            n = int.from_bytes(bytes(v["b"]), "little")
            if k == "b256":
                return "0x%064x" % n
            if k == "u256":
                return "0x%xu256" % n
            return "%d%s" % (n, k)
        if k == "bool":
            return "true" if v["v"] else "false"
        if k == "unit":
            return "()"
        if k == "strarr":
            return "__to_str_array(%s)" % sway_str(v["b"])
        if k == "str":
            return sway_str(v["b"])
        if k == "string":
            return "String::from_ascii_str(%s)" % sway_str(v["b"])
        if k == "bytes":
            x = self.fresh("w")
            self.ss.append("let mut %s: Bytes = Bytes::new();" % x)
            if len(v["b"]) > 64 and list(v["b"]) == long_pattern(len(v["b"])):
                i = self.fresh("i")          # long values of the buffer-boundary cases: pushed by a loop
                self.ss.append("let mut %s: u64 = 0; while %s < %d { %s.push(((%s * 7 + 3) %% 251).try_as_u8().unwrap()); %s += 1; }"
                               % (i, i, len(v["b"]), x, i, i))
                return x
            for b in v["b"]:
                self.ss.append("%s.push(%du8);" % (x, b))
            return x
        if k == "vec":
            es = [self.expr(t["es"][0], e) for e in v["es"]]
            x = self.fresh("w")
            self.ss.append("let mut %s: %s = Vec::new();" % (x, self.d.ty(t)))
            for e in es:
                self.ss.append("%s.push(%s);" % (x, e))
            return x
        if k == "tuple":
            es = [self.expr(a, b) for a, b in zip(t["es"], v["es"])]
            return "(%s,)" % es[0] if len(es) == 1 else "(" + ", ".join(es) + ")"
        if k == "struct":
            es = [self.expr(a, b) for a, b in zip(t["es"], v["es"])]
            return "%s { %s }" % (self.d.ty(t), ", ".join("f%d: %s" % (i, e) for i, e in enumerate(es)))
        if k == "array":
            es = [self.expr(t["es"][0], e) for e in v["es"]]
            if not es:
                x = self.fresh("w")
                self.ss.append("let %s: %s = [];" % (x, self.d.ty(t)))
                return x
            return "[" + ", ".join(es) + "]"
        if k in ENUMLIKE:
            vt = variants(t)[v["tag"]]
            if k == "enum":
                head = "%s::V%d" % (self.d.ty(t), v["tag"])
            elif k == "option":
                head = "Option::None" if v["tag"] == 0 else "Option::Some"
            else:
                head = "Result::Ok" if v["tag"] == 0 else "Result::Err"
            if (k == "enum" and vt["k"] == "unit") or (k == "option" and v["tag"] == 0):
                return head
            x = self.fresh("w")                      # annotate so that generic arguments are known
            self.ss.append("let %s: %s = %s(%s);" % (x, self.d.ty(t), head, self.expr(vt, v["v"])))
            return x
        raise ValueError(k)

    # ---------------------------------------------------------------- leaf walk (AbiCodec!LeafLogs)
    def walk(self, t, v, e):
        k = t["k"]
        if k == "unit":
            return
        if k in LEAF:
            self.ss.append("log(%s);" % e)
            return
        if k in ("tuple", "struct"):
            for i, (a, b) in enumerate(zip(t["es"], v["es"])):
                x = self.fresh()
                self.ss.append("let %s: %s = %s.%s;" % (x, self.d.ty(a), e, ("f%d" % i) if k == "struct" else str(i)))
                self.walk(a, b, x)
            return
        if k == "array":
            for i, b in enumerate(v["es"]):
                x = self.fresh()
                self.ss.append("let %s: %s = %s[%d];" % (x, self.d.ty(t["es"][0]), e, i))
                self.walk(t["es"][0], b, x)
            return
        if k == "vec":
            self.ss.append("log(%s.len());" % e)
            for i, b in enumerate(v["es"]):
                x = self.fresh()
                self.ss.append("let %s: %s = %s.get(%d).unwrap();" % (x, self.d.ty(t["es"][0]), e, i))
                self.walk(t["es"][0], b, x)
            return
        if k in ENUMLIKE:
            vs = variants(t)
            vt = vs[v["tag"]]
            if k == "enum":
                head = "%s::V%d" % (self.d.ty(t), v["tag"])
            elif k == "option":
                head = "Option::None" if v["tag"] == 0 else "Option::Some"
            else:
                head = "Result::Ok" if v["tag"] == 0 else "Result::Err"
            x = self.fresh()
            unit_pat = (k == "enum" and vt["k"] == "unit") or (k == "option" and v["tag"] == 0)
            self.ss.append("match %s { %s => {" % (e, head if unit_pat else "%s(%s)" % (head, x)))
            if not unit_pat:
                self.walk(vt, v["v"], x)
            self.ss.append("}," + (" _ => { revert(7777); }," if len(vs) > 1 else "") + " };")
            return
        raise ValueError(k)

    def byte_array(self, name, bs):
        """let name: [u8; N] = [...]; (at least one element)"""
        bs = list(bs) if bs else [0]
        self.ss.append("let %s: [u8; %d] = [%s];" % (name, len(bs), ", ".join("%du8" % b for b in bs)))

    def text(self):
        return "\n    ".join(self.ss)


PRELUDE = "script;\nuse std::codec::*;\nuse std::bytes::Bytes;\nuse std::string::String;\n"


def has_memdump(t, size):
    return t["k"] in REFKINDS and is_static(t) and size > 0


def case_test(decls, name, t, v, enc, size, memdump=True, decode=True):
    """log(v); log(encode(v)); [raw memory]; decode the spec's canonical bytes; log whole + leaf walk."""
    b = Body(decls)
    ty = decls.ty(t)
    e = b.expr(t, v)
    b.ss.append("let v: %s = %s;" % (ty, e))
    b.ss.append("log(v);")
    b.ss.append("log(encode(v));")
    if memdump and has_memdump(t, size):
        b.ss.append("log(raw_slice::from_parts::<u8>(__addr_of(v), __size_of::<%s>()));" % ty)
    if decode:
        b.byte_array("bytes", enc)
        b.ss.append("let d: %s = abi_decode::<%s>(raw_slice::from_parts::<u8>(__addr_of(bytes), %d));" % (ty, ty, len(enc)))
        b.ss.append("log(d);")
        b.walk(t, v, "d")
    return "#[test]\nfn %s() {\n    %s\n}\n" % (name, b.text())


def class_test(decls, name, t):
    ty = decls.ty(t)
    return ("#[test]\nfn %s() {\n    log(is_encode_trivial::<%s>());\n    log(is_decode_trivial::<%s>());\n"
            "    log(__runtime_mem_id::<%s>() == __encoding_mem_id::<%s>());\n    log(__size_of::<%s>());\n}\n"
            % (name, ty, ty, ty, ty, ty))


def invalid_test(decls, name, t, bs, ln):
    """abi_decode of ln bytes of the array bs; a decoded value is logged (the test is expected to revert)."""
    b = Body(decls)
    ty = decls.ty(t)
    b.byte_array("bytes", bs)
    b.ss.append("let d: %s = abi_decode::<%s>(raw_slice::from_parts::<u8>(__addr_of(bytes), %d));" % (ty, ty, ln))
    b.ss.append("log(d);")
    return "#[test]\nfn %s() {\n    %s\n}\n" % (name, b.text())


def package(decls, tests, main="fn main() {}"):
    return PRELUDE + "\n" + decls.render() + "\n\n" + main + "\n\n" + "\n".join(tests)


# ------------------------------------------------------------------------------------------------
# JSON ABI -> term [k, n, name, es, ns, targs]  (mechanical projection; AbiCodec!AbiDescribes judges it)
# ------------------------------------------------------------------------------------------------
import re


class AbiView:
    def __init__(self, abi):
        self.abi = abi
        self.concrete = {c["concreteTypeId"]: c for c in abi.get("concreteTypes", [])}
        self.meta = {m["metadataTypeId"]: m for m in abi.get("metadataTypes", [])}
        self.logged = {str(l["logId"]): l["concreteTypeId"] for l in abi.get("loggedTypes", [])}

    def term_of_log(self, rb_bytes):
        lid = str(int.from_bytes(bytes(rb_bytes), "big"))
        cid = self.logged.get(lid)
        return self.concrete_term(cid) if cid is not None else None

    def concrete_term(self, cid):
        c = self.concrete[cid]
        targs = [self.concrete_term(a) for a in c.get("typeArguments") or []]
        if "metadataTypeId" in c:
            m = self.meta[c["metadataTypeId"]]
            env = dict(zip(m.get("typeParameters") or [], targs))
            return self.meta_term(m, env, targs)
        return self.leaf(c["type"])

    def leaf(self, s):
        term = {"k": "?", "n": 0, "name": s, "es": [], "ns": [], "targs": []}
        m = re.fullmatch(r"str\[(\d+)\]", s)
        if m:
            term.update(k="strarr", n=int(m.group(1)))
        elif s == "()":
            term.update(k="unit")
        elif s in ("u8", "u16", "u32", "u64", "u256", "b256", "bool", "str"):
            term.update(k=s)
        elif s.startswith("struct "):          # an empty struct has neither components nor a metadata entry
            term.update(k="struct", name=s[len("struct "):])
        elif s.startswith("enum "):
            term.update(k="enum", name=s[len("enum "):])
        else:
            term.update(k="other")
        return term

    def resolve(self, type_id, env, type_args=None):
        """type_id: concrete id (str) or metadata id (int); env: generic metadata id -> term"""
        if isinstance(type_id, str):
            return self.concrete_term(type_id)
        if type_id in env:
            return env[type_id]
        m = self.meta[type_id]
        targs = [self.resolve(a["typeId"], env, a.get("typeArguments")) for a in (type_args or [])]
        env2 = dict(env)
        env2.update(zip(m.get("typeParameters") or [], targs))
        return self.meta_term(m, env2, targs)

    def meta_term(self, m, env, targs):
        s = m["type"]
        comps = m.get("components")
        term = {"k": "other", "n": 0, "name": s, "es": [], "ns": [], "targs": targs}
        if comps is None and (s.startswith("struct ") or s.startswith("enum ")):
            comps = []                      # the ABI omits `components` of an empty struct
        if comps is None:
            lf = self.leaf(s)
            lf["targs"] = targs
            return lf
        term["ns"] = [c["name"] for c in comps]
        term["es"] = [self.resolve(c["typeId"], env, c.get("typeArguments")) for c in comps]
        ma = re.fullmatch(r"\[_; (\d+)\]", s)
        if ma:
            term.update(k="array", n=int(ma.group(1)))
        elif s.startswith("("):
            term.update(k="tuple")
        elif s.startswith("struct "):
            term.update(k="struct", name=s[len("struct "):])
        elif s.startswith("enum "):
            term.update(k="enum", name=s[len("enum "):])
        return term


# ------------------------------------------------------------------------------------------------
# Trace validation with continue-after-rejection (Trace_AbiCodec / Trace_DataSection)
# ------------------------------------------------------------------------------------------------
def parse_rejects(out):
    """<<"REJECT", "json">> lines printed by a trace spec (TLC may wrap the tuple over lines) -> list of dicts"""
    res = []
    for m in re.finditer(r'<<\s*"REJECT",\s*"(.*?)"\s*>>', out, re.S):
        body = m.group(1).replace('\\"', '"').replace("\\\\", "\\")
        res.append(json.loads(body))
    return res


def validate_trace(ctx, module, cfg, records, name, shard=1500, par=4, timeout=3600):
    """Run the trace spec over `records` in shards.  The spec decides every record, prints the rejected ones and
    goes on.  Returns (accepted_count, rejections) with rejections = [{"rec", "failed": '{"a","b"}', "expected"}]."""
    from concurrent.futures import ThreadPoolExecutor
    from lib.common import write_ndjson, ToolError

    def one(arg):
        idx, recs = arg
        tp = os.path.join(ctx.work, "%s-%d.ndjson" % (name, idx))
        write_ndjson(tp, recs)
        tr = ctx.tlc_trace(module, cfg, tp, name="%s-%d" % (name, idx), timeout=timeout)
        os.remove(tp)
        rejs = parse_rejects(tr.out)
        m = re.search(r'<<\s*"REJECTED",\s*(\d+)\s*>>', tr.out)
        if tr.violated is None:
            if rejs:
                raise ToolError("%s printed rejections but accepted the trace" % module)
            return len(recs), []
        if tr.violated != "postcondition" or "FIRST-UNMATCHED" in tr.out or not m or int(m.group(1)) != len(rejs):
            raise ToolError("%s failed unexpectedly (%s); see work/%s/tlc-%s-%d.out" % (module, tr.violated, ctx.pid, name, idx))
        rej = [{"rec": recs[r["index"] - 1], "failed": "{" + ",".join('"%s"' % f for f in sorted(r["failed"])) + "}",
                "expected": r["expected"], "run": r.get("run")} for r in rejs]
        return len(recs) - len(rejs), rej

    shards = [(i, records[p:p + shard]) for i, p in enumerate(range(0, len(records), shard))]
    with ThreadPoolExecutor(max_workers=par) as ex:
        res = list(ex.map(one, shards))
    return sum(r[0] for r in res), [x for r in res for x in r[1]]


# ------------------------------------------------------------------------------------------------
# C13: scripts with configurables
# ------------------------------------------------------------------------------------------------
def const_expr(decls, t, v):
    """A constant expression (no statements) for a value of a static type."""
    k = t["k"]
    if k in WORD or k in ("bool", "unit", "strarr"):
        return Body(decls).expr(t, v)
    if k == "tuple":
        es = [const_expr(decls, a, b) for a, b in zip(t["es"], v["es"])]
        return "(%s,)" % es[0] if len(es) == 1 else "(" + ", ".join(es) + ")"
    if k == "struct":
        es = [const_expr(decls, a, b) for a, b in zip(t["es"], v["es"])]
        return "%s { %s }" % (decls.ty(t), ", ".join("f%d: %s" % (i, e) for i, e in enumerate(es)))
    if k == "array":
        return "[" + ", ".join(const_expr(decls, t["es"][0], e) for e in v["es"]) + "]"
    if k in ENUMLIKE:
        vt = variants(t)[v["tag"]]
        if k == "enum":
            head = "%s::V%d" % (decls.ty(t), v["tag"])
        elif k == "option":
            head = "Option::None" if v["tag"] == 0 else "Option::Some"
        else:
            head = "Result::Ok" if v["tag"] == 0 else "Result::Err"
        if (k == "enum" and vt["k"] == "unit") or (k == "option" and v["tag"] == 0):
            return head
        return "%s(%s)" % (head, const_expr(decls, vt, v["v"]))
    raise ValueError("not a configurable type: %s" % k)


BIG_CONSTS = """#[inline(never)] fn opaque_b256(x: b256) -> b256 { x }
#[inline(never)] fn opaque_u256(x: u256) -> u256 { x }
"""
BIG_CONST_USES = ("    if opaque_b256(0x1111111111111111111111111111111111111111111111111111111111111111) == 0x2222222222222222222222222222222222222222222222222222222222222222 { revert(99); }\n"
                  "    if opaque_u256(0x3333333333333333333333333333333333333333333333333333333333333333u256) == 0x4444444444444444444444444444444444444444444444444444444444444444u256 { revert(98); }\n")


def config_script(cfgs, big_consts=False):
    """script with `configurable { name: T = dflt, .. }` whose main logs every configurable in declaration order.
    big_consts: main also uses constants that do not fit a register (b256 / u256 literals: data-section entries
    loaded through pointer words that the backend appends to the data section while it emits the code)."""
    d = Decls()
    lines = ["    %s: %s = %s," % (c["name"], d.ty(c["t"]), const_expr(d, c["t"], c["dflt"])) for c in cfgs]
    logs = "\n".join("    log(%s);" % c["name"] for c in cfgs)
    block = ("configurable {\n" + "\n".join(lines) + "\n}\n") if cfgs else ""
    return (PRELUDE + "\n" + d.render() + "\n\n" + block + (BIG_CONSTS if big_consts else "") + "\nfn main() {\n"
            + (BIG_CONST_USES if big_consts else "") + logs + "\n}\n")


def ret_script(t, v):
    """script whose main returns v (C09: ReturnData)"""
    d = Decls()
    b = Body(d)
    e = b.expr(t, v)
    ty = d.ty(t)
    body = "\n    ".join(b.ss + ["let v: %s = %s;" % (ty, e), "v"])
    return PRELUDE + "\n" + d.render() + "\n\nfn main() -> %s {\n    %s\n}\n" % (ty, body)


def run_config_packages(ctx, pkgs, procs=6, timeout=3600):
    """vh-config over pkgs in parallel processes -> {id: {"built": ev, "runs": {rid: ev}}}"""
    import os
    from concurrent.futures import ThreadPoolExecutor
    from lib.common import write_ndjson, read_ndjson, ToolError
    ctx.build_vh("vh-config")
    procs = max(1, min(procs, len(pkgs)))
    shards = [pkgs[i::procs] for i in range(procs)]

    def one(arg):
        i, sh = arg
        inp = os.path.join(ctx.work, "config-%d.in.ndjson" % i)
        outp = os.path.join(ctx.work, "config-%d.out.ndjson" % i)
        write_ndjson(inp, sh)
        p = ctx.vh("vh-config", ["--in", inp, "--out", outp, "--work", os.path.join(ctx.work, "cpk-%d" % i)], check=False, timeout=timeout)
        evs = read_ndjson(outp) if os.path.exists(outp) else []
        if p.returncode != 0:
            started = [e["id"] for e in evs if e["ev"] == "Start"]
            raise ToolError("vh-config crashed (rc=%d) after starting %s:\n%s" % (p.returncode, started[-1:] or "nothing", p.stderr[-2000:]))
        os.remove(inp)
        return evs

    with ThreadPoolExecutor(max_workers=procs) as ex:
        res = list(ex.map(one, enumerate(shards)))
    out = {p["id"]: {"built": None, "runs": {}} for p in pkgs}
    for evs in res:
        for e in evs:
            if e["ev"] == "Built":
                out[e["id"]]["built"] = e
            elif e["ev"] == "Run":
                out[e["id"]]["runs"][e["rid"]] = e
    return out


def observe_run(ev):
    """Project a vh-config Run event: logs (LogData payloads), out, code, ret"""
    logs = [r["data"] for r in ev.get("receipts", []) if r["t"] == "logdata"]
    st = ev.get("state") or {}
    if ev.get("panic") or ev.get("err"):
        return {"logs": logs, "out": "vmerror", "code": [], "ret": []}
    if st.get("k") == "revert":
        return {"logs": logs, "out": "revert", "code": st["v"], "ret": []}
    return {"logs": logs, "out": "return", "code": [], "ret": ev.get("returndata") or []}


# ------------------------------------------------------------------------------------------------
# C09 / C10: conformance pool, packages, observations
# ------------------------------------------------------------------------------------------------
import hashlib, os

MISSING_ABI = {"k": "missing", "n": 0, "name": "", "es": [], "ns": [], "targs": []}


def _order(recs):
    return sorted(recs, key=lambda r: hashlib.sha256(tkey(r["t"]).encode()).digest())


def gen_pool(ctx, sample_d2=220, sample_d3=110, tlc_seed=9, quick_parts=16):
    """Replay records (one per type tree) from MC_AbiCodec under Gen_AbiCodec.cfg.
    thorough: 4 slices of the depth<=1 trees in parallel TLC runs (+ named nestings + fixed-seed deeper samples);
    quick: slice VERIF_SEED mod quick_parts (of quick_parts) + named nestings."""
    from concurrent.futures import ThreadPoolExecutor
    from lib.common import ToolError
    if ctx.quick:
        jobs = [dict(Part=ctx.seed % quick_parts, NParts=quick_parts, SampleD2=0, SampleD3=0, WithNamed="TRUE")]
    else:
        jobs = [dict(Part=0, NParts=4, SampleD2=sample_d2, SampleD3=0, WithNamed="TRUE"),
                dict(Part=1, NParts=4, SampleD2=0, SampleD3=sample_d3, WithNamed="FALSE"),
                dict(Part=2, NParts=4, SampleD2=0, SampleD3=0, WithNamed="FALSE"),
                dict(Part=3, NParts=4, SampleD2=0, SampleD3=0, WithNamed="FALSE")]

    def one(arg):
        i, j = arg
        cfg = os.path.join(ctx.work, "Gen_AbiCodec_%d.cfg" % i)
        with open(cfg, "w") as f:
            f.write('CONSTANTS Universe = "pool" SampleD2 = %(SampleD2)d SampleD3 = %(SampleD3)d Part = %(Part)d '
                    'NParts = %(NParts)d WithNamed = %(WithNamed)s\nSPECIFICATION Spec\nINVARIANT PrintReplay\nCHECK_DEADLOCK FALSE\n' % j)
        r = ctx.tlc("MC_AbiCodec", cfg, workers=1, tlc_seed=tlc_seed, count=False, xss="64m", xmx="3g",
                    name="gen-pool-%d" % i, timeout=2400)
        recs = r.printed("REPLAY")
        if r.violated or len(recs) != r.distinct:
            raise ToolError("pool generation: %d records for %d states (%s)" % (len(recs), r.distinct, r.violated))
        return recs

    with ThreadPoolExecutor(max_workers=4) as ex:
        parts = list(ex.map(one, enumerate(jobs)))
    seen, out = set(), []
    for recs in parts:
        for r in recs:
            k = tkey(r["t"])
            if k not in seen:
                seen.add(k)
                out.append(r)
    return _order(out)


def pick_invalid(r, nbool=2, ntag=2, ntrunc=1):
    """A deterministic few of the spec's invalid byte strings per type."""
    out = []
    for kind, n in (("bool", nbool), ("tag", ntag), ("truncated", ntrunc)):
        xs = sorted([iv for iv in r["invalid"] if iv["kind"] == kind], key=lambda iv: (iv["len"], iv["bytes"]))
        if kind == "truncated":
            xs = [iv for iv in xs if iv["len"] > 0] or xs       # prefer a non-empty proper prefix
            xs = xs[-n:] if n else []
        else:
            xs = xs[:: max(1, len(xs) // n)][:n] if xs else []
        out += xs
    return out


def long_pattern(n):
    return [(i * 7 + 3) % 251 for i in range(n)]


def boundary_recs(quick, seed):
    """Hand-placed records around the capacity of the encoder's buffer (1024 bytes initially, doubled on demand):
    tuples of byte strings whose running encoded size ends within the last bytes before the capacity, at it,
    and just past it.  Types and values are ordinary pool terms; the trace spec computes their encoding itself."""
    BY = {"k": "bytes", "n": 0, "es": []}
    ST = {"k": "string", "n": 0, "es": []}
    SR = {"k": "str", "n": 0, "es": []}

    def sv(bs):
        return {"k": "s", "b": list(bs)}

    def enc1(bs):
        return list(len(bs).to_bytes(8, "big")) + list(bs)

    def rec(ts, vals):
        return {"t": {"k": "tuple", "n": 0, "es": ts}, "cls": {"size": 0, "static": False, "depth": 1, "boundary": True},
                "reps": [{"v": {"k": "a", "es": [sv(b) for b in bs]}, "enc": sum((enc1(b) for b in bs), [])} for bs in vals],
                "invalid": []}
    asc = lambda n: [97 + (i % 26) for i in range(n)]
    pairs = [(1017, 3), (1020, 5), (1024, 1), (1000, 16), (1016, 8), (1008, 1), (1001, 7), (1009, 7)]
    if quick:
        pairs = [pairs[seed % len(pairs)], pairs[(seed + 3) % len(pairs)], (1016, 8)]
    else:
        pairs += [(2040, 3), (2033, 7), (3000, 1090)]
    out = [rec([BY, BY], [[long_pattern(a), long_pattern(b)[:b]] for a, b in pairs])]
    spairs = [(1005, 3), (1000, 9)] if quick else [(1005, 3), (1000, 9), (1008, 0), (1010, 6), (1016, 0)]
    out.append(rec([ST, BY], [[asc(a), long_pattern(b)] for a, b in spairs]))
    out.append(rec([BY, SR], [[long_pattern(a), asc(b)] for a, b in ([(1001, 8), (1003, 5)] if quick else [(1001, 8), (1003, 5), (1007, 1), (1000, 16)])]))
    return out


def c09_packages(recs, prefix, per_pkg=40):
    """Case tests: every representative value of every type."""
    pkgs = []
    for p in range(0, len(recs), per_pkg):
        chunk = recs[p:p + per_pkg]
        d, tests, items = Decls(), [], []
        for ti, r in enumerate(chunk):
            for vi, rep in enumerate(r["reps"]):
                name = "c%d_%d" % (ti, vi)
                tests.append(case_test(d, name, r["t"], rep["v"], rep["enc"], r["cls"]["size"]))
                items.append({"ev": "Case", "test": name, "t": r["t"], "v": rep["v"],
                              "memdump": has_memdump(r["t"], r["cls"]["size"])})
        pkgs.append({"id": "%s%03d" % (prefix, p // per_pkg), "src": package(d, tests), "items": items})
    return pkgs


def c10_packages(recs, prefix, per_pkg=60, class_group=6, ntrunc=1):
    """Class probes (several types per test), invalid decodes, and Case tests of the trivially en/decodable types."""
    pkgs = []
    for p in range(0, len(recs), per_pkg):
        chunk = recs[p:p + per_pkg]
        d, tests, items = Decls(), [], []
        for g in range(0, len(chunk), class_group):
            grp = chunk[g:g + class_group]
            name = "k%d" % g
            body = "".join(class_test(d, "x", r["t"]).split("{\n", 1)[1].rsplit("}\n", 1)[0] for r in grp)
            tests.append("#[test]\nfn %s() {\n%s}\n" % (name, body))
            items.append({"ev": "ClassGroup", "test": name, "ts": [r["t"] for r in grp]})
        for ti, r in enumerate(chunk):
            for j, iv in enumerate(pick_invalid(r, ntrunc=ntrunc)):
                name = "i%d_%d" % (ti, j)
                tests.append(invalid_test(d, name, r["t"], iv["bytes"], iv["len"]))
                items.append({"ev": "Invalid", "test": name, "kind": iv["kind"], "t": r["t"], "bytes": iv["bytes"], "len": iv["len"]})
            if r["cls"]["te"] or r["cls"]["td"]:
                for vi, rep in enumerate(r["reps"]):
                    name = "c%d_%d" % (ti, vi)
                    tests.append(case_test(d, name, r["t"], rep["v"], rep["enc"], r["cls"]["size"]))
                    items.append({"ev": "Case", "test": name, "t": r["t"], "v": rep["v"],
                                  "memdump": has_memdump(r["t"], r["cls"]["size"])})
        pkgs.append({"id": "%s%03d" % (prefix, p // per_pkg), "src": package(d, tests), "items": items})
    return pkgs


def run_and_collect(ctx, pkgs, procs=8, profile="debug"):
    """Build + run the packages (vh-exec); returns (trace records, failures).
    failures: [{"pkg", "kind": build|crash|timeout|panic|run|missing, "detail", "source"?}]"""
    from lib.swayexec import run_packages, observe
    jobs = [{"id": p["id"], "files": {"src/main.sw": p["src"]}, "profile": p.get("profile", profile), "want": ["abi", "diag"]} for p in pkgs]
    res = run_packages(ctx, jobs, procs=procs)
    trace, failures = [], []
    for p in pkgs:
        r = res[p["id"]]
        b = r["built"]
        if r["crashed"] or b is None:
            failures.append({"pkg": p["id"], "kind": "crash", "detail": ((r["crashed"] or {}).get("stderr") or "no Built event")[-800:]})
            continue
        if not b["ok"]:
            kind = "timeout" if b.get("timeout") else ("panic" if b.get("panic") else "build")
            errs = [x.strip()[-700:] for x in (b.get("diag") or "").split("____") if x.strip().startswith("error")]
            failures.append({"pkg": p["id"], "kind": kind, "profile": p.get("profile", profile), "source": p["src"],
                             "detail": (b.get("panic") or b.get("err") or "") + " | " + " | ".join(errs[:2])})
            continue
        if r["runfailed"]:
            failures.append({"pkg": p["id"], "kind": "run", "detail": json.dumps(r["runfailed"])[-800:]})
            continue
        view = AbiView(b["pkgs"][0]["abi"])
        tests = {t["test"]: t for t in r["tests"]}
        for it in p["items"]:
            te = tests.get(it["test"])
            if te is None:
                failures.append({"pkg": p["id"], "kind": "missing", "detail": "test %s produced no result" % it["test"]})
                continue
            o = observe(te)
            rid = "%s/%s" % (p["id"], it["test"])
            if it["ev"] == "ClassGroup":
                for gi, t in enumerate(it["ts"]):
                    trace.append({"ev": "Class", "id": "%s#%d" % (rid, gi), "t": t, "logs": o["logs"][4 * gi:4 * gi + 4], "out": o["out"]})
            elif it["ev"] == "Case":
                lg = [x for x in te["receipts"] if x["t"] == "logdata"]
                a = view.term_of_log(lg[0]["rb"]) if lg else None
                trace.append({"ev": "Case", "id": rid, "t": it["t"], "v": it["v"], "abi": a or MISSING_ABI,
                              "memdump": it["memdump"], "logs": o["logs"], "out": o["out"]})
            else:
                trace.append({"ev": "Invalid", "id": rid, "kind": it["kind"], "t": it["t"], "bytes": it["bytes"], "len": it["len"],
                              "logs": o["logs"], "out": o["out"]})
    return trace, failures


def short_type(t):
    """Compact rendering of a type term (for keys and messages)."""
    k = t["k"]
    if k == "strarr":
        return "str[%d]" % t["n"]
    if k == "array":
        return "[%s;%d]" % (short_type(t["es"][0]), t["n"])
    if t["es"] or k in ("tuple", "struct", "enum"):
        return "%s(%s)" % (k, ",".join(short_type(e) for e in t["es"]))
    return k
