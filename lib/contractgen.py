"""Helpers shared by the contract-level checks C11 / C12 / C28: rendering of types and values of the
StorageLayout / Dispatch / StorageModels specs to Sway, packing many contracts into one forc workspace
(std is compiled once per workspace), and collecting per-member results from vh-exec.

Everything here is mechanical: rendering spec-given records to source text, calling the engine, and
projecting receipts to byte lists.  No judgement is made in this module."""
import hashlib, json, os
from concurrent.futures import ThreadPoolExecutor
from lib.common import ToolError, log, write_ndjson
from lib import swayexec

def std_path():
    """The standard library the generated packages depend on.  Always /repo/sway-lib-std in a check run; the
    environment variable VERIF_STD_PATH exists only for the binding demonstrations described in notes/C12.md and
    notes/C28.md (a seeded mutant of a *copy* of std outside /repo)."""
    return os.environ.get("VERIF_STD_PATH", "/repo/sway-lib-std")


def manifest(name):
    return ('[project]\nauthors = ["vh"]\nentry = "main.sw"\nlicense = "Apache-2.0"\nname = "%s"\n\n'
            '[dependencies]\nstd = { path = "%s" }\n' % (name, std_path()))


def workspace(ws_id, members, profile="debug", want=("slots",)):
    """members: list of (name, source). Returns a vh-exec input record for one workspace."""
    files = {}
    for name, src in members:
        files["%s/Forc.toml" % name] = manifest(name)
        files["%s/src/main.sw" % name] = src
    man = "[workspace]\nmembers = [%s]\n" % ", ".join('"%s"' % n for n, _ in members)
    return {"id": ws_id, "files": files, "manifest": man, "profile": profile, "want": list(want) + ["diag"]}


def chunks(xs, n):
    return [xs[i:i + n] for i in range(0, len(xs), n)]


def run_workspaces(ctx, wss, procs=4):
    """Runs workspace records; returns {member_name: {"slots": [...], "tests": {test: observation}, "ok": bool}}
    plus a list of failures [(ws_id, what, detail)]."""
    res = swayexec.run_packages(ctx, wss, procs=procs)
    out, failures = {}, []
    for ws in wss:
        r = res[ws["id"]]
        b = r["built"]
        if r["crashed"]:
            failures.append((ws["id"], "crashed", r["crashed"].get("stderr", "")[-1500:]))
            continue
        if not b or not b.get("ok"):
            what = "panic" if b and b.get("panic") else ("timeout" if b and b.get("timeout") else "build-error")
            failures.append((ws["id"], what, ((b or {}).get("panic") or "") + ((b or {}).get("err") or "") + "\n" + ((b or {}).get("diag") or "")[-3000:]))
            continue
        if r["runfailed"]:
            failures.append((ws["id"], "runfailed", json.dumps(r["runfailed"])[:1500]))
            continue
        for p in b["pkgs"]:
            out[p["name"]] = {"slots": p.get("slots") or [], "tests": {}, "warnings": p.get("warnings", []), "abi": p.get("abi")}
        for t in r["tests"]:
            out[t["pkg"]]["tests"][t["test"]] = swayexec.observe(t)
    return out, failures


# ------------------------------------------------------------------ types and values (StorageLayout.tla shapes)
def le_to_int(b):
    return int.from_bytes(bytes(b), "little")


class TypeNamer:
    """Assigns Sway names to the struct / enum types of a contract (by structure) and renders declarations."""

    def __init__(self):
        self.names = {}
        self.decls = []

    def ty(self, t):
        k = t["k"]
        if k in ("bool", "u8", "u16", "u32", "u64", "u256", "b256"):
            return k
        if k == "unit":
            return "()"
        if k == "str":
            return "str[%d]" % t["n"]
        key = json.dumps(t, sort_keys=True)
        if key in self.names:
            return self.names[key]
        inner = [self.ty(f) for f in t["fs"]]            # declares nested types first
        if k == "struct":
            name = "S%d" % (len(self.names) + 1)
            self.names[key] = name
            self.decls.append("struct %s { %s }" % (name, ", ".join("f%d: %s" % (i + 1, s) for i, s in enumerate(inner))))
        elif k == "enum":
            name = "E%d" % (len(self.names) + 1)
            self.names[key] = name
            self.decls.append("enum %s { %s }" % (name, ", ".join("V%d: %s" % (i, s) for i, s in enumerate(inner))))
        else:
            raise ToolError("unknown type kind %r" % k)
        return name

    def val(self, t, v):
        k = t["k"]
        if k == "bool":
            return "true" if v["v"] else "false"
        if k in ("u8", "u16", "u32", "u64"):
            return "%d%s" % (le_to_int(v["b"]), k)
        if k == "u256":
            return "0x%064xu256" % le_to_int(v["b"])
        if k == "b256":
            return "0x%064x" % le_to_int(v["b"])
        if k == "unit":
            return "()"
        if k == "str":
            return '__to_str_array("%s")' % bytes(v["b"]).decode("ascii")
        name = self.ty(t)
        if k == "struct":
            return "%s { %s }" % (name, ", ".join("f%d: %s" % (i + 1, self.val(ft, fv)) for i, (ft, fv) in enumerate(zip(t["fs"], v["es"]))))
        if k == "enum":
            vt = t["fs"][v["tag"]]
            if vt["k"] == "unit":
                return "%s::V%d" % (name, v["tag"])
            return "%s::V%d(%s)" % (name, v["tag"], self.val(vt, v["v"]))
        raise ToolError("unknown type kind %r" % k)


def sha256_pre(dom, s):
    """The real SHA-256 over a spec-given pre-image: the domain byte followed by the string's bytes."""
    return list(hashlib.sha256(bytes([dom]) + s.encode("utf-8")).digest())


def hexbytes(h):
    return list(bytes.fromhex(h))


# ------------------------------------------------------------------ trace validation (all rejections in one run)
def validate_all(ctx, module, cfg, records, name="trace", shard=400, par=4, env=None):
    """Runs the trace spec over `records` (sharded, up to `par` TLC processes at a time).  The trace spec judges
    every record and prints <<"REJECTED", json [[idx, id, why]...]>>; returns (validated, [(record, why)])."""
    shards = chunks(list(records), shard)

    def one(a):
        i, chunk = a
        tp = os.path.join(ctx.work, "%s-%d.ndjson" % (name, i))
        write_ndjson(tp, chunk)
        tr = ctx.tlc_trace(module, cfg, tp, name="%s%d" % (name, i), count=False, env=env)
        if tr.violated is None:
            return len(chunk), []
        rej = tr.printed("REJECTED")
        if tr.violated != "postcondition" or not rej:
            raise ToolError("trace validation of %s failed unexpectedly (%s); see %s/tlc-%s%d.out" % (module, tr.violated, ctx.work, name, i))
        rej = rej[0]
        return len(chunk) - len(rej), [(chunk[e["idx"] - 1], e["why"]) for e in rej]
    with ThreadPoolExecutor(max_workers=par) as ex:
        results = list(ex.map(one, enumerate(shards)))
    return sum(r[0] for r in results), [x for r in results for x in r[1]]
