"""C17 execution helpers: the batch engine vh-crash (std compiled once per process), the mechanical
classification of a compile result, and the confirmation run (one package alone, fresh vh-exec process =
forc_pkg::build_with_options).  Nothing here decides the property: the classification is a projection of
the engine's event to the alphabet of spec/CompileOutcome.tla, TLC accepts or rejects the event.
"""
import json, os, re, time
from concurrent.futures import ThreadPoolExecutor
from lib.common import ToolError, write_ndjson, read_ndjson, log

ICE_PAT = re.compile(r"internal compiler error", re.I)
SRC_QUOTE = re.compile(r"^\s*\d+\s*\|")     # a quoted source line of a diagnostic: `12 | let x = ...`


def _messages(text):
    """The diagnostics text without the quoted source lines (a comment or string in the program under test may
    contain any text, e.g. 'internal compiler error')."""
    return "\n".join(l for l in text.split("\n") if not SRC_QUOTE.match(l))


def classify(built, crashed=None):
    """Project an engine result to an outcome name.  artifacts | diagnostics are the two outcomes the
    property allows; everything else is reported under its raw kind."""
    if crashed is not None or built is None:
        return "crash"
    if built.get("timeout"):
        return "timeout"
    if built.get("panic"):
        return "panic"
    if built.get("unsupported"):
        return "unsupported"
    diag = _messages(built.get("diag") or "")
    err = built.get("err") or ""
    if ICE_PAT.search(diag) or ICE_PAT.search(err):
        return "ice"
    if built.get("ok"):
        return "artifacts"
    # not ok, no panic: an error was returned.  It counts as "diagnostics" if the compiler said what is wrong:
    # either diagnostics were printed or the returned error carries a message (manifest / plan errors).
    if re.search(r"(^|\n)\s*(error|warning)", diag) or "Aborting due to" in diag or err:
        return "diagnostics"
    return "silent_failure"


def detail(built, crashed=None):
    if crashed is not None:
        return "process died: rc=%s %s" % (crashed.get("rc"), (crashed.get("stderr") or "")[-400:])
    if built is None:
        return "no Built event"
    if built.get("panic"):
        return built["panic"][:500]
    d = _messages(built.get("diag") or "") + "\n" + (built.get("err") or "")
    m = re.search(r"internal compiler error[^\n]*", d, re.I)
    if m:
        return m.group(0)[:500]
    return (built.get("err") or "")[:300]


def signature(outcome, det):
    """A short stable signature of a crash: used to group findings (file paths, ids and numbers removed)."""
    s = det
    s = re.sub(r"0x[0-9a-fA-F]+", "PTR", s)
    s = re.sub(r"/[\w./-]+", "<path>", s)
    s = re.sub(r"\b(m[0-9a-f]{14}|[ctg]\w*_[0-9a-f]{8,})\b", "<id>", s)
    s = re.sub(r"\d+", "N", s)
    s = re.sub(r"\s+", " ", s).strip()
    return "%s:%s" % (outcome, s[:120])


def _run_fast_shard(ctx, tag, pkgs, profile, pkg_timeout, chunk):
    """vh-crash over pkgs in processes of at most `chunk` packages; restart after a hard crash / time-out."""
    results = {}
    todo = list(pkgs)
    attempt = 0
    while todo:
        attempt += 1
        batch, rest = todo[:chunk], todo[chunk:]
        inp = os.path.join(ctx.work, "crash-%s-%d.in.ndjson" % (tag, attempt))
        outp = os.path.join(ctx.work, "crash-%s-%d.out.ndjson" % (tag, attempt))
        write_ndjson(inp, batch)
        wdir = os.path.join(ctx.work, "pkc-%s" % tag)
        try:
            p = ctx.vh("vh-crash", ["--in", inp, "--out", outp, "--work", wdir, "--pkg-timeout", pkg_timeout, "--profile", profile],
                       check=False, timeout=600 + len(batch) * pkg_timeout, env={"HOME": os.path.join(ctx.work, "home")})
            rc, err = p.returncode, p.stderr
        except ToolError as e:
            rc, err = -9, "timeout: %s" % e
        evs = read_ndjson(outp) if os.path.exists(outp) else []
        started = [e["id"] for e in evs if e["ev"] == "Start"]
        for e in evs:
            if e["ev"] == "Built":
                results[e["id"]] = {"built": e, "crashed": None}
        os.remove(inp)
        if os.path.exists(outp):
            os.remove(outp)
        if rc == 0:
            todo = rest
            continue
        ids = [q["id"] for q in batch]
        if started and started[-1] in results and results[started[-1]]["built"].get("timeout"):
            culprit = started[-1]
        elif started and started[-1] not in results:
            culprit = started[-1]
            results[culprit] = {"built": None, "crashed": {"rc": rc, "stderr": err[-2000:]}}
        elif not started:
            raise ToolError("vh-crash died before starting any package: rc=%s %s" % (rc, err[-2000:]))
        else:
            culprit = started[-1]
        todo = batch[ids.index(culprit) + 1:] + rest
    return results


def run_fast(ctx, pkgs, profile="debug", procs=4, pkg_timeout=120, chunk=250):
    """Compile every record of pkgs with vh-crash. Returns {id: {"built": ev|None, "crashed": ev|None}}."""
    if not pkgs:
        return {}
    ctx.build_vh("vh-crash")
    os.makedirs(os.path.join(ctx.work, "home"), exist_ok=True)
    procs = max(1, min(procs, (len(pkgs) + 19) // 20))
    shards = [pkgs[i::procs] for i in range(procs)]
    t = time.time()
    with ThreadPoolExecutor(max_workers=procs) as ex:
        rs = list(ex.map(lambda a: _run_fast_shard(ctx, "%s%d" % (profile[0], a[0]), a[1], profile, pkg_timeout, chunk), enumerate(shards)))
    out = {}
    for r in rs:
        out.update(r)
    log("[crash] %d packages (%s) in %.0fs on %d procs" % (len(pkgs), profile, time.time() - t, procs))
    return out


def run_alone(ctx, pkg, profile, pkg_timeout=300, tag="confirm"):
    """One package alone in a fresh vh-exec process (the full forc build path). Returns {"built","crashed"}."""
    ctx.build_vh("vh-exec")
    os.makedirs(os.path.join(ctx.work, "home"), exist_ok=True)
    rec = {k: v for k, v in pkg.items() if k in ("id", "files", "manifest", "std")}
    rec.update({"profile": profile, "run": False, "want": ["diag"]})
    inp = os.path.join(ctx.work, "%s-%s-%s.in.ndjson" % (tag, pkg["id"], profile))
    outp = os.path.join(ctx.work, "%s-%s-%s.out.ndjson" % (tag, pkg["id"], profile))
    write_ndjson(inp, [rec])
    try:
        p = ctx.vh("vh-exec", ["--in", inp, "--out", outp, "--work", os.path.join(ctx.work, "pk-" + tag), "--pkg-timeout", pkg_timeout],
                   check=False, timeout=pkg_timeout + 300, env={"HOME": os.path.join(ctx.work, "home")})
        rc, err = p.returncode, p.stderr
    except ToolError as e:
        rc, err = -9, "timeout: %s" % e
    evs = read_ndjson(outp) if os.path.exists(outp) else []
    built = [e for e in evs if e["ev"] == "Built"]
    for f in (inp, outp):
        if os.path.exists(f):
            os.remove(f)
    if built:
        return {"built": built[0], "crashed": None}
    return {"built": None, "crashed": {"rc": rc, "stderr": err[-2000:]}}


def run_alone_many(ctx, pkgs_profiles, procs=4, pkg_timeout=300, tag="confirm"):
    with ThreadPoolExecutor(max_workers=max(1, min(procs, len(pkgs_profiles) or 1))) as ex:
        return list(ex.map(lambda a: run_alone(ctx, a[0], a[1], pkg_timeout, tag), pkgs_profiles))
