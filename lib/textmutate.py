"""C17 corpus-level textual mutations (mechanical, deterministic): delete one top-level item, one `;`-terminated
statement / member of a brace block, one `use`; truncate the file at a token boundary.

Only a tiny lexer is needed (comments, strings, brackets); nothing here knows what the compiler should answer.
"""
import hashlib, re

_TOKEN = re.compile(r"""
    (?P<ws>\s+)
  | (?P<lc>//[^\n]*)
  | (?P<bc>/\*.*?\*/)
  | (?P<str>"(?:\\.|[^"\\])*")
  | (?P<word>[A-Za-z_0-9]+)
  | (?P<punct>.)
""", re.S | re.X)


def tokens(text):
    """[(start, end, kind, text)] without white space and comments."""
    out = []
    for m in _TOKEN.finditer(text):
        k = m.lastgroup
        if k in ("ws", "lc", "bc"):
            continue
        out.append((m.start(), m.end(), k, m.group()))
    return out


OPEN = {"(": ")", "{": "}", "[": "]"}
CLOSE = {")", "}", "]"}


def segments(text):
    """Split the file into deletable segments.
    Returns (items, members): items = top-level items [(start, end, first_word)], members = `;`-terminated
    segments inside brace blocks [(start, end)] (statements, trait/abi method signatures, struct-less)."""
    toks = tokens(text)
    items, members = [], []
    stack = []            # (open char, start of the current segment inside this block)
    seg_start = 0         # start of the current top-level item
    first_word = None
    for (s, e, k, t) in toks:
        if not stack and first_word is None and k == "word" and t not in ("pub",):
            first_word = t
        if k == "punct" and t in OPEN:
            stack.append([t, e])
            continue
        if k == "punct" and t in CLOSE:
            if stack:
                stack.pop()
            if not stack and t == "}":
                items.append((seg_start, e, first_word))
                seg_start, first_word = e, None
            elif stack and stack[-1][0] == "{" and t == "}":
                # a nested block ended: the next member of the enclosing block starts after it
                # (`while c { }`, `if c { } else { }`, `fn f() { }` inside impl) -- only if no `;` follows at once
                stack[-1][1] = e
            continue
        if k == "punct" and t == ";":
            if not stack:
                items.append((seg_start, e, first_word))
                seg_start, first_word = e, None
            elif stack[-1][0] == "{":
                members.append((stack[-1][1], e))
                stack[-1][1] = e
    return items, members


def _pick(cands, n, salt):
    """n candidates, evenly spread, rotated by a hash of the file so that different files hit different places."""
    if len(cands) <= n:
        return list(cands)
    off = int(hashlib.sha256(salt.encode()).hexdigest()[:8], 16) % len(cands)
    step = len(cands) / float(n)
    idx = sorted({(off + int(i * step)) % len(cands) for i in range(n)})
    return [cands[i] for i in idx]


def mutations(text, salt, n_item=2, n_member=3, n_use=1, n_trunc=2):
    """[(label, mutated text)] for one source file; a deterministic selection of the candidate lists
    (all candidates: every item, every member, every use, every token boundary)."""
    out = []
    items, members = segments(text)
    uses = [it for it in items if it[2] == "use"]
    others = [it for it in items[1:] if it[2] != "use"]      # items[0] is the program kind
    for (s, e, w) in _pick(others, n_item, salt + "i"):
        out.append(("del_item@%d:%s" % (s, w), text[:s] + text[e:]))
    for (s, e) in _pick(members, n_member, salt + "m"):
        out.append(("del_member@%d" % s, text[:s] + text[e:]))
    for (s, e, w) in _pick(uses, n_use, salt + "u"):
        out.append(("del_use@%d" % s, text[:s] + text[e:]))
    toks = tokens(text)
    bounds = [t[1] for t in toks[:-1]]
    for b in _pick(bounds, n_trunc, salt + "t"):
        out.append(("truncate@%d" % b, text[:b] + "\n"))
    return out


def counts(text):
    items, members = segments(text)
    return {"items": len(items), "members": len(members), "uses": len([i for i in items if i[2] == "use"]),
            "token_boundaries": max(0, len(tokens(text)) - 1)}
