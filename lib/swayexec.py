"""Run packages through vh-exec in parallel worker processes; collect Built/Test events."""
import json, os, subprocess, time
from concurrent.futures import ThreadPoolExecutor
from lib.common import ToolError, write_ndjson, read_ndjson, log


def _run_shard(ctx, shard_id, pkgs, timeout, pkg_timeout=600):
    """Run one vh-exec process over pkgs; restart after a hard crash. Returns list of events."""
    events = []
    todo = list(pkgs)
    attempt = 0
    stalled = set()
    while todo:
        attempt += 1
        inp = os.path.join(ctx.work, "exec-%s-%d.in.ndjson" % (shard_id, attempt))
        outp = os.path.join(ctx.work, "exec-%s-%d.out.ndjson" % (shard_id, attempt))
        write_ndjson(inp, todo)
        wdir = os.path.join(ctx.work, "pk-%s" % shard_id)
        try:
            p = ctx.vh("vh-exec", ["--in", inp, "--out", outp, "--work", wdir, "--pkg-timeout", pkg_timeout], check=False, timeout=timeout)
            rc, err = p.returncode, p.stderr
        except ToolError as e:
            rc, err = -9, "timeout: %s" % e
        evs = read_ndjson(outp) if os.path.exists(outp) else []
        events += evs
        started = [e["id"] for e in evs if e["ev"] == "Start"]
        built = {e["id"] for e in evs if e["ev"] == "Built"}
        if rc == 0:
            break
        # hard crash (abort / stack overflow / timeout): attribute to the last started package without Built
        timed_out = [e["id"] for e in evs if e["ev"] == "Built" and e.get("timeout")]
        culprit = timed_out[-1] if timed_out else (started[-1] if started and started[-1] not in built else None)
        if timed_out:
            ids = [q["id"] for q in todo]
            todo = todo[ids.index(culprit) + 1:]
            os.remove(inp)
            continue
        if culprit is None:
            # crashed while running tests of the last package or before anything started
            culprit = started[-1] if started else todo[0]["id"]
        if rc == -9:
            # the limit of the whole vh-exec process ran out (a loaded machine): nothing is known about the package
            # that happened to be running; go on from it, and give up (tool error) if that happens to it twice
            if culprit in stalled:
                raise ToolError("vh-exec: the process limit ran out twice while building %s" % culprit)
            stalled.add(culprit)
            ids = [q["id"] for q in todo]
            todo = todo[ids.index(culprit):]
            os.remove(inp)
            continue
        events.append({"ev": "Crashed", "id": culprit, "rc": rc, "stderr": err[-2000:]})
        ids = [q["id"] for q in todo]
        todo = todo[ids.index(culprit) + 1:]
        os.remove(inp)
    return events


def run_packages(ctx, pkgs, procs=8, timeout=3600, pkg_timeout=600, retry_timeouts=True):
    """pkgs: list of vh-exec input records. Returns {id: {"built": ev|None, "tests": [ev], "crashed": ev|None, "runfailed": ev|None}}
    A package whose build hit the per-package watchdog is built once more, alone, with four times the limit: the
    watchdog measures wall time, and a loaded machine must not turn into a verdict about the compiler."""
    ctx.build_vh("vh-exec")
    procs = max(1, min(procs, len(pkgs)))
    shards = [pkgs[i::procs] for i in range(procs)]
    t = time.time()
    with ThreadPoolExecutor(max_workers=procs) as ex:
        # the per-package watchdog, not the limit of the whole vh-exec process, is what ends a slow build
        results = list(ex.map(lambda a: _run_shard(ctx, a[0], a[1], max(timeout, 600 + len(a[1]) * (pkg_timeout + 120)), pkg_timeout),
                              enumerate(shards)))
    if retry_timeouts:
        slow = {e["id"] for evs in results for e in evs if e["ev"] == "Built" and e.get("timeout")}
        if slow:
            log("[exec] %d package(s) hit the %ds watchdog; building them again alone with %ds" % (len(slow), pkg_timeout, 4 * pkg_timeout))
            results = [[e for e in evs if e["id"] not in slow] for evs in results]
            again = [p for p in pkgs if p["id"] in slow]
            ctx.retried_timeouts = getattr(ctx, "retried_timeouts", 0) + len(again)
            for i, p in enumerate(again):
                results.append(_run_shard(ctx, "retry%d" % i, [p], 5 * pkg_timeout + 600, 4 * pkg_timeout))
    res = {p["id"]: {"built": None, "tests": [], "crashed": None, "runfailed": None, "passes": None, "main": None} for p in pkgs}
    for evs in results:
        for e in evs:
            r = res[e["id"]]
            if e["ev"] == "Built":
                r["built"] = e
            elif e["ev"] == "Test":
                r["tests"].append(e)
            elif e["ev"] == "Crashed":
                r["crashed"] = e
            elif e["ev"] == "RunFailed":
                r["runfailed"] = e
            elif e["ev"] == "Passes":
                r["passes"] = e["passes"]
            elif e["ev"] == "Main":
                r["main"] = e
    log("[exec] %d packages in %.0fs on %d procs" % (len(pkgs), time.time() - t, procs))
    return res


def observe_main(ev, raw_log_values=True):
    """Observable of a script's main: logs, return data, revert code.
    raw_log_values=False: a `log` (register) receipt contributes only its presence -- hand-written asm may log
    raw register contents such as memory addresses, which legitimately differ between build profiles."""
    logs, ret = [], []
    for r in ev.get("receipts", []):
        if r["t"] == "logdata":
            logs.append(r["data"])
        elif r["t"] == "log":
            logs.append(r["ra"] if raw_log_values else [])
        elif r["t"] == "returndata":
            ret = r["data"]
        elif r["t"] == "return":
            ret = r["val"]
    st = ev.get("state") or {"k": "error"}
    if st["k"] == "revert":
        return {"logs": logs, "out": "revert", "code": st["v"], "ret": []}
    if st["k"] in ("return", "returndata"):
        return {"logs": logs, "out": "return", "code": [], "ret": ret}
    return {"logs": logs, "out": "error:" + (ev.get("err") or ev.get("panic") or st["k"])[:80], "code": [], "ret": []}


def observe(test_ev, raw_log_values=True):
    """Project a Test event to the observable alphabet of SwaySem: logs (data bytes), out, code."""
    logs = []
    for r in test_ev["receipts"]:
        if r["t"] == "logdata":
            logs.append(r["data"])
        elif r["t"] == "log":
            logs.append(r["ra"] if raw_log_values else [])
    st = test_ev["state"]
    if st["k"] == "revert":
        return {"logs": logs, "out": "revert", "code": st["v"]}
    return {"logs": logs, "out": "return", "code": []}
