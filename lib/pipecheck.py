"""Pipeline-configuration checks (C03, C04, C05, C07): configurations come from TLC (PassOrder.tla),
builds are recorded with the H2 pass tracer, Trace_Pipeline.tla / Trace_SwaySem.tla decide."""
import json, os, re
from lib.common import ToolError, write_ndjson, slice_for_seed, log
from lib import semcheck
from lib.swayexec import run_packages, observe


def tlc_configs(ctx, max_edits=1):
    """Pipeline variants enumerated by TLC from PassOrder.tla (deduplicated by pass list)."""
    r = ctx.tlc("MC_PassOrder", "MC_PassOrder%d" % max_edits, workers=1, coverage=False, name="passorder%d" % max_edits,
                xmx="4g", timeout=1800)
    if r.violated:
        raise ToolError("PassOrder.tla violates its own invariant %s" % r.violated)
    recs = r.printed("REPLAY")
    seen, out = set(), []
    for x in recs:
        key = (x["base"], tuple(x["passes"]))
        if key in seen:
            continue
        seen.add(key)
        edits = x.get("edits") or []
        name = x["base"] + "".join("_%s%s%s" % (e[0].replace("-", ""), str(e[2]), re.sub(r"[^a-z0-9]", "", e[1])) for e in edits)
        out.append({"name": name[:80] + ("_%d" % len(out)), "profile": x["base"], "passes": x["passes"], "edits": edits,
                    "env": {"SWAY_VERIF_PASSES": ",".join(x["passes"])}})
    asm = r.printed("ASMCFG")
    return out, asm, r


def build_events(ctx, packages, configs, procs=8, force_verify=True):
    """Run packages x configs with the pass tracer; returns (events for Trace_Pipeline, obs, failures, stats)."""
    jobs, meta = [], {}
    for p in packages:
        for c in configs:
            env = dict(c.get("env", {}))
            if force_verify:
                env["SWAY_VERIF_SSA_DOMINANCE"] = "1"
            jid = "%s__%s" % (p["id"], c["name"])
            jobs.append({"id": jid, "files": {"src/main.sw": p["src"]}, "profile": c["profile"], "env": env, "trace_passes": True})
            meta[jid] = (p, c)
    res = run_packages(ctx, jobs, procs=procs)
    events, failures = [], []
    obs = {p["id"]: {t["name"]: [] for t in p["tests"]} for p in packages}
    stats = {"builds": 0, "pass_events": 0, "modifying_pass_events": 0, "per_pass_modified": {}}
    for jid, (p, c) in meta.items():
        r = res[jid]
        pe = r["passes"] or []
        b = r["built"]
        stats["builds"] += 1
        start = [e for e in pe if e["stage"] == "initial"]
        first = start[0] if start else None
        events.append({"ev": "Start", "pkg": p["id"], "cfg": c["name"], "passes": c["passes"],
                       "rt_parse": first["rt_parse"] if first else "missing", "rt_norm": bool(first and first["rt_norm"]),
                       "rt_idem": first["rt_idem"] if first else "missing", "rt_verify": first["rt_verify"] if first else "missing"})
        for e in pe:
            if e["stage"] != "pass":
                continue
            stats["pass_events"] += 1
            if e["modified"]:
                stats["modifying_pass_events"] += 1
                stats["per_pass_modified"][e["pass"]] = stats["per_pass_modified"].get(e["pass"], 0) + 1
            events.append({"ev": "Pass", "pass": e["pass"], "modified": e["modified"], "changed": e["changed"],
                           "rt_parse": e["rt_parse"], "rt_norm": e["rt_norm"], "rt_idem": e["rt_idem"], "rt_verify": e["rt_verify"],
                           "rt_diff": e.get("rt_diff", "")})
        ok = bool(b and b["ok"] and not r["crashed"])
        if ok:
            events.append({"ev": "Backend"})
            for t in r["tests"]:
                o = observe(t)
                o["cfg"] = c["name"]
                if t["test"] in obs[p["id"]]:
                    obs[p["id"]][t["test"]].append(o)
                events.append({"ev": "Exec", "pkg": p["id"], "test": t["test"], "logs": o["logs"], "out": o["out"], "code": o["code"]})
        else:
            kind = "crash" if r["crashed"] or b is None else ("timeout" if b.get("timeout") else ("panic" if b.get("panic") else "build"))
            d = (b or {}).get("diag") or ""
            errs = [x for x in d.split("____") if x.strip().startswith("error")]
            last = pe[-1]["pass"] if pe else None
            failures.append({"pkg": p["id"], "cfg": c["name"], "kind": kind, "last_pass_traced": last, "passes": c["passes"],
                             "detail": ((b or {}).get("panic") or "") + " ".join(e.strip()[-500:] for e in errs[:2])})
    return events, obs, failures, stats


MAX_REJECTIONS = 12


def validate_pipeline(ctx, events, check_rt, name="pipe"):
    """Trace_Pipeline over the event list. A rejection is reported by the caller; validation resumes at the
    next Start record. Returns (events_validated, rejections[list of (index, record, context)])."""
    validated, rejections = 0, []
    evs = list(events) + [{"ev": "End"}]
    offset = 0
    rnd = 0
    while evs:
        rnd += 1
        if len(rejections) >= MAX_REJECTIONS:
            log("[pipecheck] %d rejections; %d events left unvalidated" % (len(rejections), len(evs)))
            break
        tp = os.path.join(ctx.work, "%s-%d.ndjson" % (name, rnd))
        write_ndjson(tp, evs)
        tr = ctx.tlc_trace("Trace_Pipeline", "Trace_PipelineRT" if check_rt else "Trace_Pipeline", tp, name="%s-%d" % (name, rnd), timeout=3600)
        os.remove(tp)
        if tr.violated is None:
            validated += len(evs)
            break
        k = tr.first_unmatched()
        if tr.violated != "postcondition" or k is None:
            raise ToolError("Trace_Pipeline failed unexpectedly (%s)" % tr.violated)
        bad = evs[k - 1]
        # find the Start this record belongs to
        s = k - 1
        while s > 0 and evs[s]["ev"] != "Start":
            s -= 1
        start = evs[s] if evs[s]["ev"] == "Start" else None
        if bad["ev"] in ("Start", "End") and k - 1 > 0:
            # the *previous* build did not reach Backend (failed build): attribute to it
            ps = k - 2
            while ps > 0 and evs[ps]["ev"] != "Start":
                ps -= 1
            rejections.append({"record": bad, "build": evs[ps], "why": "previous build has no Backend event (failed build)", "prev_last": evs[k - 2]})
            validated += k - 1
            evs = evs[k - 1:]          # resume with this Start (state is reset by dropping the prefix)
            # the prefix ended in stage "ir"; a fresh TLC run starts from PInit, so Start is enabled again
            continue
        rejections.append({"record": bad, "build": start, "why": "record is not a step of Pipeline.tla"})
        validated += k - 1
        # skip to the next Start after the bad record
        n = k
        while n < len(evs) and evs[n]["ev"] != "Start":
            n += 1
        evs = evs[n:]
    return validated, rejections
