"""The IR pass pipelines of compile_ast_to_ir_to_asm (kept in sync with spec/PassOrder.tla)."""
O1 = ["mem2reg", "fn-dedup-release", "inline", "arg_pointee_mutability_tagger", "simplify-cfg", "globals-dce", "dce",
      "inline", "arg_pointee_mutability_tagger", "ccp", "const-folding", "simplify-cfg", "cse", "const-folding",
      "simplify-cfg", "globals-dce", "dce", "fn-dedup-release"]
O0 = ["fn-dedup-debug", "inline", "globals-dce", "dce"]
PREFIX = ["lower-init-aggr"]
FUEL = ["const-demotion", "arg-demotion", "ret-demotion", "misc-demotion", "arg_pointee_mutability_tagger", "memcpyopt",
        "dce", "simplify-cfg"]
FUEL_O1 = ["memcpyprop_reverse", "sroa", "mem2reg", "dce"]
DEBUG = PREFIX + O0 + FUEL
RELEASE = PREFIX + O1 + FUEL + FUEL_O1
