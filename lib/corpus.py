"""The repository's e2e test programs as an input corpus (read-only; copied into vh-exec records)."""
import os, re, json

ROOT = "/repo/test/src/e2e_vm_tests/test_programs"


def _toml_scalar(text, key):
    m = re.search(r'^\s*%s\s*=\s*"([^"]*)"' % re.escape(key), text, re.M)
    return m.group(1) if m else None


def _abs_deps(manifest, pkg_dir):
    """Rewrite relative path dependencies to absolute paths; reduced std libs -> the full sway-lib-std."""
    def repl(m):
        p = m.group(2)
        if "reduced_std_libs" in p or p.rstrip("/").endswith("sway-lib-std"):
            return '%spath = "/repo/sway-lib-std"' % m.group(1)
        ap = os.path.normpath(os.path.join(pkg_dir, p))
        return '%spath = "%s"' % (m.group(1), ap)
    return re.sub(r'(\b)path\s*=\s*"([^"]*)"', repl, manifest)


def programs(category="run", subdir="should_pass"):
    """Yield corpus programs of a test.toml category: dicts {name, dir, manifest, files, expected, ...}"""
    out = []
    base = os.path.join(ROOT, subdir)
    for d, dirs, files in os.walk(base):
        dirs.sort()
        if "test.toml" not in files or "Forc.toml" not in files:
            continue
        tt = open(os.path.join(d, "test.toml")).read()
        cat = _toml_scalar(tt, "category")
        if cat != category:
            continue
        man = open(os.path.join(d, "Forc.toml")).read()
        if "[workspace]" in man or "contract-dependencies" in man:
            continue
        if re.search(r"^\s*script_data", tt, re.M) or "run_on_node" in cat or re.search(r"^\s*experimental", tt, re.M):
            flags = "special"
        else:
            flags = ""
        srcs = {}
        ok = True
        for sd, _sdirs, sfiles in os.walk(os.path.join(d, "src")):
            for f in sfiles:
                if f.endswith(".sw"):
                    fp = os.path.join(sd, f)
                    try:
                        srcs[os.path.relpath(fp, d)] = open(fp).read()
                    except UnicodeDecodeError:
                        ok = False
        if not ok or not srcs:
            continue
        name = _toml_scalar(man, "name") or os.path.basename(d)
        out.append({"name": name, "dir": d, "rel": os.path.relpath(d, ROOT), "manifest": _abs_deps(man, d), "files": srcs,
                    "test_toml": tt, "flags": flags,
                    "has_tests": any("#[test" in s for s in srcs.values())})
    out.sort(key=lambda p: p["rel"])
    return out
