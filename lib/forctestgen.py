"""C29: render ForcTest suites (MC_ForcTest REPLAY records) as forc packages and run them with vh-forctest.

Mechanical only.  Conventions shared with ForcTest.tla / Trace_ForcTest.tla:
  * deployment state  storage { s0: u64 = 7, s1: u64 = 9 }   (ForcTest!Deploy)
  * symbolic revert codes  zero=0  c42=42  big=2^64-1  assert=0xffffffffffff0004  require=0xffffffffffff0000
    (Trace_ForcTest!CodeBytes)
  * a test's `val` is the value it logs / writes; the driver gives every test of a package a distinct one.
"""
import json, os
from lib.common import ToolError, write_ndjson, read_ndjson, log

CODE = {"zero": 0, "c42": 42, "big": (1 << 64) - 1, "assert": 0xffffffffffff0004, "require": 0xffffffffffff0000}

CONTRACT_HDR = """contract;
abi Store {
    #[storage(read, write)] fn put(k: u64, v: u64);
    #[storage(read)] fn get(k: u64) -> u64;
}
storage {
    s0: u64 = 7,
    s1: u64 = 9,
}
impl Store for Contract {
    #[storage(read, write)] fn put(k: u64, v: u64) {
        if k == 0 { storage.s0.write(v); } else { storage.s1.write(v); }
    }
    #[storage(read)] fn get(k: u64) -> u64 {
        if k == 0 { storage.s0.read() } else { storage.s1.read() }
    }
}
"""
COMMON = """#[inline(never)] fn one() -> u64 { 1 }
"""
HDR = {"contract": CONTRACT_HDR + COMMON, "script": "script;\nfn main() {}\n" + COMMON, "library": "library;\n" + COMMON}


def attribute(t):
    if t["exp"] == "none":
        return "#[test]"
    if t["exp"] == "should_revert":
        return "#[test(should_revert)]"
    return '#[test(should_revert = "%d")]' % CODE[t["expcode"]]


def body(t):
    b, k, v = t["beh"], t["key"], t["val"]
    c = CODE.get(t["code"], 0)
    if b == "ok":
        return "    let _x = one();\n"
    if b == "revert":
        return "    revert(%du64);\n" % c
    if b == "panic":
        return "    log(u64::max() + one());\n"
    if b == "assert":
        return "    assert(one() == 2);\n"
    if b == "require":
        return "    require(one() == 2, %du64);\n" % v
    if b == "log":
        return "    log(%du64);\n" % v
    if b == "log_revert":
        return "    log(%du64);\n    revert(%du64);\n" % (v, c)
    if b == "write":
        return "    let c = abi(Store, CONTRACT_ID);\n    c.put(%d, %d);\n    log(c.get(%d));\n" % (k, v, k)
    if b == "write_revert":
        return "    let c = abi(Store, CONTRACT_ID);\n    c.put(%d, %d);\n    revert(%du64);\n" % (k, v, c)
    if b == "read":
        return "    let c = abi(Store, CONTRACT_ID);\n    log(c.get(%d));\n" % k
    raise ValueError(b)


def render(ptype, tests):
    src = HDR[ptype]
    for t in tests:
        src += "%s\nfn %s() {\n%s}\n" % (attribute(t), t["name"], body(t))
    return src


def assemble(suites, ptype, tag, per_pkg=320):
    """Concatenate model suites into packages (each package is itself a suite: a sequence of tests).
    Returns list of {"id", "ptype", "tests": [...], "groups": [suite prefixes]} in two declaration orders:
    order "a": suites in pool order, names s<g>_t<pos>; order "b": the same tests declared in reverse order with
    names r<g'>_t<pos'> numbered so that the name order is reversed as well."""
    pkgs, cur, groups = [], [], []
    n = 0

    def flush():
        nonlocal cur, groups, n
        if not cur:
            return
        for order in ("a", "b"):
            tests = []
            seq = cur if order == "a" else list(reversed(cur))
            for gi, s in enumerate(seq):
                ts = s["tests"] if order == "a" else list(reversed(s["tests"]))
                for pi, t in enumerate(ts):
                    t2 = dict(t)
                    t2["name"] = "%s%03d_t%d" % ("s" if order == "a" else "r", gi, pi + 1)
                    t2["val"] = 100 + len(tests)
                    tests.append(t2)
            pkgs.append({"id": "%s%s%03d%s" % (tag, ptype[0], n, order), "ptype": ptype, "tests": tests, "order": order,
                         "ngroups": len(seq)})
        n += 1
        cur, groups = [], []

    count = 0
    for s in suites:
        if count + len(s["tests"]) > per_pkg:
            flush()
            count = 0
        cur.append(s)
        count += len(s["tests"])
    flush()
    return pkgs


def runs_for(pkg):
    """Runner configurations of one package: no filter with 1, 4, 16 runners; then name filters (4 runners):
    one whole test name, one suite prefix, a prefix shared by ten suites, a phrase matching nothing, exact match."""
    pre = "s" if pkg["order"] == "a" else "r"
    g = pkg["ngroups"]
    mid = "%s%03d" % (pre, g // 2)
    some_test = pkg["tests"][len(pkg["tests"]) // 3]["name"]
    return [{"runners": 1, "filter": None}, {"runners": 4, "filter": None}, {"runners": 16, "filter": None},
            {"runners": 4, "filter": some_test}, {"runners": 4, "filter": mid + "_"}, {"runners": 16, "filter": mid[:3]},
            {"runners": 1, "filter": "_t2"}, {"runners": 4, "filter": "zzz"}]


def execute(ctx, pkgs, procs=4, profile="debug"):
    """Run vh-forctest over pkgs (parallel processes). Returns {pkgid: {"built": ev, "runs": [ev]}}"""
    ctx.build_vh("vh-forctest")
    from concurrent.futures import ThreadPoolExecutor
    procs = max(1, min(procs, len(pkgs)))
    shards = [pkgs[i::procs] for i in range(procs)]

    def one(a):
        idx, shard = a
        inp = os.path.join(ctx.work, "ft-%d.in.ndjson" % idx)
        outp = os.path.join(ctx.work, "ft-%d.out.ndjson" % idx)
        recs = [{"id": p["id"], "files": {"src/main.sw": render(p["ptype"], p["tests"])}, "profile": profile,
                 "runs": runs_for(p)} for p in shard]
        write_ndjson(inp, recs)
        p = ctx.vh("vh-forctest", ["--in", inp, "--out", outp, "--work", os.path.join(ctx.work, "ftpk-%d" % idx)], check=False,
                   timeout=7200)
        evs = read_ndjson(outp) if os.path.exists(outp) else []
        return evs, p.returncode, p.stderr[-2000:]
    with ThreadPoolExecutor(max_workers=procs) as ex:
        outs = list(ex.map(one, enumerate(shards)))
    res = {p["id"]: {"built": None, "runs": [], "crash": None} for p in pkgs}
    for evs, rc, err in outs:
        last = None
        for e in evs:
            if e["ev"] == "Start":
                last = e["id"]
            elif e["ev"] == "Built":
                res[e["id"]]["built"] = e
            elif e["ev"] == "Run":
                res[e["id"]]["runs"].append(e)
        if rc != 0 and last is not None:
            res[last]["crash"] = {"rc": rc, "stderr": err}
    return res


def trace_records(pkgs, res):
    """One trace record per (package, run)."""
    recs, failures = [], []
    for p in pkgs:
        r = res[p["id"]]
        b = r["built"]
        if r["crash"] or b is None or not b["ok"]:
            failures.append({"pkg": p["id"], "detail": json.dumps(r["crash"] or b)[-1500:]})
            continue
        for run in r["runs"]:
            if not run["ok"]:
                failures.append({"pkg": p["id"], "detail": "run %d failed: %s" % (run["run"], json.dumps(run)[-800:])})
                continue
            results = []
            for t in run["tests"]:
                logs = [x["data"] if x["t"] == "logdata" else x.get("ra", []) for x in t["logs"]]
                results.append({"test": t["test"], "out": "revert" if t["state"]["k"] == "revert" else "return",
                                "codeb": t["state"]["v"] if t["state"]["k"] == "revert" else [],
                                "logs": logs, "passed": t["passed"], "cond": t["cond"]["k"], "condcode": t["cond"]["v"]})
            recs.append({"id": "%s#run%d" % (p["id"], run["run"]), "pkg": p["id"], "ptype": p["ptype"], "runners": run["runners"],
                         "filter": run["filter"] or "", "suite": p["tests"], "results": results})
    return recs, failures
