#!/usr/bin/env python3
"""Build each test of generated package seed S alone in a profile; report which fail."""
import sys, json, os
sys.path.insert(0, '/verif')
from lib.common import Ctx
from lib.swaygen import *
from lib.swayexec import run_packages
s = int(sys.argv[1]); ncase = int(sys.argv[2]); prof = sys.argv[3]
ctx = Ctx("bisect", "quick", 0)
g = Gen(s)
tests = [normalize(g.case("case_%d" % i)) for i in range(ncase)]
normalize(g.prog)
pkgs = []
for t in tests:
    src = Renderer(g.prog).package([t])
    pkgs.append({"id": "b_%s" % t["name"], "files": {"src/main.sw": src}, "profile": prof, "want": ["keep"]})
res = run_packages(ctx, pkgs, procs=8)
for pid, r in res.items():
    b = r["built"]
    if not b or not b["ok"]:
        d = (b or {}).get("diag") or ""
        i = d.find("error:")
        print(pid, "FAILED", d[i:i+200].replace("\n", " "))
