#!/usr/bin/env python3
"""Generate packages, run them (debug+release), validate against SwaySem with TLC."""
import sys, json, os, time
sys.path.insert(0, '/verif')
from lib.common import Ctx, write_ndjson
from lib.swaygen import *
from lib.swayexec import run_packages, observe
seeds = [int(x) for x in sys.argv[1].split(',')]
ncase = int(sys.argv[2]) if len(sys.argv) > 2 else 10
ctx = Ctx("trysem", "quick", 0)
pkgs, meta = [], {}
for s in seeds:
    g = Gen(s)
    tests = [normalize(g.case("case_%d" % i)) for i in range(ncase)]
    normalize(g.prog)
    src = Renderer(g.prog).package(tests)
    meta["g%d" % s] = (g.prog, tests)
    for prof in ("debug", "release"):
        pkgs.append({"id": "g%d_%s" % (s, prof), "files": {"src/main.sw": src}, "profile": prof})
res = run_packages(ctx, pkgs, procs=8)
recs = []
for s in seeds:
    prog, tests = meta["g%d" % s]
    obs = {t["name"]: [] for t in tests}
    for prof in ("debug", "release"):
        r = res["g%d_%s" % (s, prof)]
        if not (r["built"] and r["built"]["ok"]):
            print("build failed", s, prof); continue
        for t in r["tests"]:
            o = observe(t); o["cfg"] = prof
            obs[t["test"]].append(o)
    recs.append({"id": "g%d" % s, "prog": prog, "tests": [{"name": t["name"], "body": t["body"], "obs": obs[t["name"]]} for t in tests]})
tp = os.path.join(ctx.work, "trace.ndjson")
write_ndjson(tp, recs)
t0 = time.time()
tr = ctx.tlc_trace("Trace_SwaySem", "Trace_SwaySem", tp)
print("TLC", tr.violated, "states", tr.generated, "wall %.1fs" % (time.time() - t0))
if tr.violated:
    import re
    m = re.search(r'<<"FIRST-UNMATCHED".*', tr.out)
    print(m.group(0)[:1500] if m else tr.out[-3000:])
    k = re.search(r'<<"FIRST-UNMATCHED", (\d+), (\d+)', tr.out)
    if k:
        l, kk = int(k.group(1)), int(k.group(2))
        t = recs[l-1]["tests"][kk-1]
        print("OBS:", json.dumps(t["obs"])[:1500])
        print("SRC:", Renderer(recs[l-1]["prog"]).block(t["body"])[:3000])
