#!/bin/bash
# Mutation lab: a scratch worktree of /repo plus a copy of /verif whose paths point at it, so that a seeded
# change can be checked without touching /repo (other builders build from /repo's working tree).
# usage: tools/lab_setup.sh /tmp/lab     (idempotent: refreshes the copies)
set -e
LAB=${1:-/tmp/lab}
mkdir -p $LAB
if [ ! -d $LAB/repo ]; then
  git -C /repo worktree add --detach $LAB/repo HEAD >/dev/null
else
  git -C $LAB/repo checkout -q --detach $(git -C /repo rev-parse HEAD)
  git -C $LAB/repo checkout -q -- .
fi
mkdir -p $LAB/verif
rsync -a --delete --exclude work/ --exclude vh/target/ --exclude .git/ --exclude __pycache__/ /verif/ $LAB/verif/
if [ ! -d $LAB/verif/vh/target ]; then
  mkdir -p $LAB/verif/vh/target
  rsync -a /verif/vh/target/ $LAB/verif/vh/target/
fi
grep -rlI "/repo" $LAB/verif --include=*.py --include=*.rs --include=*.toml --include=check 2>/dev/null | xargs sed -i "s#/repo#$LAB/repo#g"
sed -i "s#\"/verif/#\"$LAB/verif/#g" $LAB/verif/lib/*.py $LAB/verif/checks/*.py 2>/dev/null || true
echo "lab ready: $LAB (repo at $(git -C $LAB/repo rev-parse --short HEAD))"
