#!/usr/bin/env python3
"""Print the prompt for an independent 'seeded change' sub-agent for property ID (property text + worktree only)."""
import json, sys
pid = sys.argv[1]
wt = "/tmp/mut/%s" % (sys.argv[2] if len(sys.argv) > 2 else pid)
for l in open('/verif/properties.jsonl'):
    d = json.loads(l)
    if d['id'] == pid:
        break
print(f"""You are given a scratch git worktree of the FuelLabs/sway repository (the Sway compiler toolchain: parser, type checker, IR optimizer, FuelVM backend, forc package manager, formatter, LSP) at {wt}. Work ONLY inside {wt} (never touch /repo or /verif; you know nothing about any verification machinery and must not look for it). There is no network; build with `cargo ... --offline` and set `CARGO_TARGET_DIR=/tmp/mut/target` for every cargo command (a cache shared with other worktrees: cargo serialises concurrent builds, be patient -- builds can take 10-30 minutes on this busy machine; IMPORTANT: other worktrees share the same artifact hashes, so before EVERY cargo command `touch -d "+2 days"` the source files you changed and the lib.rs of their crate, and double check from the "Compiling ... ({wt}/...)" lines that the run really used YOUR tree; copy any binary you need right after building it).

Here is a semantic property that the toolchain is supposed to satisfy:

  Title: {d['title']}
  Statement: {d['statement']}
  Quantified over: {d['quantifier']['text']}
  Where it lives: {', '.join(d['anchors'].get('files', []))}

Your task: produce ONE realistic change to the repository's source (the kind of bug a maintainer could plausibly introduce in a refactoring, optimisation or "simplification" commit) that BREAKS this property while the code still compiles and the repository's existing tests still pass. The change must need something specific to manifest -- a particular interleaving, a crash or fault at a particular point, a multi-step sequence of operations, an unusual input, or two cooperating sites that each look fine alone -- not something ordinary use would expose at once. Do not add new tests to the repository's test suite as part of the change, do not touch test files, #[cfg(test)] modules or snapshot files, do not change or remove lines guarded by cfg(fuellabs_sway_verif) (inert instrumentation; leave them where they are), keep the change small (ideally < 30 changed lines).

Deliver, in the directory {wt}/_seeded/ (create it; it is not part of the repo):
  1. patch.diff  -- `git -C {wt} diff` of your change (source files only; make sure `_seeded/` itself is not in the diff).
  2. a demonstration -- a small Rust test file, script or Sway program with exact instructions (demo.md) that FAILS (shows the property violated) with the change and PASSES without it. Run it both ways yourself and paste both outputs into demo.md. A standalone cargo test you run with `cargo test -p <crate> --offline <name>` from a temporary test file is fine (describe where to put it). For compiler properties a small Sway package is best: you may build the forc binary (`CARGO_TARGET_DIR=/tmp/mut/target cargo build -p forc --offline`, then `/tmp/mut/target/debug/forc build|test --path <pkg> [--release] [--logs]`; in the package's Forc.toml use `std = {{ path = "{wt}/sway-lib-std" }}`). The demonstration is NOT part of patch.diff.
  3. meta.json -- {{"property": "{pid}", "summary": one sentence, "needs_to_manifest": what specific input/sequence/interleaving is required, "files_changed": [...], "tests_run": the exact commands you ran to check that the existing tests of the affected crate(s) still pass and their result}}.

Check that the existing tests of the crates you touched still pass with your change (`CARGO_TARGET_DIR=/tmp/mut/target cargo test -p <crate> --offline`; a few tests that need the network fail with and without the change -- compare against a run without your change if a failure looks unrelated). Leave the worktree WITH your change applied when you finish. Reply with a short summary: what you changed, why it breaks the property, what it needs to manifest, and the outputs of the demonstration with and without the change.""")
