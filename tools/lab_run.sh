#!/bin/bash
# usage: tools/lab_run.sh <patch.diff|none> <tier> <ID>...   : apply patch in the lab repo, run checks there, revert.
set -u
LAB=/tmp/lab
PATCH=$1; TIER=$2; shift 2
cd $LAB/repo && git checkout -q -- . 
if [ "$PATCH" != "none" ]; then git apply "$PATCH" || { echo "PATCH DOES NOT APPLY"; exit 3; }; fi
mkdir -p $LAB/logs
for id in "$@"; do
  ( cd $LAB/verif && ./check $id --tier $TIER > $LAB/logs/$id.$TIER.log 2>&1; echo "rc=$?" >> $LAB/logs/$id.$TIER.log )
  echo "$id $(tail -1 $LAB/logs/$id.$TIER.log) violations=$(grep -c '^VIOLATION' $LAB/logs/$id.$TIER.log) known=$(grep -c '^KNOWN-FINDING' $LAB/logs/$id.$TIER.log)"
done
cd $LAB/repo && git checkout -q -- .
