#!/usr/bin/env python3
"""Greedy minimisation of the set of tests of generated package seed S that makes the build fail."""
import sys, json, os
sys.path.insert(0, '/verif')
from lib.common import Ctx
from lib.swaygen import *
from lib.swayexec import run_packages
s = int(sys.argv[1]); ncase = int(sys.argv[2]); prof = sys.argv[3]
ctx = Ctx("ddmin", "quick", 0)
g = Gen(s)
tests = [normalize(g.case("case_%d" % i)) for i in range(ncase)]
normalize(g.prog)
def fails(sets):
    pkgs = [{"id": "d%d" % i, "files": {"src/main.sw": Renderer(g.prog).package(ts)}, "profile": prof} for i, ts in enumerate(sets)]
    res = run_packages(ctx, pkgs, procs=8)
    return [not (res["d%d" % i]["built"] and res["d%d" % i]["built"]["ok"]) for i in range(len(sets))]
cur = tests
assert fails([cur])[0]
while True:
    cands = [cur[:i] + cur[i+1:] for i in range(len(cur))]
    if not cands: break
    f = fails(cands)
    if not any(f): break
    cur = cands[f.index(True)]
    print("reduced to", [t["name"] for t in cur], flush=True)
src = Renderer(g.prog).package(cur)
open("/verif/work/ddmin_result.sw", "w").write(src)
print(src)
