#!/usr/bin/env python3
import sys, json, os
sys.path.insert(0, '/verif')
from lib.common import Ctx
from lib.swaygen import *
from lib.swayexec import run_packages
seeds = [int(x) for x in sys.argv[1].split(',')]
ncase = int(sys.argv[2]) if len(sys.argv) > 2 else 10
ctx = Ctx("trygen", "quick", 0)
pkgs = []
for s in seeds:
    g = Gen(s)
    tests = [normalize(g.case("case_%d" % i)) for i in range(ncase)]
    normalize(g.prog)
    src = Renderer(g.prog).package(tests)
    pkgs.append({"id": "g%d" % s, "files": {"src/main.sw": src}, "profile": "debug"})
res = run_packages(ctx, pkgs, procs=8)
for pid, r in res.items():
    b = r["built"]
    if r["crashed"]:
        print(pid, "CRASHED", r["crashed"]["stderr"][-500:])
    elif not b["ok"]:
        d = b.get("diag") or ""
        i = d.find("error")
        import re
        msgs = [l.strip()[:300] for l in d.splitlines() if re.search(r"\^+ |\^$|- ", l) and "warning" not in l]
        print(pid, "BUILD FAILED panic=%s" % b.get("panic"), "\n   ".join(msgs[:12]))
    else:
        outs = [t["state"]["k"] for t in r["tests"]]
        print(pid, "ok", len(r["tests"]), "tests;", outs.count("revert"), "reverts")
