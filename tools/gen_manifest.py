#!/usr/bin/env python3
"""Generate MANIFEST.json from tools/manifest_checks.json (claimed checks) + properties.jsonl."""
import json, os, subprocess
ROOT = os.path.dirname(os.path.dirname(os.path.abspath(__file__)))
props = [json.loads(l) for l in open(os.path.join(ROOT, "properties.jsonl"))]
claimed = json.load(open(os.path.join(ROOT, "tools", "manifest_checks.json")))
hooks_commits = []
try:
    out = subprocess.run(["git", "-C", "/repo", "log", "--format=%H %s"], capture_output=True, text=True).stdout
    for line in out.splitlines():
        h, s = line.split(" ", 1)
        if s.startswith("verif-hook:"):
            hooks_commits.append(h)
except Exception:
    pass
checks = []
na = []
for p in props:
    pid = p["id"]
    c = claimed["checks"].get(pid)
    if c:
        checks.append({
            "property_id": pid,
            "quick_cmd": "./check %s --tier quick" % pid,
            "thorough_cmd": "./check %s --tier thorough" % pid,
            "evidence_file": "/verif/evidence/%s.json" % pid,
            "replay_cmd_template": "./check %s --replay {path}" % pid,
            "engine": c["engine"],
            "level_claimed": {"category": c["level"], "text": c["text"], "design_ref": c.get("design_ref", "DESIGN.md §6 " + pid)},
            "level_note": c["note"],
            "technique": c["technique"],
        })
    else:
        na.append({"property_id": pid, "reason": claimed["not_applicable"].get(pid, "check not built yet in this round; see DESIGN.md §6 for the planned TLA+ model")})
m = {
    "version": 1,
    "setup_cmd": "cd /verif/vh && cargo build --release --offline 2>&1 | tail -3",
    "hooks": {
        "guard": "--cfg fuellabs_sway_verif",
        "enable": "vh/.cargo/config.toml passes rustflags --cfg fuellabs_sway_verif when building /repo crates as path dependencies of the harness; hooks are inert unless SWAY_VERIF_* env vars or an installed tracer/controller turn them on",
        "baseline_off_cmd": "cd /repo && cargo nextest run --workspace --no-fail-fast --tool-config-file pb:/w/lib/nextest.toml --profile pb --test-threads 8 --offline  (fallback: cargo test --workspace --no-fail-fast --offline)",
        "source_commits": hooks_commits,
        "add_only": True,
    },
    "engines": claimed["engines"],
    "checks": checks,
    "notes": claimed.get("notes", ""),
    "not_applicable": na,
}
json.dump(m, open(os.path.join(ROOT, "MANIFEST.json"), "w"), indent=1)
print("checks:", len(checks), "not_applicable:", len(na))
