#!/usr/bin/env python3
"""IR text round-trip triage: build seeds in both profiles with pass tracing + IR dumps; list distinct failures."""
import sys, json, os, re, glob
sys.path.insert(0, '/verif')
from lib.common import Ctx
from lib import semcheck
from lib.swayexec import run_packages
seeds = [int(x) for x in sys.argv[1].split(',')]
ctx = Ctx("tryrt", "quick", 0)
jobs = []
for s in seeds:
    p = semcheck.gen_package(s)
    for prof in ("debug", "release"):
        jobs.append({"id": "r%d_%s" % (s, prof), "files": {"src/main.sw": p["src"]}, "profile": prof, "trace_passes": True,
                     "dump_ir": "/verif/work/tryrt/ir_%d_%s" % (s, prof), "run": False})
res = run_packages(ctx, jobs, procs=8)
seen = {}
for jid, r in res.items():
    for p in (r["passes"] or []):
        for fld in ("rt_parse", "rt_idem", "rt_verify"):
            v = p[fld]
            if v not in ("ok", "n/a"):
                key = fld + ":" + re.sub(r"\d+", "N", v)[:160]
                if key in seen: continue
                line = ""
                m = re.search(r"error at (\d+):(\d+)", v)
                if m:
                    fs = [x for x in glob.glob("/verif/work/tryrt/ir_%s/%03d-*.ir" % (jid[1:], p["n"])) if ("reparsed" in x) == (fld == "rt_idem")]
                    if fs:
                        lines = open(fs[0]).read().splitlines()
                        ln = int(m.group(1))
                        line = lines[ln - 1][:220] if ln - 1 < len(lines) else ""
                seen[key] = (jid, p["n"], p["pass"], v[:300], line)
    b = r["built"]
    if not (b and b["ok"]): print(jid, "BUILD FAILED")
for k, v in seen.items():
    print(v)
print("distinct failures:", len(seen))
