#!/usr/bin/env python3
"""Development aid: packages holding only the pattern cases of the given seeds, built debug+release, validated by TLC."""
import sys, json
sys.path.insert(0, '/verif')
from lib.common import Ctx
from lib import semcheck
from lib.swaygen import Gen, Renderer, normalize
seeds = [int(x) for x in sys.argv[1].split(',')]
ctx = Ctx("trypat", "quick", 0)
pkgs = []
for s in seeds:
    g = Gen(s)
    tests = [normalize(t) for t in g.pattern_cases(s)]
    normalize(g.prog)
    pkgs.append({"id": "g%d" % s, "seed": s, "prog": g.prog, "tests": tests, "src": Renderer(g.prog).package(tests)})
if len(sys.argv) > 2:
    print(pkgs[0]["src"]); sys.exit(0)
configs = [{"name": "debug", "profile": "debug"}, {"name": "release", "profile": "release"}]
obs, failures, _ = semcheck.run_configs(ctx, pkgs, configs, procs=4)
print("failures", json.dumps(failures)[:2000])
validated, rejections = semcheck.validate(ctx, pkgs, obs)
print("validated", validated, "rejections", len(rejections))
for rj in rejections[:10]:
    print(json.dumps(rj)[:1500])
