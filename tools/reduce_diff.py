#!/usr/bin/env python3
"""Reduce a generated test (seed S, case K of N) while debug and release observations differ."""
import sys, json, os, copy
sys.path.insert(0, '/verif')
from lib.common import Ctx
from lib.swaygen import *
from lib.swayexec import run_packages, observe
s = int(sys.argv[1]); ncase = int(sys.argv[2]); k = int(sys.argv[3])
profs = sys.argv[4].split(',') if len(sys.argv) > 4 else ["debug", "release"]
ctx = Ctx("reduce", "quick", 0)
g = Gen(s)
tests = [normalize(g.case("case_%d" % i)) for i in range(ncase)]
normalize(g.prog)
prog = g.prog
test = tests[k]
others = [t for i, t in enumerate(tests) if i != k]

def differs(cands):
    pkgs = []
    for i, (p, t, oth) in enumerate(cands):
        src = Renderer(p).package([t] + oth)
        for prof in profs:
            pkgs.append({"id": "c%d_%s" % (i, prof), "files": {"src/main.sw": src}, "profile": prof})
    res = run_packages(ctx, pkgs, procs=12)
    out = []
    for i in range(len(cands)):
        obs = []
        for prof in profs:
            r = res["c%d_%s" % (i, prof)]
            if not (r["built"] and r["built"]["ok"]) or not r["tests"]:
                obs = None; break
            tt = [x for x in r["tests"] if x["test"] == t_name]
            obs.append(json.dumps(observe(tt[0]), sort_keys=True))
        out.append(obs is not None and len(set(obs)) > 1)
    return out

def blocks(node, acc):
    if isinstance(node, dict):
        if "ss" in node and "tail" in node:
            acc.append(node)
        for v in node.values():
            blocks(v, acc)
    elif isinstance(node, list):
        for v in node:
            blocks(v, acc)

t_name = test["name"]
assert differs([(prog, test, others)])[0], "does not differ"
cur_p, cur_t, cur_o = prog, test, others
progress = True
while progress:
    progress = False
    # candidates: remove one statement somewhere (test body or helper bodies), or drop a helper fn
    cands = []
    for oi in range(len(cur_o)):
        cands.append((cur_p, cur_t, cur_o[:oi] + cur_o[oi+1:]))
    for oi in range(len(cur_o)):
        ob = []
        blocks(cur_o[oi], ob)
        for bi in range(len(ob)):
            for si in range(len(ob[bi]["ss"])):
                o2 = copy.deepcopy(cur_o)
                b2 = []
                blocks(o2[oi], b2)
                del b2[bi]["ss"][si]
                cands.append((cur_p, cur_t, o2))
    bl = []
    blocks(cur_t, bl)
    nb = len(bl)
    for bi in range(nb):
        for si in range(len(bl[bi]["ss"])):
            t2 = copy.deepcopy(cur_t)
            b2 = []
            blocks(t2, b2)
            del b2[bi]["ss"][si]
            cands.append((cur_p, t2, cur_o))
    for fn in list(cur_p["fns"]):
        p2 = copy.deepcopy(cur_p)
        del p2["fns"][fn]
        cands.append((p2, cur_t, cur_o))
    for batch in range(0, len(cands), 12):
        ds = differs(cands[batch:batch + 12])
        if any(ds):
            cur_p, cur_t, cur_o = cands[batch + ds.index(True)]
            progress = True
            print("reduced: stmts", sum(len(b["ss"]) for b in (lambda a: (blocks(cur_t, a), a)[1])([])), "fns", len(cur_p["fns"]), "others", len(cur_o), flush=True)
            break
src = Renderer(cur_p).package([cur_t] + cur_o)
open("/verif/work/reduce_result.sw", "w").write(src)
json.dump({"prog": cur_p, "test": cur_t, "others": cur_o}, open("/verif/work/reduce_result.json", "w"))
print(src)
