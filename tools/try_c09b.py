#!/usr/bin/env python3
"""Development aid: only the buffer-boundary cases of C09 (debug + release), validated by Trace_AbiCodec."""
import sys, json
sys.path.insert(0, '/verif')
from lib.common import Ctx
from lib import abigen
ctx = Ctx("tryc09b", "quick" if len(sys.argv) < 2 else sys.argv[1], 0)
bpk = abigen.c09_packages(abigen.boundary_recs(ctx.quick, ctx.seed), "cb", per_pkg=36)
brel = [dict(p, id=p["id"].replace("cb", "cq"), profile="release") for p in bpk]
trace, failures = abigen.run_and_collect(ctx, bpk + brel, procs=2)
print("failures", json.dumps(failures)[:3000])
validated, rej = abigen.validate_trace(ctx, "Trace_AbiCodec", "Trace_AbiCodec", trace, "tr")
print("validated", validated, "rejected", len(rej))
for r in rej[:5]:
    print(r["rec"]["id"], r["failed"], json.dumps(r["rec"]["v"])[:100], r["rec"]["out"], [len(x) for x in r["rec"]["logs"]])
