#!/usr/bin/env python3
"""Leave-one-out over the release pass pipeline on a .sw file: which pass removal changes the observation?"""
import sys, json
sys.path.insert(0, '/verif')
from lib.common import Ctx
from lib.swayexec import run_packages, observe
from lib.passes import *
src = open(sys.argv[1]).read()
ctx = Ctx("bisectpass", "quick", 0)
pkgs = [{"id": "dbg", "files": {"src/main.sw": src}, "profile": "debug"},
        {"id": "rel", "files": {"src/main.sw": src}, "profile": "release"},
        {"id": "rel_dbgpasses", "files": {"src/main.sw": src}, "profile": "release", "env": {"SWAY_VERIF_PASSES": ",".join(DEBUG)}},
        {"id": "dbg_relpasses", "files": {"src/main.sw": src}, "profile": "debug", "env": {"SWAY_VERIF_PASSES": ",".join(RELEASE)}},
        {"id": "rel_noasm", "files": {"src/main.sw": src}, "profile": "release", "env": {"SWAY_VERIF_ASM_OPTS": ""}}]
for i, p in enumerate(RELEASE):
    if i == 0: continue
    l = RELEASE[:i] + RELEASE[i+1:]
    pkgs.append({"id": "no%02d_%s" % (i, p.replace("-", "_")), "files": {"src/main.sw": src}, "profile": "release", "env": {"SWAY_VERIF_PASSES": ",".join(l)}})
res = run_packages(ctx, pkgs, procs=12)
for pid, r in res.items():
    if r["built"] and r["built"]["ok"]:
        o = [observe(t) for t in r["tests"]]
        print(pid, json.dumps([[l[-3:] for l in x["logs"]] + [x["out"]] for x in o]))
    else:
        print(pid, "BUILD FAILED", ((r["built"] or {}).get("diag") or "")[-300:])
