#!/bin/bash
# usage: tools/run_checks.sh quick C20 C21 ...   -> logs under work/runlogs/
tier=$1; shift
mkdir -p /verif/work/runlogs
for id in "$@"; do
  ( cd /verif && /usr/bin/time -f "%e s" ./check $id --tier $tier > work/runlogs/$id.$tier.log 2>&1; echo "rc=$?" >> work/runlogs/$id.$tier.log )
  echo "$id $(tail -1 work/runlogs/$id.$tier.log) $(grep -c VIOLATION work/runlogs/$id.$tier.log) violations"
done
