#!/usr/bin/env python3
"""Build+run semcheck.gen_package(seed) for given seeds in debug+release and validate with TLC."""
import sys, json
sys.path.insert(0, '/verif')
from lib.common import Ctx
from lib import semcheck
seeds = [int(x) for x in sys.argv[1].split(',')]
ctx = Ctx("trypkg", "quick", 0)
pkgs = [semcheck.gen_package(s) for s in seeds]
obs, failures, _ = semcheck.run_configs(ctx, pkgs, [{"name": "debug", "profile": "debug"}, {"name": "release", "profile": "release"}], procs=8)
for f in failures: print("FAIL", f["pkg"], f["cfg"], f["kind"], f["detail"][:400])
val, rej = semcheck.validate(ctx, pkgs, obs)
print("validated", val, "rejections", len(rej))
for r in rej[:5]:
    print(r["pkg"], r["test"], "expected", json.dumps(r["expected"])[:300])
    for o in r["obs"]: print("   ", o["cfg"], json.dumps({k: o[k] for k in ("logs", "out", "code")})[:300])
