use std::io::{BufRead, Write};

/// Read ndjson records from a path ("-" = stdin).
pub fn read_ndjson(path: &str) -> Vec<serde_json::Value> {
    let rd: Box<dyn BufRead> = if path == "-" {
        Box::new(std::io::BufReader::new(std::io::stdin()))
    } else {
        Box::new(std::io::BufReader::new(
            std::fs::File::open(path).unwrap_or_else(|e| panic!("open {path}: {e}")),
        ))
    };
    rd.lines()
        .map(|l| l.unwrap())
        .filter(|l| !l.trim().is_empty())
        .map(|l| serde_json::from_str(&l).unwrap_or_else(|e| panic!("bad json line {l}: {e}")))
        .collect()
}

pub struct NdjsonOut {
    w: std::io::BufWriter<Box<dyn Write + Send>>,
}
impl NdjsonOut {
    pub fn new(path: &str) -> Self {
        let w: Box<dyn Write + Send> = if path == "-" {
            Box::new(std::io::stdout())
        } else {
            Box::new(std::fs::File::create(path).unwrap_or_else(|e| panic!("create {path}: {e}")))
        };
        NdjsonOut { w: std::io::BufWriter::new(w) }
    }
    pub fn emit(&mut self, v: &serde_json::Value) {
        serde_json::to_writer(&mut self.w, v).unwrap();
        self.w.write_all(b"\n").unwrap();
        self.w.flush().unwrap();
    }
    pub fn flush(&mut self) {
        self.w.flush().unwrap();
    }
}
impl Drop for NdjsonOut {
    fn drop(&mut self) {
        let _ = self.w.flush();
    }
}

/// Silence the default panic hook output (panics of code under test are data).
pub fn quiet_panics() {
    std::panic::set_hook(Box::new(|_| {}));
}

pub fn panic_msg(e: Box<dyn std::any::Any + Send>) -> String {
    if let Some(s) = e.downcast_ref::<&str>() {
        s.to_string()
    } else if let Some(s) = e.downcast_ref::<String>() {
        s.clone()
    } else {
        "<non-string panic>".into()
    }
}

pub fn arg_after(args: &[String], flag: &str) -> Option<String> {
    args.iter().position(|a| a == flag).and_then(|i| args.get(i + 1).cloned())
}
