//! vh-match: front-end-only compilation (forc_pkg::check, no codegen) of packages full of match
//! expressions; projects the diagnostics of the checked (last) package to structured records (C14).
//!
//! Input (ndjson, --in): {"id": "mx0", "files": {"src/main.sw": "..."}, "std": true|false}
//! Output (ndjson, --out): one line per package
//!   {"id", "ok": bool (no errors), "panic": msg|null, "err": msg|null, "wall_ms",
//!    "errors":   [{"k":"nonexh","missing":text,"start","end","line"} | {"k":"other","text","start","end","line"}],
//!    "warnings": [{"k":"unreach","start","end","line","arm":text,"last":bool,"catchall":bool,"interior":bool}],
//!    "other_warnings": n}
//! `line` is the 1-based line of the span start in the entry file; only diagnostics whose span lies in
//! the entry file of the checked package are listed (`--all-files`: in any file of the package; used to
//! compare the repository's own match tests before/after a fix). Purely mechanical: no judgement is made here.
use serde_json::{json, Value};
use std::path::{Path, PathBuf};
use sway_error::{error::CompileError, warning::Warning};
use sway_types::Spanned;
use vh::util::*;

fn write_pkg(dir: &Path, rec: &Value) {
    let _ = std::fs::remove_dir_all(dir);
    std::fs::create_dir_all(dir.join("src")).unwrap();
    let id = rec["id"].as_str().unwrap();
    let std = rec.get("std").and_then(|v| v.as_bool()).unwrap_or(true);
    let mut m = format!(
        "[project]\nauthors = [\"vh\"]\nentry = \"main.sw\"\nlicense = \"Apache-2.0\"\nname = \"{id}\"\n"
    );
    if std {
        m.push_str("\n[dependencies]\nstd = { path = \"/repo/sway-lib-std\" }\n");
    } else {
        m.push_str("implicit-std = false\n");
    }
    std::fs::write(dir.join("Forc.toml"), m).unwrap();
    for (name, text) in rec["files"].as_object().unwrap() {
        let p = dir.join(name);
        if let Some(parent) = p.parent() {
            std::fs::create_dir_all(parent).unwrap();
        }
        std::fs::write(p, text.as_str().unwrap()).unwrap();
    }
}

fn main() {
    let args: Vec<String> = std::env::args().collect();
    let input = arg_after(&args, "--in").expect("--in");
    let output = arg_after(&args, "--out").expect("--out");
    let work = PathBuf::from(arg_after(&args, "--work").expect("--work"));
    let recs = read_ndjson(&input);
    let mut out = NdjsonOut::new(&output);
    quiet_panics();
    for rec in &recs {
        let id = rec["id"].as_str().unwrap().to_string();
        let dir = work.join(&id);
        write_pkg(&dir, rec);
        let entry = dir.join("src").join("main.sw");
        let entry = std::fs::canonicalize(&entry).unwrap_or(entry);
        let t0 = std::time::Instant::now();
        let res = std::panic::catch_unwind(std::panic::AssertUnwindSafe(|| -> anyhow::Result<_> {
            let opts = forc_pkg::PkgOpts {
                path: Some(dir.to_string_lossy().to_string()),
                offline: true,
                terse: true,
                locked: false,
                output_directory: None,
                ipfs_node: Default::default(),
            };
            let plan = forc_pkg::BuildPlan::from_pkg_opts(&opts)?;
            let engines = sway_core::Engines::default();
            let mut results = forc_pkg::check(
                &plan,
                sway_core::BuildTarget::default(),
                true,
                None,
                false,
                &engines,
                None,
                &[],
                &[],
                sway_core::DbgGeneration::None,
            )?;
            let complete = results.len() == plan.compilation_order().len();
            let (_, handler) = results.pop().ok_or_else(|| anyhow::anyhow!("no result"))?;
            let (errors, warnings, _) = handler.consume();
            let all_files = args.iter().any(|a| a == "--all-files");
            let file_of = |sp: &sway_types::Span| -> String {
                sp.source_id().map(|sid| engines.se().get_path(sid).display().to_string()).unwrap_or_default()
            };
            let in_entry = |sp: &sway_types::Span| -> bool {
                if all_files {
                    return file_of(sp).starts_with(&*dir.to_string_lossy());
                }
                match sp.source_id() {
                    Some(sid) => {
                        let p = engines.se().get_path(sid);
                        std::fs::canonicalize(&p).unwrap_or(p) == entry
                    }
                    None => false,
                }
            };
            let mut es = vec![];
            for e in &errors {
                let sp = e.span();
                let here = in_entry(&sp);
                let line = sp.start_line_col_one_index().line;
                match e {
                    CompileError::MatchExpressionNonExhaustive { missing_patterns, .. } if here => {
                        es.push(json!({"k":"nonexh","missing":missing_patterns,"start":sp.start(),"end":sp.end(),"line":line,"file":file_of(&sp)}))
                    }
                    _ => es.push(json!({"k":"other","text":format!("{e}"),"start":sp.start(),"end":sp.end(),"line":line,"entry":here})),
                }
            }
            let mut ws = vec![];
            let mut other = 0usize;
            for w in &warnings {
                match &w.warning_content {
                    Warning::MatchExpressionUnreachableArm { unreachable_arm, is_last_arm, is_catch_all_arm, preceding_arms, .. }
                        if in_entry(unreachable_arm) =>
                    {
                        ws.push(json!({"k":"unreach","start":unreachable_arm.start(),"end":unreachable_arm.end(),
                            "line":unreachable_arm.start_line_col_one_index().line,"arm":unreachable_arm.as_str(),
                            "last":is_last_arm,"catchall":is_catch_all_arm,"interior":preceding_arms.is_right(),"file":file_of(unreachable_arm)}))
                    }
                    _ => other += 1,
                }
            }
            Ok((complete, es, ws, other))
        }));
        let ms = t0.elapsed().as_millis() as u64;
        match res {
            Err(e) => out.emit(&json!({"id":id,"ok":false,"panic":panic_msg(e),"err":null,"errors":[],"warnings":[],"wall_ms":ms})),
            Ok(Err(e)) => out.emit(&json!({"id":id,"ok":false,"panic":null,"err":format!("{e:#}"),"errors":[],"warnings":[],"wall_ms":ms})),
            Ok(Ok((complete, es, ws, other))) => out.emit(&json!({"id":id,"ok":es.is_empty() && complete,"complete":complete,
                "panic":null,"err":null,"errors":es,"warnings":ws,"other_warnings":other,"wall_ms":ms})),
        }
        if !args.iter().any(|a| a == "--keep") {
            let _ = std::fs::remove_dir_all(&dir);
        }
    }
    out.flush();
}
