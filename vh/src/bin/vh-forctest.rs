//! vh-forctest: build a package once, run its `#[test]`s through the forc_test library API under several
//! runner configurations (C29).
//!
//! Input (ndjson, --in): one package per line
//!   {"id": "p0", "files": {"src/main.sw": "..."}, "manifest": <Forc.toml text>|null, "profile": "debug"|"release",
//!    "runs": [{"runners": 1, "filter": null|"phrase", "exact": false}, ...]}
//! Output (ndjson, --out):
//!   {"ev":"Start","id"}
//!   {"ev":"Built","id","ok","err","panic","tests":[names in entry order]}
//!   {"ev":"Run","id","run":k,"runners","filter","exact","ok","err","panic",
//!    "tests":[{"test","state":{"k","v"},"logs":[{"t","data"|"ra"}],"passed","cond":{"k","v"}}]}
//! A panic of the code under test is data. Purely mechanical: no judgement is made here.
use serde_json::{json, Value};
use std::path::{Path, PathBuf};
use vh::util::*;

fn word_bytes(w: u64) -> Vec<u8> {
    w.to_be_bytes().to_vec()
}

fn receipt_json(r: &fuel_tx::Receipt) -> Option<Value> {
    use fuel_tx::Receipt::*;
    match r {
        Log { ra, .. } => Some(json!({"t":"log","ra":word_bytes(*ra)})),
        LogData { data, .. } => Some(json!({"t":"logdata","data":data.as_ref().map(|d| d.to_vec()).unwrap_or_default()})),
        other => Some(json!({"t":"other","dbg":format!("{other:?}").chars().take(60).collect::<String>()})),
    }
}

fn write_pkg(dir: &Path, rec: &Value) {
    let _ = std::fs::remove_dir_all(dir);
    std::fs::create_dir_all(dir.join("src")).unwrap();
    let id = rec["id"].as_str().unwrap();
    let manifest = match rec.get("manifest").and_then(|m| m.as_str()) {
        Some(m) => m.to_string(),
        None => format!(
            "[project]\nauthors = [\"vh\"]\nentry = \"main.sw\"\nlicense = \"Apache-2.0\"\nname = \"{id}\"\n\n[dependencies]\nstd = {{ path = \"/repo/sway-lib-std\" }}\n"
        ),
    };
    std::fs::write(dir.join("Forc.toml"), manifest).unwrap();
    for (name, text) in rec["files"].as_object().unwrap() {
        let p = dir.join(name);
        if let Some(parent) = p.parent() {
            std::fs::create_dir_all(parent).unwrap();
        }
        std::fs::write(p, text.as_str().unwrap()).unwrap();
    }
}

fn main() {
    let args: Vec<String> = std::env::args().collect();
    let input = arg_after(&args, "--in").expect("--in");
    let output = arg_after(&args, "--out").expect("--out");
    let work = PathBuf::from(arg_after(&args, "--work").expect("--work"));
    let recs = read_ndjson(&input);
    let mut out = NdjsonOut::new(&output);
    quiet_panics();
    let gas_costs = forc_test::GasCostsSource::BuiltIn.provide_gas_costs().unwrap();

    for rec in &recs {
        let id = rec["id"].as_str().unwrap().to_string();
        out.emit(&json!({"ev":"Start","id":id}));
        let dir = work.join(&id);
        write_pkg(&dir, rec);
        let profile = rec.get("profile").and_then(|v| v.as_str()).unwrap_or("debug").to_string();
        let opts = forc_test::TestOpts {
            pkg: forc_pkg::PkgOpts {
                path: Some(dir.to_string_lossy().to_string()),
                offline: true,
                terse: true,
                locked: false,
                output_directory: None,
                ipfs_node: Default::default(),
            },
            release: profile == "release",
            build_profile: profile.clone(),
            no_output: true,
            ..Default::default()
        };
        let built = std::panic::catch_unwind(std::panic::AssertUnwindSafe(|| -> anyhow::Result<_> {
            let build_opts: forc_pkg::BuildOpts = opts.into();
            let plan = forc_pkg::BuildPlan::from_pkg_opts(&build_opts.pkg)?;
            let built = forc_pkg::build_with_options(&build_opts, None)?;
            Ok((built, plan))
        }));
        let (built, plan) = match built {
            Err(e) => {
                out.emit(&json!({"ev":"Built","id":id,"ok":false,"panic":panic_msg(e),"err":null}));
                continue;
            }
            Ok(Err(e)) => {
                out.emit(&json!({"ev":"Built","id":id,"ok":false,"panic":null,"err":format!("{e:#}")}));
                continue;
            }
            Ok(Ok(b)) => b,
        };
        let mut names: Vec<String> = vec![];
        for (_p, b) in built.clone().into_members() {
            for e in b.bytecode.entries.iter().filter(|e| e.kind.test().is_some()) {
                names.push(e.finalized.fn_name.clone());
            }
        }
        out.emit(&json!({"ev":"Built","id":id,"ok":true,"panic":null,"err":null,"tests":names}));
        let runs = rec.get("runs").and_then(|r| r.as_array()).cloned().unwrap_or_else(|| vec![json!({"runners":1})]);
        for (k, run) in runs.iter().enumerate() {
            let runners = run.get("runners").and_then(|v| v.as_u64()).unwrap_or(1) as usize;
            let filter = run.get("filter").and_then(|v| v.as_str()).map(String::from);
            let exact = run.get("exact").and_then(|v| v.as_bool()).unwrap_or(false);
            let hdr = json!({"ev":"Run","id":id,"run":k,"runners":runners,"filter":filter,"exact":exact});
            let emit = |out: &mut NdjsonOut, extra: Value| {
                let mut h = hdr.clone();
                for (kk, vv) in extra.as_object().unwrap() {
                    h[kk] = vv.clone();
                }
                out.emit(&h);
            };
            let bt = match forc_test::BuiltTests::from_built(built.clone(), &plan) {
                Ok(b) => b,
                Err(e) => {
                    emit(&mut out, json!({"ok":false,"panic":null,"err":format!("{e:#}"),"tests":[]}));
                    continue;
                }
            };
            let filt = filter.as_ref().map(|f| forc_test::TestFilter { filter_phrase: f, exact_match: exact });
            let gc = gas_costs.clone();
            let tested = std::panic::catch_unwind(std::panic::AssertUnwindSafe(|| {
                bt.run(forc_test::TestRunnerCount::Manual(runners), filt, gc, forc_test::TestGasLimit::Unlimited)
            }));
            let tested = match tested {
                Err(e) => {
                    emit(&mut out, json!({"ok":false,"panic":panic_msg(e),"err":null,"tests":[]}));
                    continue;
                }
                Ok(Err(e)) => {
                    emit(&mut out, json!({"ok":false,"panic":null,"err":format!("{e:#}"),"tests":[]}));
                    continue;
                }
                Ok(Ok(t)) => t,
            };
            let tps: Vec<forc_test::TestedPackage> = match tested {
                forc_test::Tested::Package(p) => vec![*p],
                forc_test::Tested::Workspace(ps) => ps,
            };
            let mut tests = vec![];
            for tp in &tps {
                for t in &tp.tests {
                    let state = match &t.state {
                        fuel_vm::state::ProgramState::Return(w) => json!({"k":"return","v":word_bytes(*w)}),
                        fuel_vm::state::ProgramState::ReturnData(_) => json!({"k":"returndata","v":[]}),
                        fuel_vm::state::ProgramState::Revert(w) => json!({"k":"revert","v":word_bytes(*w)}),
                        other => json!({"k":"other","v":[],"dbg":format!("{other:?}")}),
                    };
                    let logs: Vec<Value> = t.logs.iter().filter_map(receipt_json).collect();
                    let cond = match &t.condition {
                        forc_pkg::TestPassCondition::ShouldRevert(None) => json!({"k":"should_revert","v":[]}),
                        forc_pkg::TestPassCondition::ShouldRevert(Some(c)) => json!({"k":"should_revert_code","v":word_bytes(*c)}),
                        forc_pkg::TestPassCondition::ShouldNotRevert => json!({"k":"none","v":[]}),
                    };
                    tests.push(json!({"test":t.name,"state":state,"logs":logs,"passed":t.passed(),"cond":cond}));
                }
            }
            emit(&mut out, json!({"ok":true,"panic":null,"err":null,"tests":tests}));
        }
        let _ = std::fs::remove_dir_all(&dir);
    }
    out.flush();
}
