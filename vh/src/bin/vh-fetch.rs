//! vh-fetch: conformance driver for C30 (GitFetch.tla) — crash safety of git dependency fetching.
//!
//! `vh-fetch agent --proj DIR`
//!     One "build" as a separate process: plan (forc_pkg::BuildPlan::from_lock_and_manifests, which
//!     pins + fetches the git dependency into $HOME/.forc/git/checkouts), then check + build with the
//!     real compiler.  Fault points (hook H7) are armed through the environment
//!     (SWAY_VERIF_FAULTS / SWAY_VERIF_CRASH_AT / SWAY_VERIF_FAIL_AT) and traced to $SWAY_VERIF_TRACE;
//!     the agent appends its own events (`Agent.*`) to the same trace file.
//!
//! `vh-fetch run --work DIR --out EVENTS.ndjson [--refs branch,tag] [--prelock 0,1]
//!               [--slice i/n] [--builds 3] [--timeout-s 60]`
//!     Creates the origin repository (git2, local, `file://` URL), learns the fault points of a
//!     fault-free build from the hook's own trace, then for every point k x {crash, fail}: a faulted
//!     build, a snapshot of the cache, and up to `builds-1` fresh fault-free builds ("the later
//!     build").  Emits ndjson events mirroring GitFetch.tla's actions; Trace_GitFetch.tla decides.
//!
//! Everything here is mechanical: run the real API, list directories, project to JSON.
use serde_json::{json, Value};
use std::collections::BTreeSet;
use std::path::{Path, PathBuf};
use std::process::{Command, Stdio};
use std::time::{Duration, Instant};
use vh::util::*;

const DEP_NAME: &str = "mathlib";

/// The dependency repository's tree: (path, content).  Git stores/checks out entries in bytewise
/// path order; the list is written in that order on purpose but nothing relies on it (the order the
/// model sees is read back from the commit's tree with git2).
fn origin_files() -> Vec<(&'static str, &'static str)> {
    vec![
        (".gitignore", "out\ntarget\n"),
        (
            "Forc.toml",
            "[project]\nauthors = [\"verif\"]\nentry = \"lib.sw\"\nlicense = \"Apache-2.0\"\nname = \"mathlib\"\nimplicit-std = false\n",
        ),
        ("README.md", "# mathlib\nA small library used as a git dependency.\n"),
        (
            "src/lib.sw",
            "library;\n\npub mod math;\n\nuse ::math::twice;\n\npub fn answer() -> u64 {\n    twice(21)\n}\n",
        ),
        (
            "src/math.sw",
            "library;\n\npub mod ops;\n\nuse ::math::ops::add;\n\npub fn twice(a: u64) -> u64 {\n    add(a, a)\n}\n",
        ),
        (
            "src/math/ops.sw",
            "library;\n\npub fn add(a: u64, b: u64) -> u64 {\n    __add(a, b)\n}\n",
        ),
        ("tests/notes.txt", "not a source file; checked out last\n"),
    ]
}

/// Files the compiler needs (manifest + sources); the rest of the tree is not read by a build.
fn needed_paths() -> Vec<&'static str> {
    vec!["Forc.toml", "src/lib.sw", "src/math.sw", "src/math/ops.sw"]
}

fn main() {
    let args: Vec<String> = std::env::args().collect();
    match args.get(1).map(|s| s.as_str()) {
        Some("agent") => agent(&args),
        Some("run") => run(&args),
        _ => {
            eprintln!("usage: vh-fetch agent|run ...");
            std::process::exit(2);
        }
    }
}

// ------------------------------------------------------------------------------------------ agent

fn jstr(s: &str) -> String {
    format!("\"{}\"", sway_utils::verif::esc(s))
}

fn list_rel_files(root: &Path) -> Vec<String> {
    let mut v = vec![];
    if root.is_dir() {
        for e in walkdir::WalkDir::new(root).into_iter().flatten() {
            if e.file_type().is_file() {
                if let Ok(r) = e.path().strip_prefix(root) {
                    v.push(r.to_string_lossy().replace('\\', "/"));
                }
            }
        }
    }
    v.sort();
    v
}

fn jlist(v: &[String]) -> String {
    format!("[{}]", v.iter().map(|s| jstr(s)).collect::<Vec<_>>().join(","))
}

/// All checkout directories `$HOME/.forc/git/checkouts/<name>-<hash>/<commit>` (tmp excluded).
fn checkout_dirs() -> Vec<PathBuf> {
    let base = forc_util::git_checkouts_directory();
    let mut out = vec![];
    if let Ok(rd) = std::fs::read_dir(&base) {
        for e in rd.flatten() {
            if e.file_name() == "tmp" || !e.path().is_dir() {
                continue;
            }
            if let Ok(rd2) = std::fs::read_dir(e.path()) {
                for c in rd2.flatten() {
                    if c.path().is_dir() {
                        out.push(c.path());
                    }
                }
            }
        }
    }
    out.sort();
    out
}

fn agent(args: &[String]) {
    use forc_pkg::manifest::{GenericManifestFile, ManifestFile};
    use sway_utils::verif::trace;
    let proj = PathBuf::from(arg_after(args, "--proj").expect("--proj"));
    trace("Agent.start", "");
    // ---- plan: what `forc build` does (lock file taken into account and (re)written)
    let plan = (|| -> anyhow::Result<forc_pkg::BuildPlan> {
        let mf = ManifestFile::from_dir(&proj)?;
        let members = mf.member_manifests()?;
        let lock_path = mf.lock_path()?;
        forc_pkg::BuildPlan::from_lock_and_manifests(
            &lock_path,
            &members,
            false,
            false,
            &forc_pkg::source::IPFSNode::default(),
        )
    })();
    let plan = match plan {
        Ok(p) => {
            trace("Agent.planned", "\"ok\":true");
            p
        }
        Err(e) => {
            trace(
                "Agent.planned",
                &format!("\"ok\":false,\"err\":{}", jstr(&format!("{e:#}"))),
            );
            trace("Agent.end", "\"outcome\":\"error\",\"stage\":\"plan\"");
            std::process::exit(3);
        }
    };
    // ---- where does the plan say the dependency lives, and what is there right now
    let dep_dir: Option<PathBuf> = plan
        .graph()
        .node_indices()
        .map(|n| &plan.graph()[n])
        .find(|p| p.name == DEP_NAME)
        .and_then(|p| plan.manifest_map().get(&p.id()).map(|m| m.dir().to_path_buf()));
    let commit_dir = checkout_dirs().into_iter().next();
    let root = commit_dir.clone().or(dep_dir.clone()).unwrap_or_default();
    let present = list_rel_files(&root);
    trace(
        "Agent.compile_begin",
        &format!(
            "\"dep_dir\":{},\"root\":{},\"present\":{}",
            jstr(&dep_dir.map(|d| d.display().to_string()).unwrap_or_default()),
            jstr(&root.display().to_string()),
            jlist(&present)
        ),
    );
    // ---- compile: check (to learn which source files the compiler read), then the real build
    let engines = sway_core::Engines::default();
    let checked = forc_pkg::check(
        &plan,
        sway_core::BuildTarget::default(),
        true,
        None,
        false,
        &engines,
        None,
        &[],
        &[],
        sway_core::DbgGeneration::None,
    );
    let check_ok = match &checked {
        Ok(rs) => {
            rs.len() == plan.compilation_order().len()
                && rs.iter().all(|(p, h)| {
                    !h.has_errors() && p.as_ref().map(|p| p.typed.is_ok()).unwrap_or(false)
                })
        }
        Err(_) => false,
    };
    let diags: Vec<String> = match &checked {
        Ok(rs) => rs
            .iter()
            .flat_map(|(_, h)| h.clone().consume().0.into_iter().map(|e| format!("{e}")))
            .take(4)
            .collect(),
        Err(e) => vec![format!("{e:#}")],
    };
    let mut sources: Vec<String> = engines
        .se()
        .all_files()
        .into_iter()
        .filter_map(|p| p.strip_prefix(&root).ok().map(|r| r.to_string_lossy().to_string()))
        .collect();
    sources.sort();
    sources.dedup();
    let outputs: std::collections::HashSet<_> = plan.member_nodes().collect();
    let profile = forc_pkg::BuildProfile { terse: true, ..forc_pkg::BuildProfile::debug() };
    let built = forc_pkg::build(
        &plan,
        sway_core::BuildTarget::default(),
        &profile,
        &outputs,
        &[],
        &[],
        None,
    );
    let (build_ok, err) = match &built {
        Ok(v) => (!v.is_empty(), String::new()),
        Err(e) => (false, format!("{e:#}")),
    };
    let present_after = list_rel_files(&root);
    trace(
        "Agent.compiled",
        &format!(
            "\"check_ok\":{check_ok},\"build_ok\":{build_ok},\"err\":{},\"diags\":{},\"sources\":{},\"present_after\":{}",
            jstr(&err),
            jlist(&diags),
            jlist(&sources),
            jlist(&present_after)
        ),
    );
    if check_ok && build_ok {
        trace("Agent.end", "\"outcome\":\"compiled\"");
        std::process::exit(0);
    }
    trace("Agent.end", "\"outcome\":\"error\",\"stage\":\"compile\"");
    std::process::exit(4);
}

// ------------------------------------------------------------------------------------------- run

struct Origin {
    url: String,
    commit: String,
    /// blob paths of the pinned commit's tree, in tree (= checkout) order
    tree: Vec<String>,
}

fn make_origin(dir: &Path) -> Origin {
    let _ = std::fs::remove_dir_all(dir);
    std::fs::create_dir_all(dir).unwrap();
    let repo = git2::Repository::init(dir).expect("init origin");
    for (p, c) in origin_files() {
        let fp = dir.join(p);
        std::fs::create_dir_all(fp.parent().unwrap()).unwrap();
        std::fs::write(&fp, c).unwrap();
    }
    let mut index = repo.index().unwrap();
    for (p, _) in origin_files() {
        index.add_path(Path::new(p)).unwrap();
    }
    index.write().unwrap();
    let tree_id = index.write_tree().unwrap();
    let tree = repo.find_tree(tree_id).unwrap();
    let sig = git2::Signature::new("verif", "verif@example.com", &git2::Time::new(1_700_000_000, 0)).unwrap();
    let commit = repo
        .commit(Some("refs/heads/main"), &sig, &sig, "dep v1", &tree, &[])
        .unwrap();
    repo.set_head("refs/heads/main").unwrap();
    repo.reference("refs/tags/v1", commit, true, "tag v1").unwrap();
    // the pinned commit's tree, read back from the object database
    let mut paths = vec![];
    tree.walk(git2::TreeWalkMode::PreOrder, |root, entry| {
        if entry.kind() == Some(git2::ObjectType::Blob) {
            paths.push(format!("{}{}", root, entry.name().unwrap_or("?")));
        }
        git2::TreeWalkResult::Ok
    })
    .unwrap();
    Origin { url: format!("file://{}", dir.display()), commit: commit.to_string(), tree: paths }
}

fn make_project(dir: &Path, origin: &Origin, refkind: &str, lock: Option<&str>) {
    let _ = std::fs::remove_dir_all(dir);
    std::fs::create_dir_all(dir.join("src")).unwrap();
    let r = match refkind {
        "branch" => "branch = \"main\"".to_string(),
        "tag" => "tag = \"v1\"".to_string(),
        "rev" => format!("rev = \"{}\"", origin.commit),
        "default" => String::new(),
        x => panic!("unknown ref kind {x}"),
    };
    let sep = if r.is_empty() { "" } else { ", " };
    std::fs::write(
        dir.join("Forc.toml"),
        format!(
            "[project]\nauthors = [\"verif\"]\nentry = \"lib.sw\"\nlicense = \"Apache-2.0\"\nname = \"app\"\nimplicit-std = false\n\n[dependencies]\nmathlib = {{ git = \"{}\"{sep}{r} }}\n",
            origin.url
        ),
    )
    .unwrap();
    std::fs::write(
        dir.join("src/lib.sw"),
        "library;\n\nuse mathlib::answer;\n\npub fn app_answer() -> u64 {\n    answer()\n}\n",
    )
    .unwrap();
    if let Some(l) = lock {
        std::fs::write(dir.join("Forc.lock"), l).unwrap();
    }
}

struct AgentRun {
    /// hook + agent events of this process, in order
    events: Vec<Value>,
    /// "exit:<code>", "signal:<n>", "hang"
    status: String,
}

fn run_agent(home: &Path, proj: &Path, trace: &Path, fault: Option<(&str, u64)>, timeout: Duration) -> AgentRun {
    let _ = std::fs::remove_file(trace);
    let exe = std::env::current_exe().unwrap();
    let mut cmd = Command::new(exe);
    cmd.arg("agent").arg("--proj").arg(proj);
    cmd.env("HOME", home)
        .env("SWAY_VERIF_FAULTS", "1")
        .env("SWAY_VERIF_TRACE", trace)
        .env_remove("SWAY_VERIF_CRASH_AT")
        .env_remove("SWAY_VERIF_FAIL_AT")
        .env_remove("XDG_CONFIG_HOME")
        .env("GIT_CONFIG_NOSYSTEM", "1")
        .stdin(Stdio::null())
        .stdout(Stdio::null())
        .stderr(Stdio::null());
    if let Some((mode, k)) = fault {
        let var = if mode == "crash" { "SWAY_VERIF_CRASH_AT" } else { "SWAY_VERIF_FAIL_AT" };
        cmd.env(var, k.to_string());
    }
    let mut child = cmd.spawn().expect("spawn agent");
    let t0 = Instant::now();
    let status = loop {
        match child.try_wait().unwrap() {
            Some(st) => {
                use std::os::unix::process::ExitStatusExt;
                break match (st.code(), st.signal()) {
                    (Some(c), _) => format!("exit:{c}"),
                    (None, Some(s)) => format!("signal:{s}"),
                    _ => "unknown".to_string(),
                };
            }
            None => {
                if t0.elapsed() > timeout {
                    let _ = child.kill();
                    let _ = child.wait();
                    break "hang".to_string();
                }
                std::thread::sleep(Duration::from_millis(2));
            }
        }
    };
    let events = if trace.exists() { read_ndjson(trace.to_str().unwrap()) } else { vec![] };
    AgentRun { events, status }
}

/// Is some advisory lock under $HOME/.forc/.locks still held (by anybody)?
fn locks_free(home: &Path) -> bool {
    use std::os::unix::io::AsRawFd;
    let d = home.join(".forc/.locks");
    let mut free = true;
    if let Ok(rd) = std::fs::read_dir(d) {
        for e in rd.flatten() {
            if let Ok(f) = std::fs::File::open(e.path()) {
                let fd = f.as_raw_fd();
                let r = unsafe { libc::flock(fd, libc::LOCK_EX | libc::LOCK_NB) };
                if r != 0 {
                    free = false;
                } else {
                    unsafe { libc::flock(fd, libc::LOCK_UN) };
                }
            }
        }
    }
    free
}

fn idx_of(tree: &[String], p: &str) -> Option<usize> {
    tree.iter().position(|t| t == p).map(|i| i + 1)
}

/// Project a list of relative paths to (indices in tree order, paths not in the tree).
fn project(tree: &[String], files: &[String], ignore: &[&str]) -> (Vec<usize>, Vec<String>) {
    let mut ix = BTreeSet::new();
    let mut extra = vec![];
    for f in files {
        if ignore.contains(&f.as_str()) {
            continue;
        }
        match idx_of(tree, f) {
            Some(i) => {
                ix.insert(i);
            }
            None => extra.push(f.clone()),
        }
    }
    (ix.into_iter().collect(), extra)
}

fn strs(v: &Value) -> Vec<String> {
    v.as_array().map(|a| a.iter().filter_map(|x| x.as_str().map(|s| s.to_string())).collect()).unwrap_or_default()
}

/// File-system state of the cache after a build process has ended.
fn snapshot(home: &Path, proj: &Path, tree: &[String]) -> Value {
    let co = home.join(".forc/git/checkouts");
    let tmp = co.join("tmp");
    let tmp_entries: Vec<PathBuf> = std::fs::read_dir(&tmp).map(|rd| rd.flatten().map(|e| e.path()).collect()).unwrap_or_default();
    // state of every temporary clone left under tmp/: "fetched" once libgit2 has written FETCH_HEAD,
    // "inited" once the repository exists, "dir" otherwise
    let mut tmp_state: Vec<&str> = tmp_entries
        .iter()
        .map(|p| {
            if p.join(".git/FETCH_HEAD").exists() {
                "fetched"
            } else if p.join(".git/HEAD").exists() {
                "inited"
            } else {
                "dir"
            }
        })
        .collect();
    tmp_state.sort();
    tmp_state.dedup();
    let mut dirs = vec![];
    if let Ok(rd) = std::fs::read_dir(&co) {
        for e in rd.flatten() {
            if e.file_name() == "tmp" || !e.path().is_dir() {
                continue;
            }
            if let Ok(rd2) = std::fs::read_dir(e.path()) {
                for c in rd2.flatten() {
                    dirs.push(c.path());
                }
            }
        }
    }
    dirs.sort();
    let (dir, files, extra, index, commit) = match dirs.first() {
        None => (false, vec![], vec![], false, String::new()),
        Some(d) => {
            let l = list_rel_files(d);
            let (ix, extra) = project(tree, &l, &[".forc_index"]);
            (
                true,
                ix,
                extra,
                d.join(".forc_index").is_file(),
                d.file_name().unwrap().to_string_lossy().to_string(),
            )
        }
    };
    json!({"ev":"Snapshot","tmp":tmp_state,"dir":dir,"files":files,"extra":extra,"index":index,
           "ndirs":dirs.len(),"commit":commit,"lockfile":proj.join("Forc.lock").is_file(),
           "lockFree":locks_free(home)})
}

/// Turn one agent process into model-level events.
fn emit_build(out: &mut NdjsonOut, sc: &str, b: u64, faulted: bool, r: &AgentRun, tree: &[String], snap: Value) -> String {
    out.emit(&json!({"ev":"BuildStart","sc":sc,"b":b,"faulted":faulted}));
    let mut outcome = String::new();
    for e in &r.events {
        let ev = e["ev"].as_str().unwrap_or("");
        match ev {
            "FaultPoint" => out.emit(&json!({"ev":"Point","sc":sc,"b":b,"k":e["k"],"point":e["point"]})),
            "Crash" => out.emit(&json!({"ev":"Crash","sc":sc,"b":b,"k":e["k"],"point":e["point"]})),
            "IoFail" => out.emit(&json!({"ev":"IoFail","sc":sc,"b":b,"k":e["k"],"point":e["point"]})),
            "Agent.planned" => out.emit(&json!({"ev":"Planned","sc":sc,"b":b,"ok":e["ok"],"err":e.get("err").cloned().unwrap_or(json!(""))})),
            "Agent.compile_begin" => {
                let (present, extra) = project(tree, &strs(&e["present"]), &[".forc_index"]);
                let index = strs(&e["present"]).iter().any(|p| p == ".forc_index");
                out.emit(&json!({"ev":"CompileBegin","sc":sc,"b":b,"present":present,"extra":extra,"index":index}));
            }
            "Agent.compiled" => {
                let (sources, sextra) = project(tree, &strs(&e["sources"]), &[]);
                let (after, _) = project(tree, &strs(&e["present_after"]), &[".forc_index"]);
                out.emit(&json!({"ev":"Compiled","sc":sc,"b":b,"ok": e["check_ok"].as_bool().unwrap_or(false) && e["build_ok"].as_bool().unwrap_or(false),
                                 "check_ok":e["check_ok"],"build_ok":e["build_ok"],"sources":sources,"sources_extra":sextra,
                                 "present_after":after,"err":e["err"],"diags":e["diags"]}));
            }
            "Agent.end" => outcome = e["outcome"].as_str().unwrap_or("").to_string(),
            _ => {}
        }
    }
    // a process that did not reach Agent.end: aborted (crash point), killed (hang) or died otherwise
    if outcome.is_empty() {
        outcome = if r.status == "hang" {
            "hang".into()
        } else if r.status.starts_with("signal:") {
            "crashed".into()
        } else {
            format!("died:{}", r.status)
        };
    }
    out.emit(&json!({"ev":"BuildEnd","sc":sc,"b":b,"outcome":outcome,"status":r.status}));
    let mut s = snap;
    s["sc"] = json!(sc);
    s["b"] = json!(b);
    out.emit(&s);
    out.flush();
    outcome
}

fn run(args: &[String]) {
    let work = PathBuf::from(arg_after(args, "--work").expect("--work"));
    let outp = arg_after(args, "--out").expect("--out");
    let refs: Vec<String> = arg_after(args, "--refs").unwrap_or("branch,tag".into()).split(',').map(|s| s.to_string()).collect();
    let prelocks: Vec<bool> = arg_after(args, "--prelock").unwrap_or("0,1".into()).split(',').map(|s| s == "1").collect();
    let modes: Vec<String> = arg_after(args, "--modes").unwrap_or("crash,fail".into()).split(',').map(|s| s.to_string()).collect();
    let builds: u64 = arg_after(args, "--builds").map(|s| s.parse().unwrap()).unwrap_or(3);
    let timeout = Duration::from_secs(arg_after(args, "--timeout-s").map(|s| s.parse().unwrap()).unwrap_or(60));
    let (slice_i, slice_n): (u64, u64) = arg_after(args, "--slice")
        .map(|s| {
            let mut it = s.split('/');
            (it.next().unwrap().parse().unwrap(), it.next().unwrap().parse().unwrap())
        })
        .unwrap_or((0, 1));
    let only = arg_after(args, "--only");
    std::fs::create_dir_all(&work).unwrap();
    let work = work.canonicalize().unwrap();
    let origin = make_origin(&work.join("origin"));
    let needed: Vec<usize> = needed_paths().iter().map(|p| idx_of(&origin.tree, p).expect("needed path in tree")).collect();
    let manifest = idx_of(&origin.tree, "Forc.toml").unwrap();
    // what the planner reads of the dependency: its manifest and the entry file the manifest names
    let plan_needed: Vec<usize> = vec![manifest, idx_of(&origin.tree, "src/lib.sw").unwrap()];
    let mut out = NdjsonOut::new(&outp);
    let home = work.join("home");
    let proj = work.join("proj");
    let trace = work.join("trace.ndjson");
    let fresh_home = |h: &Path| {
        let _ = std::fs::remove_dir_all(h);
        std::fs::create_dir_all(h).unwrap();
    };
    let mut counter = 0u64;
    for refkind in &refs {
        for &prelock in &prelocks {
            let cfg = format!("{}-{}", refkind, if prelock { "lock" } else { "nolock" });
            // ---- fault-free reference run: the fault points of this configuration, and the lock file
            fresh_home(&home);
            make_project(&proj, &origin, refkind, None);
            let base = run_agent(&home, &proj, &trace, None, timeout);
            let lock_text = std::fs::read_to_string(proj.join("Forc.lock")).ok();
            let points: Vec<String> = base
                .events
                .iter()
                .filter(|e| e["ev"] == "FaultPoint")
                .map(|e| e["point"].as_str().unwrap().to_string())
                .collect();
            let npoints = points.len();
            let begin = |sc: &str, mode: &str, k: u64, point: &str| {
                json!({"ev":"Begin","sc":sc,"ref":refkind,"prelock":prelock,"mode":mode,"k":k,"point":point,
                       "n":origin.tree.len(),"tree":origin.tree,"manifest":manifest,"needed":needed,"plan_needed":plan_needed,
                       "commit":origin.commit,"npoints":npoints})
            };
            // the reference run itself is a scenario (no fault), followed by one more build
            let sc0 = format!("{cfg}-none-00");
            if only.as_ref().map_or(true, |o| o == &sc0) {
                let sc = sc0.clone();
                counter += 1;
                let lock_for = if prelock { lock_text.as_deref() } else { None };
                fresh_home(&home);
                make_project(&proj, &origin, refkind, lock_for);
                out.emit(&begin(&sc, "none", 0, ""));
                let r1 = run_agent(&home, &proj, &trace, None, timeout);
                let s1 = snapshot(&home, &proj, &origin.tree);
                emit_build(&mut out, &sc, 1, false, &r1, &origin.tree, s1);
                let r2 = run_agent(&home, &proj, &trace, None, timeout);
                let s2 = snapshot(&home, &proj, &origin.tree);
                emit_build(&mut out, &sc, 2, false, &r2, &origin.tree, s2);
                out.emit(&json!({"ev":"End","sc":sc}));
            }
            if prelock && lock_text.is_none() {
                out.emit(&json!({"ev":"HarnessError","what":"reference run wrote no Forc.lock","cfg":cfg,"status":base.status}));
                continue;
            }
            // with a pre-existing lock file the fault points may differ (no pin phase): learn them again
            let points: Vec<String> = if prelock {
                fresh_home(&home);
                make_project(&proj, &origin, refkind, lock_text.as_deref());
                run_agent(&home, &proj, &trace, None, timeout)
                    .events
                    .iter()
                    .filter(|e| e["ev"] == "FaultPoint")
                    .map(|e| e["point"].as_str().unwrap().to_string())
                    .collect()
            } else {
                points
            };
            for (ki, point) in points.iter().enumerate() {
                let k = ki as u64 + 1;
                for mode in &modes {
                    let sc = format!("{cfg}-{mode}-{k:02}");
                    // a slice takes every slice_n-th fault point (both modes); --only names one scenario
                    if k % slice_n != slice_i % slice_n {
                        continue;
                    }
                    if only.as_ref().is_some_and(|o| o != &sc) {
                        continue;
                    }
                    counter += 1;
                    fresh_home(&home);
                    make_project(&proj, &origin, refkind, if prelock { lock_text.as_deref() } else { None });
                    out.emit(&begin(&sc, mode, k, point));
                    // build 1: faulted
                    let r1 = run_agent(&home, &proj, &trace, Some((mode, k)), timeout);
                    let s1 = snapshot(&home, &proj, &origin.tree);
                    let mut last = emit_build(&mut out, &sc, 1, true, &r1, &origin.tree, s1);
                    // later builds: fresh processes, no fault
                    let mut b = 2;
                    while b <= builds && last != "compiled" {
                        let r = run_agent(&home, &proj, &trace, None, timeout);
                        let s = snapshot(&home, &proj, &origin.tree);
                        last = emit_build(&mut out, &sc, b, false, &r, &origin.tree, s);
                        b += 1;
                    }
                    out.emit(&json!({"ev":"End","sc":sc}));
                }
            }
        }
    }
    out.flush();
    println!("{}", json!({"scenarios":counter}));
}
