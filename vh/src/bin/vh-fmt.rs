//! vh-fmt: conformance driver for C18 / C19 (FmtTransducer.tla).
//!
//! Driver:  vh-fmt --in jobs.ndjson --out events.ndjson [--jobs N] [--timeout SECS] [--tokens]
//! Meta:    vh-fmt --meta --in files.ndjson --out meta.ndjson     (token-boundary counts of seed files)
//! Show:    vh-fmt --show --in job.json                           (prints input, output, output2 of one job)
//!
//! Job (one JSON object per line):
//!   {"id":..., "cfg":"default", "file":"/repo/x.sw"}                       format a file in place (read-only)
//!   {"id":..., "cfg":..., "file":..., "ins":[[b,"line"|"block"|"doc"|"blank"|"mblock"],...]}
//!        the file with trivia inserted at token boundaries b (0 = before the first token, k = after
//!        the k-th token in flattened lex_commented order); rendering is purely textual
//!   {"id":..., "cfg":..., "text":"..."}                                    literal text
//!
//! Event: {"ev":"Fmt","id","cfg","status":"ok"|"rejected"|"error"|"panic"|"abort"|"timeout",
//!         "inh","outh","status2","out2h","parses":bool, "msg",
//!         with --tokens: "cin","pin","min","cout","pout","mout"}
//!   status   = result of Formatter::format(input)      (rejected = ParseFileError; note that swayfmt
//!              also re-parses its own intermediate output, so "rejected" with inparses=true means
//!              the formatter failed on a parseable source -- it returned no text either way)
//!   inparses = sway_parse::parse_file(input) produced a tree and no error diagnostics
//!   status2  = result of Formatter::format(output)
//!   parses   = sway_parse::parse_file(output) produced a tree and no error diagnostics
//!   cin/cout = code tokens of the input/output (flattened lex_commented) as [kind, text]; kinds:
//!              i ident, p punct, o open delimiter, c close delimiter, l literal, d doc comment
//!   pin/pout = partner index of each delimiter token (group structure of the lexer), else 0
//!   min/mout = comment texts (trailing white space trimmed), in order
//! Nothing is judged here: the relation between these fields is decided by Trace_Fmt.tla.
#[path = "parsefmt_pool.inc"]
mod pool;

use serde_json::{json, Value};
use sha2::{Digest, Sha256};
use std::time::Duration;
use sway_ast::literal::Literal;
use sway_ast::token::{CommentedTokenStream, CommentedTokenTree, CommentedTree};
use sway_error::handler::Handler;
use sway_types::Spanned;
use swayfmt::config::manifest::Config;
use swayfmt::config::user_def::FieldAlignment;
use swayfmt::config::whitespace::NewlineStyle;
use swayfmt::{Formatter, FormatterError};
use vh::util::*;

pub fn config_named(name: &str) -> Option<Config> {
    let mut c = Config::default();
    match name {
        "default" => {}
        "w40" => c.whitespace.max_width = 40,
        "w200" => c.whitespace.max_width = 200,
        "tabs" => c.whitespace.hard_tabs = true,
        "ts2" => c.whitespace.tab_spaces = 2,
        "nl2" => c.whitespace.newline_threshold = 2,
        "align" => c.structures.field_alignment = FieldAlignment::AlignFields(40),
        "nosmall" => c.structures.small_structures_single_line = false,
        "hoff" => {
            c.heuristics.heuristics_pref = swayfmt::config::heuristics::HeuristicsPreferences::Off
        }
        "hmax" => {
            c.heuristics.heuristics_pref = swayfmt::config::heuristics::HeuristicsPreferences::Max
        }
        "crlf" => c.whitespace.newline_style = NewlineStyle::Windows,
        _ => return None,
    }
    Some(c)
}

fn hash(s: &str) -> String {
    let d = Sha256::digest(s.as_bytes());
    hex::encode(&d[..8])
}

fn flatten(ts: &CommentedTokenStream, src: &str, out: &mut Vec<(char, usize, usize)>) {
    for tt in ts.token_trees.iter() {
        match tt {
            CommentedTokenTree::Comment(c) => out.push(('m', c.span.start(), c.span.end())),
            CommentedTokenTree::Tree(t) => match t {
                CommentedTree::Punct(p) => out.push(('p', p.span.start(), p.span.end())),
                CommentedTree::Ident(i) => {
                    let sp = i.span();
                    let mut s = sp.start();
                    if i.is_raw_ident() && s >= 2 && &src[s - 2..s] == "r#" {
                        s -= 2;
                    }
                    out.push(('i', s, sp.end()))
                }
                CommentedTree::Literal(l) => {
                    let sp = l.span();
                    let mut e = sp.end();
                    if let Literal::Int(li) = l {
                        if let Some((_, tsp)) = &li.ty_opt {
                            e = e.max(tsp.end());
                        }
                    }
                    out.push(('l', sp.start(), e))
                }
                CommentedTree::DocComment(d) => out.push(('d', d.span.start(), d.span.end())),
                CommentedTree::Group(g) => {
                    let sp = g.span();
                    out.push(('o', sp.start(), sp.start() + 1));
                    flatten(&g.token_stream, src, out);
                    // an unclosed group (lex error) has no closing character; keep what is there
                    let e = sp.end();
                    if e > sp.start() + 1
                        && matches!(src.as_bytes()[e - 1], b')' | b'}' | b']')
                    {
                        out.push(('c', e - 1, e));
                    } else {
                        out.push(('c', e, e));
                    }
                }
            },
        }
    }
}

/// (tokens, lexed without error diagnostics)
fn lex_flat(src: &str) -> Option<(Vec<(char, usize, usize)>, bool)> {
    let handler = Handler::default();
    let r = sway_parse::lex_commented(&handler, src.into(), 0, src.len(), &None).ok()?;
    let mut v = Vec::new();
    flatten(&r, src, &mut v);
    Some((v, !handler.has_errors()))
}

/// Projects the flattened token stream to what FmtTransducer.tla reads:
/// code tokens [kind, text-without-trailing-whitespace], the partner index (1-based, within the
/// code stream) of every delimiter token (0 otherwise), and the comment texts.
fn streams_json(src: &str) -> Option<(Value, Value, Value)> {
    let (v, _) = std::panic::catch_unwind(|| lex_flat(src)).ok()??;
    let mut code = Vec::new();
    let mut partner: Vec<usize> = Vec::new();
    let mut comments = Vec::new();
    let mut stack: Vec<usize> = Vec::new();
    for &(k, s, e) in v.iter() {
        let t = src[s..e].trim_end();
        if k == 'm' {
            comments.push(json!(t));
            continue;
        }
        code.push(json!([k.to_string(), t]));
        partner.push(0);
        let ix = code.len(); // 1-based
        if k == 'o' {
            stack.push(ix);
        } else if k == 'c' {
            if let Some(o) = stack.pop() {
                partner[o - 1] = ix;
                partner[ix - 1] = o;
            }
        }
    }
    Some((Value::Array(code), json!(partner), Value::Array(comments)))
}

fn trivia(kind: &str, n: usize) -> String {
    match kind {
        "line" => format!(" // c{n}\n"),
        "block" => format!(" /* c{n} */ "),
        "mblock" => format!("\n/* c{n}\n   more */\n"),
        "doc" => format!("\n/// d{n}\n"),
        "blank" => "\n\n\n".to_string(),
        "nlline" => format!("\n// c{n}\n"),
        _ => String::new(),
    }
}

/// Renders the job's input text (mechanical).
fn render(job: &Value) -> Result<String, String> {
    if let Some(t) = job.get("text").and_then(|t| t.as_str()) {
        return Ok(t.to_string());
    }
    let file = job.get("file").and_then(|f| f.as_str()).ok_or("no file/text")?;
    let bytes = std::fs::read(file).map_err(|e| format!("read {file}: {e}"))?;
    let src = String::from_utf8(bytes).map_err(|_| "not utf-8".to_string())?;
    let ins = match job.get("ins").and_then(|i| i.as_array()) {
        Some(i) if !i.is_empty() => i.clone(),
        _ => return Ok(src),
    };
    let (toks, _) = lex_flat(&src).ok_or("seed does not lex")?;
    // boundary b -> byte offset: 0 = start of first token; k = end of k-th token
    let off = |b: usize| -> usize {
        if b == 0 {
            toks.first().map(|t| t.1).unwrap_or(0)
        } else {
            toks.get(b - 1).map(|t| t.2).unwrap_or(src.len())
        }
    };
    let mut pts: Vec<(usize, usize, String)> = ins
        .iter()
        .enumerate()
        .map(|(n, x)| {
            let b = x[0].as_u64().unwrap_or(0) as usize;
            (off(b), n, trivia(x[1].as_str().unwrap_or(""), n))
        })
        .collect();
    pts.sort();
    let mut out = String::with_capacity(src.len() + 64);
    let mut last = 0;
    for (o, _, t) in pts {
        out.push_str(&src[last..o]);
        out.push_str(&t);
        last = o;
    }
    out.push_str(&src[last..]);
    Ok(out)
}

fn fmt_once(cfg: &Config, src: &str) -> (String, Option<String>, String) {
    let cfg = cfg.clone();
    let r = std::panic::catch_unwind(move || {
        let mut f = Formatter::default();
        f.config = cfg;
        f.format(src.into())
    });
    match r {
        Ok(Ok(s)) => ("ok".into(), Some(s), String::new()),
        Ok(Err(FormatterError::ParseFileError(e))) => {
            ("rejected".into(), None, format!("{e}").chars().take(200).collect())
        }
        Ok(Err(e)) => ("error".into(), None, format!("{e}")),
        Err(p) => ("panic".into(), None, panic_msg(p).chars().take(300).collect()),
    }
}

fn parses(src: &str) -> bool {
    std::panic::catch_unwind(|| {
        let h = Handler::default();
        let r = sway_parse::parse_file(&h, src.into(), None, Default::default());
        r.is_ok() && !h.has_errors()
    })
    .unwrap_or(false)
}

fn run_job(line: &str, tokens: bool, texts: bool) -> Value {
    let job: Value = match serde_json::from_str(line) {
        Ok(j) => j,
        Err(e) => return json!({"ev":"Fmt","status":"badjob","msg":e.to_string()}),
    };
    let id = job.get("id").cloned().unwrap_or(Value::Null);
    let cfgname = job.get("cfg").and_then(|c| c.as_str()).unwrap_or("default").to_string();
    let mut ev = json!({"ev":"Fmt","id":id,"cfg":cfgname,"job":job});
    let cfg = match config_named(&cfgname) {
        Some(c) => c,
        None => {
            ev["status"] = json!("badjob");
            return ev;
        }
    };
    let src = match render(&job) {
        Ok(s) => s,
        Err(e) => {
            ev["status"] = json!("unreadable");
            ev["msg"] = json!(e);
            return ev;
        }
    };
    ev["inh"] = json!(hash(&src));
    // does the input parse without error diagnostics (swayfmt's own acceptance test)?
    ev["inparses"] = json!(parses(&src));
    let (st, out, msg) = fmt_once(&cfg, &src);
    ev["status"] = json!(st);
    if !msg.is_empty() {
        ev["msg"] = json!(msg);
    }
    if texts {
        ev["in"] = json!(src);
    }
    if let Some(out) = out {
        ev["outh"] = json!(hash(&out));
        ev["parses"] = json!(parses(&out));
        let (st2, out2, msg2) = fmt_once(&cfg, &out);
        ev["status2"] = json!(st2);
        if !msg2.is_empty() {
            ev["msg2"] = json!(msg2);
        }
        ev["out2h"] = json!(out2.as_deref().map(hash).unwrap_or_default());
        if tokens {
            if let (Some(a), Some(b)) = (streams_json(&src), streams_json(&out)) {
                ev["cin"] = a.0;
                ev["pin"] = a.1;
                ev["min"] = a.2;
                ev["cout"] = b.0;
                ev["pout"] = b.1;
                ev["mout"] = b.2;
            }
        }
        if texts {
            ev["out"] = json!(out);
            ev["out2"] = json!(out2);
        }
    }
    ev
}

fn main() {
    let args: Vec<String> = std::env::args().collect();
    let has = |f: &str| args.iter().any(|a| a == f);
    quiet_panics();
    if has("--worker") {
        let tokens = has("--tokens");
        pool::worker_loop(|line| run_job(line, tokens, false).to_string());
        return;
    }
    let input = arg_after(&args, "--in").expect("--in");
    if has("--show") {
        for j in read_ndjson(&input) {
            let ev = run_job(&j.to_string(), true, true);
            println!("=== input\n{}", ev["in"].as_str().unwrap_or(""));
            println!("=== output ({})\n{}", ev["status"], ev["out"].as_str().unwrap_or(""));
            println!("=== output2 ({})\n{}", ev["status2"], ev["out2"].as_str().unwrap_or(""));
            let mut e2 = ev.clone();
            for k in ["in", "out", "out2", "cin", "pin", "min", "cout", "pout", "mout"] {
                e2.as_object_mut().unwrap().remove(k);
            }
            println!("=== event\n{e2}");
        }
        return;
    }
    let output = arg_after(&args, "--out").expect("--out");
    let mut out = NdjsonOut::new(&output);
    if has("--meta") {
        // token-boundary counts of seed files: {"file","ntok","bytes"}
        for j in read_ndjson(&input) {
            let file = j["file"].as_str().unwrap().to_string();
            let src = std::fs::read_to_string(&file).unwrap_or_default();
            let n = std::panic::catch_unwind(|| lex_flat(&src))
                .ok()
                .flatten()
                .map(|(v, _)| v.len())
                .unwrap_or(0);
            out.emit(&json!({"file":file,"ntok":n,"bytes":src.len()}));
        }
        return;
    }
    let jobs: usize = arg_after(&args, "--jobs").map(|s| s.parse().unwrap()).unwrap_or(4);
    let timeout: u64 = arg_after(&args, "--timeout").map(|s| s.parse().unwrap()).unwrap_or(30);
    let mut wargs = vec![];
    if has("--tokens") {
        wargs.push("--tokens".to_string());
    }
    let lines: Vec<String> = read_ndjson(&input).iter().map(|j| j.to_string()).collect();
    let n = lines.len();
    let mut results: Vec<Option<String>> = vec![None; n];
    pool::run_pool(
        pool::PoolCfg { jobs, timeout: Duration::from_secs(timeout), worker_args: wargs, batch: 16 },
        lines,
        |i, line| results[i] = Some(line),
    );
    for r in results.into_iter() {
        let line = r.unwrap_or_else(|| "{\"status\":\"lost\"}".to_string());
        let mut v: Value = serde_json::from_str(&line).unwrap_or(json!({"status":"garbled"}));
        if v.get("ev").is_none() {
            // synthesized by the pool (abort/timeout): lift id/cfg from the job
            let job = v.get("job").cloned().unwrap_or(Value::Null);
            v["ev"] = json!("Fmt");
            v["id"] = job.get("id").cloned().unwrap_or(Value::Null);
            v["cfg"] = job.get("cfg").cloned().unwrap_or(Value::Null);
        }
        out.emit(&v);
    }
}
