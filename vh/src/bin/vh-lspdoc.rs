//! vh-lspdoc: conformance driver for C23 (LspDoc.tla).
//!
//! Input  (ndjson): {"id":N,"h":[{"full":bool,"r":[sl,sc,el,ec]|[],"t":[code points],"x":..,"d":[..]},...]}
//!   h[0] is the full-text change that establishes the initial document; the others are the
//!   history's changes in order ("x"/"d" = the generator's expectation, informative only).
//! Output (ndjson), one event per notification sent to the real code:
//!   {"h":id,"i":k,"k":"open"|"change","via":"doc"|"file"|"handler","changes":[{"full","r","t"}],
//!    "before":[..],"after":[..],"err":bool,"panic":bool,"msg":str,"hasfile":bool,"file":[..],"agree":bool}
//!   before/after = TextDocument::get_text() around the call (code points); `file` = what
//!   Documents::write_changes_to_file left on disk (via=file|handler only).
//! Texts travel as arrays of Unicode scalar values so that neither JSON nor TLA+ escaping matters.
//! Nothing is judged here: Trace_LspDoc.tla decides. A panic of the code under test is an event.
//!
//! Paths through the real code:
//!   via=doc      Documents::update_text_document (what write_changes_to_file calls first)
//!   via=file     Documents::write_changes_to_file (what the didChange handler calls) + read back
//!   via=handler  notification::handle_did_change_text_document on a ServerState with an opened
//!                workspace (--project DIR), one history = a sequence of didChange notifications
use lsp_types::{
    DidChangeTextDocumentParams, DidOpenTextDocumentParams, Position, Range,
    TextDocumentContentChangeEvent, TextDocumentItem, Url, VersionedTextDocumentIdentifier,
};
use serde_json::{json, Value};
use std::panic::{catch_unwind, AssertUnwindSafe};
use std::path::{Path, PathBuf};
use sway_lsp::core::document::{Documents, TextDocument};
use sway_lsp::handlers::notification;
use sway_lsp::server_state::ServerState;
use vh::util::*;

fn cps_to_string(v: &Value) -> String {
    v.as_array()
        .expect("text must be an array of code points")
        .iter()
        .map(|c| char::from_u32(c.as_u64().unwrap() as u32).expect("not a Unicode scalar value"))
        .collect()
}

fn string_to_cps(s: &str) -> Vec<u32> {
    s.chars().map(|c| c as u32).collect()
}

fn to_event(c: &Value) -> TextDocumentContentChangeEvent {
    let text = cps_to_string(&c["t"]);
    if c["full"].as_bool().unwrap() {
        TextDocumentContentChangeEvent { range: None, range_length: None, text }
    } else {
        let r: Vec<u32> = c["r"].as_array().unwrap().iter().map(|x| x.as_u64().unwrap() as u32).collect();
        TextDocumentContentChangeEvent {
            range: Some(Range::new(Position::new(r[0], r[1]), Position::new(r[2], r[3]))),
            range_length: None,
            text,
        }
    }
}

fn strip(c: &Value) -> Value {
    json!({"full": c["full"], "r": c["r"], "t": c["t"]})
}

struct Store {
    rt: tokio::runtime::Runtime,
    dir: PathBuf,
    docs: Documents,
    path: PathBuf,
    uri: Url,
    fresh: u64,
}

impl Store {
    fn new(dir: &Path) -> Self {
        std::fs::create_dir_all(dir).unwrap();
        let path = dir.join("doc0.sw");
        Store {
            rt: tokio::runtime::Builder::new_current_thread().enable_all().build().unwrap(),
            dir: dir.to_path_buf(),
            docs: Documents::new(),
            uri: Url::from_file_path(&path).unwrap(),
            path,
            fresh: 0,
        }
    }
    /// didOpen-like load: write the text to a file, build a TextDocument from it, store it.
    fn open(&mut self, text: &str) -> Result<(), String> {
        self.fresh += 1;
        self.path = self.dir.join(format!("doc{}.sw", self.fresh % 4));
        self.uri = Url::from_file_path(&self.path).unwrap();
        std::fs::write(&self.path, text).map_err(|e| e.to_string())?;
        self.docs = Documents::new();
        let p = self.path.to_str().unwrap().to_string();
        let doc = self.rt.block_on(TextDocument::build_from_path(&p)).map_err(|e| e.to_string())?;
        self.docs.store_document(doc).map_err(|e| e.to_string())
    }
    fn text(&self) -> Option<String> {
        self.docs.get_text_document(&self.uri).ok().map(|d| d.get_text().to_string())
    }
}

#[derive(Default)]
struct Stats {
    histories: u64,
    events: u64,
    panics: u64,
    errs: u64,
    disagree: u64,
}

fn main() {
    let args: Vec<String> = std::env::args().collect();
    let input = arg_after(&args, "--in").expect("--in");
    let output = arg_after(&args, "--out").expect("--out");
    let dir = PathBuf::from(arg_after(&args, "--dir").expect("--dir"));
    let open_every: u64 = arg_after(&args, "--open-every").map(|s| s.parse().unwrap()).unwrap_or(16);
    let file_every: u64 = arg_after(&args, "--file-every").map(|s| s.parse().unwrap()).unwrap_or(0);
    let batch_every: u64 = arg_after(&args, "--batch-every").map(|s| s.parse().unwrap()).unwrap_or(0);
    let project = arg_after(&args, "--project");
    let recs = read_ndjson(&input);
    let mut out = NdjsonOut::new(&output);
    quiet_panics();
    let mut st = Stats::default();
    if let Some(p) = project {
        handler_mode(&recs, &mut out, Path::new(&p), &mut st);
    } else {
        let mut store = Store::new(&dir);
        let mut need_open = true;
        for (n, rec) in recs.iter().enumerate() {
            let n = n as u64;
            let via_file = file_every > 0 && n % file_every == 0;
            let force_open = need_open || n % open_every == 0;
            need_open = !replay(&mut store, rec, false, via_file, force_open, &mut out, &mut st);
            if batch_every > 0 && n % batch_every == 0 && rec["h"].as_array().unwrap().len() > 2 {
                need_open = !replay(&mut store, rec, true, via_file, need_open, &mut out, &mut st);
            }
        }
    }
    out.flush();
    eprintln!(
        "vh-lspdoc: histories={} events={} panics={} errs={} differ-from-generator={}",
        st.histories, st.events, st.panics, st.errs, st.disagree
    );
}

/// Replays one history. Returns false if the store must be rebuilt (a panic happened).
fn replay(store: &mut Store, rec: &Value, batch: bool, via_file: bool, force_open: bool,
          out: &mut NdjsonOut, st: &mut Stats) -> bool {
    let id = rec["id"].clone();
    let h = rec["h"].as_array().unwrap();
    st.histories += 1;
    let init = cps_to_string(&h[0]["t"]);
    let mut i = 0u64;
    // --- establish the initial document
    if force_open || store.text().is_none() {
        let r = store.open(&init);
        let after = store.text().unwrap_or_default();
        out.emit(&json!({"h":id,"i":i,"k":"open","via":"doc","changes":[strip(&h[0])],"before":[],
            "after":string_to_cps(&after),"err":r.is_err(),"panic":false,"msg":r.err().unwrap_or_default(),
            "hasfile":false,"file":[],"agree":after == init}));
        st.events += 1;
    } else if !notify(store, &id, i, &h[0..1], via_file, out, st) {
        return false;
    }
    // --- the changes
    if batch {
        i += 1;
        return notify(store, &id, i, &h[1..], via_file, out, st);
    }
    for k in 1..h.len() {
        i += 1;
        if !notify(store, &id, i, &h[k..k + 1], via_file, out, st) {
            return false;
        }
    }
    true
}

/// One didChange notification carrying `changes`. Returns false after a panic.
fn notify(store: &mut Store, id: &Value, i: u64, changes: &[Value], via_file: bool,
          out: &mut NdjsonOut, st: &mut Stats) -> bool {
    let before = store.text().unwrap_or_default();
    let evs: Vec<TextDocumentContentChangeEvent> = changes.iter().map(to_event).collect();
    let res = catch_unwind(AssertUnwindSafe(|| {
        if via_file {
            store.rt.block_on(store.docs.write_changes_to_file(&store.uri, &evs)).map_err(|e| e.to_string())
        } else {
            store.docs.update_text_document(&store.uri, &evs).map(|_| ()).map_err(|e| e.to_string())
        }
    }));
    let after = catch_unwind(AssertUnwindSafe(|| store.text())).ok().flatten();
    let (err, panic, msg) = match &res {
        Ok(Ok(())) => (false, false, String::new()),
        Ok(Err(e)) => (true, false, e.clone()),
        Err(_) => (false, true, String::new()),
    };
    let msg = if let Err(e) = res { panic_msg(e) } else { msg };
    let file = if via_file { std::fs::read_to_string(&store.path).ok() } else { None };
    let last = &changes[changes.len() - 1];
    let after_s = after.clone().unwrap_or_default();
    // informative: does the text equal what the generator's reference expected (only where determined)
    let agree = panic == false
        && (changes.len() > 1 || last["x"] != "apply" || string_to_cps(&after_s) == cps_of(&last["d"]))
        && (changes.len() > 1 || last["x"] != "reject" || (err && after_s == before));
    if !agree { st.disagree += 1; }
    if panic { st.panics += 1; }
    if err { st.errs += 1; }
    st.events += 1;
    out.emit(&json!({"h":id,"i":i,"k":"change","via": if via_file {"file"} else {"doc"},
        "changes": changes.iter().map(strip).collect::<Vec<_>>(),
        "before":string_to_cps(&before),"after":string_to_cps(&after_s),
        "err":err,"panic":panic,"msg":msg,
        "hasfile":file.is_some(),"file":string_to_cps(&file.unwrap_or_default()),"agree":agree}));
    !panic && after.is_some()
}

fn cps_of(v: &Value) -> Vec<u32> {
    v.as_array().map(|a| a.iter().map(|c| c.as_u64().unwrap() as u32).collect()).unwrap_or_default()
}

/// Drive whole didChange notifications through the real handler on a ServerState.
fn handler_mode(recs: &[Value], out: &mut NdjsonOut, project: &Path, st: &mut Stats) {
    let rt = tokio::runtime::Builder::new_multi_thread().worker_threads(2).enable_all().build().unwrap();
    rt.block_on(async {
        let state = ServerState::default();
        let main = project.join("src/main.sw");
        let ws_uri = Url::from_file_path(&main).unwrap();
        let text = std::fs::read_to_string(&main).unwrap();
        let params = DidOpenTextDocumentParams {
            text_document: TextDocumentItem { uri: ws_uri.clone(), language_id: "sway".into(), version: 1, text },
        };
        notification::handle_did_open_text_document(&state, params).await.expect("did_open failed");
        let (tmp_uri, _session) = state.uri_and_session_from_workspace(&ws_uri).expect("no session");
        let get = |state: &ServerState| state.documents.get_text_document(&tmp_uri).ok().map(|d| d.get_text().to_string());
        let mut version = 1;
        'hist: for rec in recs {
            let id = rec["id"].clone();
            let h = rec["h"].as_array().unwrap();
            st.histories += 1;
            for (i, c) in h.iter().enumerate() {
                version += 1;
                let before = get(&state).unwrap_or_default();
                let params = DidChangeTextDocumentParams {
                    text_document: VersionedTextDocumentIdentifier { uri: ws_uri.clone(), version },
                    content_changes: vec![to_event(c)],
                };
                // the handler is async: run it on its own task so that a panic is caught by the runtime
                let res = {
                    let fut = AssertUnwindSafe(notification::handle_did_change_text_document(&state, params));
                    futures::FutureExt::catch_unwind(fut).await
                };
                let after = get(&state);
                let (err, panic, msg) = match res {
                    Ok(Ok(())) => (false, false, String::new()),
                    Ok(Err(e)) => (true, false, e.to_string()),
                    Err(e) => (false, true, panic_msg(e)),
                };
                let file = std::fs::read_to_string(tmp_uri.path()).ok();
                if panic { st.panics += 1; }
                if err { st.errs += 1; }
                st.events += 1;
                let after_s = after.clone().unwrap_or_default();
                out.emit(&json!({"h":id,"i":i,"k":"change","via":"handler","changes":[strip(c)],
                    "before":string_to_cps(&before),"after":string_to_cps(&after_s),
                    "err":err,"panic":panic,"msg":msg,
                    "hasfile":file.is_some(),"file":string_to_cps(&file.unwrap_or_default()),"agree":true}));
                if panic || after.is_none() {
                    continue 'hist;
                }
            }
        }
        // let the last compilation settle, then stop the worker
        let _ = tokio::time::timeout(std::time::Duration::from_secs(20), state.wait_for_parsing()).await;
        let _ = state.shutdown_server();
    });
}
