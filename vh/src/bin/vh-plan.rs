//! vh-plan: conformance driver for X01 (PlanSession.tla) -- the planning session of `forc build`.
//!
//! Purely mechanical: materialises packages p1..pN (path dependencies only), applies the
//! environment actions of a history to the manifests / the real Forc.lock, calls the real
//! `forc_pkg::BuildPlan::from_lock_and_manifests` (offline) exactly as `BuildPlan::from_pkg_opts`
//! does, and projects results to JSON.  Every judgement is made by Trace_PlanSession.tla.
//!
//! Input (ndjson), one history per line:
//!   {"id":k,"n":N,"base":[[p,d,q],...],"steps":[{"a":..,"p":..,"d":..,"q":..},...]}
//!   package k is directory/project "p<k>", root = p1; dependency name d: 0 = "dx", k = "p<k>";
//!   a manifest edge [p,d,q] is rendered in p's Forc.toml as
//!       <name d> = { path = "../p<q>" [, package = "p<q>" when d != q] }
//!   actions: AddDep RemoveDep Retarget (manifest edits), DeleteLock, CorruptGarbage, CorruptAddNode(q),
//!   CorruptAddEdge(p,d,q), CorruptDropEdge(p,d,q), CorruptDropNode(q) (edits of the real lock file), Replan.
//!
//! Output (ndjson), a flat event stream:
//!   {"ev":"Start","id","n","base"}
//!   {"ev":"Env","id","step","a","p","d","q","lock":<lockproj>}          lock file after the action
//!   {"ev":"Plan","id","step","locked":bool,"out":"ok|err|panic","cls":"|cycle|locked|manifest|other","msg",
//!    "nodes":[[k,"member|path"]..],"edges":[[a,d,b]..],"order":[k..],
//!    "before":<lockproj>,"after":<lockproj>,"text_changed":bool}
//!   after every Env three Plan events follow: locked=true, locked=false, locked=true
//!   (none when the step has "plan":false -- several environment actions before the next planning step).
//!   {"ev":"Hang","id","step","locked"}  the watchdog fired (planning did not return); the process exits.
//!   <lockproj> = {"st":"none|garbage|graph|odd","nodes":[[k,"member|path"]..],"edges":[[a,d,b]..]}
//!   ("odd": the text is TOML but is not of the shape the driver can project; msg in "why").
use forc_pkg::manifest::{GenericManifestFile, ManifestFile};
use serde_json::{json, Value};
use std::panic::{catch_unwind, AssertUnwindSafe};
use std::path::{Path, PathBuf};
use std::sync::atomic::{AtomicU64, Ordering};
use std::sync::{Arc, Mutex};
use vh::util::*;

fn dname(d: u64) -> String {
    if d == 0 {
        "dx".to_string()
    } else {
        format!("p{d}")
    }
}
fn did(s: &str) -> Option<u64> {
    if s == "dx" {
        Some(0)
    } else {
        s.strip_prefix('p').and_then(|x| x.parse().ok())
    }
}

fn write_manifest(dir: &Path, p: u64, edges: &[(u64, u64, u64)]) {
    let mut t = format!(
        "[project]\nauthors = [\"x01\"]\nentry = \"lib.sw\"\nlicense = \"Apache-2.0\"\nname = \"p{p}\"\nimplicit-std = false\n\n[dependencies]\n"
    );
    for &(a, d, q) in edges {
        if a != p {
            continue;
        }
        if d == q {
            t.push_str(&format!("{} = {{ path = \"../p{q}\" }}\n", dname(d)));
        } else {
            t.push_str(&format!("{} = {{ path = \"../p{q}\", package = \"p{q}\" }}\n", dname(d)));
        }
    }
    std::fs::write(dir.join(format!("p{p}")).join("Forc.toml"), t).unwrap();
}

fn src_kind(s: &str) -> String {
    if s == "member" {
        "member".into()
    } else if s.starts_with("path+from-root-") {
        "path".into()
    } else {
        format!("other:{s}")
    }
}

/// Mechanical projection of a lock text.
fn project_lock_text(text: Option<&str>) -> Value {
    let text = match text {
        None => return json!({"st":"none","nodes":[],"edges":[]}),
        Some(t) => t,
    };
    let tv: toml::Value = match toml::from_str(text) {
        Ok(v) => v,
        Err(_) => return json!({"st":"garbage","nodes":[],"edges":[]}),
    };
    let odd = |why: &str| json!({"st":"odd","nodes":[],"edges":[],"why":why});
    let pkgs = match tv.get("package").and_then(|p| p.as_array()) {
        Some(a) => a,
        None => return odd("no package array"),
    };
    let mut nodes = vec![];
    let mut edges = vec![];
    for p in pkgs {
        let name = p.get("name").and_then(|x| x.as_str()).unwrap_or("");
        let src = p.get("source").and_then(|x| x.as_str()).unwrap_or("");
        let id = match did(name) {
            Some(i) if i > 0 => i,
            _ => return odd("package name"),
        };
        nodes.push(json!([id, src_kind(src)]));
        if p.get("contract-dependencies").is_some() || p.get("version").is_some() {
            return odd("unexpected key");
        }
        if let Some(deps) = p.get("dependencies") {
            let deps = match deps.as_array() {
                Some(a) => a,
                None => return odd("dependencies not an array"),
            };
            for l in deps {
                let l = l.as_str().unwrap_or("");
                let (d, rest) = if let Some(r) = l.strip_prefix('(') {
                    match r.split_once(") ") {
                        Some((d, rest)) => (Some(d), rest),
                        None => return odd("dep line"),
                    }
                } else {
                    (None, l)
                };
                let q = match did(rest) {
                    Some(i) if i > 0 => i,
                    _ => return odd("dep line target"),
                };
                let d = match d {
                    None => q,
                    Some(d) => match did(d) {
                        Some(i) => i,
                        None => return odd("dep line name"),
                    },
                };
                edges.push(json!([id, d, q]));
            }
        }
    }
    json!({"st":"graph","nodes":nodes,"edges":edges})
}

fn read_lock(path: &Path) -> Option<String> {
    std::fs::read_to_string(path).ok()
}

fn dep_line(d: u64, q: u64) -> String {
    if d == q {
        format!("p{q}")
    } else {
        format!("({}) p{q}", dname(d))
    }
}

/// Edit the real lock file (TOML level). Returns false when the action is not applicable.
fn corrupt_lock(path: &Path, a: &str, p: u64, d: u64, q: u64, root_id: &str) -> bool {
    match a {
        "DeleteLock" => return std::fs::remove_file(path).is_ok(),
        "CorruptGarbage" => {
            std::fs::write(path, "[[package]\nthis is = not a lock\n").unwrap();
            return true;
        }
        _ => {}
    }
    let text = match read_lock(path) {
        Some(t) => t,
        None => return false,
    };
    let mut tv: toml::Value = match toml::from_str(&text) {
        Ok(v) => v,
        Err(_) => return false,
    };
    let pkgs = match tv.get_mut("package").and_then(|x| x.as_array_mut()) {
        Some(a) => a,
        None => return false,
    };
    let find = |pkgs: &Vec<toml::Value>, k: u64| {
        pkgs.iter()
            .position(|x| x.get("name").and_then(|n| n.as_str()) == Some(&format!("p{k}")))
    };
    match a {
        "CorruptAddNode" => {
            if find(pkgs, q).is_some() {
                return false;
            }
            let mut t = toml::Table::new();
            t.insert("name".into(), toml::Value::String(format!("p{q}")));
            t.insert("source".into(), toml::Value::String(format!("path+from-root-{root_id}")));
            pkgs.push(toml::Value::Table(t));
        }
        "CorruptDropNode" => match find(pkgs, q) {
            Some(i) => {
                pkgs.remove(i);
            }
            None => return false,
        },
        "CorruptAddEdge" | "CorruptDropEdge" => {
            let i = match find(pkgs, p) {
                Some(i) => i,
                None => return false,
            };
            let t = pkgs[i].as_table_mut().unwrap();
            let mut deps: Vec<String> = t
                .get("dependencies")
                .and_then(|x| x.as_array())
                .map(|a| a.iter().map(|s| s.as_str().unwrap_or("").to_string()).collect())
                .unwrap_or_default();
            let line = dep_line(d, q);
            if a == "CorruptAddEdge" {
                if deps.contains(&line) {
                    return false;
                }
                deps.push(line);
            } else {
                match deps.iter().position(|l| *l == line) {
                    Some(k) => {
                        deps.remove(k);
                    }
                    None => return false,
                }
            }
            deps.sort();
            if deps.is_empty() {
                t.remove("dependencies");
            } else {
                t.insert(
                    "dependencies".into(),
                    toml::Value::Array(deps.into_iter().map(toml::Value::String).collect()),
                );
            }
        }
        _ => return false,
    }
    std::fs::write(path, toml::to_string_pretty(&tv).unwrap()).unwrap();
    true
}

struct Watch {
    deadline_ms: AtomicU64, // 0 = idle
    info: Mutex<Value>,
}

fn now_ms() -> u64 {
    std::time::SystemTime::now()
        .duration_since(std::time::UNIX_EPOCH)
        .unwrap()
        .as_millis() as u64
}

/// One real planning step, as `BuildPlan::from_pkg_opts` does it.
fn plan_once(root_dir: &Path, locked: bool) -> Value {
    let res = catch_unwind(AssertUnwindSafe(|| -> anyhow::Result<Value> {
        let mf = ManifestFile::from_dir(root_dir)?;
        let members = mf.member_manifests()?;
        if members.is_empty() {
            anyhow::bail!("No member found to build");
        }
        let lock_path = mf.lock_path()?;
        let plan = forc_pkg::BuildPlan::from_lock_and_manifests(
            &lock_path,
            &members,
            locked,
            true,
            &forc_pkg::source::IPFSNode::default(),
        )?;
        use petgraph::visit::{EdgeRef, IntoEdgeReferences};
        let g = plan.graph();
        let idof = |n: forc_pkg::NodeIx| did(&g[n].name).unwrap_or(999);
        let mut nodes: Vec<Value> = g
            .node_indices()
            .map(|n| json!([idof(n), src_kind(&g[n].source.to_string())]))
            .collect();
        nodes.sort_by_key(|v| v[0].as_u64());
        let mut edges: Vec<(u64, u64, u64)> = g
            .edge_references()
            .map(|e| (idof(e.source()), did(&e.weight().name).unwrap_or(999), idof(e.target())))
            .collect();
        edges.sort();
        let order: Vec<u64> = plan.compilation_order().iter().map(|&n| idof(n)).collect();
        // every node of the plan must have a manifest (the build would index it)
        let mm_ok = g.node_indices().all(|n| plan.manifest_map().contains_key(&g[n].id()));
        Ok(json!({"nodes":nodes,"edges":edges,"order":order,"manifest_map_complete":mm_ok}))
    }));
    match res {
        Ok(Ok(v)) => json!({"out":"ok","cls":"","msg":"","nodes":v["nodes"],"edges":v["edges"],"order":v["order"],
                            "manifest_map_complete":v["manifest_map_complete"]}),
        Ok(Err(e)) => {
            let msg = format!("{e:#}");
            let cls = if msg.contains("dependency cycle detected") {
                "cycle"
            } else if msg.contains("--locked was passed") {
                "locked"
            } else if msg.contains("collides with project name") || msg.contains("that is the same as project name") {
                "manifest"
            } else {
                "other"
            };
            json!({"out":"err","cls":cls,"msg":msg,"nodes":[],"edges":[],"order":[],"manifest_map_complete":true})
        }
        Err(e) => json!({"out":"panic","cls":"","msg":panic_msg(e),"nodes":[],"edges":[],"order":[],"manifest_map_complete":true}),
    }
}

fn main() {
    let args: Vec<String> = std::env::args().collect();
    let input = arg_after(&args, "--in").expect("--in");
    let output = arg_after(&args, "--out").expect("--out");
    let dir = PathBuf::from(arg_after(&args, "--dir").expect("--dir"));
    let skip: usize = arg_after(&args, "--skip").map(|s| s.parse().unwrap()).unwrap_or(0);
    let limit_ms: u64 = arg_after(&args, "--watchdog-ms").map(|s| s.parse().unwrap()).unwrap_or(30000);
    let keep = args.iter().any(|a| a == "--keep");
    let recs = read_ndjson(&input);
    let out = Arc::new(Mutex::new(NdjsonOut::new(&output)));
    quiet_panics();
    std::fs::create_dir_all(&dir).unwrap();
    let dir = dir.canonicalize().unwrap();

    let watch = Arc::new(Watch { deadline_ms: AtomicU64::new(0), info: Mutex::new(json!({})) });
    {
        let watch = watch.clone();
        let out = out.clone();
        std::thread::spawn(move || loop {
            std::thread::sleep(std::time::Duration::from_millis(200));
            let d = watch.deadline_ms.load(Ordering::SeqCst);
            if d != 0 && now_ms() > d {
                let info = watch.info.lock().unwrap().clone();
                let mut o = out.lock().unwrap();
                o.emit(&json!({"ev":"Hang","id":info["id"],"step":info["step"],"locked":info["locked"]}));
                o.flush();
                std::process::exit(0);
            }
        });
    }

    let root_pinned = forc_pkg::Pinned {
        name: "p1".to_string(),
        source: "member".parse::<forc_pkg::source::Pinned>().unwrap(),
    };
    let root_id = root_pinned.id().to_string();

    for r in recs.iter().skip(skip) {
        let id = r["id"].clone();
        let n = r["n"].as_u64().unwrap();
        let hdir = dir.join(format!("h{}", id));
        let _ = std::fs::remove_dir_all(&hdir);
        let mut man: Vec<(u64, u64, u64)> = r["base"]
            .as_array()
            .unwrap()
            .iter()
            .map(|e| (e[0].as_u64().unwrap(), e[1].as_u64().unwrap(), e[2].as_u64().unwrap()))
            .collect();
        for p in 1..=n {
            let pd = hdir.join(format!("p{p}"));
            std::fs::create_dir_all(pd.join("src")).unwrap();
            std::fs::write(pd.join("src").join("lib.sw"), "library;\n").unwrap();
            write_manifest(&hdir, p, &man);
        }
        let root_dir = hdir.join("p1");
        let lock_path = root_dir.join("Forc.lock");
        out.lock().unwrap().emit(&json!({"ev":"Start","id":id,"n":n,"base":r["base"]}));

        let mut steps: Vec<Value> = vec![json!({"a":"Replan","p":0,"d":0,"q":0})];
        steps.extend(r["steps"].as_array().unwrap().iter().cloned());
        for (si, st) in steps.iter().enumerate() {
            let a = st["a"].as_str().unwrap();
            let (p, d, q) = (st["p"].as_u64().unwrap(), st["d"].as_u64().unwrap(), st["q"].as_u64().unwrap());
            let mut applied = true;
            match a {
                "Replan" => {}
                "AddDep" => {
                    applied = !man.iter().any(|e| e.0 == p && e.1 == d);
                    if applied {
                        man.push((p, d, q));
                        write_manifest(&hdir, p, &man);
                    }
                }
                "RemoveDep" => {
                    let before = man.len();
                    man.retain(|e| !(e.0 == p && e.1 == d));
                    applied = man.len() != before;
                    write_manifest(&hdir, p, &man);
                }
                "Retarget" => {
                    applied = false;
                    for e in man.iter_mut() {
                        if e.0 == p && e.1 == d {
                            e.2 = q;
                            applied = true;
                        }
                    }
                    write_manifest(&hdir, p, &man);
                }
                _ => applied = corrupt_lock(&lock_path, a, p, d, q, &root_id),
            }
            let lk = read_lock(&lock_path);
            out.lock().unwrap().emit(&json!({"ev":"Env","id":id,"step":si,"a":a,"p":p,"d":d,"q":q,"applied":applied,
                "lock":project_lock_text(lk.as_deref())}));
            if st.get("plan").and_then(|x| x.as_bool()) == Some(false) {
                continue;
            }
            for locked in [true, false, true] {
                let before = read_lock(&lock_path);
                *watch.info.lock().unwrap() = json!({"id":id,"step":si,"locked":locked});
                watch.deadline_ms.store(now_ms() + limit_ms, Ordering::SeqCst);
                let mut v = plan_once(&root_dir, locked);
                watch.deadline_ms.store(0, Ordering::SeqCst);
                let after = read_lock(&lock_path);
                v["ev"] = json!("Plan");
                v["id"] = id.clone();
                v["step"] = json!(si);
                v["locked"] = json!(locked);
                v["before"] = project_lock_text(before.as_deref());
                v["after"] = project_lock_text(after.as_deref());
                v["text_changed"] = json!(before != after);
                out.lock().unwrap().emit(&v);
            }
        }
        if !keep {
            let _ = std::fs::remove_dir_all(&hdir);
        }
    }
}
