//! vh-irparse: parse an IR text file with sway_ir::parser and report (debug aid / used by notes).
fn main() {
    let path = std::env::args().nth(1).expect("file");
    let text = std::fs::read_to_string(&path).unwrap();
    let se = sway_types::SourceEngine::default();
    match sway_ir::parser::parse(&text, &se, sway_features::ExperimentalFeatures::default(), Default::default()) {
        Ok(mut ir) => {
            ir.verify_ssa_dominance = true;
            match ir.verify() {
                Ok(()) => println!("verify ok"),
                Err(e) => println!("verify ERR {e}"),
            }
            let t2 = sway_ir::printer::to_string(&ir);
            println!("ok; reprinted {} bytes; same={}", t2.len(), t2 == text);
        }
        Err(e) => println!("ERR {e}"),
    }
}
