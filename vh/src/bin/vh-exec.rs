//! vh-exec: generic build-and-run engine.
//!
//! Input (ndjson, --in): one package per line
//!   {"id": "p0", "files": {"src/main.sw": "...", ...}, "manifest": "<Forc.toml text>" | null,
//!    "std": true|false, "profile": "debug"|"release", "env": {"SWAY_VERIF_PASSES": "..."},
//!    "run": true|false, "runners": 1, "filter": null|"substr", "want": ["abi","slots","bytecode"]}
//! Output (ndjson, --out): {"ev":"Start","id"}, {"ev":"Built",...}, {"ev":"Test",...} lines.
//! A panic of the compiler or the VM is data ("panic": msg), never a tool error. A hard abort
//! (stack overflow) kills this process; the driver sees a Start without Built and restarts after it.
use serde_json::{json, Value};
use sha2::{Digest, Sha256};
use std::path::{Path, PathBuf};
use std::sync::{Arc, Mutex};
use vh::util::*;

// ---- capture of tracing output (forc reports diagnostics only through tracing)
struct Capture(Arc<Mutex<Vec<String>>>);
struct Visit<'a>(&'a mut String);
impl tracing::field::Visit for Visit<'_> {
    fn record_debug(&mut self, field: &tracing::field::Field, value: &dyn std::fmt::Debug) {
        if field.name() == "message" {
            use std::fmt::Write;
            let _ = write!(self.0, "{value:?}");
        }
    }
    fn record_str(&mut self, field: &tracing::field::Field, value: &str) {
        if field.name() == "message" {
            self.0.push_str(value);
        }
    }
}
impl tracing::Subscriber for Capture {
    fn enabled(&self, m: &tracing::Metadata<'_>) -> bool {
        *m.level() <= tracing::Level::INFO
    }
    fn new_span(&self, _: &tracing::span::Attributes<'_>) -> tracing::span::Id {
        tracing::span::Id::from_u64(1)
    }
    fn record(&self, _: &tracing::span::Id, _: &tracing::span::Record<'_>) {}
    fn record_follows_from(&self, _: &tracing::span::Id, _: &tracing::span::Id) {}
    fn event(&self, e: &tracing::Event<'_>) {
        let mut s = String::new();
        e.record(&mut Visit(&mut s));
        if !s.is_empty() {
            self.0.lock().unwrap_or_else(|e| e.into_inner()).push(s);
        }
    }
    fn enter(&self, _: &tracing::span::Id) {}
    fn exit(&self, _: &tracing::span::Id) {}
}

fn strip_ansi(s: &str) -> String {
    let mut out = String::new();
    let mut it = s.chars().peekable();
    while let Some(c) = it.next() {
        if c == '\u{1b}' {
            if it.peek() == Some(&'[') {
                it.next();
                for d in it.by_ref() {
                    if d.is_ascii_alphabetic() {
                        break;
                    }
                }
            }
        } else {
            out.push(c);
        }
    }
    out
}

/// Rename SSA value names (`v<digits>v<digits>`) in order of first occurrence: the printer derives
/// them from arena indices, which a re-parsed module does not share.
fn rename_values(t: &str) -> String {
    let b = t.as_bytes();
    let mut out = String::with_capacity(t.len());
    let mut map: std::collections::HashMap<&str, usize> = std::collections::HashMap::new();
    let mut i = 0;
    while i < b.len() {
        let is_start = b[i] == b'v' && (i == 0 || !(b[i - 1].is_ascii_alphanumeric() || b[i - 1] == b'_'));
        if is_start {
            let mut j = i + 1;
            while j < b.len() && b[j].is_ascii_digit() {
                j += 1;
            }
            if j > i + 1 && j < b.len() && b[j] == b'v' {
                let mut k = j + 1;
                while k < b.len() && b[k].is_ascii_digit() {
                    k += 1;
                }
                if k > j + 1 && (k == b.len() || !(b[k].is_ascii_alphanumeric() || b[k] == b'_')) {
                    let n = map.len();
                    let id = *map.entry(&t[i..k]).or_insert(n);
                    out.push_str(&format!("%{id}"));
                    i = k;
                    continue;
                }
            }
        }
        let ch = t[i..].chars().next().unwrap();
        out.push(ch);
        i += ch.len_utf8();
    }
    out
}

/// Does the printed IR use an SSA value (`v<digits>v<digits>`) textually before the line defining it?
/// (Valid when the defining block dominates the use but is printed later, e.g. a loop's break block.)
fn textual_forward_ref(t: &str) -> bool {
    fn is_val(tok: &str) -> bool {
        let b = tok.as_bytes();
        if b.len() < 4 || b[0] != b'v' {
            return false;
        }
        let rest = &tok[1..];
        match rest.find('v') {
            Some(i) if i > 0 && i + 1 < rest.len() => rest[..i].bytes().all(|c| c.is_ascii_digit()) && rest[i + 1..].bytes().all(|c| c.is_ascii_digit()),
            _ => false,
        }
    }
    let mut defined: std::collections::HashSet<&str> = std::collections::HashSet::new();
    for line in t.lines() {
        let l = line.trim();
        if l.contains(" fn ") || l.starts_with("fn ") {
            defined.clear();
        }
        let toks: Vec<&str> = l.split(|c: char| !(c.is_ascii_alphanumeric() || c == '_')).filter(|x| !x.is_empty()).collect();
        let is_header = l.ends_with(':') || l.ends_with('{');
        let def = if !is_header && l.contains(" = ") { toks.first().copied().filter(|x| is_val(x)) } else { None };
        for (i, tok) in toks.iter().enumerate() {
            if !is_val(tok) {
                continue;
            }
            if is_header {
                defined.insert(tok);
            } else if !(i == 0 && def.is_some()) && !defined.contains(tok) {
                return true;
            }
        }
        if let Some(d) = def {
            defined.insert(d);
        }
    }
    false
}

fn word_bytes(w: u64) -> Vec<u8> {
    w.to_be_bytes().to_vec()
}

fn receipt_json(r: &fuel_tx::Receipt) -> Option<Value> {
    use fuel_tx::Receipt::*;
    match r {
        Log { ra, rb, rc, rd, .. } => Some(json!({"t":"log","ra":word_bytes(*ra),"rb":word_bytes(*rb),"rc":word_bytes(*rc),"rd":word_bytes(*rd)})),
        LogData { ra, rb, data, .. } => Some(json!({"t":"logdata","ra":word_bytes(*ra),"rb":word_bytes(*rb),"data":data.as_ref().map(|d| d.to_vec()).unwrap_or_default()})),
        ReturnData { data, .. } => Some(json!({"t":"returndata","data":data.as_ref().map(|d| d.to_vec()).unwrap_or_default()})),
        Return { val, .. } => Some(json!({"t":"return","val":word_bytes(*val)})),
        Revert { ra, .. } => Some(json!({"t":"revert","ra":word_bytes(*ra)})),
        Panic { reason, .. } => Some(json!({"t":"panic","reason":format!("{:?}", reason.reason())})),
        _ => None,
    }
}

/// Execute a built script's `main` on the VM the way the repository's e2e harness (`runs_in_vm`) does.
fn run_main(bytecode: Vec<u8>, script_data: Vec<u8>) -> anyhow::Result<(fuel_vm::state::ProgramState, Vec<fuel_tx::Receipt>)> {
    use fuel_vm::checked_transaction::builder::TransactionBuilderExt;
    use fuel_vm::fuel_tx::consensus_parameters::ConsensusParametersV1;
    use fuel_vm::prelude::*;
    use rand::{Rng, SeedableRng};
    let storage = MemoryStorage::default();
    let rng = &mut rand::rngs::StdRng::seed_from_u64(2322u64);
    let maturity = 1.into();
    let block_height = (u32::MAX >> 1).into();
    let max_size = 64 * 1024 * 1024;
    let script_params = ScriptParameters::DEFAULT
        .with_max_script_length(max_size)
        .with_max_script_data_length(max_size);
    let tx_params = TxParameters::DEFAULT.with_max_size(max_size);
    let params = ConsensusParameters::V1(ConsensusParametersV1 { script_params, tx_params, ..Default::default() });
    let mut tb = fuel_tx::TransactionBuilder::script(bytecode, script_data);
    tb.with_params(params)
        .add_unsigned_coin_input(SecretKey::random(rng), rng.gen(), 1, Default::default(), rng.gen())
        .maturity(maturity);
    let consensus_params = tb.get_params().clone();
    let params = ConsensusParameters::default();
    let tmp_tx = tb.clone().finalize();
    let max_gas = tmp_tx.max_gas(consensus_params.gas_costs(), consensus_params.fee_params()) + 1;
    tb.script_gas_limit(consensus_params.tx_params().max_gas_per_tx() - max_gas);
    let tx = tb
        .finalize_checked(block_height)
        .into_ready(0, params.gas_costs(), params.fee_params(), None)
        .map_err(|e| anyhow::anyhow!("{e:?}"))?;
    let mem_instance = fuel_vm::interpreter::MemoryInstance::new();
    let mut i: fuel_vm::interpreter::Interpreter<_, _, _, forc_test::ecal::EcalSyscallHandler> =
        fuel_vm::interpreter::Interpreter::with_storage(mem_instance, storage, Default::default());
    let transition = i.transact(tx).map_err(anyhow::Error::msg)?;
    Ok((*transition.state(), transition.receipts().to_vec()))
}

fn write_pkg(dir: &Path, rec: &Value) {
    let _ = std::fs::remove_dir_all(dir);
    std::fs::create_dir_all(dir.join("src")).unwrap();
    let id = rec["id"].as_str().unwrap();
    let manifest = match rec.get("manifest").and_then(|m| m.as_str()) {
        Some(m) => m.to_string(),
        None => {
            let std = rec.get("std").and_then(|v| v.as_bool()).unwrap_or(true);
            let mut m = format!(
                "[project]\nauthors = [\"vh\"]\nentry = \"main.sw\"\nlicense = \"Apache-2.0\"\nname = \"{id}\"\n"
            );
            if std {
                m.push_str("\n[dependencies]\nstd = { path = \"/repo/sway-lib-std\" }\n");
            } else {
                m.push_str("implicit-std = false\n");
            }
            m
        }
    };
    std::fs::write(dir.join("Forc.toml"), manifest).unwrap();
    for (name, text) in rec["files"].as_object().unwrap() {
        let p = dir.join(name);
        if let Some(parent) = p.parent() {
            std::fs::create_dir_all(parent).unwrap();
        }
        std::fs::write(p, text.as_str().unwrap()).unwrap();
    }
}

fn set_env(rec: &Value) {
    for k in ["SWAY_VERIF_PASSES", "SWAY_VERIF_ASM_OPTS", "SWAY_FORCE_VERIFY_IR", "SWAY_VERIF_SSA_DOMINANCE"] {
        std::env::remove_var(k);
    }
    if let Some(env) = rec.get("env").and_then(|e| e.as_object()) {
        for (k, v) in env {
            if let Some(s) = v.as_str() {
                std::env::set_var(k, s);
            }
        }
    }
}

fn main() {
    let args: Vec<String> = std::env::args().collect();
    let input = arg_after(&args, "--in").expect("--in");
    let output = arg_after(&args, "--out").expect("--out");
    let work = PathBuf::from(arg_after(&args, "--work").expect("--work"));
    let pkg_timeout: u64 = arg_after(&args, "--pkg-timeout").map(|s| s.parse().unwrap()).unwrap_or(600);
    let recs = read_ndjson(&input);
    let mut out = NdjsonOut::new(&output);
    // watchdog: a package that does not finish within pkg_timeout seconds is reported and the process exits
    let current: Arc<Mutex<Option<(String, std::time::Instant)>>> = Arc::new(Mutex::new(None));
    {
        let current = current.clone();
        let output = output.clone();
        std::thread::spawn(move || loop {
            std::thread::sleep(std::time::Duration::from_secs(2));
            let cur = current.lock().unwrap_or_else(|e| e.into_inner()).clone();
            if let Some((id, t0)) = cur {
                if t0.elapsed().as_secs() > pkg_timeout {
                    use std::io::Write;
                    if let Ok(mut f) = std::fs::OpenOptions::new().append(true).open(&output) {
                        let _ = writeln!(f, "{}", json!({"ev":"Built","id":id,"ok":false,"panic":null,"timeout":true,"cfg":{}}));
                    }
                    std::process::exit(3);
                }
            }
        });
    }
    let captured = Arc::new(Mutex::new(Vec::<String>::new()));
    tracing::subscriber::set_global_default(Capture(captured.clone())).unwrap();
    quiet_panics();
    let gas_costs = forc_test::GasCostsSource::BuiltIn.provide_gas_costs().unwrap();

    for rec in &recs {
        let id = rec["id"].as_str().unwrap().to_string();
        out.emit(&json!({"ev":"Start","id":id}));
        out.flush();
        *current.lock().unwrap() = Some((id.clone(), std::time::Instant::now()));
        let dir = work.join(&id);
        write_pkg(&dir, rec);
        set_env(rec);
        captured.lock().unwrap().clear();
        let profile = rec.get("profile").and_then(|v| v.as_str()).unwrap_or("debug").to_string();
        let want: Vec<String> = rec
            .get("want")
            .and_then(|w| w.as_array())
            .map(|a| a.iter().filter_map(|x| x.as_str().map(String::from)).collect())
            .unwrap_or_default();
        let run = rec.get("run").and_then(|v| v.as_bool()).unwrap_or(true);
        let runners = rec.get("runners").and_then(|v| v.as_u64()).unwrap_or(1) as usize;
        let filter = rec.get("filter").and_then(|v| v.as_str()).map(String::from);
        let cfg = json!({"profile": profile, "env": rec.get("env").cloned().unwrap_or(json!({}))});

        let opts = forc_test::TestOpts {
            pkg: forc_pkg::PkgOpts {
                path: Some(dir.to_string_lossy().to_string()),
                offline: true,
                terse: false,
                locked: false,
                output_directory: None,
                ipfs_node: Default::default(),
            },
            release: profile == "release",
            build_profile: profile.clone(),
            no_output: !want.iter().any(|w| w == "files"),
            ..Default::default()
        };
        // pass tracer (hook H2): one event per IR pass of non-empty modules
        let trace_passes = rec.get("trace_passes").and_then(|v| v.as_bool()).unwrap_or(false);
        let dump_ir = rec.get("dump_ir").and_then(|v| v.as_str()).map(PathBuf::from);
        let pass_events: Arc<Mutex<Vec<Value>>> = Arc::new(Mutex::new(vec![]));
        if trace_passes || dump_ir.is_some() {
            let pe = pass_events.clone();
            let dump = dump_ir.clone();
            let prev: Mutex<String> = Mutex::new(String::new());
            let counter = std::sync::atomic::AtomicUsize::new(0);
            if let Some(d) = &dump {
                let _ = std::fs::create_dir_all(d);
            }
            sway_ir::pass_manager::verif::set_pass_tracer(Some(Box::new(move |stage, pass, modified, ir| {
                let nfns: usize = ir.module_iter().map(|m| m.function_iter(ir).count()).sum();
                if nfns == 0 {
                    return;
                }
                let n = counter.fetch_add(1, std::sync::atomic::Ordering::SeqCst);
                let text = sway_ir::printer::to_string(ir);
                let mut prev = prev.lock().unwrap_or_else(|e| e.into_inner());
                let changed = *prev != text;
                // print -> parse -> print, and verification of the parsed module
                let mut rt_norm = false;
                let mut rt_idem = String::from("n/a");
                let mut rt_diff = String::new();
                let (rt_parse, rt_same, rt_verify) = match std::panic::catch_unwind(std::panic::AssertUnwindSafe(|| {
                    sway_ir::parser::parse(&text, ir.source_engine, ir.experimental, ir.backtrace)
                })) {
                    Ok(Ok(mut ir2)) => {
                        let t2 = sway_ir::printer::to_string(&ir2);
                        let (n1, n2) = (rename_values(&text), rename_values(&t2));
                        rt_norm = n1 == n2;
                        if !rt_norm {
                            for (a, b) in n1.lines().zip(n2.lines()) {
                                if a != b {
                                    rt_diff = format!("{} ~~> {}", a.trim(), b.trim());
                                    break;
                                }
                            }
                        }
                        rt_idem = match std::panic::catch_unwind(std::panic::AssertUnwindSafe(|| {
                            sway_ir::parser::parse(&t2, ir.source_engine, ir.experimental, ir.backtrace)
                        })) {
                            Ok(Ok(ir3)) => if sway_ir::printer::to_string(&ir3) == t2 { "ok".into() } else { "differs".into() },
                            Ok(Err(e)) => format!("{e}"),
                            Err(_) => "panic".into(),
                        };
                        if let Some(d) = &dump {
                            if t2 != text {
                                let _ = std::fs::write(d.join(format!("{n:03}-{stage}-{}.reparsed.ir", pass.replace('/', "_"))), &t2);
                            }
                        }
                        ir2.verify_ssa_dominance = true;
                        let v = std::panic::catch_unwind(std::panic::AssertUnwindSafe(|| ir2.verify()));
                        ("ok".to_string(), t2 == text, match v { Ok(Ok(())) => "ok".to_string(), Ok(Err(e)) => format!("{e}"), Err(_) => "panic".to_string() })
                    }
                    Ok(Err(e)) => (if textual_forward_ref(&text) { "forward-ref".into() } else { format!("{e}") }, false, "n/a".into()),
                    Err(_) => (if textual_forward_ref(&text) { "forward-ref".into() } else { "panic".into() }, false, "n/a".into()),
                };
                if let Some(d) = &dump {
                    let _ = std::fs::write(d.join(format!("{n:03}-{stage}-{}.ir", pass.replace('/', "_"))), &text);
                }
                pe.lock().unwrap_or_else(|e| e.into_inner()).push(json!({
                    "n": n, "stage": stage, "pass": pass, "modified": modified, "changed": changed,
                    "sha": hex::encode(&Sha256::digest(text.as_bytes())[..8]), "fns": nfns,
                    "rt_parse": rt_parse, "rt_same": rt_same, "rt_verify": rt_verify,
                    "rt_norm": rt_norm, "rt_idem": rt_idem, "rt_diff": rt_diff,
                }));
                *prev = text;
            })));
        } else {
            sway_ir::pass_manager::verif::set_pass_tracer(None);
        }
        let built = std::panic::catch_unwind(std::panic::AssertUnwindSafe(|| -> anyhow::Result<_> {
            let build_opts: forc_pkg::BuildOpts = opts.into();
            let plan = forc_pkg::BuildPlan::from_pkg_opts(&build_opts.pkg)?;
            let built = forc_pkg::build_with_options(&build_opts, None)?;
            Ok((built, plan))
        }));
        let diag = || {
            let v = captured.lock().unwrap_or_else(|e| e.into_inner());
            strip_ansi(&v.join("\n"))
        };
        if trace_passes {
            let evs = pass_events.lock().unwrap_or_else(|e| e.into_inner()).clone();
            out.emit(&json!({"ev":"Passes","id":id,"cfg":cfg,"passes":evs}));
        }
        let (built, plan) = match built {
            Err(e) => {
                out.emit(&json!({"ev":"Built","id":id,"cfg":cfg,"ok":false,"panic":panic_msg(e),"diag":diag()}));
                continue;
            }
            Ok(Err(e)) => {
                out.emit(&json!({"ev":"Built","id":id,"cfg":cfg,"ok":false,"panic":null,"err":format!("{e:#}"),"diag":diag()}));
                continue;
            }
            Ok(Ok(b)) => b,
        };
        let want_main = rec.get("run_main").and_then(|v| v.as_bool()).unwrap_or(false);
        let script_data: Vec<u8> = rec.get("script_data").and_then(|v| v.as_array())
            .map(|a| a.iter().map(|x| x.as_u64().unwrap_or(0) as u8).collect()).unwrap_or_default();
        let mut main_code: Option<(String, Vec<u8>)> = None;
        // describe the built package(s)
        let mut pk = vec![];
        for (_pinned, b) in built.into_members() {
            let mut o = json!({
                "name": b.descriptor.name,
                "bytecode_sha": hex::encode(Sha256::digest(&b.bytecode.bytes)),
                "bytecode_len": b.bytecode.bytes.len(),
                "warnings": b.warnings.iter().map(|w| format!("{:?}", w.warning_content)).collect::<Vec<_>>(),
                "tests": b.bytecode.entries.iter().filter(|e| e.kind.test().is_some()).map(|e| e.finalized.fn_name.clone()).collect::<Vec<_>>(),
            });
            if want.iter().any(|w| w == "bytecode") {
                o["bytecode"] = json!(b.bytecode.bytes);
            }
            if want_main && matches!(b.tree_type, sway_core::language::parsed::TreeType::Script) {
                main_code = Some((b.descriptor.name.clone(), b.bytecode.bytes.clone()));
            }
            if want.iter().any(|w| w == "abi") {
                if let sway_core::asm_generation::ProgramABI::Fuel(abi) = &b.program_abi {
                    o["abi"] = serde_json::to_value(abi).unwrap_or(Value::Null);
                }
            }
            if want.iter().any(|w| w == "slots") {
                o["slots"] = serde_json::to_value(&b.storage_slots).unwrap_or(Value::Null);
            }
            pk.push(o);
        }
        out.emit(&json!({"ev":"Built","id":id,"cfg":cfg,"ok":true,"panic":null,"pkgs":pk,"diag": if want.iter().any(|w| w=="diag") { json!(diag()) } else { Value::Null }}));
        if let Some((name, code)) = main_code {
            let r = std::panic::catch_unwind(std::panic::AssertUnwindSafe(|| run_main(code, script_data.clone())));
            match r {
                Ok(Ok((state, receipts))) => {
                    let st = match &state {
                        fuel_vm::state::ProgramState::Return(w) => json!({"k":"return","v":word_bytes(*w)}),
                        fuel_vm::state::ProgramState::ReturnData(d) => json!({"k":"returndata","digest":hex::encode(d.as_ref())}),
                        fuel_vm::state::ProgramState::Revert(w) => json!({"k":"revert","v":word_bytes(*w)}),
                        other => json!({"k":"other","dbg":format!("{other:?}")}),
                    };
                    let rs: Vec<Value> = receipts.iter().filter_map(receipt_json).collect();
                    out.emit(&json!({"ev":"Main","id":id,"pkg":name,"cfg":cfg,"state":st,"receipts":rs}));
                }
                Ok(Err(e)) => out.emit(&json!({"ev":"Main","id":id,"pkg":name,"cfg":cfg,"err":format!("{e:#}")})),
                Err(e) => out.emit(&json!({"ev":"Main","id":id,"pkg":name,"cfg":cfg,"panic":panic_msg(e)})),
            }
        }
        if !run {
            continue;
        }
        let built = match forc_test::BuiltTests::from_built(built, &plan) {
            Ok(b) => b,
            Err(e) => {
                out.emit(&json!({"ev":"RunFailed","id":id,"cfg":cfg,"panic":null,"err":format!("{e:#}")}));
                continue;
            }
        };
        let filt = filter.as_ref().map(|f| forc_test::TestFilter { filter_phrase: f, exact_match: false });
        let gc = gas_costs.clone();
        let tested = std::panic::catch_unwind(std::panic::AssertUnwindSafe(|| {
            built.run(forc_test::TestRunnerCount::Manual(runners), filt, gc, forc_test::TestGasLimit::Unlimited)
        }));
        let tested = match tested {
            Err(e) => {
                out.emit(&json!({"ev":"RunFailed","id":id,"cfg":cfg,"panic":panic_msg(e)}));
                continue;
            }
            Ok(Err(e)) => {
                out.emit(&json!({"ev":"RunFailed","id":id,"cfg":cfg,"panic":null,"err":format!("{e:#}")}));
                continue;
            }
            Ok(Ok(t)) => t,
        };
        let tps: Vec<forc_test::TestedPackage> = match tested {
            forc_test::Tested::Package(p) => vec![*p],
            forc_test::Tested::Workspace(ps) => ps,
        };
        for tp in &tps {
            for t in &tp.tests {
                let state = match &t.state {
                    fuel_vm::state::ProgramState::Return(w) => json!({"k":"return","v":word_bytes(*w)}),
                    fuel_vm::state::ProgramState::ReturnData(d) => json!({"k":"returndata","digest":hex::encode(d.as_ref())}),
                    fuel_vm::state::ProgramState::Revert(w) => json!({"k":"revert","v":word_bytes(*w)}),
                    other => json!({"k":"other","dbg":format!("{other:?}")}),
                };
                let receipts: Vec<Value> = t.logs.iter().filter_map(receipt_json).collect();
                let cond = match &t.condition {
                    forc_pkg::TestPassCondition::ShouldRevert(None) => json!({"k":"should_revert"}),
                    forc_pkg::TestPassCondition::ShouldRevert(Some(c)) => json!({"k":"should_revert_code","v":word_bytes(*c)}),
                    forc_pkg::TestPassCondition::ShouldNotRevert => json!({"k":"none"}),
                };
                out.emit(&json!({"ev":"Test","id":id,"pkg":tp.built.descriptor.name,"cfg":cfg,"test":t.name,
                    "state":state,"receipts":receipts,"passed":t.passed(),"cond":cond}));
            }
        }
        if !want.iter().any(|w| w == "keep") {
            let _ = std::fs::remove_dir_all(&dir);
        }
    }
    out.flush();
}
