//! vh-crash: batch compile engine for C17 (the compiler never crashes).
//!
//! Same input records and the same `Start` / `Built` events as vh-exec (`ok`, `panic`, `timeout`, `err`,
//! `diag`), but one process compiles MANY packages and compiles `std` only once: every package is planned
//! with `forc_pkg::BuildPlan::from_pkg_opts` and compiled with forc-pkg's own `forc_pkg::compile` (the
//! function `forc_pkg::build` calls per node: compile_to_ast + ast_to_asm + ABI generation +
//! asm_to_bytecode), the only difference to `forc_pkg::build` being that the namespace of the `std` node is
//! taken from the first compilation in this process instead of being recompiled (the `Engines` are shared).
//! Packages whose plan has anything but one member and `std` are reported as `unsupported` (the driver sends
//! them to vh-exec).  Everything this engine finds suspicious is re-run alone through vh-exec
//! (forc_pkg::build_with_options in a fresh process) by the driver before it is reported.
//!
//! A panic is data ("panic": msg).  A hard abort (stack overflow) kills the process; the driver sees a
//! `Start` without `Built` and restarts after the culprit.  A package exceeding --pkg-timeout is reported
//! (`timeout: true`) by the watchdog thread and the process exits with code 3.
use serde_json::{json, Value};
use sha2::{Digest, Sha256};
use std::collections::HashMap;
use std::path::{Path, PathBuf};
use std::sync::{Arc, Mutex};
use forc_pkg::manifest::GenericManifestFile;
use vh::util::*;

struct Capture(Arc<Mutex<Vec<String>>>);
struct Visit<'a>(&'a mut String);
impl tracing::field::Visit for Visit<'_> {
    fn record_debug(&mut self, field: &tracing::field::Field, value: &dyn std::fmt::Debug) {
        if field.name() == "message" {
            use std::fmt::Write;
            let _ = write!(self.0, "{value:?}");
        }
    }
    fn record_str(&mut self, field: &tracing::field::Field, value: &str) {
        if field.name() == "message" {
            self.0.push_str(value);
        }
    }
}
impl tracing::Subscriber for Capture {
    fn enabled(&self, m: &tracing::Metadata<'_>) -> bool {
        *m.level() <= tracing::Level::INFO
    }
    fn new_span(&self, _: &tracing::span::Attributes<'_>) -> tracing::span::Id {
        tracing::span::Id::from_u64(1)
    }
    fn record(&self, _: &tracing::span::Id, _: &tracing::span::Record<'_>) {}
    fn record_follows_from(&self, _: &tracing::span::Id, _: &tracing::span::Id) {}
    fn event(&self, e: &tracing::Event<'_>) {
        let mut s = String::new();
        e.record(&mut Visit(&mut s));
        if !s.is_empty() {
            self.0.lock().unwrap_or_else(|e| e.into_inner()).push(s);
        }
    }
    fn enter(&self, _: &tracing::span::Id) {}
    fn exit(&self, _: &tracing::span::Id) {}
}

fn strip_ansi(s: &str) -> String {
    let mut out = String::new();
    let mut it = s.chars().peekable();
    while let Some(c) = it.next() {
        if c == '\u{1b}' {
            if it.peek() == Some(&'[') {
                it.next();
                for d in it.by_ref() {
                    if d.is_ascii_alphabetic() {
                        break;
                    }
                }
            }
        } else {
            out.push(c);
        }
    }
    out
}

fn write_pkg(dir: &Path, rec: &Value) {
    let _ = std::fs::remove_dir_all(dir);
    std::fs::create_dir_all(dir.join("src")).unwrap();
    let id = rec["id"].as_str().unwrap();
    let manifest = match rec.get("manifest").and_then(|m| m.as_str()) {
        Some(m) => m.to_string(),
        None => {
            let std = rec.get("std").and_then(|v| v.as_bool()).unwrap_or(true);
            let mut m = format!(
                "[project]\nauthors = [\"vh\"]\nentry = \"main.sw\"\nlicense = \"Apache-2.0\"\nname = \"{id}\"\n"
            );
            if std {
                m.push_str("\n[dependencies]\nstd = { path = \"/repo/sway-lib-std\" }\n");
            } else {
                m.push_str("implicit-std = false\n");
            }
            m
        }
    };
    std::fs::write(dir.join("Forc.toml"), manifest).unwrap();
    for (name, text) in rec["files"].as_object().unwrap() {
        let p = dir.join(name);
        if let Some(parent) = p.parent() {
            std::fs::create_dir_all(parent).unwrap();
        }
        std::fs::write(p, text.as_str().unwrap()).unwrap();
    }
}

enum Outcome {
    Built { sha: String, len: usize, warnings: usize, tree: String },
    Unsupported(String),
}

struct State {
    engines: sway_core::Engines,
    std_ns: Option<sway_core::namespace::Package>,
    std_secs: f64,
}

fn compile_one(st: &mut State, dir: &Path, profile_name: &str) -> anyhow::Result<Outcome> {
    use forc_pkg::*;
    use sway_core::language::parsed::TreeType;
    let pkg_opts = PkgOpts {
        path: Some(dir.to_string_lossy().to_string()),
        offline: true,
        terse: false,
        locked: false,
        output_directory: None,
        ipfs_node: Default::default(),
    };
    let plan = BuildPlan::from_pkg_opts(&pkg_opts)?;
    let profiles: HashMap<String, BuildProfile> = plan.build_profiles().collect();
    let mut profile = profiles.get(profile_name).cloned().unwrap_or_default();
    profile.name = profile_name.into();
    profile.include_tests = true;
    let members: Vec<NodeIx> = plan.member_nodes().collect();
    if members.len() != 1 {
        return Ok(Outcome::Unsupported(format!("{} members", members.len())));
    }
    let member = members[0];
    let graph = plan.graph();
    let mut std_node = None;
    for &n in plan.compilation_order() {
        if n == member {
            continue;
        }
        let m = &plan.manifest_map()[&graph[n].id()];
        if graph[n].name == "std" && m.dir() == Path::new("/repo/sway-lib-std") {
            std_node = Some(n);
        } else {
            return Ok(Outcome::Unsupported(format!("dependency {}", graph[n].name)));
        }
    }
    for e in graph.edges_directed(member, petgraph::Direction::Outgoing) {
        if !matches!(e.weight().kind, DepKind::Library) {
            return Ok(Outcome::Unsupported("contract dependency".into()));
        }
    }
    let target = sway_core::BuildTarget::Fuel;
    let mut lib_namespace_map: HashMap<NodeIx, sway_core::namespace::Package> = HashMap::default();
    let compiled_contract_deps: CompiledContractDeps = HashMap::new();
    let dbg_of = |manifest: &PackageManifestFile| match (profile.is_release(), manifest.project.force_dbg_in_release) {
        (true, Some(true)) | (false, _) => sway_core::DbgGeneration::Full,
        (true, _) => sway_core::DbgGeneration::None,
    };
    if let Some(n) = std_node {
        if st.std_ns.is_none() {
            let t0 = std::time::Instant::now();
            let pkg = &graph[n];
            let manifest = &plan.manifest_map()[&pkg.id()];
            let experimental = sway_features::ExperimentalFeatures::new(&manifest.project.experimental, &[], &[])
                .map_err(|e| anyhow::anyhow!("{e}"))?;
            let descriptor = PackageDescriptor { name: pkg.name.clone(), target, pinned: pkg.clone(), manifest_file: manifest.clone() };
            let program_id = st.engines.se().get_or_create_program_id_from_manifest_path(&manifest.entry_path());
            let dbg = dbg_of(manifest);
            let ns = dependency_namespace(&lib_namespace_map, &compiled_contract_deps, graph, n, &st.engines, None, program_id, experimental, dbg)
                .map_err(|e| anyhow::anyhow!("std namespace: {e:?}"))?;
            let p = BuildProfile { include_tests: false, ..profile.clone() };
            let mut sm = sway_core::source_map::SourceMap::new();
            let compiled = compile(&descriptor, &p, &st.engines, ns, &mut sm, experimental, dbg)?;
            st.std_ns = Some(compiled.namespace);
            st.std_secs = t0.elapsed().as_secs_f64();
        }
        lib_namespace_map.insert(n, st.std_ns.clone().unwrap());
    }
    // the member, exactly as forc_pkg::build does it
    let pkg = &graph[member];
    let manifest = &plan.manifest_map()[&pkg.id()];
    let experimental = sway_features::ExperimentalFeatures::new(&manifest.project.experimental, &[], &[])
        .map_err(|e| anyhow::anyhow!("{e}"))?;
    let dbg = dbg_of(manifest);
    let descriptor = PackageDescriptor { name: pkg.name.clone(), target, pinned: pkg.clone(), manifest_file: manifest.clone() };
    let mut source_map = sway_core::source_map::SourceMap::new();
    let mut contract_id_value: Option<String> = None;
    if matches!(manifest.program_type(), Ok(TreeType::Contract)) {
        let p = BuildProfile { include_tests: false, ..profile.clone() };
        let program_id = st.engines.se().get_or_create_program_id_from_manifest_path(&manifest.entry_path());
        let ns = dependency_namespace(&lib_namespace_map, &compiled_contract_deps, graph, member, &st.engines, None, program_id, experimental, dbg)
            .map_err(|e| anyhow::anyhow!("Failed to compile {} (namespace): {e:?}", pkg.name))?;
        let c = compile(&descriptor, &p, &st.engines, ns, &mut source_map, experimental, dbg)?;
        let cid = contract_id(&c.bytecode.bytes, c.storage_slots.clone(), &fuel_tx::Salt::zeroed());
        contract_id_value = Some(format!("0x{cid}"));
    }
    let program_id = st.engines.se().get_or_create_program_id_from_manifest_path(&manifest.entry_path());
    let ns = dependency_namespace(&lib_namespace_map, &compiled_contract_deps, graph, member, &st.engines, contract_id_value, program_id, experimental, dbg)
        .map_err(|e| anyhow::anyhow!("Failed to compile {} (namespace): {e:?}", pkg.name))?;
    let c = compile(&descriptor, &profile, &st.engines, ns, &mut source_map, experimental, dbg)?;
    Ok(Outcome::Built {
        sha: hex::encode(Sha256::digest(&c.bytecode.bytes)),
        len: c.bytecode.bytes.len(),
        warnings: c.warnings.len(),
        tree: format!("{:?}", c.tree_type),
    })
}

fn main() {
    let args: Vec<String> = std::env::args().collect();
    let input = arg_after(&args, "--in").expect("--in");
    let output = arg_after(&args, "--out").expect("--out");
    let work = PathBuf::from(arg_after(&args, "--work").expect("--work"));
    let pkg_timeout: u64 = arg_after(&args, "--pkg-timeout").map(|s| s.parse().unwrap()).unwrap_or(120);
    let profile = arg_after(&args, "--profile").unwrap_or_else(|| "debug".into());
    let keep = args.iter().any(|a| a == "--keep");
    let recs = read_ndjson(&input);
    let mut out = NdjsonOut::new(&output);
    let current: Arc<Mutex<Option<(String, std::time::Instant)>>> = Arc::new(Mutex::new(None));
    {
        let current = current.clone();
        let output = output.clone();
        let profile = profile.clone();
        std::thread::spawn(move || loop {
            std::thread::sleep(std::time::Duration::from_secs(1));
            let cur = current.lock().unwrap_or_else(|e| e.into_inner()).clone();
            if let Some((id, t0)) = cur {
                if t0.elapsed().as_secs() > pkg_timeout {
                    use std::io::Write;
                    if let Ok(mut f) = std::fs::OpenOptions::new().append(true).open(&output) {
                        let _ = writeln!(f, "{}", json!({"ev":"Built","id":id,"ok":false,"panic":null,"timeout":true,"cfg":{"profile":profile,"engine":"vh-crash"}}));
                    }
                    std::process::exit(3);
                }
            }
        });
    }
    let captured = Arc::new(Mutex::new(Vec::<String>::new()));
    tracing::subscriber::set_global_default(Capture(captured.clone())).unwrap();
    quiet_panics();
    let mut st = State { engines: sway_core::Engines::default(), std_ns: None, std_secs: 0.0 };
    let mut after_panic = false;
    for rec in &recs {
        let id = rec["id"].as_str().unwrap().to_string();
        out.emit(&json!({"ev":"Start","id":id}));
        out.flush();
        let dir = work.join(&id);
        write_pkg(&dir, rec);
        captured.lock().unwrap().clear();
        let cfg = json!({"profile": profile, "engine": "vh-crash"});
        // the time std takes the first time is not charged to the package
        let first = st.std_ns.is_none();
        *current.lock().unwrap() = Some((id.clone(), std::time::Instant::now() + std::time::Duration::from_secs(if first { 300 } else { 0 })));
        let t0 = std::time::Instant::now();
        let r = std::panic::catch_unwind(std::panic::AssertUnwindSafe(|| compile_one(&mut st, &dir, &profile)));
        *current.lock().unwrap() = None;
        let ms = (t0.elapsed().as_secs_f64() - if first { st.std_secs } else { 0.0 }) * 1000.0;
        let diag = {
            let v = captured.lock().unwrap_or_else(|e| e.into_inner());
            strip_ansi(&v.join("\n"))
        };
        match r {
            Err(e) => {
                out.emit(&json!({"ev":"Built","id":id,"cfg":cfg,"ok":false,"panic":panic_msg(e),"diag":diag,"ms":ms as u64,"after_panic":after_panic}));
                after_panic = true;
            }
            Ok(Err(e)) => out.emit(&json!({"ev":"Built","id":id,"cfg":cfg,"ok":false,"panic":null,"err":format!("{e:#}"),"diag":diag,"ms":ms as u64,"after_panic":after_panic})),
            Ok(Ok(Outcome::Unsupported(why))) => out.emit(&json!({"ev":"Built","id":id,"cfg":cfg,"ok":false,"panic":null,"unsupported":why,"ms":ms as u64})),
            Ok(Ok(Outcome::Built { sha, len, warnings, tree })) => out.emit(&json!({"ev":"Built","id":id,"cfg":cfg,"ok":true,"panic":null,
                "pkgs":[{"name":id,"bytecode_sha":sha,"bytecode_len":len,"nwarnings":warnings,"tree":tree}],"diag":Value::Null,"ms":ms as u64,"after_panic":after_panic})),
        }
        if !keep {
            let _ = std::fs::remove_dir_all(&dir);
        }
    }
    out.flush();
}
