//! vh-order: conformance driver for C22 (BuildOrder.tla).
//! Input  (ndjson): {"n":N,"edges":[[a,b],...]}   (a depends on b, nodes 1..N)
//! Output (ndjson): {"n","edges","ok":bool,"order":[..],"shuffle":k}
//! Each graph is built K times with differently ordered node/edge insertions (seeded, deterministic)
//! so that petgraph's index-dependent tie-breaking is perturbed.
use forc_pkg::{source, DepKind, Edge, Graph, Pinned};
use rand::{rngs::StdRng, seq::SliceRandom, SeedableRng};
use serde_json::json;
use vh::util::*;

fn main() {
    let args: Vec<String> = std::env::args().collect();
    let input = arg_after(&args, "--in").expect("--in");
    let output = arg_after(&args, "--out").expect("--out");
    let shuffles: u64 = arg_after(&args, "--shuffles").map(|s| s.parse().unwrap()).unwrap_or(1);
    let recs = read_ndjson(&input);
    let mut out = NdjsonOut::new(&output);
    quiet_panics();
    for (ri, r) in recs.iter().enumerate() {
        let n = r["n"].as_u64().unwrap() as usize;
        let edges: Vec<(usize, usize)> = r["edges"]
            .as_array()
            .unwrap()
            .iter()
            .map(|e| (e[0].as_u64().unwrap() as usize, e[1].as_u64().unwrap() as usize))
            .collect();
        for k in 0..shuffles {
            let mut rng = StdRng::seed_from_u64(ri as u64 * 1000 + k);
            let mut node_order: Vec<usize> = (1..=n).collect();
            let mut edge_order = edges.clone();
            if k > 0 {
                node_order.shuffle(&mut rng);
                edge_order.shuffle(&mut rng);
            }
            let res = std::panic::catch_unwind(|| {
                let mut g = Graph::default();
                let mut ix = std::collections::HashMap::new();
                for &i in &node_order {
                    let node = Pinned {
                        name: format!("p{i}"),
                        source: "member".parse::<source::Pinned>().unwrap(),
                    };
                    ix.insert(i, g.add_node(node));
                }
                for (j, &(a, b)) in edge_order.iter().enumerate() {
                    let kind = if j % 2 == 0 {
                        DepKind::Library
                    } else {
                        DepKind::Contract { salt: Default::default() }
                    };
                    g.add_edge(ix[&a], ix[&b], Edge::new(format!("p{b}"), kind));
                }
                forc_pkg::compilation_order(&g).map(|o| {
                    o.into_iter()
                        .map(|nix| g[nix].name[1..].parse::<usize>().unwrap())
                        .collect::<Vec<_>>()
                })
            });
            let rec = match res {
                Ok(Ok(order)) => json!({"n":n,"edges":edges,"ok":true,"order":order,"shuffle":k,"panic":false}),
                Ok(Err(_)) => json!({"n":n,"edges":edges,"ok":false,"order":[],"shuffle":k,"panic":false}),
                Err(e) => json!({"n":n,"edges":edges,"ok":false,"order":[],"shuffle":k,"panic":true,"msg":panic_msg(e)}),
            };
            out.emit(&rec);
        }
    }
}
