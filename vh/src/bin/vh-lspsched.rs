//! vh-lspsched: conformance driver for C24 (LspSched.tla).
//!
//! Starts a real `sway_lsp::server_state::ServerState` (with its real compilation worker thread) on
//! a tiny std-less workspace, runs every LSP handler (didOpen, didChange, didSave, a request that
//! waits for parsing) on its own OS thread with a current-thread tokio runtime, and installs the
//! `sway_utils::verif` step controller so that every thread blocks at each step point until the
//! schedule grants it.  Purely mechanical: the schedule comes from TLC, the observed state after
//! every grant is written as an event, and `Trace_LspSched.tla` judges the events.
//!
//! modes
//!   --mode measure --work DIR --out F      free-running scenario; prints the step points each
//!                                          handler / compilation passes (abstract->concrete map)
//!   --mode replay  --work DIR --in F --out F [--timeout-ms N] [--grace-ms N]
//!        input  (ndjson): {"id":..,"steps":[{"thr":"O","point":"arrive","pos":{"W":"W.loop",..}},..]}
//!        output (ndjson): {"ev":"Reset","id":..} {"ev":"Step","thr","point","obs":{ic,rt,ch,last},
//!                          "pos":{..},"ver":n} .. {"ev":"End","pos":{..},"obs":{..},"sym":k}
//!
//! thread names: W worker, O didOpen, C<k> k-th didChange (version k), S<k> didSave, T<k> request.
use lsp_types::*;
use serde_json::{json, Value};
use std::cell::RefCell;
use std::collections::BTreeMap;
use std::path::{Path, PathBuf};
use std::sync::{Arc, Condvar, Mutex, OnceLock};
use std::time::{Duration, Instant};
use sway_lsp::handlers::{notification, request};
use sway_lsp::server_state::ServerState;
use tower_lsp::LanguageServer;
use vh::util::*;

// ------------------------------------------------------------------------------------------------
// step controller
// ------------------------------------------------------------------------------------------------
#[derive(Clone, Debug, PartialEq)]
enum Pos {
    At(String),
    Running, // granted and not (yet) at a step point: running, or blocked inside the code under test
    Done,
}

#[derive(Debug)]
struct Slot {
    pos: Pos,
    fields: String,
    granted: bool,
}

#[derive(Default)]
struct CtlState {
    gen: u64,
    free: bool,
    slots: BTreeMap<String, Slot>,
    log: Vec<(String, String, String)>, // (thread, point, fields) of every step reached, in order
}

struct Ctl {
    m: Mutex<CtlState>,
    cv: Condvar,
}

static CTL: OnceLock<Ctl> = OnceLock::new();
fn ctl() -> &'static Ctl {
    CTL.get_or_init(|| Ctl { m: Mutex::new(CtlState::default()), cv: Condvar::new() })
}

thread_local! {
    static ROLE: RefCell<Option<(u64, String)>> = const { RefCell::new(None) };
}

/// Called by `sway_utils::verif::step` on the thread that reached the step point.
fn controller(point: &str, fields: &str) {
    // other engines' step points (pid-lock hooks reached from didChange / didSave) are not ours
    if !(point.starts_with("W.") || point.starts_with("H.") || point.starts_with("T.") || point == "arrive") {
        return;
    }
    let c = ctl();
    let role = ROLE.with(|r| r.borrow().clone());
    let (gen, name) = match role {
        Some(r) => r,
        None => {
            // a thread the harness did not create: the compilation worker of the current server
            if !point.starts_with("W.") {
                return;
            }
            let g = c.m.lock().unwrap();
            let r = (g.gen, "W".to_string());
            drop(g);
            ROLE.with(|x| *x.borrow_mut() = Some(r.clone()));
            r
        }
    };
    let mut g = c.m.lock().unwrap();
    if g.gen != gen {
        return; // left over from an earlier schedule: runs freely to its end
    }
    g.log.push((name.clone(), point.to_string(), fields.to_string()));
    if g.free {
        return;
    }
    g.slots.insert(name.clone(), Slot { pos: Pos::At(point.to_string()), fields: fields.to_string(), granted: false });
    c.cv.notify_all();
    loop {
        if g.gen != gen || g.free {
            return;
        }
        if g.slots.get(&name).map(|s| s.granted).unwrap_or(true) {
            break;
        }
        g = c.cv.wait(g).unwrap();
    }
    if let Some(s) = g.slots.get_mut(&name) {
        s.granted = false;
        s.pos = Pos::Running;
    }
    c.cv.notify_all();
}

fn mark_done(gen: u64, name: &str) {
    let c = ctl();
    let mut g = c.m.lock().unwrap();
    if g.gen == gen {
        g.slots.insert(name.to_string(), Slot { pos: Pos::Done, fields: String::new(), granted: false });
        c.cv.notify_all();
    }
}

fn pos_name(p: &Pos) -> String {
    match p {
        Pos::At(s) => s.clone(),
        Pos::Running => "parked".into(),
        Pos::Done => "done".into(),
    }
}

fn positions(g: &CtlState) -> BTreeMap<String, String> {
    g.slots.iter().map(|(k, s)| (k.clone(), pos_name(&s.pos))).collect()
}

/// Wait until every thread is where `want` says (threads expected "parked" only need to be off
/// their step point).  Returns the actual positions and whether the wait timed out.
fn wait_positions(want: &BTreeMap<String, String>, timeout: Duration) -> (BTreeMap<String, String>, bool) {
    let c = ctl();
    let deadline = Instant::now() + timeout;
    let mut g = c.m.lock().unwrap();
    loop {
        let cur = positions(&g);
        let ok = want.iter().all(|(k, w)| cur.get(k).map(|p| p == w).unwrap_or(false));
        if ok {
            return (cur, false);
        }
        let now = Instant::now();
        if now >= deadline {
            return (cur, true);
        }
        let (g2, _) = c.cv.wait_timeout(g, deadline - now).unwrap();
        g = g2;
    }
}

fn grant(name: &str, point: &str) -> Result<String, String> {
    let c = ctl();
    let mut g = c.m.lock().unwrap();
    match g.slots.get_mut(name) {
        Some(s) if s.pos == Pos::At(point.to_string()) => {
            s.granted = true;
            // the thread is not at its point any more from the scheduler's view
            s.pos = Pos::Running;
            let f = s.fields.clone();
            c.cv.notify_all();
            Ok(f)
        }
        Some(s) => Err(format!("thread {name} is at {} not at {point}", pos_name(&s.pos))),
        None => Err(format!("thread {name} does not exist")),
    }
}

fn new_generation(free: bool) -> u64 {
    let c = ctl();
    let mut g = c.m.lock().unwrap();
    g.gen += 1;
    g.free = free;
    g.slots.clear();
    g.log.clear();
    c.cv.notify_all();
    g.gen
}

fn set_free() {
    let c = ctl();
    let mut g = c.m.lock().unwrap();
    g.free = true;
    c.cv.notify_all();
}

// ------------------------------------------------------------------------------------------------
// workspace and LSP parameters
// ------------------------------------------------------------------------------------------------
fn text_of(version: u64) -> String {
    // version k declares a function v<k>: the symbols of the compiled program tell which text was compiled
    format!("script;\n\nfn v{version}() -> u64 {{\n    {version}\n}}\n\nfn main() -> u64 {{\n    v{version}()\n}}\n")
}

fn make_workspace(dir: &Path) -> PathBuf {
    let _ = std::fs::remove_dir_all(dir);
    std::fs::create_dir_all(dir.join("src")).unwrap();
    std::fs::write(
        dir.join("Forc.toml"),
        "[project]\nauthors = [\"vh\"]\nentry = \"main.sw\"\nlicense = \"Apache-2.0\"\nname = \"c24ws\"\nimplicit-std = false\n",
    )
    .unwrap();
    let main = dir.join("src/main.sw");
    std::fs::write(&main, text_of(0)).unwrap();
    main
}

fn open_params(uri: &Url) -> DidOpenTextDocumentParams {
    DidOpenTextDocumentParams {
        text_document: TextDocumentItem { uri: uri.clone(), language_id: "sway".into(), version: 0, text: text_of(0) },
    }
}
fn change_params(uri: &Url, version: u64) -> DidChangeTextDocumentParams {
    DidChangeTextDocumentParams {
        text_document: VersionedTextDocumentIdentifier { uri: uri.clone(), version: version as i32 },
        content_changes: vec![TextDocumentContentChangeEvent { range: None, range_length: None, text: text_of(version) }],
    }
}
fn save_params(uri: &Url) -> DidSaveTextDocumentParams {
    DidSaveTextDocumentParams { text_document: TextDocumentIdentifier { uri: uri.clone() }, text: None }
}
fn symbol_params(uri: &Url) -> DocumentSymbolParams {
    DocumentSymbolParams {
        text_document: TextDocumentIdentifier { uri: uri.clone() },
        work_done_progress_params: Default::default(),
        partial_result_params: Default::default(),
    }
}

fn symbol_names(r: &Option<DocumentSymbolResponse>) -> Vec<String> {
    match r {
        Some(DocumentSymbolResponse::Nested(v)) => v.iter().map(|s| s.name.clone()).collect(),
        Some(DocumentSymbolResponse::Flat(v)) => v.iter().map(|s| s.name.clone()).collect(),
        None => vec![],
    }
}

/// Which text version do the server's symbols for main.sw show (without waiting for parsing)?  -1 = none.
fn compiled_symbol_version(state: &ServerState, uri: &Url) -> i64 {
    let Ok(temp) = state.uri_from_workspace(uri) else { return -1 };
    let syms = sway_lsp::core::session::document_symbols(&temp, &state.token_map, &state.engines.read(), &state.compiled_programs);
    let mut best = -1;
    for s in syms.unwrap_or_default() {
        if let Some(k) = s.name.strip_prefix('v').and_then(|x| x.parse::<i64>().ok()) {
            best = best.max(k);
        }
    }
    best
}

fn obs(state: &ServerState) -> Value {
    let (ic, rt, ch, last) = state.verif_sched_state();
    json!({"ic": ic, "rt": rt, "ch": ch, "last": last})
}

// ------------------------------------------------------------------------------------------------
// handler threads
// ------------------------------------------------------------------------------------------------
fn spawn_handler(gen: u64, name: String, state: Arc<ServerState>, uri: Url, results: Arc<Mutex<BTreeMap<String, Value>>>) -> std::thread::JoinHandle<()> {
    std::thread::Builder::new()
        .name(name.clone())
        .spawn(move || {
            ROLE.with(|r| *r.borrow_mut() = Some((gen, name.clone())));
            let rt = tokio::runtime::Builder::new_current_thread().enable_all().build().unwrap();
            // the handler has not been polled yet: pseudo step point of the harness
            controller("arrive", "");
            let kind = name.chars().next().unwrap();
            let k: u64 = name[1..].parse().unwrap_or(0);
            let res = std::panic::catch_unwind(std::panic::AssertUnwindSafe(|| {
                rt.block_on(async {
                    match kind {
                        'O' => json!({"ok": notification::handle_did_open_text_document(&state, open_params(&uri)).await.is_ok()}),
                        'C' => json!({"ok": notification::handle_did_change_text_document(&state, change_params(&uri, k)).await.is_ok()}),
                        'S' => {
                            // handle_did_save_text_document is pub(crate): go through the LanguageServer impl
                            LanguageServer::did_save(&*state, save_params(&uri)).await;
                            json!({"ok": true})
                        }
                        'T' => {
                            let r = request::handle_document_symbol(&state, symbol_params(&uri)).await;
                            json!({"ok": r.is_ok(), "symbols": r.ok().map(|x| symbol_names(&x))})
                        }
                        _ => json!({"ok": false, "what": "unknown thread kind"}),
                    }
                })
            }));
            let v = match res {
                Ok(v) => v,
                Err(e) => json!({"ok": false, "panic": panic_msg(e)}),
            };
            results.lock().unwrap().insert(name.clone(), v);
            mark_done(gen, &name);
        })
        .unwrap()
}

/// Let everything of the current generation run freely, push one more compilation through so that
/// parked waiters are notified, join what can be joined, terminate the worker.
fn cleanup(state: Arc<ServerState>, uri: &Url, handles: Vec<std::thread::JoinHandle<()>>, version: u64) {
    set_free();
    let rt = tokio::runtime::Builder::new_current_thread().enable_all().build().unwrap();
    let deadline = Instant::now() + Duration::from_secs(10);
    let mut v = version;
    loop {
        if handles.iter().all(|h| h.is_finished()) || Instant::now() > deadline {
            break;
        }
        std::thread::sleep(Duration::from_millis(20));
        if handles.iter().all(|h| h.is_finished()) {
            break;
        }
        // someone is still waiting: a fresh compilation ends with notify_waiters
        v += 1;
        let _ = rt.block_on(notification::handle_did_change_text_document(&state, change_params(uri, v)));
        std::thread::sleep(Duration::from_millis(60));
    }
    for h in handles {
        if h.is_finished() {
            let _ = h.join();
        } // else: leaked, parked forever on its own runtime
    }
    let _ = state.shutdown_server();
}

// ------------------------------------------------------------------------------------------------
// replay
// ------------------------------------------------------------------------------------------------
fn to_map(v: &Value) -> BTreeMap<String, String> {
    v.as_object().map(|o| o.iter().map(|(k, x)| (k.clone(), x.as_str().unwrap_or("").to_string())).collect()).unwrap_or_default()
}

fn replay_one(rec: &Value, main: &Path, out: &mut NdjsonOut, timeout: Duration, grace: Duration) {
    let id = rec["id"].clone();
    let steps = rec["steps"].as_array().cloned().unwrap_or_default();
    // threads mentioned by the schedule
    let mut names: Vec<String> = vec![];
    for s in &steps {
        for k in to_map(&s["pos"]).keys() {
            if k != "W" && !names.contains(k) {
                names.push(k.clone());
            }
        }
        let t = s["thr"].as_str().unwrap().to_string();
        if t != "W" && !names.contains(&t) {
            names.push(t);
        }
    }
    names.sort();
    out.emit(&json!({"ev":"Reset","id":id,"threads":names}));
    let gen = new_generation(false);
    let uri = Url::from_file_path(main).unwrap();
    let state = Arc::new(ServerState::default());
    let results = Arc::new(Mutex::new(BTreeMap::new()));
    let mut handles = vec![];
    for n in &names {
        handles.push(spawn_handler(gen, n.clone(), state.clone(), uri.clone(), results.clone()));
    }
    // initial positions: worker before recv, every handler not yet polled
    let mut want: BTreeMap<String, String> = names.iter().map(|n| (n.clone(), "arrive".to_string())).collect();
    want.insert("W".into(), "W.loop".into());
    let (pos0, to0) = wait_positions(&want, timeout);
    out.emit(&json!({"ev":"Init","pos":pos0,"obs":obs(&state),"timeout":to0}));
    let mut maxver = 0u64;
    let mut aborted = to0;
    if !aborted {
        for (i, s) in steps.iter().enumerate() {
            let thr = s["thr"].as_str().unwrap();
            let point = s["point"].as_str().unwrap();
            if let Some(k) = thr.strip_prefix('C').and_then(|x| x.parse::<u64>().ok()) {
                maxver = maxver.max(k);
            }
            let fields = match grant(thr, point) {
                Ok(f) => f,
                Err(why) => {
                    out.emit(&json!({"ev":"Abort","i":i,"thr":thr,"point":point,"why":why}));
                    aborted = true;
                    break;
                }
            };
            let want = to_map(&s["pos"]);
            let t0 = Instant::now();
            let (pos, timed_out) = wait_positions(&want, timeout);
            let ms = t0.elapsed().as_millis() as u64;
            let fv: Value = serde_json::from_str(&format!("{{{fields}}}")).unwrap_or(json!({}));
            out.emit(&json!({"ev":"Step","i":i,"thr":thr,"point":point,"obs":obs(&state),"pos":pos,
                             "ver":fv.get("version").cloned().unwrap_or(json!(-2)),
                             "last":fv.get("last").cloned().unwrap_or(json!("")),
                             "timeout":timed_out,"ms":ms}));
            if timed_out {
                aborted = true;
                break;
            }
        }
    }
    if !aborted {
        // end condition: after a grace period everybody is still where the schedule left them
        std::thread::sleep(grace);
        let g = ctl().m.lock().unwrap();
        let pos = positions(&g);
        drop(g);
        let res = results.lock().unwrap().clone();
        out.emit(&json!({"ev":"End","pos":pos,"obs":obs(&state),"sym":compiled_symbol_version(&state, &uri),"results":res}));
    }
    out.flush();
    cleanup(state, &uri, handles, maxver + 100);
}

// ------------------------------------------------------------------------------------------------
// measure: which step points does each handler / each kind of compilation pass when running freely
// ------------------------------------------------------------------------------------------------
fn take_log() -> Vec<(String, String, String)> {
    let mut g = ctl().m.lock().unwrap();
    std::mem::take(&mut g.log)
}

/// Current position of a thread (None: no slot yet).
fn where_is(name: &str) -> Option<Pos> {
    ctl().m.lock().unwrap().slots.get(name).map(|s| s.pos.clone())
}

/// Wait until the thread stands at a step point or is done.
fn settle(name: &str, timeout: Duration) -> Option<Pos> {
    let c = ctl();
    let deadline = Instant::now() + timeout;
    let mut g = c.m.lock().unwrap();
    loop {
        match g.slots.get(name).map(|s| s.pos.clone()) {
            Some(Pos::Running) | None => {}
            Some(p) => return Some(p),
        }
        let now = Instant::now();
        if now >= deadline {
            return None;
        }
        let (g2, _) = c.cv.wait_timeout(g, deadline - now).unwrap();
        g = g2;
    }
}

/// Grant `name` step by step until it stands at `point` (not granted there). false: it never got there.
fn advance_to(name: &str, point: &str) -> bool {
    for _ in 0..200 {
        match settle(name, Duration::from_secs(10)) {
            Some(Pos::At(p)) if p == point => return true,
            Some(Pos::At(p)) => {
                if grant(name, &p).is_err() {
                    return false;
                }
            }
            _ => return false,
        }
    }
    false
}

fn set_controlled() {
    let c = ctl();
    let mut g = c.m.lock().unwrap();
    g.free = false;
    c.cv.notify_all();
}

/// How many further W.check points does a compilation pass after its k-th W.check has seen the
/// retrigger flag?  One controlled experiment per k: the compilation (of didOpen's request if
/// `cached` is false, of a didSave request answered from the cache otherwise) is stopped at its k-th
/// W.check, a didChange runs up to and including its retrigger store, then the worker is granted
/// step by step up to W.clearCompiling.
fn abort_tail(main: &Path, k: usize, cached: bool) -> Option<usize> {
    let gen = new_generation(cached);
    let uri = Url::from_file_path(main).unwrap();
    let state = Arc::new(ServerState::default());
    let results = Arc::new(Mutex::new(BTreeMap::new()));
    let mut handles = vec![];
    let first = if cached {
        // phase 1, free running: didOpen compiles and commits
        let rt = tokio::runtime::Builder::new_current_thread().enable_all().build().unwrap();
        ROLE.with(|r| *r.borrow_mut() = Some((gen, "M".to_string())));
        rt.block_on(async {
            let _ = notification::handle_did_open_text_document(&state, open_params(&uri)).await;
        });
        std::thread::sleep(Duration::from_millis(100));
        set_controlled();
        "S1"
    } else {
        "O"
    };
    handles.push(spawn_handler(gen, first.to_string(), state.clone(), uri.clone(), results.clone()));
    handles.push(spawn_handler(gen, "C1".to_string(), state.clone(), uri.clone(), results.clone()));
    let mut res = None;
    'exp: {
        if !advance_to(first, "T.await") || !advance_to("W", "W.check") {
            break 'exp;
        }
        for _ in 1..k {
            if grant("W", "W.check").is_err() || settle("W", Duration::from_secs(10)) != Some(Pos::At("W.check".into())) {
                break 'exp;
            }
        }
        // the flag must be up: didChange sees is_compiling = true and stores retrigger
        if !advance_to("C1", "H.setRetrigger") || grant("C1", "H.setRetrigger").is_err() || settle("C1", Duration::from_secs(10)).is_none() {
            break 'exp;
        }
        let mut n = 0usize;
        loop {
            match settle("W", Duration::from_secs(10)) {
                Some(Pos::At(p)) if p == "W.check" => {
                    n += 1;
                    if grant("W", "W.check").is_err() {
                        break 'exp;
                    }
                }
                Some(Pos::At(p)) if p == "W.clearCompiling" => break,
                _ => break 'exp,
            }
        }
        let (_, _, _, last) = state.verif_sched_state();
        if last == "Failed" && n >= 1 {
            res = Some(n - 1);
        }
    }
    let _ = where_is("W");
    cleanup(state, &uri, handles, 50);
    res
}

fn measure(main: &Path, out: &mut NdjsonOut) {
    let gen = new_generation(true);
    let uri = Url::from_file_path(main).unwrap();
    let state = Arc::new(ServerState::default());
    ROLE.with(|r| *r.borrow_mut() = Some((gen, "M".to_string())));
    let rt = tokio::runtime::Builder::new_current_thread().enable_all().build().unwrap();
    let phase = |name: &str, out: &mut NdjsonOut| {
        std::thread::sleep(Duration::from_millis(150));
        let log = take_log();
        let w: Vec<String> = log.iter().filter(|x| x.0 == "W").map(|x| x.1.clone()).collect();
        let h: Vec<String> = log.iter().filter(|x| x.0 != "W").map(|x| x.1.clone()).collect();
        let checks = w.iter().filter(|p| *p == "W.check").count();
        out.emit(&json!({"ev":"Measure","phase":name,"worker":w,"handler":h,"checks":checks,"obs":obs(&state),
                         "sym":compiled_symbol_version(&state, &uri)}));
    };
    rt.block_on(async {
        notification::handle_did_open_text_document(&state, open_params(&uri)).await.unwrap();
    });
    phase("open", out);
    rt.block_on(async {
        notification::handle_did_change_text_document(&state, change_params(&uri, 1)).await.unwrap();
        state.wait_for_parsing().await;
    });
    phase("change", out);
    rt.block_on(async {
        LanguageServer::did_save(&*state, save_params(&uri)).await;
    });
    phase("save", out);
    rt.block_on(async {
        let r = request::handle_document_symbol(&state, symbol_params(&uri)).await;
        assert!(r.is_ok());
    });
    phase("request", out);
    rt.block_on(async {
        notification::handle_did_change_text_document(&state, change_params(&uri, 2)).await.unwrap();
        state.wait_for_parsing().await;
    });
    phase("change2", out);
    let _ = state.shutdown_server();
    out.emit(&json!({"ev":"SaveProbe","yields":save_probe(main)}));
    let full = out_checks(main, false);
    let cached = out_checks(main, true);
    out.emit(&json!({"ev":"Tails","full":full,"cached":cached}));
}

/// Does a didSave that finds the request of a didChange still queued back off (true) or replace
/// it (false)?  didOpen runs freely to its end; then, controlled, didChange queues its request
/// (the worker is held before rx.recv()) and didSave is granted H.load and H.isFull.
fn save_probe(main: &Path) -> Option<bool> {
    let gen = new_generation(true);
    let uri = Url::from_file_path(main).unwrap();
    let state = Arc::new(ServerState::default());
    let results = Arc::new(Mutex::new(BTreeMap::new()));
    let rt = tokio::runtime::Builder::new_current_thread().enable_all().build().unwrap();
    ROLE.with(|r| *r.borrow_mut() = Some((gen, "M".to_string())));
    rt.block_on(async {
        let _ = notification::handle_did_open_text_document(&state, open_params(&uri)).await;
    });
    // the worker must be back in rx.recv() (not at a step point) before control is switched on
    std::thread::sleep(Duration::from_millis(150));
    set_controlled();
    let mut handles = vec![];
    handles.push(spawn_handler(gen, "C1".to_string(), state.clone(), uri.clone(), results.clone()));
    handles.push(spawn_handler(gen, "S1".to_string(), state.clone(), uri.clone(), results.clone()));
    let mut res = None;
    'exp: {
        if !advance_to("C1", "H.send") || grant("C1", "H.send").is_err() {
            break 'exp;
        }
        // the worker wakes up in recv and stops at W.recv: the request is "running", is_compiling is up
        if settle("W", Duration::from_secs(10)) != Some(Pos::At("W.recv".into())) {
            break 'exp;
        }
        if !advance_to("S1", "H.load") || grant("S1", "H.load").is_err() {
            break 'exp;
        }
        match settle("S1", Duration::from_secs(10)) {
            Some(Pos::At(p)) if p == "H.setRetrigger" => res = Some(false),
            Some(Pos::At(p)) if p.starts_with("T.") => res = Some(true),
            _ => {}
        }
    }
    cleanup(state, &uri, handles, 60);
    res
}

/// abort tails for every check point of a full / cached compilation (stops at the first k that
/// the compilation does not have)
fn out_checks(main: &Path, cached: bool) -> Vec<usize> {
    let mut v = vec![];
    for k in 1..=32 {
        match abort_tail(main, k, cached) {
            Some(t) => {
                v.push(t);
                if t == 0 {
                    break;
                }
            }
            None => break,
        }
    }
    v
}

fn main() {
    let args: Vec<String> = std::env::args().collect();
    let mode = arg_after(&args, "--mode").unwrap_or_else(|| "replay".into());
    let work = PathBuf::from(arg_after(&args, "--work").expect("--work"));
    let output = arg_after(&args, "--out").unwrap_or_else(|| "-".into());
    let timeout = Duration::from_millis(arg_after(&args, "--timeout-ms").map(|s| s.parse().unwrap()).unwrap_or(10_000));
    let grace = Duration::from_millis(arg_after(&args, "--grace-ms").map(|s| s.parse().unwrap()).unwrap_or(100));
    std::fs::create_dir_all(&work).unwrap();
    let main = make_workspace(&work.join("ws"));
    let mut out = NdjsonOut::new(&output);
    sway_utils::verif::set_controller(Some(Box::new(controller)));
    match mode.as_str() {
        "measure" => measure(&main, &mut out),
        "replay" => {
            let input = arg_after(&args, "--in").expect("--in");
            for rec in read_ndjson(&input) {
                replay_one(&rec, &main, &mut out, timeout, grace);
            }
        }
        m => panic!("unknown mode {m}"),
    }
    out.flush();
}
