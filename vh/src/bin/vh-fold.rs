//! vh-fold: the IR constant-folding pass on one instruction with constant operands (C06).
//!
//! Input (ndjson, --in): {"id", "kind": "bin"|"un"|"cmp", "op": "add"|..|"not"|"eq"|"lt"|"gt",
//!   "ty": "u8"|"u16"|"u32"|"u64"|"u256"|"b256", "a": [big-endian bytes], "b": [big-endian bytes],
//!   "bty": type of the second operand ("u64" for shifts)}.
//! For each record a function `main` is built with the sway-ir API
//!     a = const ty A;  b = const bty B;  r = <op> a, b;  ret r
//! the real `const-folding` pass is run on it, and the operand of `ret` is reported:
//! Output (ndjson, --out): {"id", "folded": bool, "v": [big-endian bytes of the constant], "bool": true|false|null}
//! or {"id", "panic": msg} / {"id", "err": msg}.
use serde_json::{json, Value as J};
use sway_features::ExperimentalFeatures;
use sway_ir::{
    BinaryOpKind, ConstantContent, ConstantValue, Context, Function, InstOp, Kind, Module, PassGroup,
    PassManager, Predicate, Type, UnaryOpKind, CONST_FOLDING_NAME,
};
use sway_types::{u256::U256, SourceEngine};
use vh::util::*;

fn bytes_of(v: &J) -> Vec<u8> {
    v.as_array().map(|a| a.iter().map(|x| x.as_u64().unwrap_or(0) as u8).collect()).unwrap_or_default()
}

fn as_u64(b: &[u8]) -> u64 {
    b.iter().fold(0u64, |acc, x| (acc << 8) | *x as u64)
}

fn as_32(b: &[u8]) -> [u8; 32] {
    let mut out = [0u8; 32];
    let n = b.len().min(32);
    out[32 - n..].copy_from_slice(&b[b.len() - n..]);
    out
}

fn ty_of(ctx: &mut Context, t: &str) -> Type {
    match t {
        "u8" => Type::get_uint8(ctx),
        "u16" => Type::get_uint16(ctx),
        "u32" => Type::get_uint32(ctx),
        "u64" => Type::get_uint64(ctx),
        "u256" => Type::get_uint256(ctx),
        "b256" => Type::get_b256(ctx),
        "bool" => Type::get_bool(ctx),
        other => panic!("type {other}"),
    }
}

fn konst(ctx: &mut Context, t: &str, b: &[u8]) -> sway_ir::Value {
    match t {
        "u8" => ConstantContent::get_uint(ctx, 8, as_u64(b)),
        "u16" => ConstantContent::get_uint(ctx, 16, as_u64(b)),
        "u32" => ConstantContent::get_uint(ctx, 32, as_u64(b)),
        "u64" => ConstantContent::get_uint(ctx, 64, as_u64(b)),
        "u256" => ConstantContent::get_uint256(ctx, U256::from_be_bytes(&as_32(b))),
        "b256" => ConstantContent::get_b256(ctx, as_32(b)),
        other => panic!("type {other}"),
    }
}

fn one(rec: &J) -> Result<J, String> {
    let kind = rec["kind"].as_str().unwrap_or("bin");
    let op = rec["op"].as_str().unwrap_or("");
    let ty = rec["ty"].as_str().unwrap_or("u64");
    let bty = rec.get("bty").and_then(|v| v.as_str()).unwrap_or(ty);
    let a = bytes_of(&rec["a"]);
    let b = bytes_of(&rec["b"]);
    let source_engine = SourceEngine::default();
    let mut ctx = Context::new(&source_engine, ExperimentalFeatures::default(), Default::default());
    let module = Module::new(&mut ctx, Kind::Script);
    let ret_t = if kind == "cmp" { "bool" } else { ty };
    let ret_ty = ty_of(&mut ctx, ret_t);
    let func = Function::new(
        &mut ctx,
        module,
        "main".into(),
        "main".into(),
        vec![],
        ret_ty,
        None,
        false,
        true,
        false,
        false,
        None,
    );
    let entry = func.get_entry_block(&ctx);
    let va = konst(&mut ctx, ty, &a);
    let r = match kind {
        "un" => entry.append(&mut ctx).unary_op(UnaryOpKind::Not, va),
        "cmp" => {
            let vb = konst(&mut ctx, bty, &b);
            let p = match op {
                "eq" => Predicate::Equal,
                "lt" => Predicate::LessThan,
                "gt" => Predicate::GreaterThan,
                o => return Err(format!("predicate {o}")),
            };
            entry.append(&mut ctx).cmp(p, va, vb)
        }
        _ => {
            let vb = konst(&mut ctx, bty, &b);
            let k = match op {
                "add" => BinaryOpKind::Add,
                "sub" => BinaryOpKind::Sub,
                "mul" => BinaryOpKind::Mul,
                "div" => BinaryOpKind::Div,
                "mod" => BinaryOpKind::Mod,
                "and" => BinaryOpKind::And,
                "or" => BinaryOpKind::Or,
                "xor" => BinaryOpKind::Xor,
                "shl" => BinaryOpKind::Lsh,
                "shr" => BinaryOpKind::Rsh,
                o => return Err(format!("operator {o}")),
            };
            entry.append(&mut ctx).binary_op(k, va, vb)
        }
    };
    entry.append(&mut ctx).ret(r, ret_ty);

    let mut pm = PassManager::default();
    sway_ir::register_known_passes(&mut pm);
    let mut group = PassGroup::default();
    group.append_pass(CONST_FOLDING_NAME);
    pm.run(&mut ctx, &group, &Default::default()).map_err(|e| format!("{e}"))?;

    // what does `ret` return now?
    let entry = func.get_entry_block(&ctx);
    let term = entry.get_terminator(&ctx).ok_or("no terminator")?;
    let InstOp::Ret(v, _) = &term.op else {
        return Err("terminator is not ret".into());
    };
    let ninst = entry.instruction_iter(&ctx).count();
    match v.get_constant(&ctx) {
        None => Ok(json!({"folded": false, "v": [], "bool": J::Null, "insts": ninst})),
        Some(c) => {
            let content = c.get_content(&ctx);
            let (bytes, b): (Vec<u8>, J) = match &content.value {
                ConstantValue::Uint(n) => (n.to_be_bytes().to_vec(), J::Null),
                ConstantValue::U256(n) | ConstantValue::B256(n) => (n.to_be_bytes().to_vec(), J::Null),
                ConstantValue::Bool(x) => (vec![*x as u8], json!(*x)),
                other => return Err(format!("unexpected constant {other:?}")),
            };
            Ok(json!({"folded": true, "v": bytes, "bool": b, "insts": ninst}))
        }
    }
}

fn main() {
    let args: Vec<String> = std::env::args().collect();
    let input = arg_after(&args, "--in").expect("--in");
    let output = arg_after(&args, "--out").expect("--out");
    let recs = read_ndjson(&input);
    let mut out = NdjsonOut::new(&output);
    quiet_panics();
    for rec in &recs {
        let id = rec["id"].clone();
        let r = std::panic::catch_unwind(std::panic::AssertUnwindSafe(|| one(rec)));
        let mut o = match r {
            Ok(Ok(o)) => o,
            Ok(Err(e)) => json!({"err": e}),
            Err(p) => json!({"panic": panic_msg(p)}),
        };
        o["id"] = id;
        out.emit(&o);
    }
    out.flush();
}
