//! vh-lspincr: conformance driver for C26 (spec/LspIncr.tla, spec/Trace_LspIncr.tla).
//!
//! The module tree is fixed: main -> {a, b}, a -> {c}  (src/main.sw, src/a.sw, src/b.sw, src/a/c.sw); a module
//! is present iff it is a key of TEXT.
//!   TEXT = {"main":{"items":[ITEM..],"pad":n},"a":..,"b":..,"c":..}
//!   ITEM = {"n":"f1","p":"u64"|"bool","r":{"m":"b","n":"f1","a":"u64"|"bool"} | {"m":"none","n":"","a":""}}
//! Rendering (fixed, one construct per line): `library;`, `pub mod <child>;`.., one `use ::<path>::<name>;` per
//! distinct referenced item (sorted), one `pub fn <n>(x: <p>) -> u64 { let _ = x; <callee>(<1|true>) }` per item,
//! then `pad` empty lines.  Forc.toml has `implicit-std = false`.
//!
//! --mode incr  --in H.ndjson --out O.ndjson --root DIR
//!   H: one abstract history per line, produced by TLC from LspIncr.tla:
//!     {"id":"h7","steps":[{"act":"Open","m":"main","text":TEXT},{"act":"Edit","m":"b","chg":"sig","text":TEXT},
//!                         {"act":"EditCancelled","m":"a","at":3,"text":TEXT}, ...]}   (text AFTER the step)
//!   Every history is replayed into ONE long-lived real ServerState through the real notification handlers
//!   (didOpen / didChange with the full new text; garbage collection on; the worker thread is awaited after each
//!   step).  EditCancelled: the worker is held at its `at`-th cancellation check point (hook W.check) while the
//!   NEXT step's didChange is delivered, which sets the retrigger flag exactly as in production.
//!   If the server dies (panic of the compilation thread) a record says so, a new server is started on the current
//!   text ("Restart" record) and the history continues.
//!   O: one line per step {"id","k","act","m","at","chg","text","cancelled","incr":OBS}.
//! --mode fresh --in T.ndjson --out O.ndjson --root DIR
//!   T: {"tid":..,"text":TEXT}; each text is written to a new directory and opened in a FRESH ServerState.
//!   O: {"tid","fresh":OBS}
//!
//! OBS = {"status":"ok"|"panic"|"hang"|"cancelled","failed":bool,"log":[..],"panic":[..],
//!        "diags":[{"m":module,"line":zero-based line,"k":kind}..]             (sorted set)
//!        "syms":{module:[[line,name,paramtype]..]}          document symbols (functions)
//!        "refs":{module:[[line,defmodule,defline]..]}       call-site tokens and the definition they resolve to
//!        "raw":[..]}                                        (only with --raw)
//! Nothing is judged here; a panic / hang / failed compilation of the server is data.
use lsp_types::*;
use serde_json::{json, Value};
use std::collections::BTreeMap;
use std::path::{Path, PathBuf};
use std::sync::atomic::{AtomicBool, AtomicI64, AtomicU64, Ordering};
use std::sync::{Condvar, Mutex};
use std::time::Duration;
use sway_lsp::{core::session, handlers::notification, server_state::ServerState};
use vh::util::*;

const ALL_MODS: [&str; 4] = ["main", "a", "b", "c"];

fn mods_of(text: &Value) -> Vec<&'static str> {
    ALL_MODS.iter().copied().filter(|m| text.get(*m).is_some()).collect()
}
fn children(m: &str) -> &'static [&'static str] {
    match m {
        "main" => &["a", "b"],
        "a" => &["c"],
        _ => &[],
    }
}
fn rel_path(m: &str) -> &'static str {
    match m {
        "main" => "src/main.sw",
        "a" => "src/a.sw",
        "b" => "src/b.sw",
        "c" => "src/a/c.sw",
        _ => panic!("module {m}"),
    }
}
fn abs_mod_path(m: &str) -> &'static str {
    match m {
        "main" => "",
        "a" => "::a",
        "b" => "::b",
        "c" => "::a::c",
        _ => panic!("module {m}"),
    }
}

#[derive(Clone, Debug)]
struct Item {
    n: String,
    p: String,
    r: Option<(String, String, String)>, // target module, target name, argument type
}

fn items_of(text: &Value, m: &str) -> Vec<Item> {
    text[m]["items"]
        .as_array()
        .map(|a| {
            a.iter()
                .map(|it| {
                    let r = &it["r"];
                    let rm = r["m"].as_str().unwrap_or("none");
                    Item {
                        n: it["n"].as_str().unwrap().to_string(),
                        p: it["p"].as_str().unwrap().to_string(),
                        r: if rm == "none" {
                            None
                        } else {
                            Some((
                                rm.to_string(),
                                r["n"].as_str().unwrap().to_string(),
                                r["a"].as_str().unwrap().to_string(),
                            ))
                        },
                    }
                })
                .collect()
        })
        .unwrap_or_default()
}

/// Fixed rendering of an abstract module to Sway text; one construct per line.
fn render(text: &Value, m: &str) -> String {
    let items = items_of(text, m);
    let pad = text[m]["pad"].as_u64().unwrap_or(0) as usize;
    let mut s = String::from("library;\n");
    for c in children(m) {
        if text.get(*c).is_some() {
            s.push_str(&format!("pub mod {c};\n"));
        }
    }
    let mut uses: Vec<(String, String)> =
        items.iter().filter_map(|it| it.r.as_ref()).map(|(tm, tn, _)| (tm.clone(), tn.clone())).collect();
    uses.sort();
    uses.dedup();
    for (tm, tn) in &uses {
        s.push_str(&format!("use {}::{};\n", abs_mod_path(tm), tn));
    }
    for it in &items {
        let body = match &it.r {
            None => "0".to_string(),
            Some((_, tn, a)) => format!("{}({})", tn, if a == "bool" { "true" } else { "1" }),
        };
        s.push_str(&format!("pub fn {}(x: {}) -> u64 {{ let _ = x; {} }}\n", it.n, it.p, body));
    }
    for _ in 0..pad {
        s.push('\n');
    }
    s
}

/// Call sites start at this column in the rendering above (`use` statements end well before it).
const CALL_COL: u32 = 30;

fn write_workspace(dir: &Path, text: &Value) {
    std::fs::create_dir_all(dir.join("src/a")).unwrap();
    std::fs::write(
        dir.join("Forc.toml"),
        "[project]\nauthors = [\"verif\"]\nentry = \"main.sw\"\nlicense = \"Apache-2.0\"\nname = \"ws\"\nimplicit-std = false\n",
    )
    .unwrap();
    for m in mods_of(text) {
        std::fs::write(dir.join(rel_path(m)), render(text, m)).unwrap();
    }
}

// ---------------------------------------------------------------- server log capture (tracing WARN/ERROR events)
static LOGS: Mutex<Vec<String>> = Mutex::new(Vec::new());
struct LogCapture;
struct MsgVisitor(String);
impl tracing::field::Visit for MsgVisitor {
    fn record_debug(&mut self, field: &tracing::field::Field, value: &dyn std::fmt::Debug) {
        if field.name() == "message" {
            self.0 = format!("{value:?}");
        }
    }
}
impl tracing::Subscriber for LogCapture {
    fn enabled(&self, md: &tracing::Metadata<'_>) -> bool {
        *md.level() <= tracing::Level::WARN
    }
    fn new_span(&self, _: &tracing::span::Attributes<'_>) -> tracing::span::Id {
        tracing::span::Id::from_u64(1)
    }
    fn record(&self, _: &tracing::span::Id, _: &tracing::span::Record<'_>) {}
    fn record_follows_from(&self, _: &tracing::span::Id, _: &tracing::span::Id) {}
    fn event(&self, ev: &tracing::Event<'_>) {
        let mut v = MsgVisitor(String::new());
        ev.record(&mut v);
        let mut l = LOGS.lock().unwrap_or_else(|e| e.into_inner());
        if l.len() < 64 {
            l.push(format!("{} {}", ev.metadata().level(), v.0.chars().take(200).collect::<String>()));
        }
    }
    fn enter(&self, _: &tracing::span::Id) {}
    fn exit(&self, _: &tracing::span::Id) {}
}
fn take_logs() -> Vec<String> {
    std::mem::take(&mut *LOGS.lock().unwrap_or_else(|e| e.into_inner()))
}

// ---------------------------------------------------------------- panic + step control
static PANICS: Mutex<Vec<String>> = Mutex::new(Vec::new());

fn install_panic_recorder() {
    std::panic::set_hook(Box::new(|info| {
        let msg = if let Some(s) = info.payload().downcast_ref::<&str>() {
            s.to_string()
        } else if let Some(s) = info.payload().downcast_ref::<String>() {
            s.clone()
        } else {
            "<non-string panic>".into()
        };
        let mut loc = info.location().map(|l| format!("{}:{}", l.file(), l.line())).unwrap_or_default();
        if std::env::var_os("VH_BT").is_some() {
            let bt = std::backtrace::Backtrace::force_capture().to_string();
            let fr: Vec<&str> =
                bt.lines().filter(|l| l.contains("sway_") || l.contains("/repo/")).take(60).map(|l| l.trim()).collect();
            loc.push_str(&format!(" BT: {}", fr.join(" | ")));
        }
        if std::thread::current().name() == Some("main") {
            eprintln!("vh-lspincr: panic on the driver thread: {msg} @ {loc}");
        }
        PANICS.lock().unwrap_or_else(|e| e.into_inner()).push(format!("{msg} @ {loc}"));
    }));
}
fn take_panics() -> Vec<String> {
    std::mem::take(&mut *PANICS.lock().unwrap_or_else(|e| e.into_inner()))
}
fn have_panics() -> bool {
    !PANICS.lock().unwrap_or_else(|e| e.into_inner()).is_empty()
}
fn push_panic(s: String) {
    PANICS.lock().unwrap_or_else(|e| e.into_inner()).push(s);
}

/// Control of the worker through the verification step points (sway_utils::verif):
/// * W.check (sway_core::check_should_abort): when armed with k, the k-th check from now blocks until released;
/// * W.loop: counted; the worker is idle when as many W.loop as expected have been seen;
/// * W.recv is held while a didOpen handler has not yet parked in wait_for_parsing (see install_controller).
struct Gate {
    arm_next: AtomicI64, // becomes `arm` when the worker picks up the next request (W.recv)
    blocks: AtomicU64,   // number of times a check point blocked
    arm: AtomicI64,
    blocked: AtomicBool,
    release: Mutex<bool>,
    cv: Condvar,
    loops: AtomicU64,
    opening: AtomicBool,
    waiting: AtomicBool,
}
static GATE: Gate = Gate {
    arm_next: AtomicI64::new(0),
    blocks: AtomicU64::new(0),
    arm: AtomicI64::new(0),
    blocked: AtomicBool::new(false),
    release: Mutex::new(false),
    cv: Condvar::new(),
    loops: AtomicU64::new(0),
    opening: AtomicBool::new(false),
    waiting: AtomicBool::new(false),
};
static EXPECTED: AtomicU64 = AtomicU64::new(0); // W.loop events that must have happened when the worker is idle
static WFP_TIMEOUTS: AtomicU64 = AtomicU64::new(0);

fn install_controller() {
    sway_utils::verif::set_controller(Some(Box::new(|point: &str, f: &str| {
        if std::env::var_os("VH_DEBUG").is_some() {
            eprintln!("[step {:?}] {point} {f}", std::thread::current().id());
        }
        match point {
            "W.loop" => {
                GATE.loops.fetch_add(1, Ordering::SeqCst);
            }
            // did_open stores is_compiling=true *after* sending the request and creates its Notified future only
            // after checking the flags (DESIGN F6/F7, property C24).  Those races are not C26's subject: the
            // worker is held until the handler is parked, which makes every didOpen deterministic.
            "T.await" | "T.return" => {
                GATE.waiting.store(true, Ordering::SeqCst);
            }
            "W.recv" => {
                let n = GATE.arm_next.swap(0, Ordering::SeqCst);
                if n > 0 {
                    GATE.arm.store(n, Ordering::SeqCst);
                }
                let t0 = std::time::Instant::now();
                while GATE.opening.load(Ordering::SeqCst)
                    && !GATE.waiting.load(Ordering::SeqCst)
                    && t0.elapsed() < Duration::from_secs(5)
                {
                    std::thread::sleep(Duration::from_micros(100));
                }
            }
            "W.check" => {
                if GATE.arm.load(Ordering::SeqCst) > 0 && GATE.arm.fetch_sub(1, Ordering::SeqCst) == 1 {
                    let mut rel = GATE.release.lock().unwrap();
                    *rel = false;
                    GATE.blocks.fetch_add(1, Ordering::SeqCst);
                    GATE.blocked.store(true, Ordering::SeqCst);
                    while !*rel {
                        let (g, to) = GATE.cv.wait_timeout(rel, Duration::from_secs(60)).unwrap();
                        rel = g;
                        if to.timed_out() {
                            break;
                        }
                    }
                    GATE.blocked.store(false, Ordering::SeqCst);
                }
            }
            _ => {}
        }
    })));
}
fn gate_release() {
    let mut rel = GATE.release.lock().unwrap();
    *rel = true;
    GATE.cv.notify_all();
}

// ---------------------------------------------------------------- driving the server
fn new_server() -> ServerState {
    EXPECTED.fetch_add(1, Ordering::SeqCst); // the worker announces W.loop once when it starts
    ServerState::default()
}
fn worker_idle() -> bool {
    GATE.loops.load(Ordering::SeqCst) >= EXPECTED.load(Ordering::SeqCst)
}
fn rebase_after_death() {
    // the worker of a dead server will never report again
    EXPECTED.store(GATE.loops.load(Ordering::SeqCst), Ordering::SeqCst);
}

/// Wait until the worker has finished every request sent so far, then let the server's own wait_for_parsing
/// confirm.  "panic": some thread of the server panicked; "hang": the worker did not become idle within `limit`.
async fn wait_parsed(state: &ServerState, limit: Duration) -> &'static str {
    let t0 = std::time::Instant::now();
    while !worker_idle() {
        if have_panics() {
            return "panic";
        }
        if t0.elapsed() > limit {
            return "hang";
        }
        tokio::time::sleep(Duration::from_millis(1)).await;
    }
    // The worker is idle.  wait_for_parsing must now return at once; if it does not, that is the scheduling
    // protocol's problem (C24), not a cache problem: it is counted, and the state is observed anyway.
    if tokio::time::timeout(Duration::from_secs(2), state.wait_for_parsing()).await.is_err() {
        WFP_TIMEOUTS.fetch_add(1, Ordering::SeqCst);
    }
    if have_panics() {
        "panic"
    } else {
        "ok"
    }
}

async fn did_open(state: &ServerState, path: &Path, limit: Duration) -> &'static str {
    let uri = Url::from_file_path(path).unwrap();
    let text = std::fs::read_to_string(path).unwrap();
    let params = DidOpenTextDocumentParams {
        text_document: TextDocumentItem { uri, language_id: "sway".into(), version: 1, text },
    };
    EXPECTED.fetch_add(1, Ordering::SeqCst);
    GATE.waiting.store(false, Ordering::SeqCst);
    GATE.opening.store(true, Ordering::SeqCst);
    let t0 = std::time::Instant::now();
    let fut = notification::handle_did_open_text_document(state, params);
    tokio::pin!(fut);
    let mut res = "ok";
    loop {
        match tokio::time::timeout(Duration::from_millis(50), &mut fut).await {
            Ok(r) => {
                if let Err(e) = r {
                    push_panic(format!("didOpen error: {e}"));
                    res = "panic";
                }
                break;
            }
            Err(_) => {
                if have_panics() {
                    res = "panic";
                    break;
                }
                if worker_idle() && t0.elapsed() > Duration::from_secs(2) {
                    // worker idle but the handler still waits: scheduling problem (C24); observe anyway
                    WFP_TIMEOUTS.fetch_add(1, Ordering::SeqCst);
                    break;
                }
                if t0.elapsed() > limit {
                    res = "hang";
                    break;
                }
            }
        }
    }
    GATE.opening.store(false, Ordering::SeqCst);
    if res != "ok" {
        return res;
    }
    wait_parsed(state, limit).await
}

async fn did_change(state: &ServerState, path: &Path, version: i32, text: &str) -> Result<(), String> {
    let uri = Url::from_file_path(path).unwrap();
    let params = DidChangeTextDocumentParams {
        text_document: VersionedTextDocumentIdentifier { uri, version },
        content_changes: vec![TextDocumentContentChangeEvent { range: None, range_length: None, text: text.into() }],
    };
    let r = notification::handle_did_change_text_document(state, params).await.map_err(|e| e.to_string());
    if r.is_ok() {
        EXPECTED.fetch_add(1, Ordering::SeqCst); // one request was queued
    }
    r
}

// ---------------------------------------------------------------- projection
fn kind_of(msg: &str) -> String {
    let first = msg.lines().next().unwrap_or("");
    let table: [(&str, &str); 4] = [
        ("Mismatched types", "Mismatch"),
        ("Could not find symbol", "Unresolved"),
        ("was already defined in scope", "Duplicate"),
        ("could not be found", "ModuleNotFound"),
    ];
    for (pat, k) in table {
        if first.contains(pat) {
            return k.to_string();
        }
    }
    let short: String = first.chars().take(60).collect();
    format!("Other:{short}")
}

fn module_of_path(p: &Path) -> Option<&'static str> {
    let s = p.to_string_lossy();
    ALL_MODS.iter().copied().find(|m| s.ends_with(&format!("/ws/{}", rel_path(m))))
}

/// Project everything observable of a server (after a step) to JSON.
fn observe(state: &ServerState, ws: &Path, text: &Value, status: &str, keep_raw: bool) -> Value {
    let mods = mods_of(text);
    let mut diags = vec![];
    let mut raw = vec![];
    let r = std::panic::catch_unwind(std::panic::AssertUnwindSafe(|| {
        for s in state.sessions.iter() {
            for (path, d) in s.value().diagnostics.read().iter() {
                let m = module_of_path(path);
                for (sev, list) in [("E", &d.errors), ("W", &d.warnings), ("I", &d.infos)] {
                    for e in list.iter() {
                        let line = e.range.start.line as usize;
                        let mut kind = kind_of(&e.message);
                        if sev != "E" {
                            kind = format!("{sev}:{kind}");
                        }
                        raw.push(json!([path.file_name().map(|x| x.to_string_lossy().to_string()), line,
                                        e.range.start.character, sev, e.message.lines().next().unwrap_or("")]));
                        diags.push(json!({"m": m.unwrap_or("?"), "line": line, "k": kind}));
                    }
                }
            }
        }
    }));
    if r.is_err() {
        return json!({"status":"panic","failed":false,"panic":take_panics(),"diags":[],"syms":{},"refs":{}});
    }
    let mut dset: Vec<String> = diags.iter().map(|d| d.to_string()).collect();
    dset.sort();
    dset.dedup();
    let diags: Vec<Value> = dset.iter().map(|s| serde_json::from_str(s).unwrap()).collect();
    raw.sort_by_key(|v| v.to_string());

    // structure: document symbols, and call-site tokens with the definition they resolve to
    let mut syms = serde_json::Map::new();
    let mut refs = serde_json::Map::new();
    let mut struct_panic: Vec<String> = vec![];
    for m in &mods {
        let res = std::panic::catch_unwind(std::panic::AssertUnwindSafe(|| {
            let wuri = Url::from_file_path(ws.join(rel_path(m))).ok()?;
            let uri = state.uri_from_workspace(&wuri).ok()?;
            let engines = state.engines.read();
            let ds = session::document_symbols(&uri, &state.token_map, &engines, &state.compiled_programs)?;
            let mut out = vec![];
            for d in ds {
                if d.kind == SymbolKind::FUNCTION {
                    let det = d.detail.unwrap_or_default();
                    let p = det.split("x: ").nth(1).and_then(|s| s.split(')').next()).unwrap_or("?").to_string();
                    out.push(json!([d.selection_range.start.line, d.name, p]));
                }
            }
            out.sort_by_key(|v| v.to_string());
            let mut rs = vec![];
            for t in state.token_map.tokens_for_file(&uri) {
                let (id, tok) = t.pair();
                if tok.as_typed().is_none() || id.range.start.character < CALL_COL {
                    continue;
                }
                // call sites only: identifiers of the item-name pools (literals and `x` are not references)
                let c0 = id.name.chars().next().unwrap_or(' ');
                if !(id.name.len() == 2 && "mgfh".contains(c0)) {
                    continue;
                }
                let d = match tok.declared_token_ident(&engines) {
                    Some(d) => {
                        let dm = d.path.as_ref().and_then(|p| module_of_path(p)).unwrap_or("?");
                        json!([id.range.start.line, dm, d.range.start.line])
                    }
                    None => json!([id.range.start.line, "none", 0]),
                };
                rs.push(d);
            }
            rs.sort_by_key(|v| v.to_string());
            rs.dedup();
            Some((out, rs))
        }));
        match res {
            Ok(Some((o, r))) => {
                syms.insert(m.to_string(), json!(o));
                refs.insert(m.to_string(), json!(r));
            }
            Ok(None) => {
                syms.insert(m.to_string(), json!("unavailable"));
                refs.insert(m.to_string(), json!("unavailable"));
            }
            Err(_) => {
                struct_panic.extend(take_panics());
                syms.insert(m.to_string(), json!("panic"));
                refs.insert(m.to_string(), json!("panic"));
            }
        }
    }
    let logs = take_logs();
    // an aborted (retriggered) compilation also logs an error; it belongs to the cancelled step, not to this one
    let failed = logs.iter().any(|l| l.starts_with("ERROR") && !l.contains("compilation was retriggered"));
    let mut panics = take_panics();
    panics.extend(struct_panic);
    let mut o = json!({"status": status, "failed": failed, "log": logs, "panic": panics,
                       "diags": diags, "syms": syms, "refs": refs});
    if keep_raw {
        o["raw"] = json!(raw);
    }
    o
}

// ---------------------------------------------------------------- fresh mode
async fn run_fresh(root: &Path, rec: &Value, out: &mut NdjsonOut, limit: Duration, keep_raw: bool) {
    let tid = rec["tid"].clone();
    let text = &rec["text"];
    let dir = root.join(format!("f{}", tid.to_string().replace('"', ""))).join("ws");
    let _ = std::fs::remove_dir_all(&dir);
    write_workspace(&dir, text);
    let _ = take_logs();
    let state = new_server();
    let st = did_open(&state, &dir.join(rel_path("main")), limit).await;
    if st != "ok" {
        rebase_after_death();
    }
    let obs = observe(&state, &dir, text, st, keep_raw);
    let _ = state.shutdown_server();
    let _ = std::fs::remove_dir_all(dir.parent().unwrap());
    out.emit(&json!({"tid": tid, "fresh": obs}));
}

// ---------------------------------------------------------------- incr mode
async fn run_history(root: &Path, h: &Value, out: &mut NdjsonOut, limit: Duration, keep_raw: bool) {
    let id = h["id"].as_str().unwrap().to_string();
    let steps = h["steps"].as_array().unwrap();
    let mut gen = 0;
    let mut dir = root.join(format!("{id}-i{gen}")).join("ws");
    let _ = std::fs::remove_dir_all(&dir);
    write_workspace(&dir, &steps[0]["text"]);
    let _ = take_logs();
    // housekeeping: dirty-file lock files of earlier histories (same pid, never released) are not this history's
    if let Some(home) = std::env::var_os("HOME") {
        let _ = std::fs::remove_dir_all(PathBuf::from(home).join(".forc/.lsp-locks"));
    }
    let mut state = new_server();
    let mut versions: BTreeMap<String, i32> = BTreeMap::new();
    let mut opened: Vec<String> = vec![]; // documents the client has open, in order
    let mut k = 0;
    while k < steps.len() {
        let mut s = &steps[k];
        let mut act = s["act"].as_str().unwrap();
        let mut m = s["m"].as_str().unwrap();
        let status: &str;
        let mut cancelled_seen = json!(false);
        let path = dir.join(rel_path(m));
        match act {
            "Open" => {
                if !opened.iter().any(|x| x == m) {
                    opened.push(m.to_string());
                }
                status = did_open(&state, &path, limit).await;
            }
            "Edit" | "EditCancelled" => {
                // EditCancelled: the worker is held at the `at`-th cancellation check point of this request's
                // compilation while the NEXT step's didChange is delivered (which sets the retrigger flag, as in
                // production); then it is released and aborts.  Chains of cancelled edits are handled in turn.
                let mut holding = false; // a compilation is held at a check point, waiting to be cancelled
                loop {
                    let cancel = act == "EditCancelled";
                    let v = versions.entry(m.to_string()).or_insert(1);
                    *v += 1;
                    let seen_blocks = GATE.blocks.load(Ordering::SeqCst);
                    if cancel {
                        GATE.arm_next.store(s["at"].as_i64().unwrap_or(1), Ordering::SeqCst);
                    }
                    let r = did_change(&state, &dir.join(rel_path(m)), *v, &render(&s["text"], m)).await;
                    if holding {
                        gate_release(); // the held compilation now sees the retrigger flag and aborts
                    }
                    if let Err(e) = r {
                        GATE.arm_next.store(0, Ordering::SeqCst);
                        GATE.arm.store(0, Ordering::SeqCst);
                        push_panic(format!("didChange error: {e}"));
                        status = "panic";
                        break;
                    }
                    if !cancel {
                        status = wait_parsed(&state, limit).await;
                        break;
                    }
                    let t0 = std::time::Instant::now();
                    while GATE.blocks.load(Ordering::SeqCst) == seen_blocks && t0.elapsed() < limit && !have_panics() {
                        if worker_idle() {
                            break; // the compilation ended without reaching check point `at`
                        }
                        tokio::time::sleep(Duration::from_millis(1)).await;
                    }
                    if GATE.blocks.load(Ordering::SeqCst) == seen_blocks {
                        GATE.arm_next.store(0, Ordering::SeqCst);
                        GATE.arm.store(0, Ordering::SeqCst);
                        cancelled_seen = json!(false);
                        status = wait_parsed(&state, limit).await;
                        break;
                    }
                    // held: no observation point for this step; the next step's didChange cancels it
                    holding = true;
                    out.emit(&json!({"id":id,"k":k+1,"act":act,"m":m,"at":s["at"],"chg":s["chg"],"text":s["text"],
                                     "cancelled":true,"incr":{"status":"cancelled"}}));
                    k += 1;
                    s = &steps[k];
                    act = s["act"].as_str().unwrap();
                    m = s["m"].as_str().unwrap();
                    assert!(act == "Edit" || act == "EditCancelled", "EditCancelled must be followed by an edit");
                }
            }
            _ => panic!("unknown act {act}"),
        }
        let text = &s["text"];
        let incr = observe(&state, &dir, text, status, keep_raw);
        out.emit(&json!({"id":id,"k":k+1,"act":act,"m":m,"at":s["at"],"chg":s["chg"],"text":text,
                         "cancelled":cancelled_seen,"incr":incr}));
        if std::env::var_os("VH_INPROC_FRESH").is_some() {
            // debugging aid: a second, fresh server in the same process (as the first versions of this harness did)
            let mut sink = NdjsonOut::new("/dev/null");
            run_fresh(root, &json!({"tid": format!("{id}-{k}"), "text": text}), &mut sink, limit, false).await;
        }
        if status == "hang" || status == "panic" {
            // the server is dead: the client restarts it on the current text
            rebase_after_death();
            let _ = state.shutdown_server();
            gen += 1;
            dir = root.join(format!("{id}-i{gen}")).join("ws");
            let _ = std::fs::remove_dir_all(&dir);
            write_workspace(&dir, text);
            let _ = take_logs();
            let _ = take_panics();
            state = new_server();
            versions.clear();
            // the client re-opens its documents (main first)
            let mut st = did_open(&state, &dir.join(rel_path("main")), limit).await;
            for om in opened.iter().filter(|x| x.as_str() != "main") {
                if st == "ok" {
                    st = did_open(&state, &dir.join(rel_path(om)), limit).await;
                }
            }
            if st != "ok" {
                rebase_after_death();
            }
            let o = observe(&state, &dir, text, st, keep_raw);
            out.emit(&json!({"id":id,"k":k+1,"act":"Restart","m":"main","at":0,"chg":"restart","text":text,
                             "cancelled":null,"incr":o}));
            if st != "ok" {
                break; // cannot even restart: give up on this history (the record above says so)
            }
        }
        k += 1;
    }
    let _ = state.shutdown_server();
    for g in 0..=gen {
        let _ = std::fs::remove_dir_all(root.join(format!("{id}-i{g}")));
    }
}

fn main() {
    let args: Vec<String> = std::env::args().collect();
    let mode = arg_after(&args, "--mode").unwrap_or_else(|| "incr".into());
    let input = arg_after(&args, "--in").expect("--in");
    let output = arg_after(&args, "--out").expect("--out");
    let root = PathBuf::from(arg_after(&args, "--root").expect("--root"));
    let limit = Duration::from_secs(arg_after(&args, "--limit").map(|s| s.parse().unwrap()).unwrap_or(30));
    let keep_raw = args.iter().any(|a| a == "--raw");
    std::fs::create_dir_all(&root).unwrap();
    let recs = read_ndjson(&input);
    let mut out = NdjsonOut::new(&output);
    install_panic_recorder();
    install_controller();
    let _ = tracing::subscriber::set_global_default(LogCapture);
    let rt = tokio::runtime::Builder::new_multi_thread().worker_threads(2).enable_all().build().unwrap();
    rt.block_on(async {
        for r in recs.iter() {
            if mode == "fresh" {
                run_fresh(&root, r, &mut out, limit, keep_raw).await;
            } else {
                run_history(&root, r, &mut out, limit, keep_raw).await;
            }
            out.flush();
        }
    });
    out.emit(&json!({"summary": true, "mode": mode, "records": recs.len(),
                     "wait_for_parsing_timeouts": WFP_TIMEOUTS.load(Ordering::SeqCst)}));
    out.flush();
    drop(out);
    // worker threads of shut-down servers may still be alive; do not wait for them
    std::process::exit(0);
}
