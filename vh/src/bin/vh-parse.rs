//! vh-parse: conformance driver for C16 (ParseInv.tla).
//!
//! Driver:  vh-parse --in jobs.ndjson --out events.ndjson [--jobs N] [--timeout SECS]
//! Meta:    vh-parse --meta --in files.ndjson --out meta.ndjson [--trunc T]
//!          ({"file","ntok","delims":[token positions that are delimiters]}, tokens = flattened lex_commented)
//! Show:    vh-parse --show --in job.json     (prints the rendered input and the event)
//!
//! Job (one JSON object per line); the input text is rendered mechanically:
//!   {"id", "atoms":["a","0x","\"", ...]}                  concatenation of the atoms' texts (table below)
//!   {"id", "file":PATH}                                    the file as it is (read-only)
//!   {"id", "file":PATH, "trunc":T, "ops":[OP,...]}         the file's first T tokens (with the white space /
//!        text between them), mutated at token level, ops applied in order to the current token list:
//!        ["ins",p,ATOM] insert the atom before token p (1-based; p = n+1 appends)
//!        ["del",p] delete token p   ["dup",p] duplicate token p   ["swap",p] swap tokens p and p+1
//!        ["unb",p] delete token p (chosen by the spec among the delimiter tokens)
//!        ["cut",p] drop token p and everything after it
//!        ["splice",p,FILE2,a,b] insert tokens a..b of FILE2 before token p
//!   {"id", "text":"..."}                                   literal text
//!
//! Event: {"ev":"Parse","id","len","cont":[offsets of UTF-8 continuation bytes],
//!         "lex","lexc","parse": "ok"|"diag"|"silent"|"panic"   (lex, lex_commented, parse_file)
//!         "nspans","smin","emax","mind": number of spans seen, min start, max end, min (end - start)
//!         "hi":[span end points that address a non-ASCII byte], "dummy": spans not into the input,
//!         "msg": panic message}   or, from the watchdog, {"ev":"Parse","id","lex":"abort"|"timeout",...}
//! Spans seen: every token / group / comment / doc-comment span of lex_commented (recursively), every
//! diagnostic's span and its label spans (errors and warnings of all three calls), the module's kind,
//! item and attribute spans. Nothing is judged here: ParseInv.tla decides.
#[path = "parsefmt_pool.inc"]
mod pool;

use serde_json::{json, Value};
use std::collections::BTreeSet;
use std::time::Duration;
use sway_ast::literal::Literal;
use sway_ast::token::{CommentedTokenStream, CommentedTokenTree, CommentedTree};
use sway_error::handler::Handler;
use sway_types::{SourceEngine, Span, Spanned};
use vh::util::*;

/// The lexical atoms of ParseInv.tla (LexAtoms): name -> text.
pub fn atom_text(name: &str) -> Option<&'static str> {
    Some(match name {
        "a" => "a",
        "Z" => "Z",
        "r" => "r",
        "rhash" => "r#",
        "fn" => "fn",
        "let" => "let",
        "d7" => "7",
        "d0" => "0",
        "hex" => "0x",
        "bin" => "0b",
        "oct" => "0o",
        "us" => "_",
        "e" => "e",
        "u8" => "u8",
        "dot" => ".",
        "dq" => "\"",
        "sq" => "'",
        "bs" => "\\",
        "escx" => "\\x",
        "escu" => "\\u{",
        "escn" => "\\n",
        "lc" => "//",
        "ldoc" => "///",
        "lidoc" => "//!",
        "bo" => "/*",
        "bc" => "*/",
        "slash" => "/",
        "star" => "*",
        "lp" => "(",
        "rp" => ")",
        "lb" => "{",
        "rb" => "}",
        "lk" => "[",
        "rk" => "]",
        "semi" => ";",
        "colon" => ":",
        "comma" => ",",
        "eq" => "=",
        "lt" => "<",
        "gt" => ">",
        "minus" => "-",
        "hash" => "#",
        "bang" => "!",
        "amp" => "&",
        "pipe" => "|",
        "l2" => "\u{e9}",        // é, 2 bytes, XID
        "l3" => "\u{2135}",      // ℵ, 3 bytes, XID
        "l4" => "\u{1d518}",     // 𝔘, 4 bytes, XID
        "sym3" => "\u{2713}",    // ✓, 3 bytes, not XID
        "emoji" => "\u{1f600}",  // 4 bytes, not XID
        "comb" => "\u{301}",     // combining acute, XID_Continue only
        "zwj" => "\u{200d}",
        "rlo" => "\u{202e}",     // bidi override
        "nbsp" => "\u{a0}",      // non-ASCII white space
        "bom" => "\u{feff}",
        "cr" => "\r",
        "lf" => "\n",
        "sp" => " ",
        "tab" => "\t",
        "nul" => "\0",
        "del" => "\u{7f}",
        _ => return None,
    })
}

fn flatten(ts: &CommentedTokenStream, src: &str, out: &mut Vec<(char, usize, usize)>) {
    for tt in ts.token_trees.iter() {
        match tt {
            CommentedTokenTree::Comment(c) => out.push(('m', c.span.start(), c.span.end())),
            CommentedTokenTree::Tree(t) => match t {
                CommentedTree::Punct(p) => out.push(('p', p.span.start(), p.span.end())),
                CommentedTree::Ident(i) => {
                    let sp = i.span();
                    let mut s = sp.start();
                    if i.is_raw_ident() && s >= 2 && src.get(s - 2..s) == Some("r#") {
                        s -= 2;
                    }
                    out.push(('i', s, sp.end()))
                }
                CommentedTree::Literal(l) => {
                    let sp = l.span();
                    let mut e = sp.end();
                    if let Literal::Int(li) = l {
                        if let Some((_, tsp)) = &li.ty_opt {
                            e = e.max(tsp.end());
                        }
                    }
                    out.push(('l', sp.start(), e))
                }
                CommentedTree::DocComment(d) => out.push(('d', d.span.start(), d.span.end())),
                CommentedTree::Group(g) => {
                    let sp = g.span();
                    out.push(('o', sp.start(), sp.start() + 1));
                    flatten(&g.token_stream, src, out);
                    let e = sp.end();
                    if e > sp.start() + 1 && matches!(src.as_bytes()[e - 1], b')' | b'}' | b']') {
                        out.push(('c', e - 1, e));
                    }
                }
            },
        }
    }
}

/// Token pieces of a file: (kind, text including the preceding inter-token text).
fn pieces(src: &str, trunc: usize) -> Vec<(char, String)> {
    let r = std::panic::catch_unwind(|| {
        let handler = Handler::default();
        sway_parse::lex_commented(&handler, src.into(), 0, src.len(), &None).ok()
    });
    let mut v = Vec::new();
    if let Ok(Some(ts)) = r {
        flatten(&ts, src, &mut v);
    }
    v.sort_by_key(|t| (t.1, t.2));
    let mut out = Vec::new();
    let mut last = 0usize;
    for (k, s, e) in v {
        if s < last || e > src.len() || !src.is_char_boundary(s) || !src.is_char_boundary(e) {
            continue;
        }
        out.push((k, src[last..e].to_string()));
        last = e;
        if trunc > 0 && out.len() >= trunc {
            break;
        }
    }
    out
}

fn read_file(p: &str) -> Result<String, String> {
    let bytes = std::fs::read(p).map_err(|e| format!("read {p}: {e}"))?;
    String::from_utf8(bytes).map_err(|_| "not utf-8".to_string())
}

fn render(job: &Value) -> Result<String, String> {
    if let Some(t) = job.get("text").and_then(|t| t.as_str()) {
        return Ok(t.to_string());
    }
    if let Some(a) = job.get("atoms").and_then(|a| a.as_array()) {
        let mut s = String::new();
        for x in a {
            let n = x.as_str().ok_or("atom name")?;
            s.push_str(atom_text(n).ok_or_else(|| format!("unknown atom {n}"))?);
        }
        return Ok(s);
    }
    let file = job.get("file").and_then(|f| f.as_str()).ok_or("no text/atoms/file")?;
    let src = read_file(file)?;
    let ops = match job.get("ops").and_then(|o| o.as_array()) {
        Some(o) if !o.is_empty() => o.clone(),
        _ if job.get("trunc").is_none() => return Ok(src),
        _ => vec![],
    };
    let trunc = job.get("trunc").and_then(|t| t.as_u64()).unwrap_or(0) as usize;
    let mut toks: Vec<String> = pieces(&src, trunc).into_iter().map(|p| p.1).collect();
    for op in ops {
        let name = op[0].as_str().unwrap_or("");
        let p = op[1].as_u64().unwrap_or(1).max(1) as usize;
        match name {
            "ins" => {
                let a = atom_text(op[2].as_str().unwrap_or("")).ok_or("unknown atom")?;
                let at = (p - 1).min(toks.len());
                toks.insert(at, a.to_string());
            }
            "del" | "unb" => {
                if p <= toks.len() {
                    toks.remove(p - 1);
                }
            }
            "dup" => {
                if p <= toks.len() {
                    let t = toks[p - 1].clone();
                    toks.insert(p - 1, t);
                }
            }
            "swap" => {
                if p < toks.len() {
                    toks.swap(p - 1, p);
                }
            }
            "cut" => toks.truncate(p - 1),
            "splice" => {
                let f2 = op[2].as_str().ok_or("splice file")?;
                let a = op[3].as_u64().unwrap_or(1).max(1) as usize;
                let b = op[4].as_u64().unwrap_or(1) as usize;
                let other: Vec<String> = pieces(&read_file(f2)?, 0).into_iter().map(|p| p.1).collect();
                let at = (p - 1).min(toks.len());
                let seg: Vec<String> =
                    other.iter().skip(a - 1).take(b.saturating_sub(a - 1)).cloned().collect();
                for (k, t) in seg.into_iter().enumerate() {
                    toks.insert(at + k, t);
                }
            }
            _ => return Err(format!("unknown op {name}")),
        }
    }
    Ok(toks.concat())
}

struct Spans {
    n: u64,
    smin: usize,
    emax: usize,
    mind: i64,
    hi: BTreeSet<usize>,
    dummy: u64,
}

impl Spans {
    fn add(&mut self, sp: &Span, src_ptr: *const u8, bytes: &[u8]) {
        if sp.src().text.as_ptr() != src_ptr {
            self.dummy += 1;
            return;
        }
        let (s, e) = (sp.start(), sp.end());
        self.n += 1;
        self.smin = self.smin.min(s);
        self.emax = self.emax.max(e);
        self.mind = self.mind.min(e as i64 - s as i64);
        for o in [s, e] {
            if o < bytes.len() && bytes[o] >= 0x80 {
                self.hi.insert(o);
            }
        }
    }
}

fn walk_tokens(ts: &CommentedTokenStream, f: &mut dyn FnMut(&Span)) {
    f(&ts.full_span);
    for tt in ts.token_trees.iter() {
        match tt {
            CommentedTokenTree::Comment(c) => f(&c.span),
            CommentedTokenTree::Tree(t) => match t {
                CommentedTree::Punct(p) => f(&p.span),
                CommentedTree::Ident(i) => f(&i.span()),
                CommentedTree::Literal(l) => {
                    f(&l.span());
                    if let Literal::Int(li) = l {
                        if let Some((_, tsp)) = &li.ty_opt {
                            f(tsp);
                        }
                    }
                }
                CommentedTree::DocComment(d) => {
                    f(&d.span);
                    f(&d.content_span);
                }
                CommentedTree::Group(g) => {
                    f(&g.span);
                    walk_tokens(&g.token_stream, f);
                }
            },
        }
    }
}

fn diag_spans(handler: Handler, f: &mut dyn FnMut(&Span)) -> usize {
    use sway_error::diagnostic::ToDiagnostic;
    let se = SourceEngine::default();
    let (errs, warns, _infos) = handler.consume();
    for e in errs.iter() {
        f(&e.span());
        let d = e.to_diagnostic(&se);
        f(d.issue.span());
        for h in d.hints.iter() {
            f(h.span());
        }
    }
    for w in warns.iter() {
        f(&w.span());
        let d = w.to_diagnostic(&se);
        f(d.issue.span());
        for h in d.hints.iter() {
            f(h.span());
        }
    }
    errs.len()
}

fn run_job(line: &str, with_text: bool) -> Value {
    let job: Value = match serde_json::from_str(line) {
        Ok(j) => j,
        Err(e) => return json!({"ev":"Parse","lex":"badjob","msg":e.to_string()}),
    };
    let id = job.get("id").cloned().unwrap_or(Value::Null);
    let text = match render(&job) {
        Ok(t) => t,
        Err(e) => return json!({"ev":"Parse","id":id,"lex":"unreadable","msg":e}),
    };
    let src: sway_types::span::Source = text.as_str().into();
    let bytes = text.as_bytes();
    let cont: Vec<usize> = bytes
        .iter()
        .enumerate()
        .filter(|(_, b)| (**b & 0xC0) == 0x80)
        .map(|(i, _)| i)
        .collect();
    let ptr = src.text.as_ptr();
    let mut sp = Spans { n: 0, smin: usize::MAX, emax: 0, mind: i64::MAX, hi: BTreeSet::new(), dummy: 0 };
    let mut msgs: Vec<String> = vec![];
    let outcome = |name: &str, f: &mut dyn FnMut(&Handler, &mut dyn FnMut(&Span)) -> bool,
                       sp: &mut Spans, msgs: &mut Vec<String>|
     -> &'static str {
        let _ = name;
        let r = std::panic::catch_unwind(std::panic::AssertUnwindSafe(|| {
            let h = Handler::default();
            let mut col: Vec<Span> = vec![];
            let ok = f(&h, &mut |s: &Span| col.push(s.clone()));
            let nerr = diag_spans(h, &mut |s: &Span| col.push(s.clone()));
            (ok, nerr, col)
        }));
        match r {
            Ok((ok, nerr, col)) => {
                for s in col.iter() {
                    sp.add(s, ptr, bytes);
                }
                if ok {
                    "ok"
                } else if nerr > 0 {
                    "diag"
                } else {
                    "silent"
                }
            }
            Err(p) => {
                msgs.push(panic_msg(p).chars().take(200).collect());
                "panic"
            }
        }
    };
    let s1 = src.clone();
    let lex = outcome(
        "lex",
        &mut |h, _f| sway_parse::lex(h, s1.clone(), 0, s1.text.len(), None).is_ok(),
        &mut sp,
        &mut msgs,
    );
    let s2 = src.clone();
    let lexc = outcome(
        "lexc",
        &mut |h, f| match sway_parse::lex_commented(h, s2.clone(), 0, s2.text.len(), &None) {
            Ok(ts) => {
                walk_tokens(&ts, f);
                true
            }
            Err(_) => false,
        },
        &mut sp,
        &mut msgs,
    );
    let s3 = src.clone();
    let parse = outcome(
        "parse",
        &mut |h, f| match sway_parse::parse_file(h, s3.clone(), None, Default::default()) {
            Ok(m) => {
                f(&m.value.kind.span());
                f(&m.value.semicolon_token.span());
                f(&m.value.span());
                for a in m.attributes.iter() {
                    f(&a.span());
                }
                for it in m.value.items.iter() {
                    f(&it.span());
                    f(&it.value.span());
                    for a in it.attributes.iter() {
                        f(&a.span());
                    }
                }
                true
            }
            Err(_) => false,
        },
        &mut sp,
        &mut msgs,
    );
    let mut ev = json!({
        "ev":"Parse","id":id,"len":bytes.len(),"cont":cont,
        "lex":lex,"lexc":lexc,"parse":parse,
        "nspans":sp.n,
        "smin": if sp.n == 0 { 0 } else { sp.smin },
        "emax": sp.emax,
        "mind": if sp.n == 0 { 0 } else { sp.mind },
        "hi": sp.hi.iter().collect::<Vec<_>>(),
        "dummy": sp.dummy,
    });
    if !msgs.is_empty() {
        ev["msg"] = json!(msgs.join(" | "));
    }
    if with_text {
        ev["text"] = json!(text);
    }
    ev
}

fn main() {
    let args: Vec<String> = std::env::args().collect();
    let has = |f: &str| args.iter().any(|a| a == f);
    quiet_panics();
    if has("--worker") {
        pool::worker_loop(|line| run_job(line, false).to_string());
        return;
    }
    let input = arg_after(&args, "--in").expect("--in");
    if has("--show") {
        for j in read_ndjson(&input) {
            let mut ev = run_job(&j.to_string(), true);
            let text = ev["text"].as_str().unwrap_or("").to_string();
            ev.as_object_mut().unwrap().remove("text");
            println!("=== input ({} bytes)\n{}", text.len(), text);
            println!("=== input (escaped)\n{:?}", text);
            println!("=== event\n{ev}");
        }
        return;
    }
    let output = arg_after(&args, "--out").expect("--out");
    let mut out = NdjsonOut::new(&output);
    if has("--meta") {
        let trunc: usize = arg_after(&args, "--trunc").map(|s| s.parse().unwrap()).unwrap_or(0);
        for j in read_ndjson(&input) {
            let file = j["file"].as_str().unwrap().to_string();
            let src = read_file(&file).unwrap_or_default();
            let ps = pieces(&src, trunc);
            let delims: Vec<usize> = ps
                .iter()
                .enumerate()
                .filter(|(_, p)| p.0 == 'o' || p.0 == 'c')
                .map(|(i, _)| i + 1)
                .collect();
            out.emit(&json!({"file":file,"ntok":ps.len(),"delims":delims,"bytes":src.len()}));
        }
        return;
    }
    let jobs: usize = arg_after(&args, "--jobs").map(|s| s.parse().unwrap()).unwrap_or(4);
    let timeout: u64 = arg_after(&args, "--timeout").map(|s| s.parse().unwrap()).unwrap_or(20);
    let lines: Vec<String> = {
        use std::io::BufRead;
        let f = std::fs::File::open(&input).expect("open --in");
        std::io::BufReader::new(f).lines().map(|l| l.unwrap()).filter(|l| !l.trim().is_empty()).collect()
    };
    let n = lines.len();
    let mut results: Vec<Option<String>> = vec![None; n];
    pool::run_pool(
        pool::PoolCfg { jobs, timeout: Duration::from_secs(timeout), worker_args: vec![], batch: 256 },
        lines,
        |i, line| results[i] = Some(line),
    );
    for r in results.into_iter() {
        let line = r.unwrap_or_else(|| "{\"lex\":\"lost\"}".to_string());
        let mut v: Value = serde_json::from_str(&line).unwrap_or(json!({"lex":"garbled"}));
        if v.get("ev").is_none() {
            // synthesized by the pool: {"status":"abort"|"timeout","signal","job"}
            let job = v.get("job").cloned().unwrap_or(Value::Null);
            let st = v.get("status").cloned().unwrap_or(json!("lost"));
            v = json!({"ev":"Parse","id":job.get("id").cloned().unwrap_or(Value::Null),
                       "lex":st,"lexc":st,"parse":st,"signal":v.get("signal").cloned().unwrap_or(json!(0)),
                       "len":0,"cont":[],"nspans":0,"smin":0,"emax":0,"mind":0,"hi":[],"dummy":0});
        }
        out.emit(&v);
    }
}
