//! vh-config: build a *script* package, optionally patch its bytecode, and run `main` on the FuelVM the
//! way an SDK does (the bytecode as a script transaction; cf. test/src/e2e_vm_tests/harness.rs runs_in_vm).
//!
//! Input (ndjson, --in): one package per line
//!   {"id": "p0", "files": {"src/main.sw": "..."}, "profile": "debug"|"release",
//!    "want": ["abi","bytecode","diag"],
//!    "runs": [ {"rid": "r0", "writes": [ {"name": "C1", "bytes": [..]} | {"offset": n, "bytes": [..]} ]}, ... ]}
//! A write with "name" goes to the offset the JSON ABI reports for the configurable of that name.
//! Output (ndjson, --out):
//!   {"ev":"Built","id","ok","panic","err","diag","abi","bytecode","bytecode_len","prelude_word"}
//!   {"ev":"Run","id","rid","state","receipts","returndata","panic","err","unknown": [names without offset]}
//! Purely mechanical: nothing is judged here; a panic of the compiler or the VM is data.
use serde_json::{json, Value};
use std::path::{Path, PathBuf};
use std::sync::{Arc, Mutex};
use vh::util::*;

struct Capture(Arc<Mutex<Vec<String>>>);
struct Visit<'a>(&'a mut String);
impl tracing::field::Visit for Visit<'_> {
    fn record_debug(&mut self, field: &tracing::field::Field, value: &dyn std::fmt::Debug) {
        if field.name() == "message" {
            use std::fmt::Write;
            let _ = write!(self.0, "{value:?}");
        }
    }
    fn record_str(&mut self, field: &tracing::field::Field, value: &str) {
        if field.name() == "message" {
            self.0.push_str(value);
        }
    }
}
impl tracing::Subscriber for Capture {
    fn enabled(&self, m: &tracing::Metadata<'_>) -> bool {
        *m.level() <= tracing::Level::INFO
    }
    fn new_span(&self, _: &tracing::span::Attributes<'_>) -> tracing::span::Id {
        tracing::span::Id::from_u64(1)
    }
    fn record(&self, _: &tracing::span::Id, _: &tracing::span::Record<'_>) {}
    fn record_follows_from(&self, _: &tracing::span::Id, _: &tracing::span::Id) {}
    fn event(&self, e: &tracing::Event<'_>) {
        let mut s = String::new();
        e.record(&mut Visit(&mut s));
        if !s.is_empty() {
            self.0.lock().unwrap_or_else(|e| e.into_inner()).push(s);
        }
    }
    fn enter(&self, _: &tracing::span::Id) {}
    fn exit(&self, _: &tracing::span::Id) {}
}

fn strip_ansi(s: &str) -> String {
    let mut out = String::new();
    let mut it = s.chars().peekable();
    while let Some(c) = it.next() {
        if c == '\u{1b}' {
            if it.peek() == Some(&'[') {
                it.next();
                for d in it.by_ref() {
                    if d.is_ascii_alphabetic() {
                        break;
                    }
                }
            }
        } else {
            out.push(c);
        }
    }
    out
}

fn word_bytes(w: u64) -> Vec<u8> {
    w.to_be_bytes().to_vec()
}

fn receipt_json(r: &fuel_tx::Receipt) -> Option<Value> {
    use fuel_tx::Receipt::*;
    match r {
        Log { ra, rb, rc, rd, .. } => Some(json!({"t":"log","ra":word_bytes(*ra),"rb":word_bytes(*rb),"rc":word_bytes(*rc),"rd":word_bytes(*rd)})),
        LogData { ra, rb, data, .. } => Some(json!({"t":"logdata","ra":word_bytes(*ra),"rb":word_bytes(*rb),"data":data.as_ref().map(|d| d.to_vec()).unwrap_or_default()})),
        ReturnData { data, .. } => Some(json!({"t":"returndata","data":data.as_ref().map(|d| d.to_vec()).unwrap_or_default()})),
        Return { val, .. } => Some(json!({"t":"return","val":word_bytes(*val)})),
        Revert { ra, .. } => Some(json!({"t":"revert","ra":word_bytes(*ra)})),
        Panic { reason, .. } => Some(json!({"t":"panic","reason":format!("{:?}", reason.reason())})),
        _ => None,
    }
}

fn write_pkg(dir: &Path, rec: &Value) {
    let _ = std::fs::remove_dir_all(dir);
    std::fs::create_dir_all(dir.join("src")).unwrap();
    let id = rec["id"].as_str().unwrap();
    let manifest = format!(
        "[project]\nauthors = [\"vh\"]\nentry = \"main.sw\"\nlicense = \"Apache-2.0\"\nname = \"{id}\"\n\n[dependencies]\nstd = {{ path = \"/repo/sway-lib-std\" }}\n"
    );
    std::fs::write(dir.join("Forc.toml"), manifest).unwrap();
    for (name, text) in rec["files"].as_object().unwrap() {
        let p = dir.join(name);
        if let Some(parent) = p.parent() {
            std::fs::create_dir_all(parent).unwrap();
        }
        std::fs::write(p, text.as_str().unwrap()).unwrap();
    }
}

/// Run `bytecode` as a script transaction with empty script data; returns (state, receipts).
fn run_script(bytecode: Vec<u8>) -> anyhow::Result<(Value, Vec<Value>, Option<Vec<u8>>)> {
    use fuel_tx::{ConsensusParameters, TransactionBuilder};
    use fuel_vm::checked_transaction::builder::TransactionBuilderExt;
    use fuel_vm::interpreter::{Interpreter, MemoryInstance};
    use fuel_vm::prelude::SecretKey;
    use fuel_vm::storage::MemoryStorage;
    use rand::{Rng, SeedableRng};
    use fuel_tx::{Chargeable, Finalizable};

    let storage = MemoryStorage::default();
    let rng = &mut rand::rngs::StdRng::seed_from_u64(2322u64);
    let maturity = 1.into();
    let block_height = (u32::MAX >> 1).into();
    let max_size = 64 * 1024 * 1024;
    let script_params = fuel_tx::ScriptParameters::DEFAULT
        .with_max_script_length(max_size)
        .with_max_script_data_length(max_size);
    let tx_params = fuel_tx::TxParameters::DEFAULT.with_max_size(max_size);
    let params = ConsensusParameters::V1(fuel_tx::consensus_parameters::ConsensusParametersV1 {
        script_params,
        tx_params,
        ..Default::default()
    });
    let mut tb = TransactionBuilder::script(bytecode, vec![]);
    tb.with_params(params)
        .add_unsigned_coin_input(SecretKey::random(rng), rng.gen(), 1, Default::default(), rng.gen())
        .maturity(maturity);
    let gas_price = 0;
    let consensus_params = tb.get_params().clone();
    let params = ConsensusParameters::default();
    let tmp_tx = tb.clone().finalize();
    let max_gas = tmp_tx.max_gas(consensus_params.gas_costs(), consensus_params.fee_params()) + 1;
    tb.script_gas_limit(consensus_params.tx_params().max_gas_per_tx() - max_gas);
    let tx = tb
        .finalize_checked(block_height)
        .into_ready(gas_price, params.gas_costs(), params.fee_params(), None)
        .map_err(|e| anyhow::anyhow!("{e:?}"))?;
    let mut i: Interpreter<_, _, fuel_tx::Script> =
        Interpreter::with_storage(MemoryInstance::new(), storage, Default::default());
    let transition = i.transact(tx).map_err(|e| anyhow::anyhow!("{e:?}"))?;
    let state = match transition.state() {
        fuel_vm::state::ProgramState::Return(w) => json!({"k":"return","v":word_bytes(*w)}),
        fuel_vm::state::ProgramState::ReturnData(d) => json!({"k":"returndata","digest":hex::encode(d.as_ref())}),
        fuel_vm::state::ProgramState::Revert(w) => json!({"k":"revert","v":word_bytes(*w)}),
        other => json!({"k":"other","dbg":format!("{other:?}")}),
    };
    let receipts: Vec<Value> = transition.receipts().iter().filter_map(receipt_json).collect();
    let rd = transition.receipts().iter().find_map(|r| match r {
        fuel_tx::Receipt::ReturnData { data, .. } => Some(data.as_ref().map(|d| d.to_vec()).unwrap_or_default()),
        _ => None,
    });
    Ok((state, receipts, rd))
}

fn main() {
    let args: Vec<String> = std::env::args().collect();
    let input = arg_after(&args, "--in").expect("--in");
    let output = arg_after(&args, "--out").expect("--out");
    let work = PathBuf::from(arg_after(&args, "--work").expect("--work"));
    let recs = read_ndjson(&input);
    let mut out = NdjsonOut::new(&output);
    let captured = Arc::new(Mutex::new(Vec::<String>::new()));
    tracing::subscriber::set_global_default(Capture(captured.clone())).unwrap();
    quiet_panics();

    for rec in &recs {
        let id = rec["id"].as_str().unwrap().to_string();
        out.emit(&json!({"ev":"Start","id":id}));
        let dir = work.join(&id);
        write_pkg(&dir, rec);
        captured.lock().unwrap().clear();
        let profile = rec.get("profile").and_then(|v| v.as_str()).unwrap_or("debug").to_string();
        let want: Vec<String> = rec
            .get("want")
            .and_then(|w| w.as_array())
            .map(|a| a.iter().filter_map(|x| x.as_str().map(String::from)).collect())
            .unwrap_or_default();
        let opts = forc_test::TestOpts {
            pkg: forc_pkg::PkgOpts {
                path: Some(dir.to_string_lossy().to_string()),
                offline: true,
                terse: false,
                locked: false,
                output_directory: None,
                ipfs_node: Default::default(),
            },
            release: profile == "release",
            build_profile: profile.clone(),
            no_output: true,
            ..Default::default()
        };
        let built = std::panic::catch_unwind(std::panic::AssertUnwindSafe(|| -> anyhow::Result<_> {
            let mut build_opts: forc_pkg::BuildOpts = opts.into();
            build_opts.tests = false;
            forc_pkg::build_with_options(&build_opts, None)
        }));
        let diag = || {
            let v = captured.lock().unwrap_or_else(|e| e.into_inner());
            strip_ansi(&v.join("\n"))
        };
        let built = match built {
            Err(e) => {
                out.emit(&json!({"ev":"Built","id":id,"ok":false,"panic":panic_msg(e),"diag":diag()}));
                continue;
            }
            Ok(Err(e)) => {
                out.emit(&json!({"ev":"Built","id":id,"ok":false,"panic":null,"err":format!("{e:#}"),"diag":diag()}));
                continue;
            }
            Ok(Ok(b)) => b,
        };
        let members: Vec<_> = built.into_members().map(|(_, b)| b.clone()).collect();
        let b = &members[0];
        let bytecode = b.bytecode.bytes.clone();
        let abi_json = match &b.program_abi {
            sway_core::asm_generation::ProgramABI::Fuel(abi) => serde_json::to_value(abi).unwrap_or(Value::Null),
            _ => Value::Null,
        };
        let prelude_word: Vec<u8> = bytecode.get(16..24).map(|s| s.to_vec()).unwrap_or_default();
        out.emit(&json!({"ev":"Built","id":id,"ok":true,"panic":null,
            "abi": if want.iter().any(|w| w=="abi") { abi_json.clone() } else { Value::Null },
            "bytecode": if want.iter().any(|w| w=="bytecode") { json!(bytecode) } else { Value::Null },
            "bytecode_len": bytecode.len(), "prelude_word": prelude_word,
            "diag": if want.iter().any(|w| w=="diag") { json!(diag()) } else { Value::Null }}));
        // offsets of configurables by name, as the ABI reports them
        let mut offsets = std::collections::HashMap::<String, u64>::new();
        if let Some(cs) = abi_json.get("configurables").and_then(|c| c.as_array()) {
            for c in cs {
                if let (Some(n), Some(o)) = (c.get("name").and_then(|n| n.as_str()), c.get("offset").and_then(|o| o.as_u64())) {
                    offsets.insert(n.to_string(), o);
                }
            }
        }
        let empty = vec![];
        for run in rec.get("runs").and_then(|r| r.as_array()).unwrap_or(&empty) {
            let rid = run["rid"].as_str().unwrap_or("").to_string();
            let mut code = bytecode.clone();
            let mut unknown = vec![];
            let mut oob = vec![];
            for w in run.get("writes").and_then(|w| w.as_array()).unwrap_or(&empty) {
                let bytes: Vec<u8> = w["bytes"].as_array().map(|a| a.iter().map(|x| x.as_u64().unwrap() as u8).collect()).unwrap_or_default();
                let off = if let Some(n) = w.get("name").and_then(|n| n.as_str()) {
                    match offsets.get(n) {
                        Some(o) => *o as usize,
                        None => {
                            unknown.push(n.to_string());
                            continue;
                        }
                    }
                } else {
                    w["offset"].as_u64().unwrap() as usize
                };
                if off + bytes.len() > code.len() {
                    oob.push(json!({"offset": off, "len": bytes.len()}));
                    continue;
                }
                code[off..off + bytes.len()].copy_from_slice(&bytes);
            }
            let res = std::panic::catch_unwind(std::panic::AssertUnwindSafe(|| run_script(code)));
            match res {
                Err(e) => out.emit(&json!({"ev":"Run","id":id,"rid":rid,"panic":panic_msg(e),"unknown":unknown,"oob":oob})),
                Ok(Err(e)) => out.emit(&json!({"ev":"Run","id":id,"rid":rid,"panic":null,"err":format!("{e:#}"),"unknown":unknown,"oob":oob})),
                Ok(Ok((state, receipts, rd))) => out.emit(&json!({"ev":"Run","id":id,"rid":rid,"panic":null,"state":state,
                    "receipts":receipts,"returndata":rd,"unknown":unknown,"oob":oob})),
            }
        }
        if !want.iter().any(|w| w == "keep") {
            let _ = std::fs::remove_dir_all(&dir);
        }
    }
    out.flush();
}
