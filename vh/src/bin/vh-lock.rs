//! vh-lock: conformance driver for C20 / C21 (LockFile.tla).
//!
//! Purely mechanical: builds real `forc_pkg` values from JSON records, calls the real API,
//! projects the results back to JSON.  Every judgement is made by Trace_LockFile.tla.
//!
//! Abstract source record (uniform shape, unused fields are ""):
//!   {"kind":"member|path|git|ipfs|registry","root","url","refk":"branch|tag|rev|default|",
//!    "refv","commit","cid","name","version","nsk":"flat|domain|","ns"}
//!
//! --mode roundtrip  in : {"id","nodes":[{"name","src":{..}}],"edges":[{"from":i,"to":j,"dep","kind","salt"}]}
//!                        (node indices 1-based; kind = "library"|"contract"; salt = 64 hex or "")
//!                   out: {"ev":"RoundTrip","id","g":{nodes,edges},"lock":[{name,source,version,deps,cdeps}],
//!                         "toml":text,"out":{"k":"graph","nodes","edges"}|{"k":"error","msg"}|{"k":"panic","msg"}}
//!                        or {"ev":"Unbuildable","id","msg"} when the record cannot be turned into a Graph
//!                        (a generator bug, reported as a tool error by the check).
//! --mode load       in : {"id","text"}  or {"id","lock":[{"name","source","version"?,"deps":[..],"cdeps":[..]}]}
//!                   out: {"ev":"Load","id","outcome":"graph|error|panic","stage","msg","text"?}
//!                        (Lock::from_path on a real file, then Lock::to_graph)
//! --mode source     in : {"id","s"}
//!                   out: {"ev":"ParseSource","id","s","outcome":"ok|error|panic","src"?,"msg"?}
//! --mode mutate     in : {"id","text"}   every single-token deletion / duplication of the text is loaded
//!                   out: {"ev":"Load","id":"<id>:del|dup:<k>", ...}   (text kept only for panics)
use forc_pkg::{source, DepKind, Edge, Graph, Lock, Pinned};
use serde_json::{json, Value};
use std::collections::HashMap;
use std::panic::{catch_unwind, AssertUnwindSafe};
use std::path::{Path, PathBuf};
use std::str::FromStr;
use sway_core::fuel_prelude::fuel_tx;
use vh::util::*;

fn s<'a>(v: &'a Value, k: &str) -> &'a str {
    v.get(k).and_then(|x| x.as_str()).unwrap_or("")
}

fn empty_src(kind: &str) -> serde_json::Map<String, Value> {
    let mut m = serde_json::Map::new();
    for k in [
        "kind", "root", "url", "refk", "refv", "commit", "cid", "name", "version", "nsk", "ns",
    ] {
        m.insert(k.to_string(), Value::String(String::new()));
    }
    m.insert("kind".into(), Value::String(kind.into()));
    m
}

/// Build a real `source::Pinned` from the abstract record.
fn build_source(v: &Value) -> Result<source::Pinned, String> {
    match s(v, "kind") {
        "member" => "member".parse::<source::Pinned>().map_err(|_| "member".to_string()),
        "path" => {
            let root = forc_pkg::PinnedId::from_str(s(v, "root")).map_err(|_| format!("bad path root {:?}", s(v, "root")))?;
            Ok(source::Pinned::Path(source::path::Pinned { path_root: root }))
        }
        "ipfs" => format!("ipfs+{}", s(v, "cid"))
            .parse::<source::Pinned>()
            .map_err(|_| format!("bad ipfs cid {:?}", s(v, "cid"))),
        "git" => {
            let repo = source::git::Url::from_str(s(v, "url")).map_err(|e| format!("bad git url {:?}: {e}", s(v, "url")))?;
            let refv = s(v, "refv").to_string();
            let reference = match s(v, "refk") {
                "branch" => source::git::Reference::Branch(refv),
                "tag" => source::git::Reference::Tag(refv),
                "rev" => source::git::Reference::Rev(refv),
                "default" => source::git::Reference::DefaultBranch,
                k => return Err(format!("bad refk {k:?}")),
            };
            Ok(source::Pinned::Git(source::git::Pinned {
                source: source::git::Source { repo, reference },
                commit_hash: s(v, "commit").to_string(),
            }))
        }
        "registry" => {
            // a template value obtained through the public parser, then every field overwritten
            let tmpl = "registry+tmpl?0.0.0#QmYwAPJzv5CZsnA625s3Xf2nemtYgPpHdWEz79ojWnPbdG!";
            let mut reg = match tmpl.parse::<source::Pinned>() {
                Ok(source::Pinned::Registry(r)) => r,
                _ => return Err("registry template did not parse".into()),
            };
            reg.source.name = s(v, "name").to_string();
            reg.source.version = semver::Version::parse(s(v, "version")).map_err(|e| format!("bad semver {:?}: {e}", s(v, "version")))?;
            reg.source.namespace = match s(v, "nsk") {
                "flat" => source::reg::file_location::Namespace::Flat,
                "domain" => source::reg::file_location::Namespace::Domain(s(v, "ns").to_string()),
                k => return Err(format!("bad nsk {k:?}")),
            };
            // the Cid type is not nameable from outside; take the value out of a parsed ipfs source
            match format!("ipfs+{}", s(v, "cid")).parse::<source::Pinned>() {
                Ok(source::Pinned::Ipfs(p)) => reg.cid = p.0,
                _ => return Err(format!("bad registry cid {:?}", s(v, "cid"))),
            }
            Ok(source::Pinned::Registry(reg))
        }
        k => Err(format!("unknown source kind {k:?}")),
    }
}

/// Project a real `source::Pinned` to the abstract record.
fn project_source(p: &source::Pinned) -> Value {
    let jstr = |x: Value| x.as_str().unwrap_or("").to_string();
    let mut m;
    match p {
        source::Pinned::Member(_) => m = empty_src("member"),
        source::Pinned::Path(p) => {
            m = empty_src("path");
            m.insert("root".into(), json!(p.path_root.to_string()));
        }
        source::Pinned::Ipfs(p) => {
            m = empty_src("ipfs");
            m.insert("cid".into(), json!(jstr(serde_json::to_value(&p.0).unwrap())));
        }
        source::Pinned::Git(p) => {
            m = empty_src("git");
            m.insert("url".into(), json!(p.source.repo.to_string()));
            let (k, v) = match &p.source.reference {
                source::git::Reference::Branch(b) => ("branch", b.clone()),
                source::git::Reference::Tag(t) => ("tag", t.clone()),
                source::git::Reference::Rev(r) => ("rev", r.clone()),
                source::git::Reference::DefaultBranch => ("default", String::new()),
            };
            m.insert("refk".into(), json!(k));
            m.insert("refv".into(), json!(v));
            m.insert("commit".into(), json!(p.commit_hash));
        }
        source::Pinned::Registry(p) => {
            m = empty_src("registry");
            m.insert("name".into(), json!(p.source.name));
            m.insert("version".into(), json!(p.source.version.to_string()));
            m.insert("cid".into(), json!(jstr(serde_json::to_value(&p.cid).unwrap())));
            match &p.source.namespace {
                source::reg::file_location::Namespace::Flat => {
                    m.insert("nsk".into(), json!("flat"));
                }
                source::reg::file_location::Namespace::Domain(d) => {
                    m.insert("nsk".into(), json!("domain"));
                    m.insert("ns".into(), json!(d));
                }
            }
        }
    }
    Value::Object(m)
}

fn project_graph(g: &Graph) -> Value {
    use petgraph::visit::{EdgeRef, IntoEdgeReferences};
    let mut ix = HashMap::new();
    let mut nodes = vec![];
    for (k, n) in g.node_indices().enumerate() {
        ix.insert(n, k + 1);
        nodes.push(json!({"name": g[n].name, "src": project_source(&g[n].source)}));
    }
    let mut edges = vec![];
    for e in g.edge_references() {
        let w = e.weight();
        let (kind, salt) = match &w.kind {
            DepKind::Library => ("library", String::new()),
            DepKind::Contract { salt } => ("contract", format!("{salt}")),
        };
        edges.push(json!({"from": ix[&e.source()], "to": ix[&e.target()], "dep": w.name, "kind": kind, "salt": salt}));
    }
    json!({"nodes": nodes, "edges": edges})
}

fn build_graph(r: &Value) -> Result<Graph, String> {
    let mut g = Graph::default();
    let mut ix = vec![];
    for n in r["nodes"].as_array().ok_or("nodes")? {
        let source = build_source(&n["src"])?;
        ix.push(g.add_node(Pinned { name: s(n, "name").to_string(), source }));
    }
    for e in r["edges"].as_array().ok_or("edges")? {
        let a = e["from"].as_u64().ok_or("from")? as usize;
        let b = e["to"].as_u64().ok_or("to")? as usize;
        let kind = match s(e, "kind") {
            "library" => DepKind::Library,
            "contract" => DepKind::Contract {
                salt: fuel_tx::Salt::from_str(s(e, "salt")).map_err(|e| format!("bad salt: {e}"))?,
            },
            k => return Err(format!("bad edge kind {k:?}")),
        };
        // add_edge (not update_edge): the record decides whether parallel edges exist
        g.add_edge(ix[a - 1], ix[b - 1], Edge::new(s(e, "dep").to_string(), kind));
    }
    Ok(g)
}

/// serde view of a Lock: [{name, source, version, deps, cdeps}]
fn project_lock(lock: &Lock) -> Value {
    let v = serde_json::to_value(lock).unwrap();
    let mut out = vec![];
    for p in v["package"].as_array().cloned().unwrap_or_default() {
        out.push(json!({
            "name": p["name"], "source": p["source"],
            "version": p.get("version").and_then(|x| x.as_str()).unwrap_or(""),
            "deps": p.get("dependencies").and_then(|x| x.as_array()).cloned().unwrap_or_default(),
            "cdeps": p.get("contract-dependencies").and_then(|x| x.as_array()).cloned().unwrap_or_default(),
        }));
    }
    Value::Array(out)
}

fn roundtrip(r: &Value) -> Value {
    let id = r["id"].clone();
    let g = match catch_unwind(AssertUnwindSafe(|| build_graph(r))) {
        Ok(Ok(g)) => g,
        Ok(Err(m)) => return json!({"ev":"Unbuildable","id":id,"msg":m}),
        Err(e) => return json!({"ev":"Unbuildable","id":id,"msg":format!("panic: {}", panic_msg(e))}),
    };
    let gin = project_graph(&g);
    // write side: from_graph + the serializer forc uses when it writes Forc.lock
    let w = catch_unwind(AssertUnwindSafe(|| {
        let lock = Lock::from_graph(&g);
        let text = toml::to_string_pretty(&lock).map_err(|e| e.to_string());
        (project_lock(&lock), text)
    }));
    let (lockv, text) = match w {
        Ok((l, Ok(t))) => (l, t),
        Ok((l, Err(m))) => return json!({"ev":"RoundTrip","id":id,"g":gin,"lock":l,"toml":"","out":{"k":"error","stage":"serialize","msg":m}}),
        Err(e) => return json!({"ev":"RoundTrip","id":id,"g":gin,"lock":[],"toml":"","out":{"k":"panic","stage":"from_graph","msg":panic_msg(e)}}),
    };
    // read side
    let rd = catch_unwind(AssertUnwindSafe(|| -> Result<Value, (String, String)> {
        let lock: Lock = toml::from_str(&text).map_err(|e| ("parse".to_string(), e.to_string()))?;
        let g2 = lock.to_graph().map_err(|e| ("to_graph".to_string(), format!("{e}")))?;
        Ok(project_graph(&g2))
    }));
    let out = match rd {
        Ok(Ok(g2)) => json!({"k":"graph","nodes":g2["nodes"],"edges":g2["edges"]}),
        Ok(Err((stage, m))) => json!({"k":"error","stage":stage,"msg":m}),
        Err(e) => json!({"k":"panic","stage":"read","msg":panic_msg(e)}),
    };
    json!({"ev":"RoundTrip","id":id,"g":gin,"lock":lockv,"toml":text,"out":out})
}

fn render_lock(l: &Value) -> String {
    // mechanical TOML rendering of an abstract lock (toml crate does the escaping)
    let mut pkgs = vec![];
    for p in l.as_array().cloned().unwrap_or_default() {
        let mut t = toml::Table::new();
        t.insert("name".into(), toml::Value::String(s(&p, "name").into()));
        if !s(&p, "version").is_empty() {
            t.insert("version".into(), toml::Value::String(s(&p, "version").into()));
        }
        t.insert("source".into(), toml::Value::String(s(&p, "source").into()));
        for (k, tk) in [("deps", "dependencies"), ("cdeps", "contract-dependencies")] {
            if let Some(a) = p.get(k).and_then(|x| x.as_array()) {
                if !a.is_empty() {
                    t.insert(
                        tk.into(),
                        toml::Value::Array(a.iter().map(|x| toml::Value::String(x.as_str().unwrap_or("").into())).collect()),
                    );
                }
            }
        }
        pkgs.push(toml::Value::Table(t));
    }
    let mut root = toml::Table::new();
    root.insert("package".into(), toml::Value::Array(pkgs));
    toml::to_string_pretty(&root).unwrap()
}

fn load_text(dir: &Path, id: Value, text: &str, keep_text: bool) -> Value {
    let path: PathBuf = dir.join("Forc.lock");
    std::fs::write(&path, text).unwrap();
    let res = catch_unwind(AssertUnwindSafe(|| -> Result<(usize, usize), (String, String)> {
        let lock = Lock::from_path(&path).map_err(|e| ("from_path".to_string(), format!("{e}")))?;
        let g = lock.to_graph().map_err(|e| ("to_graph".to_string(), format!("{e}")))?;
        Ok((g.node_count(), g.edge_count()))
    }));
    let mut v = match res {
        Ok(Ok((n, e))) => json!({"ev":"Load","id":id,"outcome":"graph","stage":"","msg":"","n":n,"e":e}),
        Ok(Err((stage, m))) => json!({"ev":"Load","id":id,"outcome":"error","stage":stage,"msg":m}),
        Err(e) => json!({"ev":"Load","id":id,"outcome":"panic","stage":"","msg":panic_msg(e)}),
    };
    if keep_text || v["outcome"] == "panic" {
        v["text"] = json!(text);
    }
    v
}

fn parse_source(r: &Value) -> Value {
    let st = s(r, "s").to_string();
    let res = catch_unwind(AssertUnwindSafe(|| source::Pinned::from_str(&st)));
    let base = json!({"ev":"ParseSource","id":r["id"],"s":st});
    let mut v = base;
    match res {
        Ok(Ok(p)) => {
            v["outcome"] = json!("ok");
            v["src"] = project_source(&p);
            v["msg"] = json!("");
        }
        Ok(Err(_)) => {
            v["outcome"] = json!("error");
            v["src"] = Value::Object(empty_src(""));
            v["msg"] = json!("");
        }
        Err(e) => {
            v["outcome"] = json!("panic");
            v["src"] = Value::Object(empty_src(""));
            v["msg"] = json!(panic_msg(e));
        }
    }
    v
}

/// Tokens of a lock text for the mutation pool: maximal runs of [A-Za-z0-9_], single other chars.
fn tokens(text: &str) -> Vec<(usize, usize)> {
    let mut out = vec![];
    let mut it = text.char_indices().peekable();
    while let Some((i, c)) = it.next() {
        if c.is_alphanumeric() || c == '_' {
            let mut end = i + c.len_utf8();
            while let Some(&(j, d)) = it.peek() {
                if d.is_alphanumeric() || d == '_' {
                    end = j + d.len_utf8();
                    it.next();
                } else {
                    break;
                }
            }
            out.push((i, end));
        } else {
            out.push((i, i + c.len_utf8()));
        }
    }
    out
}

fn main() {
    let args: Vec<String> = std::env::args().collect();
    let mode = arg_after(&args, "--mode").expect("--mode");
    let input = arg_after(&args, "--in").expect("--in");
    let output = arg_after(&args, "--out").expect("--out");
    let keep_text = args.iter().any(|a| a == "--keep-text");
    let dir = PathBuf::from(arg_after(&args, "--dir").unwrap_or_else(|| ".".into())).join("lockdir");
    std::fs::create_dir_all(&dir).unwrap();
    let recs = read_ndjson(&input);
    let mut out = NdjsonOut::new(&output);
    quiet_panics();
    for r in &recs {
        match mode.as_str() {
            "roundtrip" => out.emit(&roundtrip(r)),
            "source" => out.emit(&parse_source(r)),
            "load" => {
                let text = match r.get("text").and_then(|t| t.as_str()) {
                    Some(t) => t.to_string(),
                    None => render_lock(&r["lock"]),
                };
                let mut v = load_text(&dir, r["id"].clone(), &text, keep_text);
                if let Some(l) = r.get("lock") {
                    v["lock"] = l.clone(); // the abstract lock the text was rendered from
                }
                out.emit(&v);
            }
            "mutate" => {
                let text = s(r, "text");
                let id = s(r, "id");
                let toks = tokens(text);
                for (k, &(a, b)) in toks.iter().enumerate() {
                    if text[a..b].trim().is_empty() && &text[a..b] != "\n" {
                        continue; // deleting/duplicating a blank changes nothing a TOML parser sees
                    }
                    let del = format!("{}{}", &text[..a], &text[b..]);
                    out.emit(&load_text(&dir, json!(format!("{id}:del:{k}")), &del, false));
                    let dup = format!("{}{}{}", &text[..b], &text[a..b], &text[b..]);
                    out.emit(&load_text(&dir, json!(format!("{id}:dup:{k}")), &dup, false));
                }
            }
            m => panic!("unknown mode {m}"),
        }
    }
}
