fn main() { println!("vh ok"); }
