//! vh — conformance harness binding the TLA+ specification in /verif/spec to FuelLabs/sway.
pub mod util;
