CONSTANTS
  MaxLen = 1
  NV = 3
  NP = 2
  Kinds = {"const", "mov", "inc", "add", "out", "jnz", "jmp"}
  Rule = "spec"
  Filter = TRUE
  RandLens = {4, 5, 6, 7}
  RandKinds = {"const", "mov", "inc", "add", "out", "jnz", "jmp"}
  RandCount = 10000
SPECIFICATION Spec
INVARIANT AllocatedRunAgrees
INVARIANT LiveAgree
CHECK_DEADLOCK FALSE
