\* generated once by the C27 builder; see MC_StdModels.tla
CONSTANTS
  MKind = "string"
  MEty = "u8"
  Prefixes <- PrefStr
  OpNames = {"new", "with_capacity", "from_str", "from_ascii", "clear", "clone", "as_bytes_mut", "via_bytes"}
  MaxOps = 2
  NumSel <- NumSel_none
SPECIFICATION GenSpec
INVARIANT TypeInv
INVARIANT ModelInv
INVARIANT PrintLeaf
CHECK_DEADLOCK FALSE
