\* all histories (to closure) over vecA alone (u64: 4 elements per slot; lengths 0..5 cross a slot boundary)
CONSTANT UnitWord = 0
CONSTANT Active = {"vecA"}
CONSTANT Vals = {1, 2}
CONSTANT Keys = {1, 2}
CONSTANT MaxLen = 5
CONSTANT SliceLens = {0, 1}
CONSTANT VecArgs = {0, 1, 21}
SPECIFICATION Spec
INVARIANT Refines
INVARIANT RetAgree
PROPERTY FrameProp
CHECK_DEADLOCK FALSE
