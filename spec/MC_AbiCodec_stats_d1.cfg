\* anti-vacuity statistics of the universe "d1": how many type trees make each antecedent true
CONSTANTS Universe = "d1" SampleD2 = 0 SampleD3 = 0 Part = 0 NParts = 1 WithNamed = TRUE
SPECIFICATION StatsSpec
CHECK_DEADLOCK FALSE
