-------------------------- MODULE MC_CompileOutcome --------------------------
(* Small exhaustive instance: every sequence of at most Max compilations of packages from Pkgs; the     *)
(* history of terminal outcomes only ever contains the two allowed ones, and every started compilation *)
(* can terminate (no stuck "compiling" state).                                                         *)
EXTENDS CompileOutcome, Sequences
CONSTANTS Pkgs, Max
VARIABLE hist      \* sequence of <<pkg, outcome>>
MCInit == CInit /\ hist = <<>>
MCStart == /\ finished["artifacts"] + finished["diagnostics"] < Max
           /\ \E p \in Pkgs : Start(p) /\ UNCHANGED hist
MCArtifacts   == \E p \in Pkgs : Compiled(p, "artifacts") /\ hist' = hist \o <<<<p, "artifacts">>>>
MCDiagnostics == \E p \in Pkgs : Compiled(p, "diagnostics") /\ hist' = hist \o <<<<p, "diagnostics">>>>
\* what the property excludes: these can never fire
MCOther == \E p \in Pkgs, o \in {"panic", "ice", "crash", "timeout"} : Compiled(p, o) /\ hist' = hist \o <<<<p, o>>>>
MCNext == MCStart \/ MCArtifacts \/ MCDiagnostics \/ MCOther
MCSpec == MCInit /\ [][MCNext]_<<cvars, hist>>
OnlyTwoOutcomes == \A i \in DOMAIN hist : hist[i][2] \in Outcomes
CountsMatchHistory == finished["artifacts"] + finished["diagnostics"] = Len(hist)
CompilingCanFinish == (phase = "compiling") => ENABLED (MCArtifacts \/ MCDiagnostics)
=============================================================================
