-------------------------- MODULE Gen_PlanSession --------------------------
(* History generator for X01.  A history = base manifests + MaxEnv           *)
(* environment actions; the driver plans after every action, so the          *)
(* generator advances the lock with PlanSession!LockAfterPlan (the summary    *)
(* that MC_PlanSession.cfg proves equal to the step-wise actions).           *)
(* VIEW GenView merges histories that reach the same (manifests, lock) with  *)
(* the same last action: one printed history per (action, target state) at   *)
(* every depth instead of one per path.                                       *)
EXTENDS PlanSession, Json

VARIABLES hist, last, base, hung

AllActs ==
    { Act("AddDep", p, d, q) : p \in Pkgs, d \in Names, q \in Pkgs }
    \cup { Act("RemoveDep", p, d, 0) : p \in Pkgs, d \in Names }
    \cup { Act("Retarget", p, d, q) : p \in Pkgs, d \in Names, q \in Pkgs }
    \cup { Act("DeleteLock", 0, 0, 0), Act("CorruptGarbage", 0, 0, 0) }
    \cup { Act(a, 0, 0, q) : a \in {"CorruptAddNode", "CorruptDropNode"}, q \in Pkgs }
    \cup { Act(a, p, d, q) : a \in {"CorruptAddEdge", "CorruptDropEdge"}, p \in Pkgs, d \in Names, q \in Pkgs }

GenInit ==
    /\ base \in Bases
    /\ man = base
    /\ lock = LockAfterPlan(base, NoLock)
    /\ pc = "idle" /\ locked = FALSE /\ g = EmptyG /\ cause = FALSE /\ loaded = EmptyG
    /\ emitted = <<>> /\ res = NoRes /\ nenv = 0
    /\ hist = <<>> /\ last = <<Act("Replan", 0, 0, 0), TRUE>> /\ hung = FALSE

\* pl = FALSE: the next environment action follows without a planning step in between
\* (the last action of a history is always followed by planning; nothing follows a hang)
GenStep ==
    /\ Len(hist) < MaxEnv /\ ~hung
    /\ \E act \in AllActs, pl \in BOOLEAN :
          /\ EnvEnabled(act, man, lock)
          /\ (Len(hist) = MaxEnv - 1) => pl
          /\ man' = EnvMan(act, man)
          /\ lock' = IF pl THEN LockAfterPlan(EnvMan(act, man), EnvLock(act, lock)) ELSE EnvLock(act, lock)
          /\ hung' = (pl /\ PlanHangs(EnvMan(act, man), EnvLock(act, lock)))
          /\ hist' = Append(hist, [a |-> act.a, p |-> act.p, d |-> act.d, q |-> act.q, plan |-> pl])
          /\ last' = <<act, pl>>
    /\ UNCHANGED <<pc, planvars, res, nenv, base>>

GenSpec == GenInit /\ [][GenStep]_<<vars, hist, last, base, hung>>

GenView == <<man, lock, Len(hist), last, hung>>

\* coarser: one history per (manifests, lock) reached at every depth (used for MaxEnv = 3)
GenViewCoarse == <<man, lock, Len(hist), hung>>

PrintHist ==
    (Len(hist) = MaxEnv \/ hung) => PrintT(<<"REPLAY", ToJson([n |-> N, base |-> base, steps |-> hist])>>)
=============================================================================
