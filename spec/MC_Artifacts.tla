---------------------------- MODULE MC_Artifacts ----------------------------
(***************************************************************************)
(* Small exhaustive instance of Artifacts: every sequence of at most       *)
(* MaxBuilds builds over Pkgs x Profiles x Values.  The history variable   *)
(* `hist` records every accepted build; ArtifactIsFunctionOfSource is the  *)
(* property itself, stated over the history.                               *)
(***************************************************************************)
EXTENDS Artifacts

CONSTANTS Pkgs, Profiles, Values, MaxBuilds

VARIABLE hist       \* set of <<pkg, profile, artifact>> of all accepted builds

MCInit == AInit /\ hist = {}
\* the first build of a key, and a later build of a bound key, are separate actions (coverage)
FirstBuild == /\ builds < MaxBuilds
              /\ \E p \in Pkgs, f \in Profiles, a \in Values :
                    <<p, f>> \notin DOMAIN art /\ Build(p, f, a) /\ hist' = hist \cup {<<p, f, a>>}
Rebuild ==    /\ builds < MaxBuilds
              /\ \E p \in Pkgs, f \in Profiles, a \in Values :
                    <<p, f>> \in DOMAIN art /\ Build(p, f, a) /\ hist' = hist \cup {<<p, f, a>>}
MCNext == FirstBuild \/ Rebuild
MCSpec == MCInit /\ [][MCNext]_<<avars, hist>>

ArtifactIsFunctionOfSource ==
    \A x \in hist, y \in hist : (x[1] = y[1] /\ x[2] = y[2]) => x[3] = y[3]

\* anything derived from the artifacts by a pure function (contract id = H(bytecode, slots, salt),
\* predicate root = H(bytecode)) is then a function of the source as well
Derived(a) == <<a, "derived">>
DerivedIdsAgree ==
    \A x \in hist, y \in hist : (x[1] = y[1] /\ x[2] = y[2]) => Derived(x[3]) = Derived(y[3])

\* art is exactly the function the history defines
ArtMatchesHistory ==
    /\ DOMAIN art = { <<x[1], x[2]>> : x \in hist }
    /\ \A x \in hist : art[<<x[1], x[2]>>] = x[3]
=============================================================================
