CONSTANT UnitWord = 0
CONSTANT MaxFields = 1
CONSTANT PoolSel = "full"
CONSTANT NP2 = 150
CONSTANT NP3 = 60
SPECIFICATION GenSpec
INVARIANT GenOK
INVARIANT PrintReplay
CHECK_DEADLOCK FALSE
