CONSTANT UnitWord = 0
SPECIFICATION TraceSpec
POSTCONDITION Accepted
CHECK_DEADLOCK FALSE
