\* all histories over StorageBytes with lengths 0, 1, 31, 32, 33, 70 (stale slots beyond a shorter content included)
CONSTANT UnitWord = 0
CONSTANT Active = {"bytesA"}
CONSTANT Vals = {1, 2}
CONSTANT Keys = {1, 2}
CONSTANT MaxLen = 3
CONSTANT SliceLens = {0, 1, 31, 32, 33, 70}
CONSTANT VecArgs = {0, 1, 21}
SPECIFICATION Spec
INVARIANT Refines
INVARIANT RetAgree
PROPERTY FrameProp
CHECK_DEADLOCK FALSE
