----------------------------- MODULE MC_RegAlloc -----------------------------
(***************************************************************************)
(* Design-level check of RegAlloc.tla on a small register machine.         *)
(*                                                                         *)
(* Programs: sequences of <= MaxLen instructions (all of them) plus        *)
(* RandCount random programs of each length in RandLens, over the virtual  *)
(* registers 1..NV; values are integers modulo 3.                          *)
(*   <<"const", d, c>>     d := c                                          *)
(*   <<"mov", d, s>>       d := s             (the MOVE of the allocator)  *)
(*   <<"inc", d, s>>       d := s + 1                                      *)
(*   <<"add", d, s, t>>    d := s + t                                      *)
(*   <<"out", s>>          emit s             (observable)                 *)
(*   <<"jnz", s, t>>       if s # 0 goto t    (observable direction)       *)
(*   <<"jmp", t>>          goto t                                          *)
(* Position Len+1 is the exit.  An allocation maps every virtual register  *)
(* to one of NP physical registers.  The machine runs the program twice in *)
(* lock step -- on the virtual register file V and, through the            *)
(* allocation, on the physical file P -- and raises `bad` as soon as an    *)
(* emitted value or a branch direction differs.  All registers start at 0  *)
(* in both files.                                                          *)
(*                                                                         *)
(* Theorem checked by TLC (all programs, all allocations, complete runs    *)
(* including loops):  NoClobber(prog, asg) => the two runs never differ.   *)
(*                                                                         *)
(* `Rule` selects the interference rule the theorem is stated for:         *)
(*   "spec"     the rule of RegAlloc.tla                                   *)
(*   "bothlive" naive rule "both live after i" (a dead definition is       *)
(*              ignored): the theorem must FAIL                            *)
(*   "moveall"  a MOVE's destination is exempt from everything: must FAIL  *)
(*   "noexempt" no MOVE exemption: still sound, but rejects allocations    *)
(*              that are fine -- invariant ExemptionNeeded must FAIL,      *)
(*              which is why the rule has the exemption.                   *)
(***************************************************************************)
EXTENDS RegAlloc, TLC

CONSTANTS MaxLen,      \* maximal program length for the exhaustive part
          NV, NP,      \* numbers of virtual / physical registers
          Kinds,       \* instruction kinds enabled
          Rule,        \* see above
          Filter,      \* TRUE: explore only allocations the rule accepts
          RandLens,    \* lengths of the randomly drawn programs ({} = none)
          RandKinds,   \* their instruction kinds
          RandCount    \* how many per length (drawn with TLC's seeded generator: -seed fixes them)

VRegs == 1..NV
PRegs == 0..(NP - 1)
Vals  == 0..2
Pl(x, y) == (x + y) % 3

InstrsOf(K, n) ==
    LET T == 1..(n + 1) IN
      (IF "const" \in K THEN { <<"const", d, c>> : d \in VRegs, c \in {0, 1} } ELSE {})
 \cup (IF "mov" \in K THEN { <<"mov", x[1], x[2]>> : x \in { y \in VRegs \X VRegs : y[1] # y[2] } } ELSE {})
 \cup (IF "inc" \in K THEN { <<"inc", d, s>> : d \in VRegs, s \in VRegs } ELSE {})
 \cup (IF "add" \in K THEN { <<"add", x[1], x[2], x[3]>> : x \in { y \in VRegs \X VRegs \X VRegs : y[2] < y[3] } } ELSE {})
 \cup (IF "out" \in K THEN { <<"out", s>> : s \in VRegs } ELSE {})
 \cup (IF "jnz" \in K THEN { <<"jnz", s, t>> : s \in VRegs, t \in T } ELSE {})
 \cup (IF "jmp" \in K THEN { <<"jmp", t>> : t \in T } ELSE {})

Instrs(n) == InstrsOf(Kinds, n)

Progs == UNION { [1..n -> Instrs(n)] : n \in 1..MaxLen }

Assigns == [VRegs -> PRegs]

\* ---- the abstract view of an instruction: what the allocator's analyses see
Inside(n, S) == S \cap 1..n
Abs(ins, i, n) ==
    CASE ins[1] = "const" -> [d |-> {ins[2]}, u |-> {},               s |-> Inside(n, {i + 1}), mv |-> NoReg]
      [] ins[1] = "mov"   -> [d |-> {ins[2]}, u |-> {ins[3]},         s |-> Inside(n, {i + 1}), mv |-> ins[3]]
      [] ins[1] = "inc"   -> [d |-> {ins[2]}, u |-> {ins[3]},         s |-> Inside(n, {i + 1}), mv |-> NoReg]
      [] ins[1] = "add"   -> [d |-> {ins[2]}, u |-> {ins[3], ins[4]}, s |-> Inside(n, {i + 1}), mv |-> NoReg]
      [] ins[1] = "out"   -> [d |-> {},       u |-> {ins[2]},         s |-> Inside(n, {i + 1}), mv |-> NoReg]
      [] ins[1] = "jnz"   -> [d |-> {},       u |-> {ins[2]},         s |-> Inside(n, {i + 1, ins[3]}), mv |-> NoReg]
      [] ins[1] = "jmp"   -> [d |-> {},       u |-> {},               s |-> Inside(n, {ins[2]}), mv |-> NoReg]

AbsProg(p) == [i \in 1..Len(p) |-> Abs(p[i], i, Len(p))]

\* ---- interference rules (the spec's and the deliberately wrong ones)
ClobbersAtR(ops, out, i, a, b) ==
    CASE Rule = "spec"     -> ClobbersAt(ops, out, i, a, b)
      [] Rule = "noexempt" -> a \in ops[i].d /\ b \in out[i] /\ a # b
      [] Rule = "bothlive" -> a \in ops[i].d /\ a \in out[i] /\ b \in out[i] /\ a # b
                              /\ ~(ops[i].mv # NoReg /\ ops[i].mv = b)
      [] Rule = "moveall"  -> a \in ops[i].d /\ b \in out[i] /\ a # b /\ ops[i].mv = NoReg

NoClobberR(ops, in, asg) ==
    LET out == LiveOutFrom(ops, in) IN
    \A i \in 1..Len(ops) : \A a \in ops[i].d : \A b \in out[i] :
        ClobbersAtR(ops, out, i, a, b) => asg[a] # asg[b]

(***************************************************************************)
(* The lock-step machine.                                                  *)
(***************************************************************************)
VARIABLES prog,   \* the program
          lin,    \* its live-in table LiveIn(AbsProg(prog)), computed once per program
          asg,    \* the allocation
          nc,     \* does the rule accept the allocation
          pc, V, P, bad

vars == <<prog, lin, asg, nc, pc, V, P, bad>>

RandProgs ==
    UNION { { [i \in 1..n |-> RandomElement(InstrsOf(RandKinds, n))] : j \in 1..RandCount } : n \in RandLens }

Init ==
    /\ prog \in Progs \cup RandProgs
    /\ lin = LiveIn(AbsProg(prog))
    /\ asg \in Assigns
    /\ asg[1] = 0                           \* w.l.o.g.: the physical registers are interchangeable
    /\ nc = NoClobberR(AbsProg(prog), lin, asg)
    /\ (Filter => nc)                       \* the theorem only speaks about accepted allocations
    /\ pc = 1
    /\ V = [v \in VRegs |-> 0]
    /\ P = [r \in PRegs |-> 0]
    /\ bad = FALSE

Halted == pc = Len(prog) + 1

\* value of s in the two runs
RV(s) == V[s]
RP(s) == P[asg[s]]

Write(d, x, y, npc) ==
    /\ V' = [V EXCEPT ![d] = x]
    /\ P' = [P EXCEPT ![asg[d]] = y]
    /\ pc' = npc
    /\ bad' = bad

Live == ~Halted /\ ~bad                       \* a run stops at the exit or at the first difference
Keep == UNCHANGED <<prog, lin, asg, nc>>

StepConst == Live /\ LET ins == prog[pc] IN
                 Live /\ Keep /\ ins[1] = "const" /\ Write(ins[2], ins[3], ins[3], pc + 1)
StepMov   == Live /\ LET ins == prog[pc] IN
                 Live /\ Keep /\ ins[1] = "mov" /\ Write(ins[2], RV(ins[3]), RP(ins[3]), pc + 1)
StepInc   == Live /\ LET ins == prog[pc] IN
                 Live /\ Keep /\ ins[1] = "inc" /\ Write(ins[2], Pl(RV(ins[3]), 1), Pl(RP(ins[3]), 1), pc + 1)
StepAdd   == Live /\ LET ins == prog[pc] IN
                 Live /\ Keep /\ ins[1] = "add" /\
                 Write(ins[2], Pl(RV(ins[3]), RV(ins[4])), Pl(RP(ins[3]), RP(ins[4])), pc + 1)
StepOut   == Live /\ LET ins == prog[pc] IN
                 /\ Live /\ Keep /\ ins[1] = "out"
                 /\ bad' = (RV(ins[2]) # RP(ins[2]))
                 /\ pc' = pc + 1 /\ UNCHANGED <<V, P>>
StepJnz   == Live /\ LET ins == prog[pc] IN
                 /\ Live /\ Keep /\ ins[1] = "jnz"
                 /\ bad' = ((RV(ins[2]) # 0) # (RP(ins[2]) # 0))
                 /\ pc' = (IF RV(ins[2]) # 0 THEN ins[3] ELSE pc + 1)
                 /\ UNCHANGED <<V, P>>
StepJmp   == Live /\ LET ins == prog[pc] IN
                 Live /\ Keep /\ ins[1] = "jmp" /\ pc' = ins[2] /\ UNCHANGED <<V, P, bad>>

Next == StepConst \/ StepMov \/ StepInc \/ StepAdd \/ StepOut \/ StepJnz \/ StepJmp

Spec == Init /\ [][Next]_vars

(***************************************************************************)
(* Properties.                                                             *)
(***************************************************************************)
\* THE theorem: an allocation accepted by the rule never makes the runs differ
AllocatedRunAgrees == nc => ~bad

\* the simulation relation behind it (stronger, inductive): every register live before pc has the
\* same value in both files
LiveAgree ==
    (nc /\ ~bad /\ ~Halted) => \A v \in lin[pc] : V[v] = P[asg[v]]

\* liveness sanity, evaluated on the initial states only (once per program): the least fixpoint
\* is a fixpoint, and it coincides with the path definition "v is live before i iff some path
\* from i reaches a use of v without passing a definition of v first"
RECURSIVE ReachNoDef(_, _, _, _)
ReachNoDef(ops, v, frontier, seen) ==
    \* positions reachable from `frontier` through positions that do not define v
    LET nxt == UNION { IF v \in ops[i].d THEN {} ELSE ops[i].s : i \in frontier } \ seen
    IN IF nxt = {} THEN seen ELSE ReachNoDef(ops, v, nxt, seen \cup nxt)
PathLive(ops, v, i) == \E j \in ReachNoDef(ops, v, {i}, {i}) : v \in ops[j].u
LivenessIsPathLiveness ==
    (pc = 1 /\ V = [v \in VRegs |-> 0] /\ P = [r \in PRegs |-> 0]) =>
        LET ops == AbsProg(prog)
            in == lin
        IN /\ IsFixpoint(ops, in)
           /\ \A i \in 1..Len(ops) : \A v \in VRegs : (v \in in[i]) <=> PathLive(ops, v, i)

\* Rule = "noexempt" only: must be violated -- some allocation is fine under the spec's rule
\* (hence runs correctly, by the theorem) yet rejected when MOVEs get no exemption
ExemptionNeeded == NoClobberIn(AbsProg(prog), LiveOutFrom(AbsProg(prog), lin), asg) => nc
=============================================================================
