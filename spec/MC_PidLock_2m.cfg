\* 2 markers
CONSTANTS
  Procs = {1, 2}
  Prog <- Prog_2m
  AtomicPublish = TRUE
  InitFiles = {"absent", "empty", "garbage", "ghost"}
  MaxCrashes = 1
SPECIFICATION MCSpec
INVARIANT TypeOK
INVARIANT CulpritRecorded
INVARIANT LossReport
INVARIANT UnseenReport
INVARIANT StaleWitness
CHECK_DEADLOCK FALSE
