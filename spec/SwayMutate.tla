----------------------------- MODULE SwayMutate -----------------------------
(***************************************************************************)
(* C17 input space: type-, name- and structure-level MUTATIONS of Sway-mini *)
(* programs.                                                               *)
(*                                                                         *)
(* A package is the JSON AST of lib/swaygen.py (the one SwaySem.tla        *)
(* evaluates):  [id, prog |-> [structs, enums, fns, dups, kind], tests].   *)
(* A mutation is a record                                                  *)
(*    [kind, p, a, at, v]                                                  *)
(* kind = name of the mutation operator, p = path of the AST node it is    *)
(* applied to (sequence of field names and 1-based indices), a = its       *)
(* argument, and the EDIT it performs: the value at path `at` becomes `v`.  *)
(* The operators are defined below, one per syntactic site; Mutations(P)   *)
(* lists every mutation applicable anywhere in package P, and the state    *)
(* machine composes at most MaxDepth of them.  TLC enumerates the          *)
(* behaviours: breadth-first = ALL single mutations of every base package  *)
(* (positions x kinds), simulation with a fixed seed = a pool of double    *)
(* mutations (the second is chosen among the mutations of the ALREADY      *)
(* mutated package).                                                       *)
(*                                                                         *)
(* The mutated ASTs leave the Sway-mini schema in a few controlled ways    *)
(* which the renderer prints mechanically:                                 *)
(*    [k |-> "raw", s]                 expression printed as the text s    *)
(*    [k |-> "structx", name, fs |-> <<[n, e]>>]  constructor with explicit *)
(*                                     field names (also as a pattern: [n,p])*)
(*    [k |-> "enumx" / "variantx", name, vn, ...]  explicit variant name   *)
(*    [k |-> "fieldx", e, fname]       explicit field name                 *)
(*    prog.dups                        declarations printed twice          *)
(*    prog.kind                        script | contract | predicate | library *)
(* Nothing here predicts what the compiler answers: C17 only demands that  *)
(* it answers with artifacts or diagnostics (CompileOutcome.tla).          *)
(***************************************************************************)
EXTENDS Naturals, Sequences, FiniteSets, TLC

CONSTANTS Base,       \* sequence of base packages
          MaxDepth    \* number of mutations composed (1 = single, 2 = double)

(***************************************************************************)
(* Generic helpers                                                         *)
(***************************************************************************)
Has(r, f) == f \in DOMAIN r
RemoveAt(s, i) == SubSeq(s, 1, i - 1) \o SubSeq(s, i + 1, Len(s))
InsertAt(s, i, x) == SubSeq(s, 1, i - 1) \o <<x>> \o SubSeq(s, i, Len(s))
SwapAt(s, i) == [s EXCEPT ![i] = s[i + 1], ![i + 1] = s[i]]
Min(a, b) == IF a < b THEN a ELSE b

RECURSIVE FlatTo(_, _)
FlatTo(ss, i) == IF i = 0 THEN <<>> ELSE FlatTo(ss, i - 1) \o ss[i]
\* concatenation of F(1) .. F(n)
ForSeq(n, F(_)) == FlatTo([i \in 1..n |-> F(i)], n)
When(c, s) == IF c THEN s ELSE <<>>

RECURSIVE GetAt(_, _), SetAt(_, _, _)
GetAt(n, p) == IF p = <<>> THEN n ELSE GetAt(n[Head(p)], Tail(p))
SetAt(n, p, v) == IF p = <<>> THEN v ELSE [n EXCEPT ![Head(p)] = SetAt(n[Head(p)], Tail(p), v)]

Mut(kind, p, a, at, v) == [kind |-> kind, p |-> p, a |-> a, at |-> at, v |-> v]
\* the common case: the node at p itself is replaced
Rep(kind, p, a, v) == Mut(kind, p, a, p, v)

(***************************************************************************)
(* AST constructors                                                        *)
(***************************************************************************)
IntTypes == {"u8", "u16", "u32", "u64", "u256"}
Ty(t) == [t |-> t]
UnitE == [k |-> "unit"]
BoolE(b) == [k |-> "bool", v |-> b]
VarE(x) == [k |-> "var", x |-> x]
Raw(s) == [k |-> "raw", s |-> s]
U64Lit(n) == [k |-> "lit", t |-> "u64", b |-> <<0, 0, 0, 0, 0, 0, 0, n>>]
EmptyBlock == [ss |-> <<>>, tail |-> UnitE]
TwoTo64 == <<0,0,0,0,0,0,0,0, 0,0,0,0,0,0,0,0, 0,0,0,0,0,0,0,1, 0,0,0,0,0,0,0,0>>     \* 2^64 as 32 big-endian bytes

\* a literal's suffix is changed to these (one narrower / one wider type)
SuffixAlts(t) ==
    CASE t = "u8" -> <<"u64", "u256">>
      [] t = "u16" -> <<"u8", "u256">>
      [] t = "u32" -> <<"u8", "u64">>
      [] t = "u64" -> <<"u8", "u256">>
      [] t = "u256" -> <<"u64">>
      [] OTHER -> <<>>

\* a declared type is changed to these
AltTypes(ty) ==
    LET all == << Ty("bool"), Ty("u64"), Ty("unit"), Ty("b256"),
                  [t |-> "struct", name |-> "ZZNoType"],
                  [t |-> "array", e |-> ty, n |-> 2],
                  [t |-> "tuple", es |-> <<ty, ty>>] >>
    IN ForSeq(Len(all), LAMBDA i : When(all[i] # ty, <<all[i]>>))

\* an operator is exchanged for one of another class
OtherOp(op) ==
    CASE op \in {"add", "sub", "mul", "div", "mod", "shl", "shr", "and", "or", "xor"} -> "land"
      [] op \in {"eq", "ne", "lt", "le", "gt", "ge"} -> "add"
      [] OTHER -> "lt"

\* expression texts that are no values: diverging / control-flow expressions in value position
RawAtoms == << "revert(0)", "{ return; }", "{ break; }" >>

(***************************************************************************)
(* Mutations at one site.  c = context [prog, names]: the declarations and *)
(* the candidate variable names of the enclosing function body.           *)
(***************************************************************************)
StructX(e, fs) == [k |-> "structx", name |-> e.name, fs |-> fs]
\* explicit <<[n, e]>> list of a constructor / <<[n, p]>> of a struct pattern (fields are named f0, f1, ...)
FieldName(c, sname, i) == IF Has(c.prog.structs, sname) /\ i <= Len(c.prog.structs[sname])
                             THEN c.prog.structs[sname][i].n ELSE "f_missing"
CtorFields(c, e) == ForSeq(Len(e.es), LAMBDA i : <<[n |-> FieldName(c, e.name, i), e |-> e.es[i]]>>)
PatFields(c, q) == ForSeq(Len(q.ps), LAMBDA i : <<[n |-> FieldName(c, q.name, i), p |-> q.ps[i]]>>)
NVariants(c, name) == IF Has(c.prog.enums, name) /\ Len(c.prog.enums[name]) >= 1 THEN Len(c.prog.enums[name]) ELSE 1

CallAt(e, p) ==
       ForSeq(Len(e.args) - 1, LAMBDA i :
            When(e.args[i] # e.args[i + 1], <<Rep("swap_args", p, i, [e EXCEPT !.args = SwapAt(e.args, i)])>>))
    \o When(Len(e.args) >= 1, << Rep("drop_arg", p, Len(e.args), [e EXCEPT !.args = RemoveAt(e.args, Len(e.args))]),
                                 Rep("extra_arg", p, 0, [e EXCEPT !.args = e.args \o <<e.args[1]>>]) >>)
    \o When(Len(e.args) = 0, << Rep("extra_arg", p, 0, [e EXCEPT !.args = <<UnitE>>]) >>)
    \o << Rep("undef_fn", p, "zz_nofn", [e EXCEPT !.f = "zz_nofn"]) >>
    \o (IF Has(e, "targs") /\ Len(e.targs) >= 1
          THEN << Rep("targ_drop", p, 0, [e EXCEPT !.targs = RemoveAt(e.targs, Len(e.targs))]),
                  Rep("targ_extra", p, 0, [e EXCEPT !.targs = e.targs \o <<Ty("u64")>>]),
                  Rep("targ_undef", p, 0, [e EXCEPT !.targs = [e.targs EXCEPT ![1] = [t |-> "struct", name |-> "ZZNoType"]]]) >>
          ELSE << Rep("targ_add", p, 0, [k |-> "call", f |-> e.f, args |-> e.args, targs |-> <<Ty("u64")>>]) >>)
    \o When(Len(e.args) >= 1,
            ForSeq(Len(RawAtoms), LAMBDA j : <<Rep("arg_raw", p, RawAtoms[j], [e EXCEPT !.args[1] = Raw(RawAtoms[j])])>>))

ExprAt(e, p, c) ==
    CASE e.k = "lit" ->
            ForSeq(Len(SuffixAlts(e.t)), LAMBDA i : <<Rep("lit_suffix", p, SuffixAlts(e.t)[i], [e EXCEPT !.t = SuffixAlts(e.t)[i]])>>)
      [] e.k = "var" ->
            <<Rep("undef_var", p, "zz_undef", VarE("zz_undef"))>>
            \o ForSeq(Len(c.names), LAMBDA i : When(c.names[i] # e.x, <<Rep("other_var", p, c.names[i], VarE(c.names[i]))>>))
      [] e.k = "call" -> CallAt(e, p)
      [] e.k = "bin" ->
            << Rep("binop_swap", p, OtherOp(e.op), [e EXCEPT !.op = OtherOp(e.op)]),
               Rep("bin_left", p, 0, e.l),
               Rep("bin_rhs_unit", p, 0, [e EXCEPT !.r = UnitE]) >>
      [] e.k = "un" -> << Rep("un_drop", p, 0, e.e), Rep("un_on_unit", p, 0, [e EXCEPT !.e = UnitE]) >>
      [] e.k = "if" ->
            << Rep("cond_nonbool", p, 0, [e EXCEPT !.c = U64Lit(1)]) >>
            \o When(e.t # e.f, << Rep("if_swap", p, 0, [e EXCEPT !.t = e.f, !.f = e.t]) >>)
            \o When(e.f # EmptyBlock, <<Rep("if_drop_else", p, 0, [e EXCEPT !.f = EmptyBlock])>>)
      [] e.k = "tuple" ->
            When(Len(e.es) >= 1, <<Rep("tuple_drop", p, Len(e.es), [e EXCEPT !.es = RemoveAt(e.es, Len(e.es))])>>)
            \o <<Rep("tuple_extra", p, 0, [e EXCEPT !.es = e.es \o <<BoolE(TRUE)>>])>>
      [] e.k = "array" ->
            When(Len(e.es) >= 1, <<Rep("array_drop", p, Len(e.es), [e EXCEPT !.es = RemoveAt(e.es, Len(e.es))])>>)
            \o <<Rep("array_mixed", p, 0, [e EXCEPT !.es = e.es \o <<UnitE>>])>>
      [] e.k = "struct" ->
            ForSeq(Len(e.es), LAMBDA i : <<Rep("ctor_drop_field", p, i, StructX(e, RemoveAt(CtorFields(c, e), i)))>>)
            \o When(Len(e.es) >= 1,
                 << Rep("ctor_dup_field", p, 1, StructX(e, CtorFields(c, e) \o <<CtorFields(c, e)[1]>>)),
                    Rep("ctor_undef_field", p, 1, StructX(e, [CtorFields(c, e) EXCEPT ![1].n = "zz_nofield"])) >>)
            \o <<Rep("ctor_undef_struct", p, "ZZNoType", [e EXCEPT !.name = "ZZNoType"])>>
      [] e.k = "enum" ->
            << Rep("enum_other_variant", p, (e.v + 1) % NVariants(c, e.name), [e EXCEPT !.v = (e.v + 1) % NVariants(c, e.name)]),
               Rep("enum_undef_variant", p, "ZZ", [k |-> "enumx", name |-> e.name, vn |-> "ZZ", e |-> e.e]),
               Rep("enum_undef_enum", p, "ZZNoEnum", [k |-> "enumx", name |-> "ZZNoEnum", vn |-> "V0", e |-> e.e]) >>
      [] e.k = "field" ->
            (IF Has(e, "sname")
               THEN <<Rep("field_undef", p, "zz_nofield", [k |-> "fieldx", e |-> e.e, fname |-> "zz_nofield"])>>
               ELSE <<Rep("field_oob", p, 99, [e EXCEPT !.i = 99])>>)
            \o <<Rep("field_on_scalar", p, 0, [e EXCEPT !.e = U64Lit(1)])>>
      [] e.k = "index" ->
            << Rep("index_oob", p, 200, [e EXCEPT !.i = U64Lit(200)]),
               Rep("index_bool", p, 0, [e EXCEPT !.i = BoolE(TRUE)]),
               Rep("index_non_array", p, 0, [e EXCEPT !.e = U64Lit(1)]) >>
      [] e.k = "match" ->
            ForSeq(Len(e.arms), LAMBDA i : << Rep("drop_arm", p, i, [e EXCEPT !.arms = RemoveAt(e.arms, i)]),
                                              Rep("dup_arm", p, i, [e EXCEPT !.arms = InsertAt(e.arms, i, e.arms[i])]) >>)
            \o << Rep("scrut_unit", p, 0, [e EXCEPT !.e = UnitE]),
                  Rep("scrut_raw", p, RawAtoms[1], [e EXCEPT !.e = Raw(RawAtoms[1])]) >>
      [] OTHER -> <<>>

PatAt(q, p, c) ==
    (CASE q.k = "lit" ->
            ForSeq(Len(SuffixAlts(q.t)), LAMBDA i : <<Rep("pat_lit_suffix", p, SuffixAlts(q.t)[i], [q EXCEPT !.t = SuffixAlts(q.t)[i]])>>)
            \o << Rep("pat_lit_huge", p, "2^64", [k |-> "lit", t |-> "u256", b |-> TwoTo64]),
                  Rep("pat_lit_range_inverted", p, 0, [k |-> "range", t |-> q.t, lo |-> ForSeq(Len(q.b), LAMBDA j : <<255>>), hi |-> q.b]) >>
      [] q.k = "bool" -> <<Rep("pat_bool_to_int", p, 0, U64Lit(1))>>
      [] q.k = "tuple" ->
            When(Len(q.ps) >= 1, <<Rep("pat_tuple_drop", p, Len(q.ps), [q EXCEPT !.ps = RemoveAt(q.ps, Len(q.ps))])>>)
            \o <<Rep("pat_tuple_extra", p, 0, [q EXCEPT !.ps = q.ps \o <<[k |-> "wild"]>>])>>
      [] q.k = "struct" ->
            ForSeq(Len(q.ps), LAMBDA i : <<Rep("pat_drop_field", p, i, [k |-> "structx", name |-> q.name, fs |-> RemoveAt(PatFields(c, q), i)])>>)
            \o When(Len(q.ps) >= 1,
                    <<Rep("pat_undef_field", p, 1, [k |-> "structx", name |-> q.name, fs |-> [PatFields(c, q) EXCEPT ![1].n = "zz_nofield"]])>>)
      [] q.k = "variant" ->
            << Rep("pat_other_variant", p, (q.v + 1) % NVariants(c, q.name), [q EXCEPT !.v = (q.v + 1) % NVariants(c, q.name)]),
               Rep("pat_undef_variant", p, "ZZ", [k |-> "variantx", name |-> q.name, vn |-> "ZZ", p |-> q.p]) >>
      [] q.k = "bind" -> <<Rep("pat_bind_to_lit", p, 0, U64Lit(1))>>
      [] OTHER -> <<>>)
    \o When(q.k \notin {"wild", "bind", "or"},
            <<Rep("pat_or_unbalanced", p, "zz_b", [k |-> "or", ps |-> <<q, [k |-> "bind", x |-> "zz_b"]>>])>>)

StmtAt(s, p, c) ==
    CASE s.k = "let" ->
            ForSeq(Len(AltTypes(s.ty)), LAMBDA i : <<Rep("let_type", p, AltTypes(s.ty)[i], [s EXCEPT !.ty = AltTypes(s.ty)[i]])>>)
            \o When(s.mut, <<Rep("remove_mut", p, s.x, [s EXCEPT !.mut = FALSE])>>)
            \o When(s.e.k # "unit", <<Rep("let_init_unit", p, 0, [s EXCEPT !.e = UnitE])>>)
            \o <<Rep("let_init_self", p, s.x, [s EXCEPT !.e = VarE(s.x)])>>
            \o ForSeq(Len(RawAtoms), LAMBDA j : <<Rep("let_init_raw", p, RawAtoms[j], [s EXCEPT !.e = Raw(RawAtoms[j])])>>)
      [] s.k = "assign" ->
            When(s.e.k # "unit", <<Rep("assign_unit", p, 0, [s EXCEPT !.e = UnitE])>>)
            \o << Rep("assign_undef", p, "zz_undef", [s EXCEPT !.x = "zz_undef"]),
               Rep("assign_deep", p, "zz_nofield", [s EXCEPT !.path = s.path \o <<[k |-> "f", i |-> 1, name |-> "zz_nofield"]>>]) >>
      [] s.k = "return" ->
            << Rep("return_wrong", p, "unit", [s EXCEPT !.e = UnitE]),
               Rep("return_wrong", p, "tuple", [s EXCEPT !.e = [k |-> "tuple", es |-> <<s.e, BoolE(TRUE)>>]]) >>
      [] s.k = "while" -> <<Rep("while_cond_nonbool", p, 0, [s EXCEPT !.c = U64Lit(1)])>>
      [] s.k = "require" -> <<Rep("require_code_unit", p, 0, [s EXCEPT !.code = UnitE])>>
      [] s.k = "revert" -> <<Rep("revert_code_bool", p, 0, [s EXCEPT !.code = BoolE(TRUE)])>>
      [] s.k = "log" -> <<Rep("log_raw", p, RawAtoms[1], [s EXCEPT !.e = Raw(RawAtoms[1])])>>
      [] OTHER -> <<>>

\* mutations of the statement list / tail of the block at path p
BlockAt(b, p, c) ==
       ForSeq(Len(b.ss), LAMBDA i :
            <<Mut("drop_stmt", p \o <<"ss", i>>, b.ss[i].k, p \o <<"ss">>, RemoveAt(b.ss, i))>>
            \o When(b.ss[i].k \in {"let", "while", "return", "assign"},
                    <<Mut("dup_stmt", p \o <<"ss", i>>, b.ss[i].k, p \o <<"ss">>, InsertAt(b.ss, i, b.ss[i]))>>))
    \o << Mut("insert_break", p, "break", p \o <<"ss">>, <<[k |-> "break"]>> \o b.ss),
          Mut("insert_continue", p, "continue", p \o <<"ss">>, b.ss \o <<[k |-> "continue"]>>) >>
    \o When(b.tail.k # "unit", << Mut("drop_tail", p, 0, p \o <<"tail">>, UnitE),
                                  Mut("tail_raw", p, RawAtoms[1], p \o <<"tail">>, Raw(RawAtoms[1])) >>)
    \o When(b.tail.k = "unit" /\ Len(b.ss) >= 1, <<Mut("tail_bool", p, 0, p \o <<"tail">>, BoolE(TRUE))>>)

(***************************************************************************)
(* The walk: every site of an expression / pattern / statement / block,    *)
(* with the mutations applicable there.                                    *)
(***************************************************************************)
RECURSIVE EMuts(_, _, _), PMuts(_, _, _), SMuts(_, _, _), BMuts(_, _, _)

EMuts(e, p, c) ==
    ExprAt(e, p, c) \o
    CASE e.k \in {"un", "field", "cast", "trycast", "enum"} -> EMuts(e.e, p \o <<"e">>, c)
      [] e.k = "bin" -> EMuts(e.l, p \o <<"l">>, c) \o EMuts(e.r, p \o <<"r">>, c)
      [] e.k = "if" -> EMuts(e.c, p \o <<"c">>, c) \o BMuts(e.t, p \o <<"t">>, c) \o BMuts(e.f, p \o <<"f">>, c)
      [] e.k = "block" -> BMuts(e.b, p \o <<"b">>, c)
      [] e.k \in {"tuple", "array", "struct"} -> ForSeq(Len(e.es), LAMBDA i : EMuts(e.es[i], p \o <<"es", i>>, c))
      [] e.k = "index" -> EMuts(e.e, p \o <<"e">>, c) \o EMuts(e.i, p \o <<"i">>, c)
      [] e.k = "call" -> ForSeq(Len(e.args), LAMBDA i : EMuts(e.args[i], p \o <<"args", i>>, c))
      [] e.k = "match" ->
            EMuts(e.e, p \o <<"e">>, c)
            \o ForSeq(Len(e.arms), LAMBDA i : PMuts(e.arms[i].p, p \o <<"arms", i, "p">>, c)
                                              \o EMuts(e.arms[i].b, p \o <<"arms", i, "b">>, c))
      [] OTHER -> <<>>

PMuts(q, p, c) ==
    PatAt(q, p, c) \o
    CASE q.k \in {"tuple", "struct", "or"} -> ForSeq(Len(q.ps), LAMBDA i : PMuts(q.ps[i], p \o <<"ps", i>>, c))
      [] q.k = "variant" -> PMuts(q.p, p \o <<"p">>, c)
      [] OTHER -> <<>>

SMuts(s, p, c) ==
    StmtAt(s, p, c) \o
    CASE s.k \in {"let", "expr", "log", "return"} -> EMuts(s.e, p \o <<"e">>, c)
      [] s.k = "assign" ->
            ForSeq(Len(s.path), LAMBDA j : When(s.path[j].k = "ix", EMuts(s.path[j].e, p \o <<"path", j, "e">>, c)))
            \o EMuts(s.e, p \o <<"e">>, c)
      [] s.k = "while" -> EMuts(s.c, p \o <<"c">>, c) \o BMuts(s.b, p \o <<"b">>, c)
      [] s.k = "require" -> EMuts(s.c, p \o <<"c">>, c) \o EMuts(s.code, p \o <<"code">>, c)
      [] s.k = "assert" -> EMuts(s.c, p \o <<"c">>, c)
      [] s.k = "revert" -> EMuts(s.code, p \o <<"code">>, c)
      [] OTHER -> <<>>

BMuts(b, p, c) ==
    BlockAt(b, p, c)
    \o ForSeq(Len(b.ss), LAMBDA i : SMuts(b.ss[i], p \o <<"ss", i>>, c))
    \o EMuts(b.tail, p \o <<"tail">>, c)

(***************************************************************************)
(* Names a variable reference may be redirected to: the first and the last *)
(* `let` of the enclosing body (other type, not yet declared, or declared  *)
(* in an inner block that is out of scope at the reference).               *)
(***************************************************************************)
RECURSIVE LetNames(_, _)
LetNames(ss, i) ==
    IF i > Len(ss) THEN <<>>
    ELSE (CASE ss[i].k = "let" -> <<ss[i].x>>
            [] ss[i].k = "while" -> LetNames(ss[i].b.ss, 1)
            [] OTHER -> <<>>) \o LetNames(ss, i + 1)
Ends(s) == IF Len(s) = 0 THEN <<>> ELSE IF Len(s) = 1 THEN <<s[1]>> ELSE <<s[1], s[Len(s)]>>
Ctx(P, body) == [prog |-> P.prog, names |-> Ends(LetNames(body.ss, 1))]

(***************************************************************************)
(* Declaration-level mutations                                             *)
(***************************************************************************)
Dup(P, sort, name) == Mut("dup_decl", <<"prog", sort, name>>, sort, <<"prog", "dups">>, P.prog.dups \o <<[sort |-> sort, name |-> name]>>)

FnMuts(P, f) ==
    LET fn == P.prog.fns[f]
        p == <<"prog", "fns", f>>
        np == Len(fn.params)
        pnames == ForSeq(np, LAMBDA i : <<fn.params[i].n>>)
        selfcall == [k |-> "call", f |-> f, args |-> ForSeq(np, LAMBDA i : <<VarE(fn.params[i].n)>>)]
    IN ForSeq(np - 1, LAMBDA i : When(fn.params[i].ty # fn.params[i + 1].ty,
            <<Rep("swap_param_types", p, i, [fn EXCEPT !.params[i].ty = fn.params[i + 1].ty, !.params[i + 1].ty = fn.params[i].ty])>>))
       \o When(np >= 1, << Rep("drop_param", p, np, [fn EXCEPT !.params = RemoveAt(fn.params, np)]),
                           Rep("dup_param", p, 1, [fn EXCEPT !.params = fn.params \o <<fn.params[1]>>]),
                           Rep("param_type", p, 1, [fn EXCEPT !.params[1].ty = IF fn.params[1].ty = Ty("bool") THEN Ty("u64") ELSE Ty("bool")]) >>)
       \o ForSeq(Len(AltTypes(fn.ret)), LAMBDA i : <<Rep("ret_type", p, AltTypes(fn.ret)[i], [fn EXCEPT !.ret = AltTypes(fn.ret)[i]])>>)
       \o << Rep("make_recursive", p, f,
                 [fn EXCEPT !.body.ss = <<[k |-> "expr", e |-> selfcall]>> \o fn.body.ss]),
             Rep("make_recursive_tail", p, f,
                 [fn EXCEPT !.body.tail = selfcall]) >>
       \o When(Has(fn, "tparams") /\ Len(fn.tparams) >= 1,
               << Rep("tparam_drop", p, 0, [fn EXCEPT !.tparams = RemoveAt(fn.tparams, Len(fn.tparams))]),
                  Rep("tparam_extra", p, "Z", [fn EXCEPT !.tparams = fn.tparams \o <<"Z">>]),
                  Rep("tparam_dup", p, 0, [fn EXCEPT !.tparams = fn.tparams \o <<fn.tparams[1]>>]) >>)
       \o <<Dup(P, "fns", f)>>
       \o BMuts(fn.body, p \o <<"body">>, [prog |-> P.prog, names |-> Ends(pnames \o LetNames(fn.body.ss, 1))])

StructMuts(P, s) ==
    LET fs == P.prog.structs[s]
        p == <<"prog", "structs", s>>
        self == [t |-> "struct", name |-> s]
    IN ForSeq(Len(fs), LAMBDA i :
            << Rep("field_type_recursive", p, i, [fs EXCEPT ![i].ty = self]),
               Rep("field_type_recursive_array", p, i, [fs EXCEPT ![i].ty = [t |-> "array", e |-> self, n |-> 2]]),
               Rep("field_type", p, i, [fs EXCEPT ![i].ty = IF fs[i].ty = Ty("bool") THEN Ty("u64") ELSE Ty("bool")]),
               Rep("field_type_undef", p, i, [fs EXCEPT ![i].ty = [t |-> "struct", name |-> "ZZNoType"]]),
               Rep("drop_field", p, i, RemoveAt(fs, i)) >>)
       \o When(Len(fs) >= 1, <<Rep("dup_field", p, 1, fs \o <<fs[1]>>)>>)
       \o <<Dup(P, "structs", s)>>

EnumMuts(P, en) ==
    LET vs == P.prog.enums[en]
        p == <<"prog", "enums", en>>
        self == [t |-> "enum", name |-> en]
    IN ForSeq(Len(vs), LAMBDA i :
            << Rep("variant_type_recursive", p, i, [vs EXCEPT ![i].ty = self]),
               Rep("variant_type_recursive_tuple", p, i, [vs EXCEPT ![i].ty = [t |-> "tuple", es |-> <<self, Ty("u64")>>]]),
               Rep("variant_type", p, i, [vs EXCEPT ![i].ty = IF vs[i].ty = Ty("unit") THEN Ty("u64") ELSE Ty("unit")]),
               Rep("drop_variant", p, i, RemoveAt(vs, i)) >>)
       \o When(Len(vs) >= 1, <<Rep("dup_variant", p, 1, vs \o <<vs[1]>>)>>)
       \o <<Dup(P, "enums", en)>>

KindMuts(P) == ForSeq(3, LAMBDA i : LET ks == <<"contract", "predicate", "library">> IN
                    <<Mut("program_kind", <<"prog", "kind">>, ks[i], <<"prog", "kind">>, ks[i])>>)

(***************************************************************************)
(* The state machine                                                       *)
(***************************************************************************)
VARIABLES pi,      \* index of the base package
          muts     \* the mutations applied so far (at most MaxDepth)

mvars == <<pi, muts>>

RECURSIVE ApplyAll(_, _, _)
ApplyAll(P, ms, i) == IF i > Len(ms) THEN P ELSE ApplyAll(SetAt(P, ms[i].at, ms[i].v), ms, i + 1)
Cur == ApplyAll(Base[pi], muts, 1)

Kinds == {"lit_suffix", "undef_var", "other_var", "swap_args", "drop_arg", "extra_arg", "undef_fn", "targ_drop", "targ_extra",
          "targ_undef", "targ_add", "arg_raw", "binop_swap", "bin_left", "bin_rhs_unit", "un_drop", "un_on_unit", "cond_nonbool",
          "if_swap", "if_drop_else", "tuple_drop", "tuple_extra", "array_drop", "array_mixed", "ctor_drop_field", "ctor_dup_field",
          "ctor_undef_field", "ctor_undef_struct", "enum_other_variant", "enum_undef_variant", "enum_undef_enum", "field_undef",
          "field_oob", "field_on_scalar", "index_oob", "index_bool", "index_non_array", "drop_arm", "dup_arm", "scrut_unit",
          "scrut_raw", "pat_lit_suffix", "pat_lit_huge", "pat_lit_range_inverted", "pat_bool_to_int",
          "pat_tuple_drop", "pat_tuple_extra", "pat_drop_field", "pat_undef_field", "pat_other_variant", "pat_undef_variant",
          "pat_bind_to_lit", "pat_or_unbalanced", "let_type", "remove_mut", "let_init_unit", "let_init_self", "let_init_raw",
          "assign_unit", "assign_undef", "assign_deep", "return_wrong", "while_cond_nonbool", "require_code_unit",
          "revert_code_bool", "log_raw", "drop_stmt", "dup_stmt", "insert_break", "insert_continue", "drop_tail", "tail_raw",
          "tail_bool", "dup_decl", "swap_param_types", "drop_param", "dup_param", "param_type", "ret_type", "make_recursive",
          "make_recursive_tail", "tparam_drop", "tparam_extra", "tparam_dup", "field_type_recursive",
          "field_type_recursive_array", "field_type", "field_type_undef", "drop_field", "dup_field", "variant_type_recursive",
          "variant_type_recursive_tuple", "variant_type", "drop_variant", "dup_variant", "program_kind"}

MInit == pi \in 1..Len(Base) /\ muts = <<>>

Take(ms) == /\ \E i \in 1..Len(ms) : muts' = Append(muts, ms[i])
            /\ UNCHANGED pi
CanMutate == Len(muts) < MaxDepth

\* one action per part of the package a mutation can be applied to
MutateTest   == CanMutate /\ \E t \in 1..Len(Cur.tests) : Take(BMuts(Cur.tests[t].body, <<"tests", t, "body">>, Ctx(Cur, Cur.tests[t].body)))
MutateFn     == CanMutate /\ \E f \in DOMAIN Cur.prog.fns : Take(FnMuts(Cur, f))
MutateStruct == CanMutate /\ \E s \in DOMAIN Cur.prog.structs : Take(StructMuts(Cur, s))
MutateEnum   == CanMutate /\ \E en \in DOMAIN Cur.prog.enums : Take(EnumMuts(Cur, en))
MutateKind   == CanMutate /\ Take(KindMuts(Cur))

MNext == MutateTest \/ MutateFn \/ MutateStruct \/ MutateEnum \/ MutateKind
MSpec == MInit /\ [][MNext]_mvars

\* ---- invariants of the mutation model (checked on every enumerated mutant)
KindsKnown == \A i \in 1..Len(muts) : muts[i].kind \in Kinds
DepthBound == Len(muts) <= MaxDepth
\* every edit addresses an existing position of the package it is applied to, and a single mutation changes the package
EditsResolve == (Len(muts) >= 1) => GetAt(Cur, muts[Len(muts)].at) = muts[Len(muts)].v
MutationChangesAst == (Len(muts) = 1) => Cur # Base[pi]
=============================================================================
