\* generated once by the C27 builder; see MC_StdModels.tla
CONSTANTS
  MKind = "bytes"
  MEty = "u8"
  Prefixes <- PrefBases
  OpNames = {"push", "pop", "clear", "insert", "remove", "set", "swap", "resize", "iter", "append", "append_self", "split_at", "splice"}
  MaxOps = 2
  NumSel <- NumSel_none
SPECIFICATION GenSpec
INVARIANT TypeInv
INVARIANT PrintLeaf
CHECK_DEADLOCK FALSE
