CONSTANTS
  Mods = {"main", "a", "b", "c"}
  NNames = 3
  MaxItems = 3
  MaxHist = 99
  Kinds = {"add", "delete", "rename", "sig", "arg", "ws"}
  CancelAt = {1, 2, 3, 4, 5, 6}
  Inits = {"base"}
  KeepHist = FALSE
  Explain = TRUE
SPECIFICATION TraceSpec
POSTCONDITION Accepted
CHECK_DEADLOCK FALSE
