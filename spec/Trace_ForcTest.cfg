\* the property's invariants (Isolation, OwnLogs, ExactOutcome, ExactReport) are asserted for the test being
\* finished inside TrFinish (cost linear in the run instead of quadratic)
CONSTANTS
  Runners = 1000000
  Shared = FALSE
SPECIFICATION TraceSpec
POSTCONDITION Accepted
CHECK_DEADLOCK FALSE
