CONSTANTS
  Runners = 1000000
  Shared = FALSE
SPECIFICATION TraceSpec
INVARIANT Isolation
INVARIANT OwnLogs
INVARIANT ExactOutcome
INVARIANT ExactReport
INVARIANT OnlySelected
POSTCONDITION Accepted
CHECK_DEADLOCK FALSE
