\* MC_LspSched.tla: prints every transition of the state graph (EDGE records)
CONSTANTS NChange = 0  NSave = 0  NWait = 1
          NChecksFull = 7  TailFullCode = 1122110  NChecksCached = 2  TailCachedCode = 10
          FixNotify = TRUE  FixOpen = TRUE  FixClear = TRUE  FixSave = TRUE
          KnownMechs = {}
SPECIFICATION EdgeSpec
CHECK_DEADLOCK FALSE
