------------------------------ MODULE LspSched ------------------------------
(***************************************************************************)
(* C24 -- LSP compilation scheduling neither hangs nor drops edits.        *)
(*                                                                         *)
(* The protocol between the LSP handlers (all polled from ONE tower-lsp     *)
(* task) and the compilation worker (a real OS thread):                     *)
(*   sway-lsp/src/server_state.rs   spawn_compilation_thread,               *)
(*                                  wait_for_parsing                        *)
(*   sway-lsp/src/handlers/notification.rs  send_new_compilation_request,   *)
(*                                  did_open / did_change / did_save        *)
(*   sway-core/src/lib.rs           check_should_abort (+ forc-pkg check)   *)
(*                                                                         *)
(* Shared state: two atomic flags, a bounded(1) channel, the last           *)
(* compilation state and a tokio Notify used with notify_waiters (no        *)
(* stored permit: a Notified future sees exactly the notify_waiters calls   *)
(* made after it was CREATED -- modelled by an epoch counter and a          *)
(* per-waiter snapshot).                                                    *)
(*                                                                         *)
(* One action per step point (cfg(fuellabs_sway_verif) hook H5) in code     *)
(* order; pc[t] is the name of the step point thread t waits at, i.e. the   *)
(* shared access it performs next.  The action of a step point is the code  *)
(* from that point up to the next one.                                      *)
(*                                                                         *)
(* FixNotify / FixOpen / FixClear select, independently, the protocol as    *)
(* originally written (FALSE) or as repaired (TRUE):                        *)
(*   FixNotify  wait_for_parsing creates (and enables) the Notified future  *)
(*              BEFORE it checks the flags                     (finding F6) *)
(*   FixOpen    send_new_compilation_request stores is_compiling = true     *)
(*              after the retrigger decision and before `send`; did_open's  *)
(*              late store(true) after the call is gone        (finding F7) *)
(*   FixClear   the worker clears `retrigger` when it picks up a request    *)
(*                                                              (finding F8) *)
(*   FixSave    did_save's (version-less) request never cancels a running    *)
(*              compilation and never replaces a queued request: in either   *)
(*              case did_save sends nothing and just waits                   *)
(*              (finding "cached-save-supersedes-change")                    *)
(***************************************************************************)
EXTENDS Integers, Sequences, FiniteSets, TLC

CONSTANTS
    NChange,        \* didChange notifications; the k-th carries document version k
    NSave,          \* didSave notifications
    NWait,          \* requests that only wait for parsing (document_symbol, hover, ...)
    NChecksFull, TailFullCode,      \* full compilation, see TailFull below   (measured: 7, 1122110)
    NChecksCached, TailCachedCode,  \* compilation answered from the programs cache (measured: 2, 10)
    FixNotify, FixOpen, FixClear, FixSave,
    KnownMechs      \* mechanisms accepted as known findings (subset of the names in `mech`)

(***************************************************************************)
(* TailFull[k] = W.check points a full compilation still passes after its   *)
(* k-th one saw `retrigger` set; Len(TailFull) = check points of an         *)
(* undisturbed compilation.  Measured on the real code: <<1,1,2,2,1,1,0>> -- *)
(* the last one is forc-pkg's own load, the 3rd and 4th are inside           *)
(* parsed_to_ast and return through the 5th.  A TLC configuration file       *)
(* cannot hold a tuple: the sequence is given as its decimal digits.         *)
(***************************************************************************)
Digits(code, n) == [k \in 1..n |-> (code \div (10 ^ (n - k))) % 10]
TailFull   == Digits(TailFullCode, NChecksFull)
TailCached == Digits(TailCachedCode, NChecksCached)

ASSUME /\ NChange \in Nat /\ NSave \in Nat /\ NWait \in Nat
       /\ \A T \in {TailFull, TailCached} :
             /\ T \in Seq(Nat) /\ Len(T) >= 1 /\ T[Len(T)] = 0
             /\ \A k \in 1..(Len(T) - 1) : T[k] \in 1..(Len(T) - k)
       /\ {FixNotify, FixOpen, FixClear, FixSave} \subseteq BOOLEAN

(***************************************************************************)
(* Threads.  "W" is the worker; "O" didOpen; "C<k>" the k-th didChange;     *)
(* "S<k>" didSave; "T<k>" a request that waits for parsing.                 *)
(***************************************************************************)
Name(prefix, k) == prefix \o ToString(k)
ChangeIds == { Name("C", k) : k \in 1..NChange }
SaveIds   == { Name("S", k) : k \in 1..NSave }
WaitIds   == { Name("T", k) : k \in 1..NWait }
Senders   == {"O"} \cup ChangeIds \cup SaveIds      \* call send_new_compilation_request
Handlers  == Senders \cup WaitIds
Threads   == {"W"} \cup Handlers
VersionOf(h) == CHOOSE k \in 1..NChange : Name("C", k) = h
KindOf(h) == IF h = "O" THEN "open" ELSE IF h \in ChangeIds THEN "change"
             ELSE IF h \in SaveIds THEN "save" ELSE "wait"
Free == "-"                                          \* nobody holds the task token

VARIABLES
    \* ---- shared state of the implementation
    isCompiling,    \* ServerState.is_compiling
    retrigger,      \* ServerState.retrigger_compilation
    chan,           \* cb_tx / cb_rx, crossbeam bounded(1): sequence of messages
    lastState,      \* last_compilation_state: "Uninitialized" | "Success" | "Failed"
    epoch,          \* number of finished_compilation.notify_waiters() calls so far
    \* ---- control state
    pc,             \* pc[t]: step point thread t waits at | "arrive" | "parked" | "done"
    wmsg,           \* the request the worker is processing
    wchk,           \* W.check points passed in the current compilation
    wtext,          \* document version on disk when the compilation read it (ghost)
    wabort,         \* "no", or how the current compilation was cancelled: "legit" | "stale"
    snap,           \* snap[h]: epoch when h's Notified future was created
    token,          \* the handler currently being polled by the tower-lsp task, or Free
    \* ---- ghosts
    docVersion,     \* latest document version written by a didChange
    nextSeq, seqOf, \* requests are numbered in the order their handlers start
    rtSeq,          \* request number of the handler that last set `retrigger`
    done,           \* the compilation that ended last: [seq, text, result, cached]
    committed,      \* some full compilation ran to its end and committed its caches
    ctext,          \* ... and the document version those caches hold
    mech            \* defect events seen so far (classification of counterexamples)

shared == <<isCompiling, retrigger, chan, lastState, epoch>>
wloc   == <<wmsg, wchk, wtext, wabort>>
gdoc   == <<docVersion, nextSeq, seqOf>>
gcache == <<committed, ctext>>
ghost  == <<gdoc, rtSeq, done, gcache, mech>>
vars   == <<shared, pc, wloc, snap, token, ghost>>

NoMsg == [seq |-> 0, ver |-> 0, kind |-> "none"]
Msgs  == [seq : 0..(1 + NChange + NSave), ver : 0..NChange, kind : {"none", "open", "change", "save"}]

Init ==
    /\ isCompiling = FALSE /\ retrigger = FALSE /\ chan = <<>>
    /\ lastState = "Uninitialized" /\ epoch = 0
    /\ pc = [t \in Threads |-> IF t = "W" THEN "W.loop" ELSE "arrive"]
    /\ wmsg = NoMsg /\ wchk = 0 /\ wtext = 0 /\ wabort = "no"
    /\ snap = [h \in Handlers |-> 0] /\ token = Free
    /\ docVersion = 0 /\ nextSeq = 1 /\ seqOf = [h \in Senders |-> 0] /\ rtSeq = 0
    /\ done = [seq |-> 0, text |-> 0, result |-> "none", cached |-> FALSE]
    /\ committed = FALSE /\ ctext = 0
    /\ mech = {}

\* what the harness sees: a parked waiter whose Notified has been notified stands at T.woke
Pos(t) == IF pc[t] = "parked" /\ epoch # snap[t] THEN "T.woke" ELSE pc[t]

(***************************************************************************)
(* The worker thread: spawn_compilation_thread                              *)
(***************************************************************************)
WGoto(from, to) == pc["W"] = from /\ pc' = [pc EXCEPT !["W"] = to]

\* A request without a document version (didSave; didOpen is always the first) is answered from
\* the programs cache once some compilation has committed: is_parse_module_cache_up_to_date
\* takes "no version" for "nothing changed".  It then passes fewer check points and its result
\* is the cached text, whatever is on disk.
Cached(m)   == m.kind = "save" /\ committed
TailOf(m)   == IF Cached(m) THEN TailCached ELSE TailFull
ChecksOf(m) == Len(TailOf(m))
ChecksFull  == Len(TailFull)

\* W.loop: `while let Ok(msg) = rx.recv()` -- blocks while the channel is empty
WRecv ==
    /\ WGoto("W.loop", "W.recv") /\ chan # <<>>
    /\ wmsg' = Head(chan) /\ chan' = Tail(chan)
    /\ UNCHANGED <<isCompiling, retrigger, lastState, epoch, wchk, wtext, wabort, snap, token, ghost>>

\* W.recv: engines clone, garbage collection -- nothing of the protocol
WGotMsg ==
    /\ WGoto("W.recv", IF FixClear THEN "W.pickupClear" ELSE "W.setCompiling")
    /\ UNCHANGED <<shared, wloc, snap, token, ghost>>

\* W.pickupClear (repair F8): retrigger_compilation.store(false) for the request just picked up
WPickupClear ==
    /\ WGoto("W.pickupClear", "W.setCompiling") /\ retrigger' = FALSE
    /\ UNCHANGED <<isCompiling, chan, lastState, epoch, wloc, snap, token, ghost>>

\* W.setCompiling: is_compiling.store(true); parse_project starts and reads the document
WSetCompiling ==
    /\ WGoto("W.setCompiling", "W.check") /\ isCompiling' = TRUE
    /\ wchk' = 0 /\ wtext' = docVersion /\ wabort' = "no"
    /\ UNCHANGED <<retrigger, chan, lastState, epoch, wmsg, snap, token, ghost>>

\* W.check: a load of `retrigger`.  All but the last are check_should_abort in sway-core: if the
\* flag is set the compilation is cancelled and control returns towards forc-pkg, passing
\* TailOf(..)[k] further check points on the way (they cannot change the outcome: only the worker
\* resets the flag).  The last one is forc-pkg's own load after compile_to_ast returned (reached
\* on every path); after it the result is stored: Failed if the compilation was cancelled or the
\* flag is set now.
IsStale == rtSeq <= wmsg.seq           \* set by a handler whose own request is not newer
WCheck ==
    /\ pc["W"] = "W.check"
    /\ IF wchk + 1 < ChecksOf(wmsg)
       THEN /\ wchk' = IF retrigger /\ wabort = "no" THEN ChecksOf(wmsg) - TailOf(wmsg)[wchk + 1]
                       ELSE wchk + 1
            /\ wabort' = IF retrigger /\ wabort = "no" THEN (IF IsStale THEN "stale" ELSE "legit")
                         ELSE wabort
            /\ UNCHANGED <<pc, lastState, done, mech, gcache>>
       ELSE LET cancel == IF wabort # "no" THEN wabort
                          ELSE IF retrigger THEN (IF IsStale THEN "stale" ELSE "legit") ELSE "no" IN
            /\ pc' = [pc EXCEPT !["W"] = "W.clearCompiling"]
            /\ wchk' = wchk + 1 /\ wabort' = wabort
            /\ IF cancel # "no"
               THEN \* cancelled: parse_project returns Err, last_compilation_state = Failed
                    /\ lastState' = "Failed"
                    /\ done' = [seq |-> wmsg.seq, text |-> wtext, cached |-> FALSE,
                                result |-> IF cancel = "stale" THEN "aborted-stale" ELSE "aborted"]
                    /\ mech' = IF cancel = "stale" THEN mech \cup {"stale-retrigger"} ELSE mech
                    /\ UNCHANGED gcache
               ELSE \* the compilation ran to its end
                    /\ lastState' = "Success"
                    /\ done' = [seq |-> wmsg.seq, result |-> "ok", cached |-> Cached(wmsg),
                                text |-> IF Cached(wmsg) THEN ctext ELSE wtext]
                    /\ committed' = TRUE
                    /\ ctext' = IF Cached(wmsg) THEN ctext ELSE wtext
                    /\ UNCHANGED mech
    /\ UNCHANGED <<isCompiling, retrigger, chan, epoch, wmsg, wtext, snap, token, gdoc, rtSeq>>

\* W.clearCompiling: is_compiling.store(false)
WClearCompiling ==
    /\ WGoto("W.clearCompiling", "W.clearRetrigger") /\ isCompiling' = FALSE
    /\ UNCHANGED <<retrigger, chan, lastState, epoch, wloc, snap, token, ghost>>

\* W.clearRetrigger: retrigger_compilation.store(false)
WClearRetrigger ==
    /\ WGoto("W.clearRetrigger", "W.isEmpty") /\ retrigger' = FALSE
    /\ UNCHANGED <<isCompiling, chan, lastState, epoch, wloc, snap, token, ghost>>

\* W.isEmpty: `if rx.is_empty()`
WIsEmpty ==
    /\ WGoto("W.isEmpty", IF chan = <<>> THEN "W.notify" ELSE "W.loop")
    /\ UNCHANGED <<shared, wloc, snap, token, ghost>>

\* W.notify: finished_compilation.notify_waiters() -- wakes every Notified created before now
WNotify ==
    /\ WGoto("W.notify", "W.loop") /\ epoch' = epoch + 1
    /\ UNCHANGED <<isCompiling, retrigger, chan, lastState, wloc, snap, token, ghost>>

Worker == \/ WRecv \/ WGotMsg \/ WPickupClear \/ WSetCompiling \/ WCheck
          \/ WClearCompiling \/ WClearRetrigger \/ WIsEmpty \/ WNotify

(***************************************************************************)
(* Handlers.  tower-lsp polls all handler futures from one task: a handler  *)
(* runs from one .await to the next without any other handler running in    *)
(* between (but the worker does run).  `token` is the handler being polled. *)
(***************************************************************************)
Yielded(p) == p \in {"parked", "done"}
HStep(h, from, to) ==
    /\ pc[h] = from /\ token = h
    /\ pc' = [pc EXCEPT ![h] = to]
    /\ token' = IF Yielded(to) THEN Free ELSE h

WaitEntry == IF FixNotify THEN "T.create" ELSE "T.check"   \* top of wait_for_parsing's loop
ToWait    == IF FixNotify THEN "T.await"  ELSE "T.create"  \* decided to wait
AfterDrain == IF FixOpen THEN "H.setCompiling" ELSE "H.send"
AfterSend(h) == IF h = "O" THEN (IF FixOpen THEN WaitEntry ELSE "H.openSet")
                ELSE IF h \in SaveIds THEN WaitEntry ELSE "done"

\* The handler future is polled for the first time and runs up to its first step point
\* (workspace sync, document update + write for didChange).  Client order: didOpen first,
\* didChange in version order.
Arrive(h) ==
    /\ pc[h] = "arrive" /\ token = Free
    /\ h # "O" => pc["O"] # "arrive"
    /\ h \in ChangeIds => VersionOf(h) = docVersion + 1
    /\ pc' = [pc EXCEPT ![h] = IF h \in Senders THEN "H.load" ELSE WaitEntry]
    /\ token' = h
    /\ docVersion' = IF h \in ChangeIds THEN VersionOf(h) ELSE docVersion
    /\ seqOf' = IF h \in Senders THEN [seqOf EXCEPT ![h] = nextSeq] ELSE seqOf
    /\ nextSeq' = IF h \in Senders THEN nextSeq + 1 ELSE nextSeq
    /\ UNCHANGED <<shared, wloc, snap, rtSeq, done, gcache, mech>>

\* ---- send_new_compilation_request
\* (repair FixSave) A save does not change the text, so a running or queued compilation already
\* covers it; a version-less request that cancelled / replaced the request of the last edit
\* would then be answered from a cache that predates that edit.
Yields(h) == FixSave /\ h \in SaveIds          \* h backs off instead of superseding
SaveSupersedes == "cached-save-supersedes-change"
\* the worker has a request in hand whose compilation has not ended yet
Running == pc["W"] \in {"W.recv", "W.pickupClear", "W.setCompiling", "W.check"}
\* H.load: `if state.is_compiling.load()`
HLoad(h) ==
    /\ HStep(h, "H.load", IF ~isCompiling THEN "H.isFull"
                          ELSE IF Yields(h) THEN WaitEntry ELSE "H.setRetrigger")
    /\ UNCHANGED <<shared, wloc, snap, ghost>>

\* H.setRetrigger: retrigger_compilation.store(true)
HSetRetrigger(h) ==
    /\ HStep(h, "H.setRetrigger", "H.isFull") /\ retrigger' = TRUE /\ rtSeq' = seqOf[h]
    /\ mech' = IF h \in SaveIds /\ Running /\ wmsg.kind = "change" THEN mech \cup {SaveSupersedes} ELSE mech
    /\ UNCHANGED <<isCompiling, chan, lastState, epoch, wloc, snap, gdoc, done, gcache>>

\* H.isFull: `if state.cb_tx.is_full()`
HIsFull(h) ==
    /\ HStep(h, "H.isFull", IF Len(chan) < 1 THEN AfterDrain
                            ELSE IF Yields(h) THEN WaitEntry ELSE "H.drain")
    /\ UNCHANGED <<shared, wloc, snap, ghost>>

\* H.drain: `while let Ok(CompilationContext(_)) = cb_rx.try_recv() {}`
HDrain(h) ==
    /\ HStep(h, "H.drain", AfterDrain) /\ chan' = <<>>
    /\ mech' = IF h \in SaveIds /\ chan # <<>> /\ Head(chan).kind = "change"
               THEN mech \cup {SaveSupersedes} ELSE mech
    /\ UNCHANGED <<isCompiling, retrigger, lastState, epoch, wloc, snap, gdoc, rtSeq, done, gcache>>

\* H.setCompiling (repair F7): is_compiling.store(true) -- a compilation is pending or running
HSetCompiling(h) ==
    /\ HStep(h, "H.setCompiling", "H.send") /\ isCompiling' = TRUE
    /\ UNCHANGED <<retrigger, chan, lastState, epoch, wloc, snap, ghost>>

\* H.send: cb_tx.send(..) -- a blocking send; SendNeverBlocks shows the channel is empty here
HSend(h) ==
    /\ HStep(h, "H.send", AfterSend(h)) /\ Len(chan) < 1
    /\ chan' = Append(chan, [seq |-> seqOf[h], ver |-> docVersion, kind |-> KindOf(h)])
    /\ UNCHANGED <<isCompiling, retrigger, lastState, epoch, wloc, snap, ghost>>

\* H.openSet (as written, finding F7): did_open stores is_compiling = true AFTER the send
NothingPendingOrRunning ==
    chan = <<>> /\ pc["W"] \in {"W.clearRetrigger", "W.isEmpty", "W.notify", "W.loop"}
HOpenSet(h) ==
    /\ h = "O"
    /\ HStep(h, "H.openSet", WaitEntry) /\ isCompiling' = TRUE
    /\ mech' = IF NothingPendingOrRunning THEN mech \cup {"late-open-store"} ELSE mech
    /\ UNCHANGED <<retrigger, chan, lastState, epoch, wloc, snap, gdoc, rtSeq, done, gcache>>

\* ---- wait_for_parsing
Busy == isCompiling \/ lastState = "Uninitialized"

\* T.check: `!is_compiling.load() && *last_compilation_state.read() != Uninitialized`
\* (two reads; CheckReadsAtomic shows that reading them at once loses nothing).  As written
\* the epoch seen here is remembered in snap to recognise a notify missed before T.create.
TCheck(h) ==
    /\ HStep(h, "T.check", IF ~Busy THEN "T.checkEmpty" ELSE ToWait)
    /\ snap' = IF FixNotify THEN snap ELSE [snap EXCEPT ![h] = epoch]
    /\ UNCHANGED <<shared, wloc, ghost>>

\* T.checkEmpty: `if self.cb_rx.is_empty()`
TCheckEmpty(h) ==
    /\ HStep(h, "T.checkEmpty", IF chan = <<>> THEN "T.return" ELSE ToWait)
    /\ snap' = IF FixNotify THEN snap ELSE [snap EXCEPT ![h] = epoch]
    /\ UNCHANGED <<shared, wloc, ghost>>

\* T.return: break; the handler finishes (publish_diagnostics / compute the response)
TReturn(h) ==
    /\ HStep(h, "T.return", "done")
    /\ UNCHANGED <<shared, wloc, snap, ghost>>

\* T.create: finished_compilation.notified() -- from now on notify_waiters reaches this waiter
TCreate(h) ==
    /\ HStep(h, "T.create", IF FixNotify THEN "T.check" ELSE "T.await")
    /\ snap' = [snap EXCEPT ![h] = epoch]
    /\ mech' = IF ~FixNotify /\ snap[h] # epoch THEN mech \cup {"lost-wakeup"} ELSE mech
    /\ UNCHANGED <<shared, wloc, gdoc, rtSeq, done, gcache>>

\* T.await: first poll of `notified.await`: ready at once, or the handler yields to the task
TAwait(h) ==
    /\ HStep(h, "T.await", IF epoch # snap[h] THEN "T.woke" ELSE "parked")
    /\ UNCHANGED <<shared, wloc, snap, ghost>>

\* T.woke: the await completed; next iteration of the loop.  A parked handler whose Notified
\* was notified is polled again when the task is free.
TWoke(h) ==
    /\ \/ pc[h] = "T.woke" /\ token = h
       \/ pc[h] = "parked" /\ epoch # snap[h] /\ token = Free
    /\ pc' = [pc EXCEPT ![h] = WaitEntry] /\ token' = h
    /\ UNCHANGED <<shared, wloc, snap, ghost>>

SenderStep(h) == \/ HLoad(h) \/ HSetRetrigger(h) \/ HIsFull(h) \/ HDrain(h)
                 \/ HSetCompiling(h) \/ HSend(h) \/ HOpenSet(h)
WaitStep(h)   == \/ TCheck(h) \/ TCheckEmpty(h) \/ TReturn(h) \/ TCreate(h) \/ TAwait(h) \/ TWoke(h)
\* (only senders ever stand at an H.* point: no guard, so that TLC reports coverage per action)
HandlerStep(h) == Arrive(h) \/ SenderStep(h) \/ WaitStep(h)

\* the step of thread t (used by the trace specification: one grant = one Step)
Step(t) == IF t = "W" THEN Worker ELSE HandlerStep(t)

Next == Worker \/ \E h \in Handlers : HandlerStep(h)

Spec     == Init /\ [][Next]_vars
FairSpec == Spec /\ WF_vars(Worker) /\ \A h \in Handlers : WF_vars(HandlerStep(h))

(***************************************************************************)
(* Properties                                                               *)
(***************************************************************************)
TypeOK ==
    /\ isCompiling \in BOOLEAN /\ retrigger \in BOOLEAN
    /\ chan \in Seq(Msgs) /\ Len(chan) <= 1
    /\ lastState \in {"Uninitialized", "Success", "Failed"}
    /\ epoch \in Nat /\ wmsg \in Msgs /\ wchk \in 0..ChecksFull
    /\ token \in Handlers \cup {Free}
    /\ \A h \in Handlers : snap[h] \in 0..epoch

\* exactly the handler holding the token is in the middle of a poll
TokenOK == \A h \in Handlers : (token = h) <=> ~(pc[h] \in {"arrive", "parked", "done"})

\* `send` on the bounded(1) channel never blocks the (only) LSP task
SendNeverBlocks == \A h \in Senders : pc[h] = "H.send" => chan = <<>>

\* T.check reads is_compiling and then the last state; the only way the second read could
\* differ from an atomic read is last state = Uninitialized while is_compiling = false
CheckReadsAtomic == \A h \in Handlers : pc[h] = "T.check" => ~(~isCompiling /\ lastState = "Uninitialized")

\* no compilation is running or pending and no handler is being polled
Idle == pc["W"] = "W.loop" /\ chan = <<>> /\ token = Free
TrulyParked(h) == pc[h] = "parked" /\ snap[h] = epoch
\* nothing can happen any more
Terminal == Idle /\ \A h \in Handlers : pc[h] = "done" \/ TrulyParked(h)

\* sanity: Terminal characterises exactly the states without a successor
TerminalIffStuck == Terminal <=> ~ENABLED Next

\* (a) whoever waits for compilation returns once no compilation is running or pending
NoHang == Idle => \A h \in Handlers : ~TrulyParked(h)

\* (b) once idle, the compilation that ended last ran to its end on the latest text; an abort
\*     (by a stale retrigger -- a legitimate one is always followed by a newer request) is a lost edit
NoLostEdit == Idle /\ done.result # "none" => done.result = "ok" /\ done.text = docVersion

\* classification of a violation by the state it is observed in
HangMechanism == IF isCompiling THEN "late-open-store" ELSE "lost-wakeup"
LostEditMechanism == IF done.result = "aborted-stale" THEN "stale-retrigger"
                     ELSE IF done.result = "ok" /\ done.cached THEN SaveSupersedes
                     ELSE "other"
\* ... and the classification is backed by the defect event having happened in the behaviour
ClassificationSound ==
    /\ (Idle /\ \E h \in Handlers : TrulyParked(h)) => HangMechanism \in mech
    /\ (Idle /\ done.result # "none" /\ ~(done.result = "ok" /\ done.text = docVersion))
           => mech # {} /\ (LostEditMechanism = "stale-retrigger" => "stale-retrigger" \in mech)
\* the properties, up to the mechanisms listed as known findings (KnownMechs = {}: strict)
Hang     == Idle /\ \E h \in Handlers : TrulyParked(h)
LostEdit == Idle /\ done.result # "none" /\ ~(done.result = "ok" /\ done.text = docVersion)
NoHangButKnown     == Hang => HangMechanism \in KnownMechs
NoLostEditButKnown == LostEdit => LostEditMechanism \in KnownMechs
\* repaired protocol: none of the defect events can happen at all
NoDefectEvent == mech \subseteq KnownMechs

\* liveness under weak fairness of every thread: every handler that was started finishes
Termination == <>[](\A h \in Handlers : pc[h] = "done")
EveryWaiterReturns == \A h \in Handlers : (pc[h] # "arrive") ~> (pc[h] = "done")
=============================================================================
