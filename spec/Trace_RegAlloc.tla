--------------------------- MODULE Trace_RegAlloc ---------------------------
(***************************************************************************)
(* Trace validation for C08.  Every record is one function as the real     *)
(* register allocator handled it (hook H4), in one of two views:           *)
(*   "post"  the instruction list after MOVE coalescing with the final     *)
(*           assignment (`RegAlloc` event) and the spill rounds that       *)
(*           preceded the successful colouring (`Spill` events);           *)
(*   "pre"   the instruction list the successful colouring attempt started *)
(*           from (`Coalesce` event: spill code of earlier rounds is in,   *)
(*           no MOVE has been removed yet) with the assignment composed    *)
(*           with the coalescing map.  A coalesced MOVE is there with      *)
(*           destination and source in one physical register, so this view *)
(*           judges coalescing, colouring and spilling together.           *)
(* Record:                                                                 *)
(*   [ops   |-> sequence of [d, u, s, mv]: registers defined / used (as    *)
(*              sequences), successor positions (0-based), MOVE source or  *)
(*              0,                                                         *)
(*    asg   |-> sequence: physical register number of virtual register k,  *)
(*              -1 if none was assigned,                                   *)
(*    spills|-> sequence of spill rounds [locals, slots |-> seq of         *)
(*              <<key, byte offset>>]]                                     *)
(* Virtual register names have been replaced by 1..Len(asg) and "$rN" by N *)
(* (a renaming done by the driver); nothing else is precomputed: liveness  *)
(* is recomputed here from d/u/s by RegAlloc!LiveIn, and RegAlloc's        *)
(* NoClobber / Total / InPool / SpillDisjoint decide.                      *)
(***************************************************************************)
EXTENDS RegAlloc, TLC, Json, IOUtils

CONSTANTS NPool,        \* number of allocatable registers ($r0 .. $r(NPool-1))
          MoveExempt    \* TRUE = the spec's rule; FALSE = self-test: drop the MOVE exemption

Rec == ndJsonDeserialize(IOEnv.TRACE)

VARIABLE l

Range(s) == { s[i] : i \in DOMAIN s }

OpsOf(r) ==
    [i \in 1..Len(r.ops) |->
        [d  |-> Range(r.ops[i].d),
         u  |-> Range(r.ops[i].u),
         s  |-> { x + 1 : x \in Range(r.ops[i].s) },
         mv |-> IF MoveExempt THEN r.ops[i].mv ELSE NoReg]]

\* the record describes a function body: successors are positions of the body, registers are
\* registers of the assignment table
WellFormed(r) ==
    LET ops == OpsOf(r) IN
    /\ \A i \in 1..Len(ops) : ops[i].s \subseteq 1..Len(ops)
    /\ RegsOf(ops) \subseteq 1..Len(r.asg)

SlotsOfRound(sp) == { <<sp.slots[j][1], sp.slots[j][2]>> : j \in DOMAIN sp.slots }

SpillsOK(r) ==
    /\ \A k \in DOMAIN r.spills : SpillDisjoint(r.spills[k].locals, SlotsOfRound(r.spills[k]))
    \* every later round extends the frame: slots of all rounds stay pairwise disjoint
    /\ Len(r.spills) > 0 =>
          SpillDisjoint(r.spills[1].locals, UNION { SlotsOfRound(r.spills[k]) : k \in DOMAIN r.spills })

Verdict(r) ==
    IF ~WellFormed(r) THEN "malformed"
    ELSE LET ops == OpsOf(r)
             out == LiveOut(ops)
         IN  IF ~Total(ops, r.asg) THEN "Total"
             ELSE IF ~InPool(ops, r.asg, NPool) THEN "InPool"
             ELSE IF ~NoClobberIn(ops, out, r.asg) THEN "NoClobber"
             ELSE IF ~SpillsOK(r) THEN "SpillDisjoint"
             ELSE "ok"

TraceInit == l = 1 /\ TLCSet(1, 1)

TrFunction ==
    /\ l <= Len(Rec)
    /\ Verdict(Rec[l]) = "ok"
    /\ l' = l + 1
    /\ TLCSet(1, l + 1)

TraceSpec == TraceInit /\ [][TrFunction]_l

\* diagnosis of the first rejected record: which property, and for NoClobber one witness
\* <<position (0-based), register written, live register destroyed, shared physical register>>
Witness(r) ==
    IF Verdict(r) # "NoClobber" THEN <<>>
    ELSE LET ops == OpsOf(r)
             c == CHOOSE x \in Clobbers(ops, LiveOut(ops), r.asg) : TRUE
         IN <<c[1] - 1, c[2], c[3], r.asg[c[2]]>>

Accepted ==
    IF TLCGet(1) = Len(Rec) + 1 THEN TRUE
    ELSE Print(<<"FIRST-UNMATCHED", TLCGet(1), Verdict(Rec[TLCGet(1)]), Witness(Rec[TLCGet(1)])>>, FALSE)
=============================================================================
