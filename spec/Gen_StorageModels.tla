------------------------- MODULE Gen_StorageModels -------------------------
EXTENDS MC_StorageModels

(***************************************************************************)
(* The conformance pool: NGen pseudo-random histories over all fields.     *)
(* `hist` is carried in lastOp's place: generator variables are separate.  *)
(***************************************************************************)
CONSTANTS NGen
GenVals == {1, 2, 3}
GenKeys == {1, 2, 3}
GenDepth(g) == CASE g % 3 = 0 -> 8 [] g % 3 = 1 -> 16 [] OTHER -> 30

\* all candidate operations in a fixed order (sets are ordered by TLC's normal form: deterministic)
RECURSIVE SetToSeq(_)
SetToSeq(S) == IF S = {} THEN <<>> ELSE LET x == CHOOSE y \in S : TRUE IN <<x>> \o SetToSeq(S \ {x})
Candidates(state) == UNION { OpsOf(state, f) : f \in Fields }
Lcg(x) == (x * 75 + 74) % 65537

\* hist: the operations so far; rng: generator state; gid: history id
VARIABLES hist, rng, gid
gvars == <<vars, hist, rng, gid>>
GenInit == /\ Init /\ hist = <<>>
           /\ \E g \in 1..NGen : gid = g /\ rng = Lcg(Lcg(7919 * g % 65537))
GenStep ==
    /\ ~aborted /\ Len(hist) < GenDepth(gid)
    /\ LET final == Len(hist) + 1 = GenDepth(gid)
           cands == Candidates(st)
           \* only the last operation of a history may revert
           ok == IF final THEN cands ELSE { o \in cands : ~ADo(st, o).rev }
           sq == SetToSeq(ok)
           o == sq[(rng % Len(sq)) + 1]
       IN Step(o) /\ hist' = Append(hist, o)
    /\ rng' = Lcg(rng) /\ UNCHANGED gid
GenSpec == GenInit /\ [][GenStep]_gvars
GenDone == aborted \/ Len(hist) = GenDepth(gid)
PrintReplay == GenDone => PrintT(<<"REPLAY", ToJson([id |-> gid, ops |-> hist])>>)
GenRefines == Refines /\ RetAgree
=============================================================================
