----------------------------- MODULE MC_LspDoc -----------------------------
(***************************************************************************)
(* TLC-side additions to LspDoc (C23):                                     *)
(*  1. the client's view: the same edit performed on a UTF-16 code-unit    *)
(*     buffer (what an editor does) -- ClientAgrees ties the scalar-level  *)
(*     Outcome to the protocol's definition of positions;                  *)
(*  2. two server algorithms on a UTF-8 byte buffer: "utf16walk" (walk the *)
(*     line's characters counting UTF-16 units; the repaired sway-lsp) and *)
(*     "byteadd" (line byte offset + character; sway-lsp before the fix,   *)
(*     F5) -- ServerConforms is checked for the constant Algo;             *)
(*  3. the constant pools used by the cfg files (Gen_LspDoc.tla generates  *)
(*     the replay records).                                                *)
(***************************************************************************)
EXTENDS LspDoc, Json, Randomization

CONSTANT Algo           \* "utf16walk" | "byteadd"

(***************************************************************************)
(* constant pools (substituted for InitDocs / Texts in the cfg files)      *)
(***************************************************************************)
a == CpA   e2 == CpEAcute   e3 == CpEuro   g4 == CpClef

Texts8 == { <<>>, <<a>>, <<e2>>, <<e3>>, <<g4>>, <<LF>>, <<CR, LF>>, <<e2, LF, g4>> }
Texts9 == Texts8 \cup { <<CR>> }
Texts4 == { <<>>, <<e2>>, <<g4>>, <<a, CR, LF, e3>> }
Texts3 == { <<>>, <<g4>>, <<e3, LF>> }
\* every string over the alphabet of length <= 1 (used with MaxLen to reach *all* short documents)
Alphabet == { a, e2, e3, g4, LF, CR }
Texts01 == { <<>> } \cup { <<c>> : c \in Alphabet }

\* 12 initial documents of <= 6 scalars mixing widths and line endings
Docs12 == {
    <<>>,
    <<a, e2, e3, g4>>,
    <<g4, a, LF, e2>>,
    <<e2, LF, LF, g4, a>>,
    <<a, g4, CR, LF, e3, e2>>,
    <<e3, CR, LF, g4, CR, LF>>,
    <<g4, g4, LF, a, e3, LF>>,
    <<LF, e2, g4, LF, e3>>,
    <<a, e2, LF, g4, e3, a>>,
    <<e3, g4, e2, LF, a, LF>>,
    <<a, CR, e2, LF, g4>>,              \* lone CR inside a line
    <<g4, e3, LF, a, CR>> }             \* lone CR at the end
Docs6 == { <<>>, <<g4, a>>, <<e2, LF, g4>>, <<a, CR, LF, e3>>, <<e3, g4, LF>>, <<LF, e2>> }
DocEmpty == { <<>> }
Docs2 == { <<e2, LF, g4>>, <<a, CR, LF, e3>> }
\* every document of at most n scalars over the alphabet
RECURSIVE SeqsUpTo(_)
SeqsUpTo(n) == IF n = 0 THEN { <<>> }
               ELSE LET S == SeqsUpTo(n - 1) IN S \cup { Append(s, c) : s \in { x \in S : Len(x) = n - 1 }, c \in Alphabet }
\* (TLC evaluates constant definitions eagerly: keep this one small in configurations with a large MaxLen)
AllDocs == SeqsUpTo(IF MaxLen <= 5 THEN MaxLen ELSE 0)

\* longer documents for the simulation pool (<= 40 scalars)
DocsLong == {
    <<a, e2, e3, g4, LF, g4, g4, a, CR, LF, e3, e3, LF, LF, a, a, a, e2, g4, LF, g4>>,
    <<g4, LF, e2, e2, e2, CR, LF, a, e3, g4, a, e3, g4, CR, LF, LF, e3, a, LF, g4, e2, a, a, LF>>,
    <<e3, g4, e2, a, e3, g4, e2, a, e3, g4, e2, a, LF, a, g4, LF, e2, g4, LF, e3, g4, LF, g4, g4, g4, LF, a, LF,
      e2, e2, CR, LF, e3, e3, CR, LF, g4, a, g4, a>>,
    <<LF, LF, CR, LF, g4, e2, LF, a, a, a, a, a, a, e2, LF, e3, g4, g4, e3, LF, CR, LF, a>> }

(***************************************************************************)
(* 1. the client: UTF-16 code units                                        *)
(***************************************************************************)
Hi(c) == 55296 + ((c - 65536) \div 1024)
Lo(c) == 56320 + ((c - 65536) % 1024)
IsHi(u) == u >= 55296 /\ u <= 56319
IsLo(u) == u >= 56320 /\ u <= 57343

RECURSIVE Enc16(_)
Enc16(d) == IF d = <<>> THEN <<>>
            ELSE (IF Head(d) >= 65536 THEN <<Hi(Head(d)), Lo(Head(d))>> ELSE <<Head(d)>>) \o Enc16(Tail(d))

\* line starts / ends on the unit buffer, independent of the scalar-level definitions
RECURSIVE UScan(_, _, _)
UScan(u, i, s) ==
    IF i > Len(u) THEN << [s |-> s, e |-> Len(u)] >>
    ELSE IF u[i] = LF THEN << [s |-> s, e |-> IF i - 1 > s /\ u[i - 1] = CR THEN i - 2 ELSE i - 1] >> \o UScan(u, i + 1, i)
    ELSE UScan(u, i + 1, s)

\* a position the client can produce without any latitude: an existing line, a character within the
\* visible line, not between the two halves of a surrogate pair
ClientPosValid(u, line, ch) ==
    LET L == UScan(u, 1, 0)
    IN /\ line < Len(L)
       /\ ch <= L[line + 1].e - L[line + 1].s
       /\ LET off == L[line + 1].s + ch IN ~(off > 0 /\ off < Len(u) /\ IsHi(u[off]) /\ IsLo(u[off + 1]))

ClientOffset(u, line, ch) == UScan(u, 1, 0)[line + 1].s + ch

ClientApply(u, e) ==
    Splice(u, ClientOffset(u, e.r[1], e.r[2]), ClientOffset(u, e.r[3], e.r[4]), Enc16(e.t))

\* "exact" positions are precisely the positions a UTF-16 client can denote, and for a range made of
\* them the scalar-level result is the client's unit-level splice
ClientAgrees ==
    HasLoneCR(doc) \/
    LET u == Enc16(doc)
    IN /\ \A p \in Positions(doc) :
            (Resolve(doc, p[1], p[2]).k = "exact") <=> ClientPosValid(u, p[1], p[2])
       /\ \A e \in EditsOf(doc) :
            (/\ ClientPosValid(u, e.r[1], e.r[2]) /\ ClientPosValid(u, e.r[3], e.r[4])
             /\ ClientOffset(u, e.r[1], e.r[2]) <= ClientOffset(u, e.r[3], e.r[4]))
            => LET o == Outcome(doc, e)
               IN \/ o.k = "apply" /\ Enc16(o.doc) = ClientApply(u, e)
                  \/ Print(<<"CLIENT-DISAGREES", doc, e, o>>, FALSE)

(***************************************************************************)
(* 2. the server: UTF-8 bytes                                              *)
(***************************************************************************)
Enc8c(c) ==
    IF c < 128 THEN <<c>>
    ELSE IF c < 2048 THEN <<192 + (c \div 64), 128 + (c % 64)>>
    ELSE IF c < 65536 THEN <<224 + (c \div 4096), 128 + ((c \div 64) % 64), 128 + (c % 64)>>
    ELSE <<240 + (c \div 262144), 128 + ((c \div 4096) % 64), 128 + ((c \div 64) % 64), 128 + (c % 64)>>

RECURSIVE Enc8(_)
Enc8(d) == IF d = <<>> THEN <<>> ELSE Enc8c(Head(d)) \o Enc8(Tail(d))

IsCont(b) == b >= 128 /\ b <= 191
WidthOfLead(b) == IF b < 128 THEN 1 ELSE IF b < 224 THEN 2 ELSE IF b < 240 THEN 3 ELSE 4

\* byte offset i (0-based) is a char boundary of the byte string bs
IsBoundary(bs, i) == i = 0 \/ i = Len(bs) \/ (i < Len(bs) /\ ~IsCont(bs[i + 1]))

\* decode (only called on well-formed strings)
RECURSIVE Dec8(_)
Dec8(bs) ==
    IF bs = <<>> THEN <<>>
    ELSE LET w == WidthOfLead(bs[1])
             c == CASE w = 1 -> bs[1]
                    [] w = 2 -> (bs[1] - 192) * 64 + (bs[2] - 128)
                    [] w = 3 -> (bs[1] - 224) * 4096 + (bs[2] - 128) * 64 + (bs[3] - 128)
                    [] w = 4 -> (bs[1] - 240) * 262144 + (bs[2] - 128) * 4096 + (bs[3] - 128) * 64 + (bs[4] - 128)
         IN <<c>> \o Dec8(SubSeq(bs, w + 1, Len(bs)))

\* TextDocument::calculate_line_offsets: 0 and the byte offset after every \n
RECURSIVE SrvLineOffsets(_, _)
SrvLineOffsets(bs, i) ==
    IF i > Len(bs) THEN <<>>
    ELSE (IF bs[i] = LF THEN <<i>> ELSE <<>>) \o SrvLineOffsets(bs, i + 1)
LineOffsets(bs) == <<0>> \o SrvLineOffsets(bs, 1)

NoIndex == 1000000      \* "None"

\* sway-lsp before the fix: line byte offset (or content length) + character
ByteAddIndex(bs, line, ch) ==
    LET lo == LineOffsets(bs)
    IN (IF line < Len(lo) THEN lo[line + 1] ELSE Len(bs)) + ch

\* the repaired algorithm: walk the chars of the line (terminator stripped) counting UTF-16 units
RECURSIVE WalkBytes(_, _, _, _, _)
WalkBytes(bs, i, end, units, target) ==         \* i: byte offset of the next char, end: end of the line text
    IF i >= end THEN end                          \* at or past the end of the line: clamp
    ELSE IF units = target THEN i
    ELSE LET w  == WidthOfLead(bs[i + 1])
             u2 == units + (IF w = 4 THEN 2 ELSE 1)
         IN IF u2 > target THEN NoIndex           \* inside a surrogate pair
            ELSE WalkBytes(bs, i + w, end, u2, target)

Utf16WalkIndex(bs, line, ch) ==
    LET lo == LineOffsets(bs)
    IN IF line >= Len(lo) THEN (IF ch = 0 THEN Len(bs) ELSE NoIndex)
       ELSE LET s  == lo[line + 1]
                e0 == IF line + 1 < Len(lo) THEN lo[line + 2] ELSE Len(bs)
                \* strip "\n", then "\r" if a "\n" was stripped
                e1 == IF e0 > s /\ bs[e0] = LF THEN e0 - 1 ELSE e0
                e2_ == IF e1 < e0 /\ e1 > s /\ bs[e1] = CR THEN e1 - 1 ELSE e1
            IN WalkBytes(bs, s, e2_, 0, ch)

\* result of TextDocument::apply_change on byte string bs: [k |-> "ok"|"err"|"panic", bytes]
SrvApply(bs, e) ==
    IF e.full THEN [k |-> "ok", bytes |-> Enc8(e.t)]
    ELSE IF Algo = "byteadd"
    THEN LET s == ByteAddIndex(bs, e.r[1], e.r[2])
             t == ByteAddIndex(bs, e.r[3], e.r[4])
         IN IF s > t \/ t > Len(bs) THEN [k |-> "err", bytes |-> bs]
            ELSE IF ~IsBoundary(bs, s) \/ ~IsBoundary(bs, t) THEN [k |-> "panic", bytes |-> bs]   \* String::replace_range
            ELSE [k |-> "ok", bytes |-> Splice(bs, s, t, Enc8(e.t))]
    ELSE LET s == Utf16WalkIndex(bs, e.r[1], e.r[2])
             t == Utf16WalkIndex(bs, e.r[3], e.r[4])
         IN IF s = NoIndex \/ t = NoIndex \/ s > t THEN [k |-> "err", bytes |-> bs]
            ELSE IF ~IsBoundary(bs, s) \/ ~IsBoundary(bs, t) \/ t > Len(bs) THEN [k |-> "panic", bytes |-> bs]
            ELSE [k |-> "ok", bytes |-> Splice(bs, s, t, Enc8(e.t))]

\* the server algorithm answers every change on every reachable document the way LspDoc allows
ServerConforms ==
    LET bs == Enc8(doc)
    IN /\ Dec8(bs) = doc
       /\ \A e \in EditsOf(doc) :
            LET r == SrvApply(bs, e)
            IN \/ r.k # "panic" /\ Allowed(doc, <<e>>, r.k = "err", Dec8(r.bytes))
               \/ Print(<<"SERVER-DEVIATES", ToJson([doc |-> doc, change |-> e, server |-> r.k,
                           serverDoc |-> IF r.k = "panic" THEN <<>> ELSE Dec8(r.bytes),
                           outcome |-> Outcome(doc, e)])>>, FALSE)

=============================================================================
