\* MC_LspSched.tla: run with -simulate num=N -depth 400 -seed S; prints the schedule of every finished behaviour
CONSTANTS NChange = 2  NSave = 1  NWait = 1
          NChecksFull = 7  TailFullCode = 1122110  NChecksCached = 2  TailCachedCode = 10
          FixNotify = TRUE  FixOpen = TRUE  FixClear = TRUE  FixSave = TRUE
          KnownMechs = {}
SPECIFICATION HistSpec
INVARIANT PrintTerminal
CHECK_DEADLOCK FALSE
