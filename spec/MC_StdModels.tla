--------------------------- MODULE MC_StdModels ---------------------------
(***************************************************************************)
(* TLC-only additions to StdModels (C27):                                  *)
(*  * GenSpec : breadth-first enumeration of every operation history       *)
(*    prefix ++ free part, |free part| <= MaxOps, over the operation       *)
(*    alphabet OpNames with index arguments {0, len-1, len, len+1, huge};  *)
(*    the model's invariants (CapInv, Laws) are checked in every state and *)
(*    every maximal history is printed as a REPLAY record carrying the     *)
(*    model's expected observation after every operation.                  *)
(*  * SimSpec : fixed-seed random walks (non-reverting operations, biased  *)
(*    towards growth) of MaxOps operations -- capacity boundaries          *)
(*    0 -> 1 -> 2 -> 4 -> ... -> 32.                                       *)
(*  * NumSpec : the numeric case pool (boundary values x operations x flag *)
(*    modes) as initial states; self-consistency of the numeric model is   *)
(*    checked on every case (NumLaws) and every case is printed.           *)
(***************************************************************************)
EXTENDS StdModels, Json, Randomization

CONSTANTS MKind,        \* "vec" | "bytes" | "string"
          MEty,         \* element type of the histories
          Prefixes,     \* set of operation-name sequences that build the base states, e.g. <<"new","push","push">>
          OpNames,      \* free-part alphabet (operation names)
          MaxOps,       \* length of the free part
          NumSel        \* numeric pool selector: set of <<type, opgroup>> pairs

VARIABLES hist, pre, ncase
mvars == <<kind, ety, st, alive, hist, pre, ncase>>

\* named values for the cfg files (a cfg cannot write tuples): `Prefixes <- PrefNew`, `NumSel <- NumSel_u64` ...
PrefNew   == {<<"new">>}
PrefCaps  == {<<"with_capacity">>}                                     \* with_capacity(3)
PrefBases == {<<"new", "push">>, <<"new", "push", "push">>, <<"new", "push", "push", "push">>,
              <<"new", "push", "push", "push", "push">>,              \* len = cap = 4
              <<"new", "push", "push", "push", "pop">>,               \* stale element behind len
              <<"with_capacity", "push", "push", "push">>,            \* len = cap = 3: next growth gives 6
              <<"with_capacity", "push">>}
PrefBases2 == {<<"new", "push", "push">>, <<"new", "push", "push", "push", "push">>,
               <<"new", "push", "push", "push", "pop">>, <<"with_capacity", "push", "push", "push">>}
PrefStr   == {<<"new">>, <<"with_capacity">>, <<"from_str">>}
NumGroups == {"arith", "divmod", "wrapping", "pow", "sqrt", "log", "log2", "conv"}
NumSel_none == {}
NumSel_u8   == {<<"u8", g>> : g \in NumGroups}
NumSel_u16  == {<<"u16", g>> : g \in NumGroups}
NumSel_u32  == {<<"u32", g>> : g \in NumGroups}
NumSel_u64  == {<<"u64", g>> : g \in NumGroups \cup {"overflowing"}}
NumSel_u128 == {<<"u128", g>> : g \in (NumGroups \ {"wrapping"}) \cup {"bits"}}
NumSel_u256 == {<<"u256", g>> : g \in NumGroups \cup {"bits"}}
NumSel_u128a == {<<"u128", g>> : g \in {"arith", "divmod", "conv", "bits"}}
NumSel_u128b == {<<"u128", g>> : g \in {"pow", "sqrt", "log", "log2"}}
NumSel_u256a == {<<"u256", g>> : g \in {"arith", "divmod", "wrapping"}}
NumSel_u256b == {<<"u256", g>> : g \in {"pow", "sqrt", "log2", "conv", "bits"}}
NumSel_u256c == {<<"u256", g>> : g \in {"log"}}

\* ------------------------------------------------------------------ histories
Fresh(h) == Len(h) + 1                        \* the value written by the next operation: all values distinct

Ix(n) == {0, n, n + 1} \cup (IF n > 0 THEN {n - 1} ELSE {})

SwapPairs(n) == {<<0, 0>>, <<0, n>>, <<n, 0>>, <<n + 1, n + 1>>}
                \cup (IF n > 1 THEN {<<0, n - 1>>, <<n - 1, 0>>, <<n - 1, n - 2>>} ELSE {})

\* all instances of operation `name` offered in state s when v is the next fresh value
OpsNamed(name, s, v) ==
    LET n == Len(s.elems) IN
    CASE name = "new"           -> {Op("new", 0, 0, 0)}
      [] name = "with_capacity" -> {Op("with_capacity", c, 0, 0) : c \in {0, 1, 3}}
      [] name = "push"          -> {Op("push", 0, 0, v)}
      [] name = "pop"           -> {Op("pop", 0, 0, 0)}
      [] name = "clear"         -> {Op("clear", 0, 0, 0)}
      [] name = "clone"         -> {Op("clone", 0, 0, 0)}
      [] name = "insert"        -> {Op("insert", i, 0, v) : i \in Ix(n) \cup {HugeIx}}
      [] name = "remove"        -> {Op("remove", i, 0, 0) : i \in Ix(n) \cup {HugeIx}}
      [] name = "set"           -> {Op("set", i, 0, v) : i \in Ix(n)}
      [] name = "swap"          -> {Op("swap", p[1], p[2], 0) : p \in SwapPairs(n)}
      [] name = "resize"        -> {Op("resize", i, 0, v) : i \in Ix(n) \cup {n + 3}}
                                   \cup (IF MKind = "bytes" THEN {Op("resize", n + 2, 0, 0)} ELSE {})
      [] name = "get"           -> {Op("get", HugeIx, 0, 0)}
      [] name = "iter"          -> {Op("iter", 0, 0, v)}
      [] name = "append"        -> {Op("append", 0, 60 + 4 * v, c) : c \in {0, 1, 3}}
      [] name = "append_self"   -> {Op("append_self", 0, 0, 0)}
      [] name = "split_at"      -> {Op("split_at", i, 0, 0) : i \in Ix(n)}
      [] name = "splice"        -> {Op("splice", p[1], p[2], c) : p \in {<<0, 0>>, <<0, n>>, <<n, n>>, <<n, n + 1>>, <<1, 0>>}
                                                                       \cup (IF n > 1 THEN {<<1, n - 1>>, <<0, 1>>} ELSE {}),
                                                                  c \in {0, 2}}
      [] name = "via_vec"       -> {Op("via_vec", 0, 0, 0)}
      [] name = "from_str"      -> {Op("from_str", i, 0, 0) : i \in 0..(Len(StrLits) - 1)}
      [] name = "from_ascii"    -> {Op("from_ascii", 0, 60 + 4 * v, c) : c \in {0, 1, 3}}
      [] name = "as_bytes_mut"  -> {Op("as_bytes_mut", 0, 0, 0)}
      [] name = "via_bytes"     -> {Op("via_bytes", 0, 0, 0)}

FreeOps(s, v) == UNION { OpsNamed(nm, s, v) : nm \in OpNames }

\* the single instance used while replaying a prefix (first instance: with_capacity(3), index 0, ...)
PrefixOp(name, s, v) ==
    IF name = "with_capacity" THEN Op("with_capacity", 3, 0, 0)
    ELSE CHOOSE o \in OpsNamed(name, s, v) : \A o2 \in OpsNamed(name, s, v) : o.i <= o2.i

Leaf == ~alive \/ Len(hist) >= Len(pre) + MaxOps

GenInit ==
    /\ kind = MKind /\ ety = MEty /\ st = EmptyColl /\ alive = TRUE
    /\ hist = <<>> /\ pre \in Prefixes /\ ncase = 0

GenNext ==
    /\ ~Leaf
    /\ \E o \in (IF Len(hist) < Len(pre) THEN {PrefixOp(pre[Len(hist) + 1], st, Fresh(hist))}
                 ELSE FreeOps(st, Fresh(hist))) :
          /\ Apply(o)
          /\ hist' = Append(hist, o)
    /\ UNCHANGED <<pre, ncase>>

GenSpec == GenInit /\ [][GenNext]_mvars

\* the model's expectation along a history: state and returned items after every operation (the logged
\* queries are Dump of that state) -- what the REPLAY record carries
RECURSIVE ExpAlong(_, _, _)
ExpAlong(s, h, i) ==
    IF i > Len(h) THEN <<>>
    ELSE LET x == Expect(MKind, s, h[i]) IN
         <<[ok |-> x.ok, elems |-> x.st.elems, cap |-> x.st.cap, capdoc |-> x.st.doc, ret |-> CollStep(MKind, s, h[i]).ret]>>
         \o (IF x.ok THEN ExpAlong(x.st, h, i + 1) ELSE <<>>)

Replay == [kind |-> MKind, ety |-> MEty, ops |-> hist, expect |-> ExpAlong(EmptyColl, hist, 1),
           out |-> IF alive THEN "return" ELSE "revert"]

PrintLeaf == (Leaf /\ Len(hist) >= Len(pre)) => PrintT(<<"REPLAY", ToJson(Replay)>>)

ModelInv == alive => (CapInv /\ Laws)

\* ------------------------------------------------------------------ simulation
\* non-reverting instances only, so that a walk reaches MaxOps operations; half of the steps push
SimOps(s, v) == { o \in FreeOps(s, v) : CollStep(MKind, s, o).ok }

SimNext ==
    /\ ~Leaf
    /\ LET v == Fresh(hist)
           cands == IF Len(hist) < Len(pre) THEN {PrefixOp(pre[Len(hist) + 1], st, v)}
                    ELSE IF RandomElement(1..10) <= 4 /\ "push" \in OpNames THEN {Op("push", 0, 0, v)}
                    ELSE SimOps(st, v)
       IN \E o \in RandomSubset(1, cands) : Apply(o) /\ hist' = Append(hist, o)
    /\ UNCHANGED <<pre, ncase>>

SimSpec == GenInit /\ [][SimNext]_mvars

\* ------------------------------------------------------------------ numerics
LEq(w, n) == FromNat(n, w)                         \* small value
P2(w, k) == Shl(One(w), k)                         \* 2^k
Dec(x) == Sub(x, One(Len(x))).v
Inc(x) == Add(x, One(Len(x))).v
Sq(x) == MulW(x, x, Len(x)).v

\* boundary values of a w-byte type (little-endian)
Half(w) == P2(w, 4 * w)                            \* 2^(bits/2)
RootMax(w) == Dec(Half(w))                         \* floor(sqrt(max)) = 2^(bits/2) - 1
BaseVals(w) ==
    { LEq(w, 0), LEq(w, 1), LEq(w, 2), LEq(w, 3), LEq(w, 10), MaxV(w), Dec(MaxV(w)),
      Half(w), Dec(Half(w)), Inc(Half(w)), P2(w, 8 * w - 1), Dec(P2(w, 8 * w - 1)) }
Roots(w) == { LEq(w, 3), LEq(w, 11), RootMax(w), Dec(RootMax(w)), P2(w, 2 * w), Inc(P2(w, 2 * w)) }
SquareVals(w) == UNION { { Sq(r), Dec(Sq(r)), Inc(Sq(r)) } : r \in Roots(w) }
PowerVals(w) ==       \* powers of 3, 7 and 10 and their neighbours (exactness of log)
    UNION { LET p == Pow(LEq(w, b), e, w) IN IF p.ovf THEN {} ELSE { p.v, Dec(p.v), Inc(p.v) }
            : b \in {3, 7, 10}, e \in (IF w >= 16 THEN {2, 5 * w} ELSE {2, 5, 2 * w, 5 * w}) }
PairVals(w) == IF w >= 16          \* (the 16- and 32-byte cases cost TLC about half a second each)
               THEN { LEq(w, 0), LEq(w, 1), LEq(w, 7), MaxV(w), Dec(MaxV(w)), Half(w), Dec(Half(w)) }
               ELSE { LEq(w, 0), LEq(w, 1), LEq(w, 2), LEq(w, 7), MaxV(w), Dec(MaxV(w)), Half(w), Dec(Half(w)), Inc(Half(w)),
                      P2(w, 8 * w - 1) }
DivVals(w) == { LEq(w, 3), LEq(w, 10), P2(w, 8 * w - 1), Inc(Half(w)) }
Exponents == {0, 1, 2, 3, 7, 8, 15, 16, 31, 32, 63, 64, 127, 128, 255, 256}
ShiftAmts == {0, 1, 7, 63, 64, 65, 127, 128, 129, 255, 256}
LogBases(w) == { LEq(w, 0), LEq(w, 1), LEq(w, 2), LEq(w, 3), LEq(w, 7), LEq(w, 10), Half(w), MaxV(w) }

Case(t, op, m, a, b, n, t2) == [ty |-> t, op |-> op, mode |-> m, a |-> ToBE(a), b |-> b, n |-> n, t2 |-> t2]

CasesOf(t, grp) ==
    LET w == NW(t) IN
    CASE grp = "arith" ->
            { Case(t, op, m, a, ToBE(b), 0, "") : op \in {"add", "sub", "mul"}, m \in {"D", "W"}, a \in PairVals(w), b \in PairVals(w) }
      [] grp = "divmod" ->
            { Case(t, "divmod", m, a, ToBE(b), 0, "") : m \in {"D", "U"}, a \in PairVals(w) \cup DivVals(w), b \in PairVals(w) \cup DivVals(w) }
      [] grp = "wrapping" ->
            { Case(t, op, "D", a, ToBE(b), 0, "") : op \in {"wrapping_add", "wrapping_sub", "wrapping_mul"}, a \in PairVals(w), b \in PairVals(w) }
      [] grp = "overflowing" ->
            { Case(t, op, "D", a, ToBE(b), 0, "") : op \in {"overflowing_add", "overflowing_mul"}, a \in PairVals(w), b \in PairVals(w) }
      [] grp = "pow" ->
            { Case(t, "pow", m, a, <<>>, e, "") : m \in {"D", "W"}, a \in BaseVals(w), e \in Exponents }
      [] grp = "sqrt" ->
            { Case(t, "sqrt", m, a, <<>>, 0, "") : m \in {"D", "W"}, a \in BaseVals(w) \cup SquareVals(w) }
      [] grp = "log" ->
            { Case(t, "log", "D", a, ToBE(b), 0, "") : a \in BaseVals(w) \cup PowerVals(w), b \in LogBases(w) }
            \cup { Case(t, "log", m, a, ToBE(b), 0, "") : m \in {"W", "U"}, a \in BaseVals(w), b \in LogBases(w) }
      [] grp = "log2" ->
            { Case(t, "log2", m, a, <<>>, 0, "") : m \in {"D", "W", "U"}, a \in BaseVals(w) \cup SquareVals(w) }
      [] grp = "bits" ->
            { Case(t, op, "D", a, <<>>, n, "") : op \in {"shl", "shr"}, a \in BaseVals(w), n \in ShiftAmts }
            \cup { Case(t, op, "D", a, ToBE(b), 0, "") : op \in {"and", "or", "cmp"}, a \in PairVals(w), b \in PairVals(w) }
            \cup { Case(t, "not", "D", a, <<>>, 0, "") : a \in PairVals(w) }
      [] grp = "conv" ->
            { Case(t, "widen", "D", a, <<>>, 0, t2) : a \in BaseVals(w), t2 \in { x \in NumTypes : NW(x) > w } }
            \cup { Case(t, "narrow", "D", a, <<>>, 0, t2) : a \in BaseVals(w) \cup { Resize(MaxV(NW(t2)), w) : t2 \in { x \in NumTypes : NW(x) < w } }
                                                                       \cup { Inc(Resize(MaxV(NW(t2)), w)) : t2 \in { x \in NumTypes : NW(x) < w } },
                                                   t2 \in { x \in NumTypes : NW(x) < w /\ x # "u128" } }
            \cup (IF t = "u128" THEN { Case(t, "try_as_u64", "D", a, <<>>, 0, "") : a \in BaseVals(w) } ELSE {})

NumPool == { c \in UNION { CasesOf(s[1], s[2]) : s \in NumSel } : Specified(c) }

NumInit ==
    /\ kind = "vec" /\ ety = "u64" /\ st = EmptyColl /\ alive = TRUE /\ hist = <<>> /\ pre = <<>>
    /\ ncase \in NumPool
NoNext == FALSE /\ UNCHANGED mvars
NumSpec == NumInit /\ [][NoNext]_mvars

\* exact items rendered to the bytes expected; relational items stay symbolic in the record
NumReplay == [c \in {ncase} |-> [ty |-> c.ty, op |-> c.op, mode |-> c.mode, a |-> c.a, b |-> c.b, n |-> c.n, t2 |-> c.t2, expect |-> NumExpect(c)]][ncase]
PrintNum == PrintT(<<"REPLAY", ToJson(NumReplay)>>)

\* self-consistency of the numeric model on the case at hand
NumLaws ==
    LET c == ncase w == NW(c.ty) a == FromBE(c.a) x == NumExpect(c) IN
    /\ x.out \in {"return", "revert"}
    /\ (c.b # <<>>) => MulFast(a, FromBE(c.b)) = MulFull(a, FromBE(c.b))
    /\ (c.op = "sub" /\ x.out = "return" /\ c.mode = "D") =>
          Add(FromBE(x.items[1].b), FromBE(c.b)).v = a                       \* (a - b) + b = a
    /\ (c.op = "divmod" /\ ~IsZero(FromBE(c.b)) /\ w <= 8) =>                  \* the relation holds of Bytes!DivMod
          LET d == DivModT(a, FromBE(c.b)) IN
             /\ IsDivMod(a, FromBE(c.b), d.q, d.r, w)
             /\ ~IsDivMod(a, FromBE(c.b), Inc(d.q), d.r, w)
             /\ (w <= 2) => (DivMod(a, FromBE(c.b)).q = d.q /\ DivMod(a, FromBE(c.b)).r = d.r)
    /\ (c.op = "pow" /\ x.out = "return" /\ c.mode = "D" /\ c.n > 0) =>
          LET q == Pow(a, c.n - 1, w) IN ~q.ovf /\ MulW(q.v, a, w).v = FromBE(x.items[1].b)   \* a^e = a^(e-1) * a
    /\ (c.op = "log2" /\ x.out = "return" /\ c.mode = "D") =>
          IsLog(a, FromNat(2, w), FromBE(x.items[1].b), w)                    \* the function agrees with the relation
    /\ (c.op = "sqrt") =>
          \A r \in Roots(w) : (Sq(r) = a \/ Inc(Sq(r)) = a) => IsSqrt(a, r, w)   \* r is the root of r^2 and of r^2 + 1
    /\ (c.op = "sqrt") =>
          \A r \in Roots(w) : (Dec(Sq(r)) = a) => IsSqrt(a, Dec(r), w) /\ ~IsSqrt(a, r, w)
=============================================================================
