\* all histories (to closure) over vecA (u64: 4 per slot) and vecB (24-byte elements straddling slots)
CONSTANT UnitWord = 0
CONSTANT Active = {"vecA", "vecB"}
CONSTANT Vals = {1, 2}
CONSTANT Keys = {1, 2}
CONSTANT MaxLen = 3
CONSTANT SliceLens = {0, 1}
CONSTANT VecArgs = {0, 1, 21}
SPECIFICATION Spec
INVARIANT Refines
INVARIANT RetAgree
PROPERTY FrameProp
CHECK_DEADLOCK FALSE
