SPECIFICATION TraceSpec
CONSTANTS SStr <- T_SStr PSrc <- T_PSrc PDep <- T_PDep SProv <- T_SProv
POSTCONDITION Accepted
CHECK_DEADLOCK FALSE
