\* all histories over mapV (a StorageVec<u64> under each of 2 map keys), lengths 0..3
CONSTANT UnitWord = 0
CONSTANT Active = {"mapV"}
CONSTANT Vals = {1, 2}
CONSTANT Keys = {1, 2}
CONSTANT MaxLen = 3
CONSTANT SliceLens = {0, 1}
CONSTANT VecArgs = {0, 1, 21}
SPECIFICATION Spec
INVARIANT Refines
INVARIANT RetAgree
PROPERTY FrameProp
CHECK_DEADLOCK FALSE
