------------------------------ MODULE SwaySem ------------------------------
(***************************************************************************)
(* Big-step dynamic semantics of a fragment of Sway ("Sway-mini"), used as *)
(* the source-level abstract machine for C01/C02/C03/C06/C07: a compiled   *)
(* program's receipts on the FuelVM must be the observable this semantics  *)
(* computes from the AST.  Programs are JSON ASTs (see lib/swaygen.py for  *)
(* the renderer to concrete Sway syntax).                                  *)
(*                                                                         *)
(* Values                                                                  *)
(*   [k |-> "i", t |-> intty, b |-> little-endian bytes]   u8..u256, b256  *)
(*   [k |-> "b", v |-> BOOLEAN]                                            *)
(*   [k |-> "u"]                                            unit           *)
(*   [k |-> "a", es |-> <<values>>]            tuple / struct / array      *)
(*   [k |-> "e", tag |-> Nat, v |-> value]     enum (tag = variant index)  *)
(*                                                                         *)
(* Evaluation result  [sig, v, env, logs, code]                            *)
(*   sig in {"ok", "abort", "brk", "cont", "ret"}; code = 8-byte BE revert *)
(*   code when sig = "abort".  logs = sequence of canonical encodings.     *)
(***************************************************************************)
EXTENDS IntSem, TLC

Unit == [k |-> "u"]
BoolV(x) == [k |-> "b", v |-> x]
IntV(t, b) == [k |-> "i", t |-> t, b |-> b]
AggV(es) == [k |-> "a", es |-> es]
EnumV(tag, v) == [k |-> "e", tag |-> tag, v |-> v]

\* revert codes (big-endian 8 bytes)
CodePanic   == <<0, 0, 0, 0, 0, 0, 0, 0>>               \* VM panic / std range check: Revert(0)
CodeRequire == <<255, 255, 255, 255, 255, 255, 0, 0>>   \* FAILED_REQUIRE_SIGNAL
CodeAssert  == <<255, 255, 255, 255, 255, 255, 0, 4>>   \* FAILED_ASSERT_SIGNAL
CodeAssertEq == <<255, 255, 255, 255, 255, 255, 0, 3>>  \* FAILED_ASSERT_EQ_SIGNAL
CodeAssertNe == <<255, 255, 255, 255, 255, 255, 0, 5>>  \* FAILED_ASSERT_NE_SIGNAL

(***************************************************************************)
(* Canonical (ABI) encoding of a value: what `log` emits.                  *)
(***************************************************************************)
RECURSIVE Enc(_), EncSeq(_, _)
Enc(v) ==
    CASE v.k = "i" -> ToBE(v.b)
      [] v.k = "b" -> IF v.v THEN <<1>> ELSE <<0>>
      [] v.k = "u" -> <<>>
      [] v.k = "a" -> EncSeq(v.es, 1)
      [] v.k = "e" -> ToBE(FromNat(v.tag, 8)) \o Enc(v.v)
EncSeq(es, i) == IF i > Len(es) THEN <<>> ELSE Enc(es[i]) \o EncSeq(es, i + 1)

(***************************************************************************)
(* Results and environments                                                *)
(***************************************************************************)
R(sig, v, env, logs, code) == [sig |-> sig, v |-> v, env |-> env, logs |-> logs, code |-> code]
OkR(v, env, logs) == R("ok", v, env, logs, <<>>)
AbortR(env, logs, code) == R("abort", Unit, env, logs, code)

Upd(env, x, v) == [y \in DOMAIN env \cup {x} |-> IF y = x THEN v ELSE env[y]]

MaxLoop == 100000

\* replace the element reached by `path` (sequence of 1-based indices into aggregates)
RECURSIVE SetPath(_, _, _)
SetPath(v, path, nv) ==
    IF path = <<>> THEN nv
    ELSE AggV([v.es EXCEPT ![Head(path)] = SetPath(v.es[Head(path)], Tail(path), nv)])

(***************************************************************************)
(* Pattern matching: Match(pat, v) = [m |-> BOOLEAN, bs |-> bindings]      *)
(* bindings: sequence of <<name, value>>                                   *)
(***************************************************************************)
\* "alit" / "abool" are constants produced by an `asm` block (`asm(r: 5u64) { r: u64 }`): the same value as
\* the literal, but opaque to the IR optimizer and visible only to the asm-level constant propagation.
LitVal(e) ==
    CASE e.k = "lit" \/ e.k = "alit" -> IntV(e.t, FromBE(e.b))
      [] e.k = "bool" \/ e.k = "abool" -> BoolV(e.v)
      [] e.k = "unit" -> Unit

RECURSIVE Match(_, _), MatchSeq(_, _, _), MatchOr(_, _, _)
Match(p, v) ==
    CASE p.k = "wild" -> [m |-> TRUE, bs |-> <<>>]
      [] p.k = "bind" -> [m |-> TRUE, bs |-> <<<<p.x, v>>>>]
      [] p.k = "lit" \/ p.k = "bool" -> [m |-> (LitVal(p) = v), bs |-> <<>>]
      [] p.k = "range" -> [m |-> Le(FromBE(p.lo), v.b) /\ Le(v.b, FromBE(p.hi)), bs |-> <<>>]
      [] p.k = "tuple" \/ p.k = "struct" -> MatchSeq(p.ps, v.es, 1)
      [] p.k = "variant" ->
            IF v.tag # p.v THEN [m |-> FALSE, bs |-> <<>>] ELSE Match(p.p, v.v)
      [] p.k = "or" -> MatchOr(p.ps, v, 1)
MatchSeq(ps, vs, i) ==
    IF i > Len(ps) THEN [m |-> TRUE, bs |-> <<>>]
    ELSE LET a == Match(ps[i], vs[i]) IN
         IF ~a.m THEN [m |-> FALSE, bs |-> <<>>]
         ELSE LET b == MatchSeq(ps, vs, i + 1) IN [m |-> b.m, bs |-> a.bs \o b.bs]
MatchOr(ps, v, i) ==
    IF i > Len(ps) THEN [m |-> FALSE, bs |-> <<>>]
    ELSE LET a == Match(ps[i], v) IN IF a.m THEN a ELSE MatchOr(ps, v, i + 1)

RECURSIVE BindAll(_, _, _)
BindAll(env, bs, i) == IF i > Len(bs) THEN env ELSE BindAll(Upd(env, bs[i][1], bs[i][2]), bs, i + 1)

(***************************************************************************)
(* Operators                                                               *)
(***************************************************************************)
BinOp(op, l, r) ==   \* l, r values; returns [ok, v]
    IF op \in CmpOps THEN
        IF l.k = "i" THEN [ok |-> TRUE, v |-> BoolV(Cmp(op, l.b, r.b))]
        ELSE [ok |-> TRUE, v |-> BoolV(IF op = "eq" THEN l = r ELSE l # r)]
    ELSE IF op \in ArithOps THEN
        LET x == Arith(op, l.t, l.b, r.b) IN [ok |-> x.ok, v |-> IntV(l.t, x.v)]
    ELSE IF op \in ShiftOps THEN
        LET x == Shift(op, l.t, l.b, r.b) IN [ok |-> x.ok, v |-> IntV(l.t, x.v)]
    ELSE IF l.k = "b" THEN   \* bitwise on bool
        [ok |-> TRUE, v |-> BoolV(CASE op = "and" -> l.v /\ r.v [] op = "or" -> l.v \/ r.v [] op = "xor" -> l.v # r.v)]
    ELSE LET x == Bitw(op, l.t, l.b, r.b) IN [ok |-> x.ok, v |-> IntV(l.t, x.v)]

(***************************************************************************)
(* The evaluator.  P is the program (P.fns : name -> [params, body]).      *)
(***************************************************************************)
RECURSIVE Eval(_, _, _, _), EvalSeq(_, _, _, _, _, _), EvalBlock(_, _, _, _),
          Exec(_, _, _, _, _), ExecWhile(_, _, _, _, _), EvalMatch(_, _, _, _, _, _),
          EvalPath(_, _, _, _, _, _)

\* evaluate expressions es[i..] left to right, accumulating values in acc
EvalSeq(P, es, i, acc, env, logs) ==
    IF i > Len(es) THEN OkR(AggV(acc), env, logs)
    ELSE LET r == Eval(P, es[i], env, logs) IN
         IF r.sig # "ok" THEN r ELSE EvalSeq(P, es, i + 1, Append(acc, r.v), r.env, r.logs)

Eval(P, e, env, logs) ==
    CASE e.k = "lit" \/ e.k = "bool" \/ e.k = "unit" \/ e.k = "alit" \/ e.k = "abool" -> OkR(LitVal(e), env, logs)
      [] e.k = "var" -> OkR(env[e.x], env, logs)
      [] e.k = "un" ->
            LET r == Eval(P, e.e, env, logs) IN
            IF r.sig # "ok" THEN r
            ELSE IF r.v.k = "b" THEN OkR(BoolV(~r.v.v), r.env, r.logs)
            ELSE OkR(IntV(r.v.t, NotOp(r.v.t, r.v.b).v), r.env, r.logs)
      [] e.k = "bin" ->
            LET l == Eval(P, e.l, env, logs) IN
            IF l.sig # "ok" THEN l
            ELSE IF e.op = "land" THEN
                 IF ~l.v.v THEN l ELSE Eval(P, e.r, l.env, l.logs)
            ELSE IF e.op = "lor" THEN
                 IF l.v.v THEN l ELSE Eval(P, e.r, l.env, l.logs)
            ELSE LET r == Eval(P, e.r, l.env, l.logs) IN
                 IF r.sig # "ok" THEN r
                 ELSE LET x == BinOp(e.op, l.v, r.v) IN
                      IF x.ok THEN OkR(x.v, r.env, r.logs) ELSE AbortR(r.env, r.logs, CodePanic)
      [] e.k = "if" ->
            LET c == Eval(P, e.c, env, logs) IN
            IF c.sig # "ok" THEN c
            ELSE EvalBlock(P, IF c.v.v THEN e.t ELSE e.f, c.env, c.logs)
      [] e.k = "block" -> EvalBlock(P, e.b, env, logs)
      [] e.k = "tuple" \/ e.k = "struct" \/ e.k = "array" -> EvalSeq(P, e.es, 1, <<>>, env, logs)
      [] e.k = "arep" ->       \* [e; n] : e is evaluated once
            LET r == Eval(P, e.e, env, logs) IN
            IF r.sig # "ok" THEN r ELSE OkR(AggV([j \in 1..e.n |-> r.v]), r.env, r.logs)
      [] e.k = "enum" ->
            LET r == Eval(P, e.e, env, logs) IN
            IF r.sig # "ok" THEN r ELSE OkR(EnumV(e.v, r.v), r.env, r.logs)
      [] e.k = "field" ->       \* e.i : 1-based position (tuple index + 1 / field position in declaration order)
            LET r == Eval(P, e.e, env, logs) IN
            IF r.sig # "ok" THEN r ELSE OkR(r.v.es[e.i], r.env, r.logs)
      [] e.k = "index" ->
            LET a == Eval(P, e.e, env, logs) IN
            IF a.sig # "ok" THEN a
            ELSE LET ix == Eval(P, e.i, a.env, a.logs) IN
                 IF ix.sig # "ok" THEN ix
                 ELSE IF ~IsSmall(ix.v.b) \/ ToNat(ix.v.b) >= Len(a.v.es)
                      THEN AbortR(ix.env, ix.logs, CodePanic)          \* out of bounds: revert
                      ELSE OkR(a.v.es[ToNat(ix.v.b) + 1], ix.env, ix.logs)
      [] e.k = "call" ->
            LET as == EvalSeq(P, e.args, 1, <<>>, env, logs) IN
            IF as.sig # "ok" THEN as
            ELSE LET f == P.fns[e.f]
                     cenv == [x \in { f.params[j].n : j \in DOMAIN f.params } |->
                                 as.v.es[CHOOSE j \in DOMAIN f.params : f.params[j].n = x]]
                     r == EvalBlock(P, f.body, cenv, as.logs)
                 IN IF r.sig = "abort" THEN AbortR(as.env, r.logs, r.code)
                    ELSE OkR(r.v, as.env, r.logs)        \* "ok" (tail value) or "ret"
      [] e.k = "match" ->
            LET s == Eval(P, e.e, env, logs) IN
            IF s.sig # "ok" THEN s ELSE EvalMatch(P, e.arms, 1, s.v, s.env, s.logs)
      [] e.k = "cast" ->      \* widening cast as_uN() : never fails
            LET r == Eval(P, e.e, env, logs) IN
            IF r.sig # "ok" THEN r ELSE OkR(IntV(e.t, Widen(r.v.b, e.t)), r.env, r.logs)
      [] e.k = "trycast" ->   \* uN::try_from(x).unwrap() : reverts when it does not fit
            LET r == Eval(P, e.e, env, logs) IN
            IF r.sig # "ok" THEN r
            ELSE IF FitsIn(r.v.b, e.t) THEN OkR(IntV(e.t, Narrow(r.v.b, e.t)), r.env, r.logs)
            ELSE AbortR(r.env, r.logs, CodePanic)

EvalMatch(P, arms, i, v, env, logs) ==
    IF i > Len(arms) THEN AbortR(env, logs, CodePanic)       \* cannot happen for exhaustive matches
    ELSE LET m == Match(arms[i].p, v) IN
         IF m.m THEN Eval(P, arms[i].b, BindAll(env, m.bs, 1), logs)
         ELSE EvalMatch(P, arms, i + 1, v, env, logs)

\* a block: statements, then the tail expression (unit literal when absent)
EvalBlock(P, b, env, logs) ==
    LET r == Exec(P, b.ss, 1, env, logs) IN
    IF r.sig # "ok" THEN r ELSE Eval(P, b.tail, r.env, r.logs)

\* evaluate the index expressions of an lvalue path left to right -> sequence of 1-based positions
EvalPath(P, path, i, acc, env, logs) ==
    IF i > Len(path) THEN OkR(AggV(acc), env, logs)
    ELSE IF path[i].k = "f" THEN EvalPath(P, path, i + 1, Append(acc, path[i].i), env, logs)
    ELSE LET ix == Eval(P, path[i].e, env, logs) IN
         IF ix.sig # "ok" THEN ix
         ELSE EvalPath(P, path, i + 1, Append(acc, ToNat(ix.v.b) + 1), ix.env, ix.logs)

Exec(P, ss, i, env, logs) ==
    IF i > Len(ss) THEN OkR(Unit, env, logs)
    ELSE LET s == ss[i] IN
    CASE s.k = "let" ->
            LET r == Eval(P, s.e, env, logs) IN
            IF r.sig # "ok" THEN r ELSE Exec(P, ss, i + 1, Upd(r.env, s.x, r.v), r.logs)
      [] s.k = "letpat" ->     \* irrefutable destructuring let
            LET r == Eval(P, s.e, env, logs) IN
            IF r.sig # "ok" THEN r
            ELSE Exec(P, ss, i + 1, BindAll(r.env, Match(s.p, r.v).bs, 1), r.logs)
      [] s.k = "assign" ->
            LET r == Eval(P, s.e, env, logs) IN
            IF r.sig # "ok" THEN r
            ELSE LET p == EvalPath(P, s.path, 1, <<>>, r.env, r.logs) IN
                 IF p.sig # "ok" THEN p
                 ELSE Exec(P, ss, i + 1, Upd(p.env, s.x, SetPath(p.env[s.x], p.v.es, r.v)), p.logs)
      [] s.k = "expr" ->
            LET r == Eval(P, s.e, env, logs) IN
            IF r.sig # "ok" THEN r ELSE Exec(P, ss, i + 1, r.env, r.logs)
      [] s.k = "log" ->
            LET r == Eval(P, s.e, env, logs) IN
            IF r.sig # "ok" THEN r ELSE Exec(P, ss, i + 1, r.env, Append(r.logs, Enc(r.v)))
      [] s.k = "while" ->
            LET r == ExecWhile(P, s, env, logs, 0) IN
            IF r.sig # "ok" THEN r ELSE Exec(P, ss, i + 1, r.env, r.logs)
      [] s.k = "break" -> R("brk", Unit, env, logs, <<>>)
      [] s.k = "continue" -> R("cont", Unit, env, logs, <<>>)
      [] s.k = "return" ->
            LET r == Eval(P, s.e, env, logs) IN
            IF r.sig # "ok" THEN r ELSE R("ret", r.v, r.env, r.logs, <<>>)
      [] s.k = "require" ->    \* require(c, code): log the code value, then revert with the require signal
            LET c == Eval(P, s.c, env, logs) IN
            IF c.sig # "ok" THEN c
            ELSE IF c.v.v THEN Exec(P, ss, i + 1, c.env, c.logs)
            ELSE LET v == Eval(P, s.code, c.env, c.logs) IN
                 IF v.sig # "ok" THEN v
                 ELSE AbortR(v.env, Append(v.logs, Enc(v.v)), CodeRequire)
      [] s.k = "assert" ->
            LET c == Eval(P, s.c, env, logs) IN
            IF c.sig # "ok" THEN c
            ELSE IF c.v.v THEN Exec(P, ss, i + 1, c.env, c.logs)
            ELSE AbortR(c.env, c.logs, CodeAssert)
      [] s.k = "revert" ->
            LET c == Eval(P, s.code, env, logs) IN
            IF c.sig # "ok" THEN c ELSE AbortR(c.env, c.logs, ToBE(c.v.b))

ExecWhile(P, s, env, logs, n) ==
    IF n >= MaxLoop THEN AbortR(env, logs, <<9, 9, 9, 9, 9, 9, 9, 9>>)    \* fuel: never reached by generated programs
    ELSE LET c == Eval(P, s.c, env, logs) IN
         IF c.sig # "ok" THEN c
         ELSE IF ~c.v.v THEN OkR(Unit, c.env, c.logs)
         ELSE LET b == EvalBlock(P, s.b, c.env, c.logs) IN
              IF b.sig = "ok" \/ b.sig = "cont" THEN ExecWhile(P, s, b.env, b.logs, n + 1)
              ELSE IF b.sig = "brk" THEN OkR(Unit, b.env, b.logs)
              ELSE b                                              \* ret / abort propagate

(***************************************************************************)
(* Observable behaviour of one entry point (a test body or main).          *)
(*   [logs |-> sequence of byte sequences, out |-> "return" | "revert",    *)
(*    code |-> revert code (BE 8 bytes) or <<>>, ret |-> encoded value]    *)
(***************************************************************************)
EmptyEnv == [x \in {} |-> Unit]

Run(P, body) ==
    LET r == EvalBlock(P, body, EmptyEnv, <<>>) IN
    IF r.sig = "abort" THEN [logs |-> r.logs, out |-> "revert", code |-> r.code, ret |-> <<>>]
    ELSE [logs |-> r.logs, out |-> "return", code |-> <<>>, ret |-> Enc(r.v)]
=============================================================================
