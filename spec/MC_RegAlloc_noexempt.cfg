CONSTANTS
  MaxLen = 3
  NV = 3
  NP = 2
  Kinds = {"const", "mov", "out"}
  Rule = "noexempt"
  Filter = FALSE
  RandLens = {}
  RandKinds = {}
  RandCount = 0
SPECIFICATION Spec
INVARIANT ExemptionNeeded
CHECK_DEADLOCK FALSE
