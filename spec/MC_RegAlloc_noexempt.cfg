CONSTANTS
  MaxLen = 3
  NV = 3
  NP = 2
  Kinds = {"const", "mov", "out"}
  Rule = "noexempt"
  Filter = FALSE
  RandLen = 0
  RandCount = 0
SPECIFICATION Spec
INVARIANT AllocatedRunAgrees
INVARIANT ExemptionNeeded
CHECK_DEADLOCK FALSE
