CONSTANTS N = 3  BigMin = 5  BigMax = 12  Reps = 4
INIT BigInit
NEXT NoNext
INVARIANT PrintReplay
CHECK_DEADLOCK FALSE
