\* every history of <= 3 client actions (opening + 2), as replay records
CONSTANTS
  Mods = {"main", "a", "b", "c"}
  NNames = 2
  MaxItems = 3
  MaxHist = 3
  Kinds = {"add", "delete", "rename", "sig", "arg", "ws"}
  CancelAt = {}
  Inits = {"base"}
  KeepHist = TRUE
SPECIFICATION Spec
INVARIANT PrintAllReplay
CHECK_DEADLOCK FALSE
