\* C09/C10 design-level model check over the universe "d1" of type trees (see MC_AbiCodec.tla)
CONSTANTS Universe = "d1" SampleD2 = 0 SampleD3 = 0
SPECIFICATION Spec
INVARIANT Inv
CHECK_DEADLOCK FALSE
