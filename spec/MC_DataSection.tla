-------------------------- MODULE MC_DataSection --------------------------
(***************************************************************************)
(* TLC-only additions to DataSection: the exhaustive small model (every    *)
(* sequence of <= MaxCfgs configurables over a type pool, every default,   *)
(* every shape of preceding non-configurable data, both code parities,     *)
(* every victim and replacement value, <= MaxPatches patches) and the      *)
(* replay-record generator for the conformance step (C13.py).              *)
(***************************************************************************)
EXTENDS DataSection, Json, Randomization

CONSTANTS MaxCfgs, MaxPatches, Defaults, Shapes, NBuilds

L(k) == TLeaf(k)
E_mix == TEnum(<<TUnit, L("u64"), TTuple(<<L("u8"), L("bool")>>)>>)
\* model pool: sizes 0, 1, 1, 2, 8, 3 (str[3]), 9 (u8,u64), 8..10 (enum), 2 (array of u8), 9..12 (Option<u32>)
ModelTypes == << L("unit"), L("u8"), L("bool"), L("u16"), L("u64"), TStrArr(3),
                 TStruct(<<L("u8"), L("u64")>>), E_mix, TArray(L("u8"), 2), TOption(L("u32")) >>
\* conformance pool: every static kind
ConfTypes == ModelTypes \o
    << L("u32"), L("u256"), L("b256"), TStrArr(8), TStrArr(9), TTuple(<<L("u8"), L("u8")>>),
       TTuple(<<L("bool"), L("u64"), L("bool")>>), TArray(L("u16"), 3), TArray(E_mix, 2),
       TStruct(<<TArray(E_mix, 2), TStrArr(3)>>), TStruct(<<>>), TEnum(<<TUnit, TUnit>>),
       TEnum(<<L("u64"), L("u64")>>), TResult(L("u8"), L("b256")), TOption(TOption(L("bool"))),
       TStruct(<<L("bool"), TStruct(<<L("u8"), L("u16"), L("u32")>>), TArray(L("bool"), 3)>>),
       TArray(TArray(L("u8"), 3), 2), TTuple(<<TStrArr(1), TStrArr(7)>>) >>

Names == <<"C0", "C1", "C2", "C3", "C4", "C5", "C6", "C7", "C8", "C9", "C10", "C11", "C12", "C13", "C14", "C15", "C16", "C17", "C18", "C19">>
MkCfgs(ts, d) ==      \* ts: sequence of types; default of configurable i: representative (i + d)
    [i \in DOMAIN ts |-> [name |-> Names[i], t |-> ts[i], dflt |-> Nth(Reps(ts[i]), i + d)]]

TypeSeqs(pool, n) == UNION { [1..k -> { pool[i] : i \in DOMAIN pool }] : k \in 0..n }

\* sizes of the non-configurable entries preceding the configurables; Shapes \subseteq 1..4 picks among them
NonCfgShape == << <<>>, <<8>>, <<1, 32>>, <<3, 8, 13>> >>
VARIABLE gen          \* the type sequence of a generated build (unused by the model check)
MCInit ==
    /\ gen = <<>>
    /\ \E ts \in TypeSeqs(ModelTypes, MaxCfgs), d \in Defaults, sh \in Shapes, ni \in {6, 7} :
            InitFrom(MkCfgs(ts, d), NonCfgShape[sh], ni)
MCNext ==
    /\ npatch < MaxPatches /\ UNCHANGED gen
    /\ \E i \in DOMAIN tab : \E k \in DOMAIN Reps(tab[i].t) : Patch(i, Reps(tab[i].t)[k])
MCSpec == MCInit /\ [][MCNext]_<<dsvars, gen>>

(***************************************************************************)
(* Replay records: one per build.  cfgs with defaults and their canonical  *)
(* bytes; runs = the unpatched run, one run per (victim, replacement       *)
(* value), and a few double patches.  Sets: every type of the conformance  *)
(* pool alone; every ordered pair of model types (neighbours, u8/bool      *)
(* padding); fixed-seed random sequences of 3..6; one set of 13 (names     *)
(* C10.. sort before C2).                                                  *)
(***************************************************************************)
ConfSet == { ConfTypes[i] : i \in DOMAIN ConfTypes }
ModelSet == { ModelTypes[i] : i \in DOMAIN ModelTypes }
\* PairCover(k): a_0 b_0 a_1 b_1 ... with a_j = model type j, b_j = model type j + k: over k = 0..9 every ordered
\* pair of model types occurs as neighbours
PairCover(k) == [i \in 1..20 |-> IF i % 2 = 1 THEN ModelTypes[((i - 1) \div 2) + 1]
                                              ELSE ModelTypes[((((i - 2) \div 2) + k) % 10) + 1]]
\* a fixed-seed random sequence of n conformance types (RandomSubset is deterministic under -seed)
RandSeq(n) == [i \in 1..n |-> CHOOSE x \in RandomSubset(1, ConfSet) : TRUE]
GenSeqs ==
    { PairCover(k) : k \in 0..9 }
    \cup { <<ConfTypes[i]>> : i \in {2, 3, 8, 11, 19, 21} }
    \cup { RandSeq(3 + (b % 4)) : b \in 1..NBuilds }
    \cup { [i \in 1..13 |-> ConfTypes[((i * 5) % Len(ConfTypes)) + 1]] }
    \cup { <<>> }
RunsOf(cfgs) ==
    LET singles == UNION { { <<[i |-> i, v |-> Reps(cfgs[i].t)[k], enc |-> EncT(cfgs[i].t, Reps(cfgs[i].t)[k])]>> :
                                k \in DOMAIN Reps(cfgs[i].t) } : i \in DOMAIN cfgs }
        n == Len(cfgs)
        doubles == IF n < 2 THEN {}
                   ELSE { <<[i |-> 1, v |-> Nth(Reps(cfgs[1].t), 2), enc |-> EncT(cfgs[1].t, Nth(Reps(cfgs[1].t), 2))],
                            [i |-> n, v |-> Nth(Reps(cfgs[n].t), 3), enc |-> EncT(cfgs[n].t, Nth(Reps(cfgs[n].t), 3))]>> }
    IN {<<>>} \cup singles \cup doubles
SetToSeq(S) == LET RECURSIVE F(_) F(X) == IF X = {} THEN <<>> ELSE LET x == CHOOSE y \in X : TRUE IN <<x>> \o F(X \ {x}) IN F(S)
GenRec(ts) ==
    LET cfgs == MkCfgs(ts, 0) IN
    [ cfgs |-> [i \in DOMAIN cfgs |-> [name |-> cfgs[i].name, t |-> cfgs[i].t, dflt |-> cfgs[i].dflt,
                                       enc |-> EncT(cfgs[i].t, cfgs[i].dflt), len |-> EncMax(cfgs[i].t)]],
      runs |-> SetToSeq(RunsOf(cfgs)) ]

GenInit == gen \in GenSeqs /\ InitFrom(MkCfgs(gen, 0), <<8>>, 6)
GenNext == FALSE /\ UNCHANGED <<dsvars, gen>>
GenSpec == GenInit /\ [][GenNext]_<<dsvars, gen>>
PrintReplay == PrintT(<<"REPLAY", ToJson(GenRec(gen))>>)
=============================================================================
