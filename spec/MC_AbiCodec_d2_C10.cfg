\* C10 design-level model check over the universe "d2" of type trees (see MC_AbiCodec.tla)
CONSTANTS Universe = "d2" SampleD2 = 0 SampleD3 = 0 Part = 0 NParts = 1 WithNamed = TRUE
SPECIFICATION Spec
INVARIANT InvC10
CHECK_DEADLOCK FALSE
