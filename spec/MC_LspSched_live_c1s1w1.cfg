\* LspSched.tla, repaired protocol, liveness under weak fairness of every thread
CONSTANTS NChange = 1  NSave = 1  NWait = 1
          NChecksFull = 3  TailFullCode = 110  NChecksCached = 2  TailCachedCode = 10
          FixNotify = TRUE  FixOpen = TRUE  FixClear = TRUE  FixSave = TRUE
          KnownMechs = {}
SPECIFICATION FairSpec
INVARIANT TypeOK
INVARIANT TokenOK
INVARIANT SendNeverBlocks
INVARIANT CheckReadsAtomic
INVARIANT ClassificationSound
INVARIANT NoHangButKnown
INVARIANT NoLostEditButKnown
INVARIANT NoDefectEvent
PROPERTY EveryWaiterReturns
CHECK_DEADLOCK FALSE
