CONSTANT MaxEdits = 2
SPECIFICATION Spec
INVARIANT AlwaysLegal
INVARIANT LoweringFirst
INVARIANT PrintReplay
INVARIANT PrintAsm
CHECK_DEADLOCK FALSE
