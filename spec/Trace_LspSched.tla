--------------------------- MODULE Trace_LspSched ---------------------------
(***************************************************************************)
(* Trace validation for C24.  vh-lspsched enforces a schedule on the real   *)
(* sway-lsp server grant by grant and writes what it observed:              *)
(*   {"ev":"Reset"}   a fresh server and fresh handler threads              *)
(*   {"ev":"Init", pos, obs}                                                *)
(*   {"ev":"Step", thr, point, obs:{ic,rt,ch,last}, pos:{thread: point},    *)
(*                 ver, last}      thread thr was granted at step point      *)
(*                 `point`; obs / pos were read after every thread had come  *)
(*                 to rest again                                             *)
(*   {"ev":"End", pos, obs, sym}   after a grace period nothing has moved    *)
(* Every Step must be the Step action of that thread in LspSched, taken      *)
(* from the step point the model has the thread at, and must lead to a       *)
(* model state that shows exactly the observed flags, channel length, last   *)
(* state and thread positions.  An Abort / timeout event never matches.      *)
(***************************************************************************)
EXTENDS LspSched, Json, IOUtils

Rec == ndJsonDeserialize(IOEnv.TRACE)

VARIABLE l

ObsOK(e) == /\ isCompiling = e.obs.ic /\ retrigger = e.obs.rt
            /\ Len(chan) = e.obs.ch /\ lastState = e.obs.last
PosOK(e) == \A t \in DOMAIN e.pos : t \in Threads /\ Pos(t) = e.pos[t]
\* the same about the next state (e is an event of the current position l: it is not primed)
ObsNext(e) == /\ isCompiling' = e.obs.ic /\ retrigger' = e.obs.rt
              /\ Len(chan') = e.obs.ch /\ lastState' = e.obs.last
PosNext(e) == \A t \in DOMAIN e.pos : t \in Threads /\ Pos(t)' = e.pos[t]

\* fields carried by the step point the thread was granted at
VerOfMsg(m) == IF m.kind = "change" THEN m.ver ELSE -1
FieldsOK(e) ==
    CASE e.point = "W.recv"          -> e.ver = VerOfMsg(wmsg)
      [] e.point = "H.load"          -> e.ver = (IF e.thr \in ChangeIds THEN VersionOf(e.thr) ELSE -1)
      [] e.point = "W.clearCompiling" -> e.last = lastState
      [] OTHER -> TRUE

\* the text whose symbols the server shows: that of the last full compilation that committed
SymOK(e) == e.sym = (IF committed THEN ctext ELSE -1)

Show == [ic |-> isCompiling, rt |-> retrigger, ch |-> Len(chan), last |-> lastState,
         pos |-> [t \in Threads |-> Pos(t)]]

\* the properties, judged on the model state the real server was just driven into
Verdict ==
    (Hang' \/ LostEdit') =>
        PrintT(<<"PROP", ToJson([l |-> l, hang |-> Hang', lost |-> LostEdit',
                                 mechs |-> (IF Hang' THEN {HangMechanism'} ELSE {})
                                           \cup (IF LostEdit' THEN {LostEditMechanism'} ELSE {})])>>)

TraceInit == Init /\ l = 1 /\ TLCSet(1, 1)

Advance == l' = l + 1 /\ TLCSet(1, l + 1)

\* a fresh server: the primed copy of LspSched!Init (TLC cannot assign from Init')
TrReset ==
    /\ l <= Len(Rec) /\ Rec[l].ev = "Reset"
    /\ isCompiling' = FALSE /\ retrigger' = FALSE /\ chan' = <<>>
    /\ lastState' = "Uninitialized" /\ epoch' = 0
    /\ pc' = [t \in Threads |-> IF t = "W" THEN "W.loop" ELSE "arrive"]
    /\ wmsg' = NoMsg /\ wchk' = 0 /\ wtext' = 0 /\ wabort' = "no"
    /\ snap' = [h \in Handlers |-> 0] /\ token' = Free
    /\ docVersion' = 0 /\ nextSeq' = 1 /\ seqOf' = [h \in Senders |-> 0] /\ rtSeq' = 0
    /\ done' = [seq |-> 0, text |-> 0, result |-> "none", cached |-> FALSE]
    /\ committed' = FALSE /\ ctext' = 0
    /\ mech' = {}
    /\ Init'            \* ... checked to be exactly Init
    /\ Advance

TrInit ==
    /\ l <= Len(Rec) /\ Rec[l].ev = "Init"
    /\ ~Rec[l].timeout /\ ObsOK(Rec[l]) /\ PosOK(Rec[l])
    /\ UNCHANGED vars /\ Advance

TrStep ==
    /\ l <= Len(Rec) /\ Rec[l].ev = "Step"
    /\ LET e == Rec[l] IN
       /\ ~e.timeout
       /\ e.thr \in Threads /\ Pos(e.thr) = e.point
       /\ FieldsOK(e)
       /\ Step(e.thr)
       /\ \/ ObsNext(e) /\ PosNext(e)
          \/ ~(ObsNext(e) /\ PosNext(e)) /\ PrintT(<<"MISMATCH", l, ToJson(Show'), ToJson(e)>>) /\ FALSE
    /\ Verdict
    /\ Advance

TrEnd ==
    /\ l <= Len(Rec) /\ Rec[l].ev = "End"
    /\ ObsOK(Rec[l]) /\ PosOK(Rec[l]) /\ SymOK(Rec[l])
    /\ UNCHANGED vars /\ Advance

TraceNext == TrReset \/ TrInit \/ TrStep \/ TrEnd
TraceSpec == TraceInit /\ [][TraceNext]_<<vars, l>>

Accepted ==
    IF TLCGet(1) = Len(Rec) + 1 THEN TRUE
    ELSE Print(<<"FIRST-UNMATCHED", TLCGet(1), ToJson(Rec[TLCGet(1)])>>, FALSE)
=============================================================================
