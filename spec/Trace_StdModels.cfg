SPECIFICATION TraceSpec
INVARIANT CapInv
POSTCONDITION Accepted
CHECK_DEADLOCK FALSE
