\* self-test: the algorithm sway-lsp had before the fix (byte offset + UTF-16 character, F5).
\* TLC must report ServerConforms violated.
CONSTANTS
    InitDocs <- AllDocs
    Texts <- Texts01
    MaxLen = 3
    Algo = "byteadd"
SPECIFICATION Spec
INVARIANT ServerConforms
CHECK_DEADLOCK FALSE
