------------------------------ MODULE MatchSem ------------------------------
(***************************************************************************)
(* C14: what a `match` expression means, by brute force over the value     *)
(* space.  A match is a scrutinee type t and a matrix M = sequence of arm  *)
(* patterns.  The compiler's usefulness analysis (usefulness.rs) must       *)
(* agree with the definitions below:                                       *)
(*   Exhaustive(M)   every value of t is matched by some arm               *)
(*   Reachable(M,i)  some value is matched by arm i and by no earlier arm   *)
(*   Arm(M,v)        the least matching arm (what runs at run time)        *)
(*   WitnessOK(ws,M) a reported "missing patterns" list denotes only        *)
(*                   uncovered values (and at least one value)             *)
(*                                                                         *)
(* Types (JSON-shaped records)                                             *)
(*   [k |-> "bool"] [k |-> "u8"] [k |-> "unit"]                            *)
(*   [k |-> "tuple",  ts |-> <<types>>]                                    *)
(*   [k |-> "struct", name, ts |-> <<field types, declaration order>>]     *)
(*   [k |-> "enum",   name, ts |-> <<payload types>>]  tag = index - 1     *)
(* Values: the representation of SwaySem.tla                               *)
(*   [k |-> "b", v] [k |-> "i", t |-> "u8", b |-> <<n>>] [k |-> "u"]       *)
(*   [k |-> "a", es]  [k |-> "e", tag, v]                                  *)
(* Patterns: the vocabulary of SwaySem.tla / lib/swaygen.py                *)
(*   [k |-> "wild"] [k |-> "bind", x] [k |-> "bool", v]                    *)
(*   [k |-> "lit", t |-> "u8", b |-> <<n>>]           (big-endian bytes)   *)
(*   [k |-> "range", t, lo, hi]  inclusive; only compiler witnesses use it *)
(*   [k |-> "tuple", ps]  [k |-> "variant", name, v, p]  [k |-> "or", ps]  *)
(*   [k |-> "struct", name, fs |-> <<[i |-> field index, p |-> pattern]>>, *)
(*    rest |-> BOOLEAN]   fields in the order WRITTEN; fields not listed   *)
(*    (allowed only with `..`, rest = TRUE) are unconstrained.             *)
(***************************************************************************)
EXTENDS Naturals, Sequences, FiniteSets, TLC

BoolV(x) == [k |-> "b", v |-> x]
U8V(n)   == [k |-> "i", t |-> "u8", b |-> <<n>>]
UnitV    == [k |-> "u"]
AggV(es) == [k |-> "a", es |-> es]
EnumV(tag, v) == [k |-> "e", tag |-> tag, v |-> v]

Wild == [k |-> "wild"]

U8Dom == 0..255

\* value of a big-endian byte sequence (literal / range bounds)
RECURSIVE BEVal(_)
BEVal(b) == IF b = <<>> THEN 0 ELSE BEVal(SubSeq(b, 1, Len(b) - 1)) * 256 + b[Len(b)]

(***************************************************************************)
(* Value space of a type, with u8 restricted to a set U of representatives *)
(***************************************************************************)
RECURSIVE Val(_, _), ValProd(_, _, _)
Val(t, U) ==
    CASE t.k = "bool" -> { BoolV(TRUE), BoolV(FALSE) }
      [] t.k = "u8"   -> { U8V(n) : n \in U }
      [] t.k = "unit" -> { UnitV }
      [] t.k = "tuple" \/ t.k = "struct" -> { AggV(es) : es \in ValProd(t.ts, 1, U) }
      [] t.k = "enum" -> UNION { { EnumV(i - 1, v) : v \in Val(t.ts[i], U) } : i \in DOMAIN t.ts }
ValProd(ts, i, U) ==
    IF i > Len(ts) THEN { <<>> }
    ELSE { <<h>> \o r : h \in Val(ts[i], U), r \in ValProd(ts, i + 1, U) }

(***************************************************************************)
(* Well-formed patterns of a type                                          *)
(***************************************************************************)
RECURSIVE WF(_, _)
WF(p, t) ==
    CASE p.k = "wild" \/ p.k = "bind" -> TRUE
      [] p.k = "bool"  -> t.k = "bool"
      [] p.k = "lit"   -> t.k = "u8" /\ BEVal(p.b) \in U8Dom
      [] p.k = "range" -> t.k = "u8"
      [] p.k = "tuple" -> /\ t.k = "tuple" /\ Len(p.ps) = Len(t.ts)
                          /\ \A i \in DOMAIN p.ps : WF(p.ps[i], t.ts[i])
      [] p.k = "struct" ->
            /\ t.k = "struct" /\ p.name = t.name
            /\ \A j \in DOMAIN p.fs : p.fs[j].i \in DOMAIN t.ts /\ WF(p.fs[j].p, t.ts[p.fs[j].i])
            /\ \A j1, j2 \in DOMAIN p.fs : j1 # j2 => p.fs[j1].i # p.fs[j2].i
            /\ (p.rest \/ { p.fs[j].i : j \in DOMAIN p.fs } = DOMAIN t.ts)
      [] p.k = "variant" -> /\ t.k = "enum" /\ p.name = t.name /\ p.v + 1 \in DOMAIN t.ts
                            /\ WF(p.p, t.ts[p.v + 1])
      [] p.k = "or" -> Len(p.ps) >= 2 /\ \A i \in DOMAIN p.ps : WF(p.ps[i], t)
      [] OTHER -> FALSE

(***************************************************************************)
(* Matching                                                                *)
(***************************************************************************)
RECURSIVE Matches(_, _)
Matches(p, v) ==
    CASE p.k = "wild" \/ p.k = "bind" -> TRUE
      [] p.k = "bool"  -> v.v = p.v
      [] p.k = "lit"   -> v.b[1] = BEVal(p.b)
      [] p.k = "range" -> BEVal(p.lo) <= v.b[1] /\ v.b[1] <= BEVal(p.hi)
      [] p.k = "tuple" -> \A i \in DOMAIN p.ps : Matches(p.ps[i], v.es[i])
      [] p.k = "struct" -> \A j \in DOMAIN p.fs : Matches(p.fs[j].p, v.es[p.fs[j].i])
      [] p.k = "variant" -> v.tag = p.v /\ Matches(p.p, v.v)
      [] p.k = "or" -> \E i \in DOMAIN p.ps : Matches(p.ps[i], v)

\* the rows of M matching v
MatchSet(M, v) == { i \in DOMAIN M : Matches(M[i], v) }
Covered(M, v)  == MatchSet(M, v) # {}

Min(S) == CHOOSE x \in S : \A y \in S : x <= y

\* the arm that runs on v (0: none, the match would be rejected as non-exhaustive)
Arm(M, v) == IF Covered(M, v) THEN Min(MatchSet(M, v)) ELSE 0

(***************************************************************************)
(* The u8 region abstraction.  The literals (and range bounds) occurring   *)
(* in a set of patterns cut 0..255 into intervals on which every one of    *)
(* those patterns is constant; the lower end of each interval represents   *)
(* it.  Cuts(ps) is that set of lower ends.                                *)
(***************************************************************************)
RECURSIVE CutsOf(_)
CutsOf(p) ==
    CASE p.k = "lit"   -> { BEVal(p.b), BEVal(p.b) + 1 }
      [] p.k = "range" -> { BEVal(p.lo), BEVal(p.hi) + 1 }
      [] p.k = "tuple" \/ p.k = "or" -> UNION { CutsOf(p.ps[i]) : i \in DOMAIN p.ps }
      [] p.k = "struct" -> UNION { CutsOf(p.fs[j].p) : j \in DOMAIN p.fs }
      [] p.k = "variant" -> CutsOf(p.p)
      [] OTHER -> {}

Cuts(ps) == ({0} \cup UNION { CutsOf(ps[i]) : i \in DOMAIN ps }) \cap U8Dom

\* representative of n: the greatest cut point <= n   (0 \in C)
Rep(C, n) == CHOOSE c \in C : c <= n /\ \A d \in C : d <= n => d <= c

\* v with every u8 leaf replaced by its representative
RECURSIVE Abs(_, _)
Abs(C, v) ==
    CASE v.k = "i" -> U8V(Rep(C, v.b[1]))
      [] v.k = "a" -> AggV([i \in DOMAIN v.es |-> Abs(C, v.es[i])])
      [] v.k = "e" -> EnumV(v.tag, Abs(C, v.v))
      [] OTHER -> v

\* The abstraction is exact for M: a value and its representative match the same rows.
\* (Checked by TLC over the FULL value space, u8 = 0..255, in MC_MatchSem.)
RegionLemma(M, t) ==
    LET C == Cuts(M) IN \A v \in Val(t, U8Dom) : MatchSet(M, v) = MatchSet(M, Abs(C, v))

\* The same fact at the leaves, where it is decided: every u8 literal / range pattern occurring in M
\* is constant on each region.  Matches reaches a u8 leaf of a value only through such a pattern
\* (or a wildcard / binder), so this implies RegionLemma for every type; it is cheap enough to be
\* checked over 0..255 on every enumerated matrix, RegionLemma itself on the smaller types.
RECURSIVE U8Atoms(_)
U8Atoms(p) ==
    CASE p.k = "lit" \/ p.k = "range" -> { p }
      [] p.k = "tuple" \/ p.k = "or" -> UNION { U8Atoms(p.ps[i]) : i \in DOMAIN p.ps }
      [] p.k = "struct" -> UNION { U8Atoms(p.fs[j].p) : j \in DOMAIN p.fs }
      [] p.k = "variant" -> U8Atoms(p.p)
      [] OTHER -> {}
AtomRegionLemma(M) ==
    LET C == Cuts(M)
        A == UNION { U8Atoms(M[i]) : i \in DOMAIN M }
    IN \A n \in U8Dom : \A p \in A : Matches(p, U8V(n)) = Matches(p, U8V(Rep(C, n)))

\* abstract value space that is complete for the patterns ps
AbsVal(t, ps) == Val(t, Cuts(ps))

(***************************************************************************)
(* The three judgements of C14                                             *)
(***************************************************************************)
Exhaustive(M, t) == \A v \in AbsVal(t, M) : Covered(M, v)

Reachable(M, i, t) ==
    \E v \in AbsVal(t, M) : Matches(M[i], v) /\ \A j \in 1..(i - 1) : ~Matches(M[j], v)

Unreachable(M, t) == { i \in DOMAIN M : ~Reachable(M, i, t) }

\* ws: sequence of witness patterns reported as "missing".  The value space is refined by the
\* witnesses' own bounds.  Every value a witness denotes must be uncovered; a witness that
\* denotes no value of the type at all is tolerated as long as the report as a whole denotes one.
WitnessOK(ws, M, t) ==
    LET V == AbsVal(t, M \o ws) IN
    /\ Len(ws) >= 1
    /\ \A k \in DOMAIN ws : WF(ws[k], t)
    /\ \A k \in DOMAIN ws : \A v \in V : Matches(ws[k], v) => ~Covered(M, v)
    /\ \E k \in DOMAIN ws : \E v \in V : Matches(ws[k], v)

(***************************************************************************)
(* Facts TLC checks on every enumerated matrix (MC_MatchSem)               *)
(***************************************************************************)
\* a pattern that cannot fail (the compiler's "catch-all" notion, read semantically)
RECURSIVE Irrefutable(_)
Irrefutable(p) ==
    CASE p.k = "wild" \/ p.k = "bind" -> TRUE
      [] p.k = "tuple" -> \A i \in DOMAIN p.ps : Irrefutable(p.ps[i])
      [] p.k = "struct" -> \A j \in DOMAIN p.fs : Irrefutable(p.fs[j].p)
      [] p.k = "or" -> \E i \in DOMAIN p.ps : Irrefutable(p.ps[i])
      [] OTHER -> FALSE

\* Maranget's reduction used by the compiler: exhaustive iff an extra wildcard arm is unreachable
ExhaustiveIffWildUseless(M, t) ==
    Exhaustive(M, t) <=> ~Reachable(Append(M, Wild), Len(M) + 1, t)

\* the compiler's second flavour of the warning is sound: everything below an irrefutable arm is dead
BelowCatchAllDead(M, t) ==
    LET dead == Unreachable(M, t) IN
    \A i \in DOMAIN M : Irrefutable(M[i]) => (i + 1)..Len(M) \subseteq dead

(***************************************************************************)
(* One-pass evaluation (used by the trace validator and the record         *)
(* printer): the rows matching each abstract value; everything else is     *)
(* read off that table.  TableIsDefinitional, checked by TLC on every      *)
(* enumerated matrix, says the shortcuts are the definitions above; its    *)
(* second conjunct is also the statement "an arm is reachable iff it is    *)
(* the arm that runs on some value".                                       *)
(***************************************************************************)
Table(M, t) == [v \in AbsVal(t, M) |-> MatchSet(M, v)]
TExh(tb) == \A v \in DOMAIN tb : tb[v] # {}
TArm(tb, v) == IF tb[v] = {} THEN 0 ELSE Min(tb[v])
TUnreach(M, tb) == DOMAIN M \ { TArm(tb, v) : v \in DOMAIN tb }

TableIsDefinitional(M, t) ==
    LET tb == Table(M, t) IN
    /\ TExh(tb) = Exhaustive(M, t)
    /\ TUnreach(M, tb) = Unreachable(M, t)
    /\ \A v \in DOMAIN tb : TArm(tb, v) = Arm(M, v)

\* the pattern denoting exactly one (abstract) value: a witness of this shape always exists
RECURSIVE PatOf(_, _)
PatOf(v, t) ==
    CASE v.k = "b" -> [k |-> "bool", v |-> v.v]
      [] v.k = "i" -> [k |-> "lit", t |-> "u8", b |-> v.b]
      [] v.k = "u" -> Wild
      [] v.k = "a" /\ t.k = "tuple" -> [k |-> "tuple", ps |-> [i \in DOMAIN v.es |-> PatOf(v.es[i], t.ts[i])]]
      [] v.k = "a" /\ t.k = "struct" ->
            [k |-> "struct", name |-> t.name, rest |-> FALSE,
             fs |-> [i \in DOMAIN v.es |-> [i |-> i, p |-> PatOf(v.es[i], t.ts[i])]]]
      [] v.k = "e" -> [k |-> "variant", name |-> t.name, v |-> v.tag, p |-> PatOf(v.v, t.ts[v.tag + 1])]

\* non-exhaustive matrices have a valid witness (so requirement (b) is satisfiable)
WitnessExists(M, t) ==
    ~Exhaustive(M, t) =>
        \E v \in AbsVal(t, M) : ~Covered(M, v) /\ WitnessOK(<<PatOf(v, t)>>, M, t)
=============================================================================
