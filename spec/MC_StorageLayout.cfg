\* every declaration with <= 2 fields over the full (type, value) pool, 8 name positions
CONSTANT UnitWord = 0
CONSTANT MaxFields = 2
CONSTANT PoolSel = "full"
CONSTANT NP2 = 0
CONSTANT NP3 = 0
SPECIFICATION Spec
INVARIANT InvReadBack
INVARIANT InvDisjoint
INVARIANT InvFieldIds
INVARIANT InvImgSize
INVARIANT InvEncAgrees
INVARIANT InvWellNamed
CHECK_DEADLOCK FALSE
