\* the strict edge-by-edge reading of the closure property alone: EXPECTED TO BE VIOLATED (finding F2
\* of notes/X01.md): two dependency names for one package, one planned edge
CONSTANTS N = 3  MaxEnv = 1
SPECIFICATION Spec
INVARIANT EveryManifestEntryPlanned
CHECK_DEADLOCK FALSE
