------------------------------ MODULE ForcTest ------------------------------
(***************************************************************************)
(* `forc test` as a specification (C29).                                   *)
(*                                                                         *)
(* A suite is a sequence of tests.  A test is                              *)
(*   [name, beh, key, val, code, exp, expcode]                             *)
(*   beh  : what the test body does                                        *)
(*     "ok"            returns                                             *)
(*     "revert"        revert(code)                                        *)
(*     "panic"         a VM panic (u64 overflow)                           *)
(*     "assert"        assert(false)                                       *)
(*     "require"       require(false, val): logs val, then reverts         *)
(*     "log"           logs val, returns                                   *)
(*     "log_revert"    logs val, then revert(code)                         *)
(*     "write"         storage[key] := val, reads it back and logs it      *)
(*     "write_revert"  storage[key] := val, then revert(code)              *)
(*     "read"          logs storage[key]                                   *)
(*   exp  : "none" | "should_revert" | "should_revert_code" (with expcode) *)
(* Revert codes are symbolic: "zero" (0), "c42" (42), "big" (2^64 - 1),    *)
(* "assert" / "require" (the signals std reverts with).                    *)
(*                                                                         *)
(* Requirement.  Every selected test is executed on the *deployment state* *)
(* (the storage as initialised by the contract's `storage` block), its     *)
(* result is what the test alone produces there (RunAlone), it is reported *)
(* passed exactly when that result meets its declared expectation          *)
(* (Passed), and its logs are its own.  The runner may execute up to       *)
(* Runners tests at a time, in any order.                                  *)
(*                                                                         *)
(* The state machine has two readings, chosen by the constant Shared:      *)
(*   Shared = FALSE  every started test gets its own copy of the           *)
(*                   deployment state (what forc-test does: setup() per    *)
(*                   test + TestExecutor::build clones the storage);       *)
(*   Shared = TRUE   one storage for all tests -- the defective design     *)
(*                   that the invariants must expose (anti-vacuity).       *)
(***************************************************************************)
EXTENDS Naturals, Sequences, FiniteSets, TLC

CONSTANTS Runners,      \* number of runner threads (tests in flight)
          Shared        \* see above

Behaviours == {"ok", "revert", "panic", "assert", "require", "log", "log_revert", "write", "write_revert", "read"}
StorageBehaviours == {"write", "write_revert", "read"}
Expectations == {"none", "should_revert", "should_revert_code"}
Codes == {"zero", "c42", "big", "assert", "require"}
Keys == {0, 1}

\* the deployment state: storage { s0: u64 = 7, s1: u64 = 9 }
Deploy == [k \in Keys |-> IF k = 0 THEN 7 ELSE 9]

Result(out, code, logs) == [out |-> out, code |-> code, logs |-> logs]

\* what the body does on storage `store`: [res |-> Result, store |-> storage afterwards]
Exec(t, store) ==
    CASE t.beh = "ok"           -> [res |-> Result("return", "none", <<>>), store |-> store]
      [] t.beh = "revert"       -> [res |-> Result("revert", t.code, <<>>), store |-> store]
      [] t.beh = "panic"        -> [res |-> Result("revert", "zero", <<>>), store |-> store]      \* VM panic is reported as Revert(0)
      [] t.beh = "assert"       -> [res |-> Result("revert", "assert", <<>>), store |-> store]
      [] t.beh = "require"      -> [res |-> Result("revert", "require", <<t.val>>), store |-> store]
      [] t.beh = "log"          -> [res |-> Result("return", "none", <<t.val>>), store |-> store]
      [] t.beh = "log_revert"   -> [res |-> Result("revert", t.code, <<t.val>>), store |-> store]
      [] t.beh = "write"        -> [res |-> Result("return", "none", <<t.val>>), store |-> [store EXCEPT ![t.key] = t.val]]
      [] t.beh = "write_revert" -> [res |-> Result("revert", t.code, <<>>), store |-> [store EXCEPT ![t.key] = t.val]]
      [] t.beh = "read"         -> [res |-> Result("return", "none", <<store[t.key]>>), store |-> store]

RunAlone(t) == Exec(t, Deploy).res

Passed(t, r) ==
    CASE t.exp = "none"               -> r.out # "revert"
      [] t.exp = "should_revert"      -> r.out = "revert"
      [] t.exp = "should_revert_code" -> r.out = "revert" /\ r.code = t.expcode

\* name filter of `forc test <phrase>`: a test runs iff its name contains the phrase ("" = no filter)
Contains(s, f) == \E i \in 1..(Len(s) - Len(f) + 1) : SubSeq(s, i, i + Len(f) - 1) = f
Selected(t, filter) == filter = "" \/ Contains(t.name, filter)

(***************************************************************************)
(* The runner                                                              *)
(***************************************************************************)
VARIABLES suite,        \* the package's tests
          filter,       \* name filter
          world,        \* the one storage of the Shared reading
          inflight,     \* started tests: index -> private storage
          results       \* finished tests: index -> [res, passed]
vars == <<suite, filter, world, inflight, results>>

NoFn == [x \in {} |-> 0]
Idx == DOMAIN suite

Init0(s, f) ==
    /\ suite = s /\ filter = f
    /\ world = Deploy /\ inflight = NoFn /\ results = NoFn

Start(i) ==
    /\ i \in Idx /\ Selected(suite[i], filter)
    /\ i \notin DOMAIN inflight /\ i \notin DOMAIN results
    /\ Cardinality(DOMAIN inflight) < Runners
    /\ inflight' = [x \in DOMAIN inflight \cup {i} |-> IF x = i THEN Deploy ELSE inflight[x]]
    /\ UNCHANGED <<suite, filter, world, results>>

Finish(i) ==
    /\ i \in DOMAIN inflight
    /\ LET x == Exec(suite[i], IF Shared THEN world ELSE inflight[i]) IN
          /\ results' = [y \in DOMAIN results \cup {i} |->
                            IF y = i THEN [res |-> x.res, passed |-> Passed(suite[i], x.res)] ELSE results[y]]
          /\ world' = IF Shared THEN x.store ELSE world
    /\ inflight' = [y \in DOMAIN inflight \ {i} |-> inflight[y]]
    /\ UNCHANGED <<suite, filter>>

StartSome  == \E i \in Idx : Start(i)
FinishSome == \E i \in Idx : Finish(i)
Next == StartSome \/ FinishSome

AllDone == \A i \in Idx : Selected(suite[i], filter) => i \in DOMAIN results

(***************************************************************************)
(* The property                                                            *)
(***************************************************************************)
\* a finished test's state and logs are those of the test alone on the deployment state;
\* in particular a read observes the initial value (Isolation) and the logs are its own (OwnLogs)
Isolation ==
    \A i \in DOMAIN results :
        suite[i].beh = "read" => results[i].res.logs = <<Deploy[suite[i].key]>>
OwnLogs ==
    \A i \in DOMAIN results : results[i].res.logs = RunAlone(suite[i]).logs
ExactOutcome ==
    \A i \in DOMAIN results : results[i].res = RunAlone(suite[i])
\* reported passed exactly when the execution matches the declared expectation
ExactReport ==
    \A i \in DOMAIN results : results[i].passed = Passed(suite[i], RunAlone(suite[i]))
\* only selected tests run
OnlySelected ==
    \A i \in DOMAIN results \cup DOMAIN inflight : Selected(suite[i], filter)

\* the meaning of the expectation, spelled out (checked on every test of every enumerated suite)
PassedMeaning(t) ==
    LET r == RunAlone(t) reverted == r.out = "revert" IN
    Passed(t, r) <=> \/ t.exp = "none" /\ ~reverted
                     \/ t.exp = "should_revert" /\ reverted
                     \/ t.exp = "should_revert_code" /\ reverted /\ r.code = t.expcode
=============================================================================
