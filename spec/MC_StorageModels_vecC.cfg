\* all histories over vecC alone (u8 elements, padded to a word each), lengths 0..5
CONSTANT UnitWord = 0
CONSTANT Active = {"vecC"}
CONSTANT Vals = {1, 2}
CONSTANT Keys = {1, 2}
CONSTANT MaxLen = 5
CONSTANT SliceLens = {0, 1}
CONSTANT VecArgs = {0, 1, 21}
SPECIFICATION Spec
INVARIANT Refines
INVARIANT RetAgree
PROPERTY FrameProp
CHECK_DEADLOCK FALSE
