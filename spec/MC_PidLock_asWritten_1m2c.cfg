\* protocol as written at the pinned commit (truncate in place): F9 witness
CONSTANTS
  Procs = {1, 2, 3}
  Prog <- Prog_1m2c
  AtomicPublish = FALSE
  InitFiles = {"absent", "empty", "garbage", "ghost"}
  MaxCrashes = 1
SPECIFICATION MCSpec
INVARIANT TypeOK
INVARIANT CulpritRecorded
INVARIANT LossReport
INVARIANT UnseenReport
INVARIANT StaleWitness
CHECK_DEADLOCK FALSE
