----------------------------- MODULE ConstEval -----------------------------
(***************************************************************************)
(* C06  Compile-time evaluation agrees with run-time evaluation.           *)
(*                                                                         *)
(* A *case* is one constant expression of the Sway-mini AST (SwaySem.tla): *)
(* literals combined by one operator, a cast, or a two-operator chain.     *)
(*                                                                         *)
(* Three evaluators are specified:                                         *)
(*   Sem(e)   the run-time meaning (SwaySem.Eval over IntSem): a value or  *)
(*            Abort.  This is the reference: what the program does on the  *)
(*            VM when nothing is known at compile time.                    *)
(*   CE(e)    the compiler's front-end constant evaluator as the code has  *)
(*            it (sway-core const_eval.rs reading std's operator           *)
(*            implementations in sway-lib-std/src/ops.sw and               *)
(*            primitive_conversions): a value, a *refusal* (compile error  *)
(*            "Could not evaluate initializer ..."), or a compiler panic.  *)
(*   Fold(..) the IR constant-folding rules of sway-ir                     *)
(*            optimize/constants.rs on one IR instruction with constant    *)
(*            operands: a value or "not folded".                           *)
(*                                                                         *)
(* The property (checked by TLC on every case of the pool):                *)
(*   Agreement       CE / Fold produce a value  =>  Sem produces the same  *)
(*   NoSubstitution  Sem aborts  =>  CE refuses and Fold does not fold     *)
(*   NoPanic         CE never panics                                       *)
(* Conformance (Trace_ConstEval) binds the real compiler and the VM to     *)
(* Sem (run time), to Allowed(e) (compile time) and checks the folded      *)
(* build against Sem.                                                      *)
(***************************************************************************)
EXTENDS SwaySem, FiniteSets

CONSTANT F12Fixed      \* TRUE: const_eval.rs uses checked_rem for u256 (the repaired tree)

(***************************************************************************)
(* Expressions                                                             *)
(***************************************************************************)
Lit(t, b)      == [k |-> "lit", t |-> t, b |-> ToBE(b)]       \* b little-endian (Bytes.tla); the AST holds big-endian
Bin(op, l, r)  == [k |-> "bin", op |-> op, l |-> l, r |-> r]
Un(e)          == [k |-> "un", e |-> e]
Cast(t, e)     == [k |-> "cast", t |-> t, e |-> e]
TryCast(t, e)  == [k |-> "trycast", t |-> t, e |-> e]

(***************************************************************************)
(* Boundary operands  B(t) = {0, 1, 2, max, max-1, 2^(w/2), 2^(w-1),       *)
(* 2^(w-1)+1, 2^(w-1)-1, mid}  and shift amounts.                          *)
(***************************************************************************)
One(w) == FromNat(1, w)
PowTwo(k, w) == Shl(One(w), k)
\* 0x5AA5..: a value with no special structure, below 2^(w-1)
Mid(t) == LET w == WidthOf(t) IN [i \in 1..w |-> IF (w - i) % 2 = 0 THEN 90 ELSE 165]

Boundary(t) ==
    LET w == WidthOf(t) bits == 8 * w IN
    { Zero(w), One(w), FromNat(2, w), MaxOf(t), Sub(MaxOf(t), One(w)).v,
      PowTwo(bits \div 2, w), PowTwo(bits - 1, w),
      Add(PowTwo(bits - 1, w), One(w)).v, Sub(PowTwo(bits - 1, w), One(w)).v, Mid(t) }

\* shift amounts are u64 values
ShiftAmountsNat(t) == LET bits == BitsOf(t) IN {0, 1, bits - 1, bits, bits + 1, 63, 64, 255, 256}
Huge == PowTwo(32, 8)                            \* 2^32: does not fit the u32 the evaluators convert the amount to
ShiftAmounts(t) ==
    { FromNat(n, 8) : n \in ShiftAmountsNat(t) } \cup (IF WidthOf(t) <= 8 THEN {Huge} ELSE {})

\* operands of the two-operator chains
ChainOperands(t) == LET w == WidthOf(t) IN { One(w), Sub(MaxOf(t), One(w)).v, PowTwo(8 * w - 1, w) }
ChainAmounts(t) == { FromNat(n, 8) : n \in {1, BitsOf(t) - 1, BitsOf(t)} }
ChainOpPairs == { <<"add", "sub">>, <<"sub", "add">>, <<"mul", "div">>, <<"div", "mul">> }

ResultType(op, t) == IF op \in CmpOps THEN "bool" ELSE t

Case(cls, ty, e) == [cls |-> cls, ty |-> ty, e |-> e]

NarrowerThan(t2) == { t1 \in IntTypes : WidthOf(t1) < WidthOf(t2) }

(***************************************************************************)
(* The pool, by class.                                                     *)
(***************************************************************************)
BinCases(t) ==
    { Case("bin", ResultType(op, t), Bin(op, Lit(t, a), Lit(t, b)))
        : op \in ArithOps \cup BitOps \cup CmpOps, a \in Boundary(t), b \in Boundary(t) }
ShiftCases(t) ==
    { Case("shift", t, Bin(op, Lit(t, a), Lit("u64", n)))
        : op \in ShiftOps, a \in Boundary(t), n \in ShiftAmounts(t) }
NotCases(t) == { Case("not", t, Un(Lit(t, a))) : a \in Boundary(t) }
B256Cases ==
    LET t == "b256" IN
    { Case("b256", ResultType(op, t), Bin(op, Lit(t, a), Lit(t, b)))
        : op \in BitOps \cup CmpOps, a \in Boundary(t), b \in Boundary(t) }
    \cup { Case("b256", t, Bin(op, Lit(t, a), Lit("u64", n)))
        : op \in ShiftOps, a \in Boundary(t), n \in ShiftAmounts(t) }
    \cup { Case("b256", t, Un(Lit(t, a))) : a \in Boundary(t) }
WidenCases(t2) ==
    UNION { { Case("widen", t2, Cast(t2, Lit(t1, a))) : a \in Boundary(t1) } : t1 \in NarrowerThan(t2) }
NarrowCases(t2) ==
    UNION { { Case("narrow", t2, TryCast(t2, Lit(t1, a))) : a \in Boundary(t1) }
            : t1 \in { t \in IntTypes : WidthOf(t) > WidthOf(t2) } }
ReinterpretCases ==
    { Case("widen", "b256", Cast("b256", Lit("u256", a))) : a \in Boundary("u256") }
    \cup { Case("widen", "u256", Cast("u256", Lit("b256", a))) : a \in Boundary("b256") }
ChainCases(t) ==
    { Case("chain", t, Bin(p[2], Bin(p[1], Lit(t, a), Lit(t, b)), Lit(t, c)))
        : p \in ChainOpPairs, a \in ChainOperands(t), b \in ChainOperands(t), c \in ChainOperands(t) }
    \cup { Case("chain", t, Bin(p[1], Lit(t, a), Bin(p[2], Lit(t, b), Lit(t, c))))
        : p \in ChainOpPairs, a \in ChainOperands(t), b \in ChainOperands(t), c \in ChainOperands(t) }
    \cup { Case("chain", t, Bin(p[2], Bin(p[1], Lit(t, a), Lit("u64", n)), Lit("u64", m)))
        : p \in { <<"shl", "shr">>, <<"shr", "shl">> }, a \in ChainOperands(t),
          n \in ChainAmounts(t), m \in ChainAmounts(t) }
    \cup { Case("chain", t, Un(Bin(op, Lit(t, a), Lit(t, b))))
        : op \in {"and", "sub"}, a \in ChainOperands(t), b \in ChainOperands(t) }

CasesOf(cls, t) ==
    CASE cls = "bin" -> BinCases(t)
      [] cls = "shift" -> ShiftCases(t)
      [] cls = "not" -> NotCases(t)
      [] cls = "widen" -> WidenCases(t)
      [] cls = "narrow" -> NarrowCases(t)
      [] cls = "chain" -> ChainCases(t)
Classes == {"bin", "shift", "not", "widen", "narrow", "chain"}

(***************************************************************************)
(* Sem: the run-time meaning.  A case uses no functions or variables.      *)
(***************************************************************************)
NoProg == [fns |-> <<>>]
Val(bytes) == [k |-> "val", v |-> bytes]        \* bytes = canonical (ABI) encoding of the value: what `log` emits
Refuse == [k |-> "refuse", v |-> <<>>]
Panic  == [k |-> "panic", v |-> <<>>]
AbortS == [k |-> "abort", v |-> <<>>]

Sem(e) ==
    LET r == Eval(NoProg, e, EmptyEnv, <<>>) IN
    IF r.sig = "ok" THEN Val(Enc(r.v)) ELSE AbortS

(***************************************************************************)
(* The model: one case is drawn, evaluated at run time, then by the        *)
(* compiler's two evaluators.                                              *)
(***************************************************************************)
CONSTANTS ClsSel, TySel        \* which classes / operand types this run enumerates

Pool == UNION { CasesOf(cls, t) : cls \in ClsSel \cap Classes, t \in TySel \cap IntTypes }
          \cup (IF "b256" \in ClsSel THEN B256Cases \cup ReinterpretCases ELSE {})

VARIABLES c, phase, sem
vars == <<c, phase, sem>>

None == [k |-> "none", v |-> <<>>]

Init == c \in Pool /\ phase = "new" /\ sem = None

RunTime == phase = "new" /\ sem' = Sem(c.e) /\ phase' = "done" /\ UNCHANGED c

Next == RunTime
Spec == Init /\ [][Next]_vars

Done == phase = "done"
=============================================================================
