----------------------------- MODULE ConstEval -----------------------------
(***************************************************************************)
(* C06  Compile-time evaluation agrees with run-time evaluation.           *)
(*                                                                         *)
(* A *case* is one constant expression of the Sway-mini AST (SwaySem.tla): *)
(* literals combined by one operator, a cast, a two-operator chain, or a   *)
(* tuple / array of such expressions.                                      *)
(*                                                                         *)
(* Three evaluators are specified:                                         *)
(*   Sem(e)   the run-time meaning (SwaySem.Eval over IntSem): a value or  *)
(*            Abort.  This is the reference: what the program does on the  *)
(*            VM when nothing is known at compile time.                    *)
(*   CE(e)    the compiler's front-end constant evaluator as the code has  *)
(*            it (sway-core const_eval.rs reading std's operator           *)
(*            implementations in sway-lib-std/src/ops.sw and               *)
(*            primitive_conversions): a value, a *refusal* (compile error  *)
(*            "Could not evaluate initializer ..."), or a compiler panic.  *)
(*   Fold(..) the IR constant-folding rules of sway-ir                     *)
(*            optimize/constants.rs on one IR instruction with constant    *)
(*            operands: a value or "not folded".                           *)
(*                                                                         *)
(* The property (checked by TLC on every case of the pool):                *)
(*   Agreement       CE produces a value  =>  Sem produces the same value  *)
(*   NoSubstitution  Sem aborts  =>  CE refuses (a compile error)          *)
(*   NoPanic         CE never panics                                       *)
(*   InRange         the constant built for a narrow type fits the type    *)
(*   FoldSound       a folded instruction = what the VM computes for it    *)
(* Conformance (Trace_ConstEval) binds the VM to Sem (run time), the real  *)
(* compiler to AllowedCompileTime (const / configurable), the optimized    *)
(* build to Sem, and the real const-folding pass to FoldOf exactly.        *)
(***************************************************************************)
EXTENDS SwaySem, FiniteSets

CONSTANTS BSel,          \* indices (1..10) of the boundary operands to use
          ChainSel,      \* operator pairs ("add-sub", ...) of the arithmetic chains to use
          F12Fixed,      \* TRUE: const_eval.rs uses checked_rem for u256 (the repaired tree)
          B256CmpFixed    \* TRUE: const_eval.rs compares b256 constants in Gt / Lt (the repaired tree)

(***************************************************************************)
(* Expressions                                                             *)
(***************************************************************************)
Lit(t, b)      == [k |-> "lit", t |-> t, b |-> ToBE(b)]       \* b little-endian (Bytes.tla); the AST holds big-endian
Bin(op, l, r)  == [k |-> "bin", op |-> op, l |-> l, r |-> r]
Un(e)          == [k |-> "un", e |-> e]
Cast(t, e)     == [k |-> "cast", t |-> t, e |-> e]
TryCast(t, e)  == [k |-> "trycast", t |-> t, e |-> e]

(***************************************************************************)
(* Boundary operands  B(t) = {0, 1, 2, max, max-1, 2^(w/2), 2^(w-1),       *)
(* 2^(w-1)+1, 2^(w-1)-1, mid}  and shift amounts.                          *)
(***************************************************************************)
One(w) == FromNat(1, w)
PowTwo(k, w) == Shl(One(w), k)
\* 0x5AA5..: a value with no special structure, below 2^(w-1)
Mid(t) == LET w == WidthOf(t) IN [i \in 1..w |-> IF (w - i) % 2 = 0 THEN 90 ELSE 165]

BoundarySeq(t) ==
    LET w == WidthOf(t) bits == 8 * w IN
    << Zero(w), One(w), FromNat(2, w), MaxOf(t), Sub(MaxOf(t), One(w)).v,
       PowTwo(bits \div 2, w), PowTwo(bits - 1, w),
       Add(PowTwo(bits - 1, w), One(w)).v, Sub(PowTwo(bits - 1, w), One(w)).v, Mid(t) >>
\* BSel: which of the ten boundary values this run uses (1..10 = all; the quick tier takes five,
\* rotated by the seed so that every ordered pair is met by some seed)
Boundary(t) == { BoundarySeq(t)[i] : i \in BSel }

\* shift amounts are u64 values
ShiftAmountsNat(t) == LET bits == BitsOf(t) IN {0, 1, bits - 1, bits, bits + 1, 63, 64, 255, 256}
Huge == PowTwo(32, 8)                            \* 2^32: does not fit the u32 the evaluators convert the amount to
ShiftAmounts(t) ==
    { FromNat(n, 8) : n \in ShiftAmountsNat(t) } \cup (IF WidthOf(t) <= 8 THEN {Huge} ELSE {})

\* operands of the two-operator chains
ChainOperands(t) == LET w == WidthOf(t) IN { One(w), Sub(MaxOf(t), One(w)).v, PowTwo(8 * w - 1, w) }
ChainAmounts(t) == { FromNat(n, 8) : n \in {1, BitsOf(t) - 1, BitsOf(t)} }
ChainOpPairs == { p \in { <<"add", "sub">>, <<"sub", "add">>, <<"mul", "div">>, <<"div", "mul">> } : p[1] \o "-" \o p[2] \in ChainSel }

ResultType(op, t) == IF op \in CmpOps THEN "bool" ELSE t

Case(cls, ty, e) == [cls |-> cls, ty |-> ty, e |-> e]

NarrowerThan(t2) == { t1 \in IntTypes : WidthOf(t1) < WidthOf(t2) }

(***************************************************************************)
(* The pool, by class.                                                     *)
(***************************************************************************)
BinCases(t) ==
    { Case("bin", ResultType(op, t), Bin(op, Lit(t, a), Lit(t, b)))
        : op \in ArithOps \cup BitOps \cup CmpOps, a \in Boundary(t), b \in Boundary(t) }
ShiftCases(t) ==
    { Case("shift", t, Bin(op, Lit(t, a), Lit("u64", n)))
        : op \in ShiftOps, a \in Boundary(t), n \in ShiftAmounts(t) }
NotCases(t) == { Case("not", t, Un(Lit(t, a))) : a \in Boundary(t) }
B256Cases ==
    LET t == "b256" IN
    { Case("b256", ResultType(op, t), Bin(op, Lit(t, a), Lit(t, b)))
        : op \in BitOps \cup CmpOps, a \in Boundary(t), b \in Boundary(t) }
    \cup { Case("b256", t, Bin(op, Lit(t, a), Lit("u64", n)))
        : op \in ShiftOps, a \in Boundary(t), n \in ShiftAmounts(t) }
    \cup { Case("b256", t, Un(Lit(t, a))) : a \in Boundary(t) }
WidenCases(t2) ==
    UNION { { Case("widen", t2, Cast(t2, Lit(t1, a))) : a \in Boundary(t1) } : t1 \in NarrowerThan(t2) }
NarrowCases(t2) ==
    UNION { { Case("narrow", t2, TryCast(t2, Lit(t1, a))) : a \in Boundary(t1) }
            : t1 \in { t \in IntTypes : WidthOf(t) > WidthOf(t2) } }
ReinterpretCases ==
    { Case("widen", "b256", Cast("b256", Lit("u256", a))) : a \in Boundary("u256") }
    \cup { Case("widen", "u256", Cast("u256", Lit("b256", a))) : a \in Boundary("b256") }
ChainCases(t) ==
    { Case("chain", t, Bin(p[2], Bin(p[1], Lit(t, a), Lit(t, b)), Lit(t, c)))
        : p \in ChainOpPairs, a \in ChainOperands(t), b \in ChainOperands(t), c \in ChainOperands(t) }
    \cup { Case("chain", t, Bin(p[1], Lit(t, a), Bin(p[2], Lit(t, b), Lit(t, c))))
        : p \in ChainOpPairs, a \in ChainOperands(t), b \in ChainOperands(t), c \in ChainOperands(t) }
    \cup { Case("chain", t, Bin(p[2], Bin(p[1], Lit(t, a), Lit("u64", n)), Lit("u64", m)))
        : p \in { <<"shl", "shr">>, <<"shr", "shl">> }, a \in ChainOperands(t),
          n \in ChainAmounts(t), m \in ChainAmounts(t) }
    \cup { Case("chain", t, Un(Bin(op, Lit(t, a), Lit(t, b))))
        : op \in {"and", "sub"}, a \in ChainOperands(t), b \in ChainOperands(t) }

\* aggregates: a tuple and an array whose elements are operator applications (evaluated left to right)
AggOps == {"add", "sub", "mul", "div"}
AggCases(t) ==
    IF t \notin {"u8", "u64", "u256"} THEN {}
    ELSE { Case("agg", "(" \o t \o ", " \o t \o ")",
                [k |-> "tuple", es |-> <<Bin(op, Lit(t, a), Lit(t, b)), Lit(t, a)>>])
             : op \in AggOps, a \in ChainOperands(t), b \in ChainOperands(t) }
         \cup { Case("agg", "[" \o t \o "; 2]",
                [k |-> "array", es |-> <<Bin(op, Lit(t, a), Lit(t, b)), Bin(op, Lit(t, b), Lit(t, a))>>])
             : op \in AggOps, a \in ChainOperands(t), b \in ChainOperands(t) }

CasesOf(cls, t) ==
    CASE cls = "bin" -> BinCases(t)
      [] cls = "shift" -> ShiftCases(t)
      [] cls = "not" -> NotCases(t)
      [] cls = "widen" -> WidenCases(t)
      [] cls = "narrow" -> NarrowCases(t)
      [] cls = "chain" -> ChainCases(t)
      [] cls = "agg" -> AggCases(t)
Classes == {"bin", "shift", "not", "widen", "narrow", "chain", "agg"}

(***************************************************************************)
(* Sem: the run-time meaning.  A case uses no functions or variables.      *)
(***************************************************************************)
NoProg == [fns |-> <<>>]
Val(bytes) == [k |-> "val", v |-> bytes]        \* bytes = canonical (ABI) encoding of the value: what `log` emits
Refuse == [k |-> "refuse", v |-> <<>>]
Panic  == [k |-> "panic", v |-> <<>>]
AbortS == [k |-> "abort", v |-> <<>>]

Sem(e) ==
    LET r == Eval(NoProg, e, EmptyEnv, <<>>) IN
    IF r.sig = "ok" THEN Val(Enc(r.v)) ELSE AbortS

(***************************************************************************)
(* CE: the front-end constant evaluator, as the code has it.               *)
(*                                                                         *)
(* An IR constant of type u8..u64 is ConstantValue::Uint(u64) plus its     *)
(* type; u256 and b256 are 256-bit BigUints.  Here: the *representation*   *)
(* of a value of type t is 8 bytes (Uint) or 32 bytes, little-endian.      *)
(* Evaluation result: V(t, r) | Refuse | Panic.                            *)
(***************************************************************************)
RepW(t) == IF t \in {"u256", "b256"} THEN 32 ELSE 8
V(t, r) == [k |-> "val", t |-> t, r |-> r]
IsWide(t) == t \in {"u256", "b256"}
MaxRep(t) == Resize(MaxOf(t), RepW(t))

\* --- const_eval_intrinsic (sway-core/src/ir_generation/const_eval.rs) ---
\* Add | Sub | Mul | Div | Mod.  Uint: "All arithmetic is done as if it were u64" with checked_*;
\* U256: checked_* of sway-types/src/u256.rs, except Mod which called BigUint `rem` (panics on a
\* zero divisor) before the repair F12.
CEArith(op, t, a, b) ==
    IF t = "u256" THEN
        IF op = "mod" /\ IsZero(b) /\ ~F12Fixed THEN Panic
        ELSE LET x == Arith(op, "u256", a, b) IN IF x.ok THEN V(t, x.v) ELSE Refuse
    ELSE LET x == Arith(op, "u64", a, b) IN IF x.ok THEN V(t, x.v) ELSE Refuse

\* And | Or | Xor: Uint, U256, B256
CEBitw(op, t, a, b) == V(t, Bitw(op, t, a, b).v)

\* Lsh | Rsh.  Uint: u32::try_from(amount) then u64::checked_shl / checked_shr (None when the amount
\* is >= 64; bits shifted out of the 64 are dropped silently).  U256 / B256: `shr` of the BigUint;
\* checked_shl = BigUint shl, refused when the result needs more than 256 bits.
CEShift(op, t, a, n) ==
    IF IsWide(t) THEN
        IF op = "shr" THEN V(t, IF IsSmall(n) THEN Shr(a, ToNat(n)) ELSE Zero(32))
        ELSE IF IsZero(a) THEN V(t, a)
        ELSE IF ~IsSmall(n) \/ ToNat(n) >= 256 THEN Refuse
        ELSE IF Shr(Shl(a, ToNat(n)), ToNat(n)) = a THEN V(t, Shl(a, ToNat(n))) ELSE Refuse
    ELSE IF ~IsSmall(n) \/ ToNat(n) >= 64 THEN Refuse
         ELSE V(t, IF op = "shl" THEN Shl(a, ToNat(n)) ELSE Shr(a, ToNat(n)))

\* Not: `!(*n as u8) as u64` etc.; U256 / B256: all 256 bits
CENot(t, a) == IF IsWide(t) THEN V(t, BNot(a)) ELSE V(t, Resize(BNot(Resize(a, WidthOf(t))), 8))

\* Eq: equality of the two constants.  Gt | Lt: Uint and U256 only -- a B256 operand reaches
\* `unreachable!("Type checker allowed non integer value ...")` unless B256CmpFixed.
CEBool(x) == V("bool", <<IF x THEN 1 ELSE 0>>)
CECmp(op, t, a, b) ==
    IF op = "eq" THEN CEBool(a = b)
    ELSE IF t = "b256" /\ ~B256CmpFixed THEN Panic
    ELSE CEBool(IF op = "lt" THEN Lt(a, b) ELSE Lt(b, a))

\* --- std's operator implementations, which the evaluator interprets (sway-lib-std/src/ops.sw) ---
\*   u64, u256 (b256)    the intrinsic itself
\*   u16, u32  + - *     __add(__transmute::<Self, u64>(a), ...); if __gt(res, MAX) { if
\*                       panic_on_overflow_enabled() [an asm block: not evaluable] ...} else transmute back
\*   u8        + - *     operands converted by asm blocks (u8_as_u64): never evaluable
\*   narrow    <<        __and(__lsh(a, n), Self::max());   !  is __and(__not(a), Self::max())
\*   / % >> & | ^  == < > on every width: the intrinsic on the Uint representation
\*   !=  is  eq().not();   <=  is  lt() || eq();   >=  is  gt() || eq()
StdBin(op, t, a, b) ==
    IF op \in {"add", "sub", "mul"} THEN
        IF t = "u8" THEN Refuse
        ELSE IF t \in {"u16", "u32"} THEN
            LET x == CEArith(op, "u64", a, b) IN
            IF x.k # "val" THEN x
            ELSE IF Lt(MaxRep(t), x.r) THEN Refuse ELSE V(t, x.r)
        ELSE CEArith(op, t, a, b)
    ELSE IF op \in {"div", "mod"} THEN CEArith(op, t, a, b)
    ELSE IF op \in BitOps THEN CEBitw(op, t, a, b)
    ELSE IF op = "shr" THEN CEShift(op, t, a, b)
    ELSE IF op = "shl" THEN
        LET x == CEShift(op, t, a, b) IN
        IF x.k # "val" \/ IsWide(t) \/ t = "u64" THEN x ELSE CEBitw("and", t, x.r, MaxRep(t))
    ELSE IF op \in {"eq", "lt", "gt"} THEN CECmp(op, t, a, b)
    ELSE IF op = "ne" THEN LET x == CECmp("eq", t, a, b) IN CEBool(x.r = <<0>>)
    ELSE \* le / ge : lazy `||`
        LET x == CECmp(IF op = "le" THEN "lt" ELSE "gt", t, a, b) IN
        IF x.k # "val" THEN x ELSE IF x.r = <<1>> THEN x ELSE CECmp("eq", t, a, b)

StdNot(t, a) ==
    LET x == CENot(t, a) IN IF IsWide(t) \/ t = "u64" THEN x ELSE CEBitw("and", t, x.r, MaxRep(t))

\* --- the evaluator on a case expression.  Arguments are evaluated left to right; the first one
\* that is not a constant decides.  std's conversions (as_uN: asm blocks or __transmute to u256,
\* which Transmute does not support; try_from: the same, then Option::unwrap) are never evaluable.
RECURSIVE CEv(_), CEvSeq(_, _, _)
CEv(e) ==
    CASE e.k = "lit" -> V(e.t, Resize(FromBE(e.b), RepW(e.t)))
      [] e.k = "tuple" \/ e.k = "array" -> CEvSeq(e.es, 1, <<>>)
      [] e.k = "un" -> LET x == CEv(e.e) IN IF x.k # "val" THEN x ELSE StdNot(x.t, x.r)
      [] e.k = "bin" ->
            LET x == CEv(e.l) IN
            IF x.k # "val" THEN x
            ELSE LET y == CEv(e.r) IN IF y.k # "val" THEN y ELSE StdBin(e.op, x.t, x.r, y.r)
      [] e.k = "cast" \/ e.k = "trycast" -> LET x == CEv(e.e) IN IF x.k # "val" THEN x ELSE Refuse

\* elements of an aggregate constant, left to right; the first one that is not a constant decides
CEvSeq(es, i, acc) ==
    IF i > Len(es) THEN V("agg", acc)
    ELSE LET x == CEv(es[i]) IN IF x.k # "val" THEN x ELSE CEvSeq(es, i + 1, Append(acc, x))

\* the observable: what `log(C)` emits (big-endian, the width of the type; aggregates: the elements in order)
RECURSIVE CEEnc(_), CEEncSeq(_, _)
CEEnc(x) ==
    IF x.t = "agg" THEN CEEncSeq(x.r, 1)
    ELSE IF x.t = "bool" THEN x.r
    ELSE ToBE(Resize(x.r, WidthOf(x.t)))
CEEncSeq(xs, i) == IF i > Len(xs) THEN <<>> ELSE CEEnc(xs[i]) \o CEEncSeq(xs, i + 1)
CEObs(x) == IF x.k # "val" THEN [k |-> x.k, v |-> <<>>] ELSE Val(CEEnc(x))
CE(e) == CEObs(CEv(e))

(***************************************************************************)
(* Fold: the IR constant-folding rules (sway-ir/src/optimize/constants.rs  *)
(* combine_binary_op / combine_unary_op / combine_cmp) on ONE instruction  *)
(* whose operands are constants, and VM: what the FuelVM instruction the   *)
(* IR operation is lowered to computes for the same operands (u8..u64 are  *)
(* 64-bit words at this level; the range checks of the narrow types are    *)
(* separate instructions emitted by std).                                  *)
(***************************************************************************)
NotFolded == [k |-> "nofold", v |-> <<>>]
WordT(t) == IF t = "u256" \/ t = "b256" THEN "u256" ELSE "u64"

FoldBin(op, t, a, b) ==
    IF t = "b256" THEN NotFolded                                   \* no B256 arm in combine_binary_op
    ELSE IF op \in ArithOps THEN
        LET x == Arith(op, WordT(t), a, b) IN IF x.ok THEN V(t, x.v) ELSE NotFolded      \* checked_*
    ELSE IF op \in BitOps THEN V(t, Bitw(op, t, a, b).v)
    ELSE IF t = "u256" THEN
        IF op = "shr" THEN V(t, IF IsSmall(b) THEN Shr(a, ToNat(b)) ELSE Zero(32))
        ELSE IF IsZero(a) THEN V(t, a)
        ELSE IF ~IsSmall(b) \/ ToNat(b) >= 256 THEN NotFolded
        ELSE IF Shr(Shl(a, ToNat(b)), ToNat(b)) = a THEN V(t, Shl(a, ToNat(b))) ELSE NotFolded
    ELSE IF ~IsSmall(b) \/ ToNat(b) >= 64 THEN NotFolded            \* u32::try_from, checked_shl / checked_shr
         ELSE V(t, IF op = "shl" THEN Shl(a, ToNat(b)) ELSE Shr(a, ToNat(b)))

FoldNot(t, a) ==
    IF t = "b256" THEN NotFolded
    ELSE IF t = "u256" THEN V(t, BNot(a))
    ELSE V(t, Resize(BNot(Resize(a, WidthOf(t))), 8))                \* (!v) & max of the width

FoldCmp(op, t, a, b) ==          \* Predicate::Equal | LessThan | GreaterThan; Uint, U256, B256
    CEBool(IF op = "eq" THEN a = b ELSE IF op = "lt" THEN Lt(a, b) ELSE Lt(b, a))

\* the machine: [ok |-> FALSE] = the instruction panics (the transaction reverts)
VMBin(op, t, a, b) ==
    IF op \in ArithOps THEN Arith(op, WordT(t), a, b)
    ELSE IF op \in BitOps THEN Bitw(op, t, a, b)
    ELSE Shift(op, WordT(t), a, b)
VMNot(t, a) == IF IsWide(t) THEN Ok(BNot(a)) ELSE Ok(Resize(BNot(Resize(a, WidthOf(t))), 8))

\* the instruction a single-operator case is built around (operands in their representation)
IsSingleOp(e) == (e.k = "bin" /\ e.l.k = "lit" /\ e.r.k = "lit" /\ e.op \in ArithOps \cup BitOps \cup ShiftOps \cup {"eq", "lt", "gt"})
                 \/ (e.k = "un" /\ e.e.k = "lit")
RepOf(lit) == Resize(FromBE(lit.b), RepW(lit.t))
FoldOf(e) ==
    IF e.k = "un" THEN FoldNot(e.e.t, RepOf(e.e))
    ELSE IF e.op \in CmpOps THEN FoldCmp(e.op, e.l.t, RepOf(e.l), RepOf(e.r))
    ELSE FoldBin(e.op, e.l.t, RepOf(e.l), RepOf(e.r))
VMOf(e) ==
    IF e.k = "un" THEN VMNot(e.e.t, RepOf(e.e))
    ELSE IF e.op \in CmpOps THEN Ok(FoldCmp(e.op, e.l.t, RepOf(e.l), RepOf(e.r)).r)      \* comparisons: Bytes order itself
    ELSE VMBin(e.op, e.l.t, RepOf(e.l), RepOf(e.r))

(***************************************************************************)
(* The model: one case is drawn, evaluated at run time, then by the        *)
(* compiler's two evaluators.                                              *)
(***************************************************************************)
CONSTANTS ClsSel, TySel        \* which classes / operand types this run enumerates

Pool == UNION { CasesOf(cls, t) : cls \in ClsSel \cap Classes, t \in TySel \cap IntTypes }
          \cup (IF "b256" \in ClsSel THEN B256Cases \cup ReinterpretCases ELSE {})

VARIABLES c, phase, sem, ce, fold
vars == <<c, phase, sem, ce, fold>>

None == [k |-> "none", v |-> <<>>]

Init == c \in Pool /\ phase = "new" /\ sem = None /\ ce = None /\ fold = None

\* the program runs: nothing is known at compile time
RunTime == phase = "new" /\ sem' = Sem(c.e) /\ phase' = "ran" /\ UNCHANGED <<c, ce, fold>>
\* the front end evaluates the expression as the initializer of a const / configurable
CompileTime == phase = "ran" /\ ce' = CEv(c.e) /\ phase' = "evaluated" /\ UNCHANGED <<c, sem, fold>>
\* the optimizer meets the instruction with constant operands
FoldIR ==
    /\ phase = "evaluated"
    /\ fold' = IF IsSingleOp(c.e) THEN [k |-> "inst", f |-> FoldOf(c.e), m |-> VMOf(c.e)] ELSE None
    /\ phase' = "done" /\ UNCHANGED <<c, sem, ce>>

Next == RunTime \/ CompileTime \/ FoldIR
Spec == Init /\ [][Next]_vars

Done == phase = "done"

(***************************************************************************)
(* The property, on the model.                                             *)
(***************************************************************************)
\* a value computed at compile time is the value computed at run time
Agreement == Done /\ ce.k = "val" => sem = CEObs(ce)
\* when run time aborts the compiler does not put a value in its place: it reports an error
NoSubstitution == Done /\ sem.k = "abort" => ce.k = "refuse"
\* the compiler does not crash
NoPanic == Done => ce.k # "panic"
\* the constant the compiler builds is a value of its type
InRange == Done /\ ce.k = "val" /\ ce.t \in IntTypes => Fits(ce.r, WidthOf(ce.t))
\* IR constant folding replaces an instruction only by what the machine would have computed,
\* and never an instruction that would have panicked
FoldSound == Done /\ fold.k = "inst" /\ fold.f.k = "val" => (fold.m.ok /\ fold.m.v = fold.f.r)
\* (s = Sem(e), x = CE(e)): Sem's value, or a compile error where Sem aborts or the evaluator refuses
AllowedCompileTime(s, x) == IF s.k = "abort" THEN {Refuse} ELSE {s} \cup (IF x.k = "refuse" THEN {Refuse} ELSE {})
=============================================================================
