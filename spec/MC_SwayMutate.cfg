\* exhaustive: ALL single mutations (sites x kinds) of every base package in $BASE
CONSTANT MaxDepth = 1
SPECIFICATION MSpec
INVARIANT PrintReplay
INVARIANT KindsKnown
INVARIANT DepthBound
INVARIANT EditsResolve
INVARIANT MutationChangesAst
CHECK_DEADLOCK FALSE
