----------------------------- MODULE StdModels -----------------------------
(***************************************************************************)
(* Reference models of the Sway standard library's heap collections        *)
(* (std::vec::Vec, std::bytes::Bytes, std::string::String) and of its      *)
(* numeric library (U128, u256 and primitive arithmetic, pow, sqrt, log,   *)
(* log2, wrapping_* / overflowing_* operations, width conversions) -- C27. *)
(*                                                                         *)
(* The documentation the models transcribe is the doc comments of          *)
(* sway-lib-std/src/{vec,bytes,string,u128,math,ops,flags}.sw and of       *)
(* primitive_conversions/*.sw: every "# Reverts" clause is an Abort of the *)
(* model, every operation without one returns.  Where the doc comments     *)
(* are silent the model says so explicitly (capacity after an              *)
(* undocumented reallocation: `doc = FALSE`; numeric cases outside the     *)
(* documented domain are `Specified = FALSE` and are never generated).     *)
(*                                                                         *)
(* Part 1: collections.  A collection is [elems, cap, doc]: the sequence   *)
(* of elements (small naturals; the element type only decides how a value  *)
(* is rendered and encoded, the containers are data independent), the      *)
(* capacity, and whether the capacity value follows from documented rules. *)
(* CollStep(kind, st, o) is the effect of one operation: [ok, st, ret];    *)
(* Dump(kind, st) is what every query of the public API must answer in     *)
(* state st.  Observations are sequences of *items*; EncItem gives the     *)
(* bytes `log` emits for an item (canonical ABI encoding, SwaySem.Enc).    *)
(*                                                                         *)
(* Part 2: numerics on little-endian byte sequences (Bytes.tla/IntSem.tla).*)
(***************************************************************************)
EXTENDS SwaySem, FiniteSets

HugeIx == 2147483647          \* stands for u64::max() in an index position (rendered as such)

BE8(n) == IF n < 65536 THEN <<0, 0, 0, 0, 0, 0, n \div 256, n % 256>> ELSE ToBE(FromNat(n, 8))

(***************************************************************************)
(* Element types: which of raw_ptr's three read/write paths is taken       *)
(* (1 byte, 8 bytes, by-reference copy).                                   *)
(***************************************************************************)
ElemTypes == {"u8", "u64", "u256", "pair"}
EncElem(ety, e) ==
    CASE ety = "u8"   -> <<e>>
      [] ety = "u64"  -> BE8(e)
      [] ety = "u256" -> [i \in 1..32 |-> e]              \* 0xeeee...ee
      [] ety = "pair" -> <<e>> \o BE8(e + 256)            \* (e as u8, e + 256 as u64)

RECURSIVE EncElems(_, _, _)
EncElems(ety, es, i) == IF i > Len(es) THEN <<>> ELSE EncElem(ety, es[i]) \o EncElems(ety, es, i + 1)

(***************************************************************************)
(* Observation items                                                       *)
(***************************************************************************)
INat(n)    == [k |-> "nat", n |-> n]                       \* a u64
IBool(b)   == [k |-> "bool", b |-> b]
IElem(e)   == [k |-> "elem", e |-> e]
ISome(e)   == [k |-> "some", e |-> e]                      \* Option<T>::Some
INone      == [k |-> "none"]
ISeq(es)   == [k |-> "seq", es |-> es]                     \* a whole Vec / Bytes / String: len ++ elements
ICap(c, doc, n) == [k |-> "cap", n |-> c, doc |-> doc, len |-> n]

EncItem(ety, it) ==
    CASE it.k = "nat"  -> BE8(it.n)
      [] it.k = "bool" -> IF it.b THEN <<1>> ELSE <<0>>
      [] it.k = "elem" -> EncElem(ety, it.e)
      [] it.k = "some" -> BE8(1) \o EncElem(ety, it.e)
      [] it.k = "none" -> BE8(0)
      [] it.k = "seq"  -> BE8(Len(it.es)) \o EncElems(ety, it.es, 1)
      [] it.k = "cap"  -> BE8(it.n)

\* does the logged byte string agree with the item?  A capacity that no documented rule fixes
\* only has to be a u64 >= len.
ItemMatches(ety, it, bytes) ==
    IF it.k = "cap" /\ ~it.doc
    THEN Len(bytes) = 8 /\ Le(FromNat(it.len, 8), FromBE(bytes))
    ELSE bytes = EncItem(ety, it)

(***************************************************************************)
(* Collections                                                             *)
(***************************************************************************)
Kinds == {"vec", "bytes", "string"}

Coll(es, c, d) == [elems |-> es, cap |-> c, doc |-> d]
EmptyColl == Coll(<<>>, 0, TRUE)

OkS(st, ret) == [ok |-> TRUE, st |-> st, ret |-> ret]
AbortS(st)   == [ok |-> FALSE, st |-> st, ret |-> <<>>]

\* RawVec::grow / RawBytes::grow: "doubling its current capacity" (1 when it was 0), only when full
Grown(st) == IF Len(st.elems) = st.cap THEN (IF st.cap = 0 THEN 1 ELSE 2 * st.cap) ELSE st.cap

InsertAt(s, i, v) == SubSeq(s, 1, i) \o <<v>> \o SubSeq(s, i + 1, Len(s))     \* i = 0-based position
RemoveAt(s, i)    == SubSeq(s, 1, i) \o SubSeq(s, i + 2, Len(s))
Fill(n, v)        == [x \in 1..n |-> v]
Seg(base, n)      == [x \in 1..n |-> base + x - 1]        \* n consecutive fresh values

\* string literals of the pool, as ASCII codes (index 0-based in o.i)
StrLits == << <<>>, <<97>>, <<102, 117, 101, 108>>, <<83, 119, 97, 121, 32, 108, 97, 110, 103, 33>> >>

(* An operation is a record [op, i, j, v]: i, j index-like arguments, v a value / a count.       *)
(* Unused fields are 0.                                                                          *)
Op(name, i, j, v) == [op |-> name, i |-> i, j |-> j, v |-> v]

CollStep(kind, st, o) ==
    LET es == st.elems
        n  == Len(st.elems)
    IN
    CASE o.op = "new" -> OkS(EmptyColl, <<>>)
      [] o.op = "with_capacity" -> OkS(Coll(<<>>, o.i, TRUE), <<>>)
      [] o.op = "push" -> OkS(Coll(Append(es, o.v), Grown(st), st.doc), <<>>)
      [] o.op = "pop" ->
            IF n = 0 THEN OkS(st, <<INone>>)
            ELSE OkS(Coll(SubSeq(es, 1, n - 1), st.cap, st.doc), <<ISome(es[n])>>)
      [] o.op = "insert" ->                                  \* Reverts: index > len
            IF o.i > n THEN AbortS(st)
            ELSE OkS(Coll(InsertAt(es, o.i, o.v), Grown(st), st.doc), <<>>)
      [] o.op = "remove" ->                                  \* Reverts: index >= len
            IF o.i >= n THEN AbortS(st)
            ELSE OkS(Coll(RemoveAt(es, o.i), st.cap, st.doc), <<IElem(es[o.i + 1])>>)
      [] o.op = "swap" ->                                    \* Reverts: either index >= len
            IF o.i >= n \/ o.j >= n THEN AbortS(st)
            ELSE OkS(Coll([es EXCEPT ![o.i + 1] = es[o.j + 1], ![o.j + 1] = es[o.i + 1]], st.cap, st.doc), <<>>)
      [] o.op = "set" ->                                     \* Reverts: index >= len
            IF o.i >= n THEN AbortS(st)
            ELSE OkS(Coll([es EXCEPT ![o.i + 1] = o.v], st.cap, st.doc), <<>>)
      [] o.op = "clear" -> OkS(Coll(<<>>, st.cap, st.doc), <<>>)     \* "no effect on the allocated capacity"
      [] o.op = "resize" ->                                  \* never reverts; truncates or extends with v
            IF o.i <= n THEN OkS(Coll(SubSeq(es, 1, o.i), st.cap, st.doc), <<>>)
            ELSE OkS(Coll(es \o Fill(o.i - n, o.v),
                          IF st.cap < o.i THEN o.i ELSE st.cap,
                          st.doc /\ st.cap >= o.i), <<>>)      \* capacity after this reallocation: undocumented
      [] o.op = "get" ->                                     \* explicit query with an arbitrary index
            OkS(st, <<IF o.i >= n THEN INone ELSE ISome(es[o.i + 1])>>)
      [] o.op = "iter" ->                                    \* every element through iter(); == with a clone, with a longer clone
            OkS(st, [x \in 1..n |-> IElem(es[x])] \o <<IBool(TRUE), IBool(FALSE)>>)
      [] o.op = "clone" ->                                   \* x = x.clone(): same content, fresh buffer
            OkS(Coll(es, n, FALSE), <<>>)
      \* ---- Bytes only
      [] o.op = "append" ->                                  \* other = v fresh bytes starting at j; other is unchanged
            LET other == Seg(o.j, o.v) both == n + o.v IN
            OkS(Coll(es \o other, IF o.v > 0 /\ st.cap < both THEN both ELSE st.cap,
                     st.doc /\ (o.v = 0 \/ st.cap >= both)), <<ISeq(other)>>)
      [] o.op = "append_self" ->                             \* "Appending self to itself will duplicate the Bytes"
            OkS(Coll(es \o es, IF n > 0 /\ st.cap < 2 * n THEN 2 * n ELSE st.cap,
                     st.doc /\ (n = 0 \/ st.cap >= 2 * n)), <<>>)
      [] o.op = "split_at" ->                                \* Reverts: mid > len; capacities as in the doc example
            IF o.i > n THEN AbortS(st)
            ELSE OkS(st, <<ISeq(SubSeq(es, 1, o.i)), INat(o.i), ISeq(SubSeq(es, o.i + 1, n)), INat(n - o.i)>>)
      [] o.op = "splice" ->                                  \* Reverts: start > end, end > len
            IF o.i > o.j \/ o.j > n THEN AbortS(st)
            ELSE LET repl == Seg(100 + o.v, o.v)
                     nes == SubSeq(es, 1, o.i) \o repl \o SubSeq(es, o.j + 1, n)
                 IN OkS(Coll(nes, Len(nes), FALSE), <<ISeq(SubSeq(es, o.i + 1, o.j)), ISeq(repl)>>)
      [] o.op = "via_vec" ->                                 \* Bytes::from(Vec::<u8>::from(bytes))
            OkS(Coll(es, n, FALSE), <<>>)
      \* ---- String only
      [] o.op = "from_str" -> OkS(Coll(StrLits[o.i + 1], Len(StrLits[o.i + 1]), FALSE), <<>>)
      [] o.op = "from_ascii" ->                              \* copies the source Bytes: later source mutation invisible
            OkS(Coll(Seg(o.j, o.v), o.v, FALSE), <<>>)
      [] o.op = "as_bytes_mut" ->                            \* as_bytes() returns a copy; mutate the copy, log it
            OkS(st, <<ISeq(Append(es, 33))>>)
      [] o.op = "via_bytes" ->                               \* String::from_ascii(s.as_bytes())
            OkS(Coll(es, n, FALSE), <<>>)

\* every query of the public API in state st, in the order the generated helper `dump` logs them
RECURSIVE Gets(_, _)
Gets(es, i) == IF i > Len(es) THEN <<>> ELSE <<ISome(es[i])>> \o Gets(es, i + 1)

Dump(kind, st) ==
    LET es == st.elems n == Len(st.elems) IN
    IF kind = "string"
    THEN <<INat(n), ICap(st.cap, st.doc, n), IBool(n = 0), ISeq(es), ISeq(es)>>     \* len cap is_empty log(s) log(s.as_bytes())
    ELSE <<INat(n), ICap(st.cap, st.doc, n), IBool(n = 0)>>
         \o (IF kind = "vec" THEN <<IF n = 0 THEN INone ELSE ISome(es[n])>> ELSE <<>>)   \* last()
         \o <<INone>>                                                                  \* get(len())
         \o Gets(es, 1)                                                                \* get(i), i < len
         \o <<ISeq(es)>>                                                               \* log(v)
         \o (IF kind = "bytes" THEN <<IBool(\A i \in DOMAIN es : es[i] = 0)>> ELSE <<>>)  \* are_all_zero()

\* expected observation of applying o in st: the returned items then the dump; nothing when it reverts
Expect(kind, st, o) ==
    LET r == CollStep(kind, st, o) IN
    [ok |-> r.ok, st |-> r.st, items |-> IF r.ok THEN r.ret \o Dump(kind, r.st) ELSE <<>>]

(* ---- the collection as a state machine (MC_StdModels adds the history, Trace_StdModels the log cursor) *)
VARIABLES kind, ety, st, alive
cvars == <<kind, ety, st, alive>>

Apply(o) ==
    /\ alive
    /\ LET r == CollStep(kind, st, o) IN st' = r.st /\ alive' = r.ok
    /\ UNCHANGED <<kind, ety>>

\* design-level invariants of the model itself
CapInv == st.cap >= Len(st.elems)
TypeInv == kind \in Kinds /\ ety \in ElemTypes /\ alive \in BOOLEAN /\ st.doc \in BOOLEAN

\* algebraic laws relating the operations (checked in every reachable state by MC_StdModels)
Laws ==
    LET es == st.elems n == Len(st.elems) IN
    /\ \A i \in 0..n :
          LET a == CollStep(kind, st, Op("insert", i, 0, 250)) IN
          /\ a.ok
          /\ LET b == CollStep(kind, a.st, Op("remove", i, 0, 0)) IN
                b.ok /\ b.st.elems = es /\ b.ret = <<IElem(250)>>
    /\ LET a == CollStep(kind, st, Op("push", 0, 0, 251)) b == CollStep(kind, a.st, Op("pop", 0, 0, 0)) IN
          b.st.elems = es /\ b.ret = <<ISome(251)>> /\ a.st.cap >= n + 1
    /\ ~CollStep(kind, st, Op("insert", n + 1, 0, 1)).ok
    /\ ~CollStep(kind, st, Op("remove", n, 0, 0)).ok
    /\ ~CollStep(kind, st, Op("set", n, 0, 1)).ok
    /\ ~CollStep(kind, st, Op("swap", 0, n, 0)).ok
    /\ \A i \in 0..(n + 2) : LET r == CollStep(kind, st, Op("resize", i, 0, 7)).st IN
                                Len(r.elems) = i /\ r.cap >= i
                                /\ \A x \in 1..i : r.elems[x] = IF x <= n THEN es[x] ELSE 7
    /\ \A i \in 0..(n - 1) : \A j \in 0..(n - 1) :
          LET a == CollStep(kind, st, Op("swap", i, j, 0)) IN
             a.ok /\ CollStep(kind, a.st, Op("swap", i, j, 0)).st.elems = es

(***************************************************************************)
(* Part 2.  Numerics.                                                      *)
(* Values are little-endian byte sequences of the type's width.            *)
(***************************************************************************)
NumTypes == {"u8", "u16", "u32", "u64", "u128", "u256"}
NW(t) == CASE t = "u8" -> 1 [] t = "u16" -> 2 [] t = "u32" -> 4 [] t = "u64" -> 8 [] t = "u128" -> 16 [] t = "u256" -> 32

One(w) == FromNat(1, w)
MaxV(w) == [i \in 1..w |-> 255]

\* number of significant bytes
RECURSIVE SigFrom(_, _)
SigFrom(a, i) == IF i = 0 THEN 0 ELSE IF a[i] # 0 THEN i ELSE SigFrom(a, i - 1)
SigLen(a) == SigFrom(a, Len(a))

\* schoolbook product (Len(a) + Len(b) bytes), same function as Bytes!MulFull; every column only visits
\* the index pairs that exist (MC_StdModels checks MulFast = MulFull on the pool)
RECURSIVE ColFast(_, _, _, _, _)
ColFast(a, b, k, i, hi) == IF i > hi THEN 0 ELSE a[i] * b[k - i + 1] + ColFast(a, b, k, i + 1, hi)
RECURSIVE MulCols(_, _, _, _)
MulCols(a, b, k, c) ==
    IF k > Len(a) + Len(b) THEN <<>>
    ELSE LET lo == IF k > Len(b) THEN k - Len(b) + 1 ELSE 1
             hi == IF k < Len(a) THEN k ELSE Len(a)
             s == ColFast(a, b, k, lo, hi) + c
         IN <<s % 256>> \o MulCols(a, b, k + 1, s \div 256)
MulFast(a, b) == MulCols(a, b, 1, 0)

\* product of a and b (any lengths) as exactly w bytes, plus whether it does not fit in w bytes;
\* only the significant bytes are multiplied
MulW(a, b, w) ==
    LET la == SigLen(a) lb == SigLen(b)
        p == IF la = 0 \/ lb = 0 THEN <<>> ELSE MulFast(SubSeq(a, 1, la), SubSeq(b, 1, lb))
    IN [v |-> Resize(p, w), ovf |-> \E i \in DOMAIN p : i > w /\ p[i] # 0]

\* TLC keeps [i \in S |-> e] as an unevaluated function; chains of such values (Shl of Shl of ...) are
\* re-evaluated exponentially often.  Tup forces a sequence-valued function into an explicit tuple.
Tup(f) == SubSeq(f, 1, Len(f))

\* Bytes!DivMod (restoring division, most significant bit first) with every intermediate value forced:
\* the same function (MC_StdModels checks DivModT = DivMod on the one- and two-byte types)
RECURSIVE DivLoop(_, _, _, _, _)
DivLoop(a, b, k, q, r) ==
    IF k < 0 THEN [q |-> q, r |-> r]
    ELSE LET r2 == Tup([Shl(r, 1) EXCEPT ![1] = @ + Bit(a, k)]) IN
         IF Le(b, r2) THEN DivLoop(a, b, k - 1, Tup(SetBit(q, k)), Tup(Sub(r2, b).v))
         ELSE DivLoop(a, b, k - 1, q, r2)
DivModT(a, b) ==
    LET w == Len(a)
        res == DivLoop(Tup(a), Tup(Resize(b, w + 1)), 8 * w - 1, Tup(Zero(w)), Tup(Zero(w + 1)))
    IN [q |-> res.q, r |-> Tup(Resize(res.r, w))]

\* a ^ e for a natural e, by squaring; stops at the first overflow of w bytes
RECURSIVE PowLoop(_, _, _, _)
PowLoop(base, e, acc, w) ==            \* invariant: result = acc * base^e
    IF e = 0 THEN [v |-> acc, ovf |-> FALSE]
    ELSE LET acc2 == IF e % 2 = 1 THEN MulW(acc, base, w) ELSE [v |-> acc, ovf |-> FALSE] IN
         IF acc2.ovf THEN [v |-> Zero(w), ovf |-> TRUE]
         ELSE IF e \div 2 = 0 THEN [v |-> acc2.v, ovf |-> FALSE]
         ELSE LET b2 == MulW(base, base, w) IN
              IF b2.ovf THEN [v |-> Zero(w), ovf |-> TRUE]       \* base^2 overflows and e >= 2 remains: so does the result (base >= 2)
              ELSE PowLoop(b2.v, e \div 2, acc2.v, w)
Pow(a, e, w) == PowLoop(a, e, One(w), w)

\* r = floor(sqrt(x)) as a relation: r^2 <= x < (r+1)^2, computed without overflow in 2w+2 bytes
IsSqrt(x, r, w) ==
    LET W2 == 2 * w + 2
        r1 == Add(Resize(r, w + 1), One(w + 1)).v
        lo == MulW(r, r, W2).v
        hi == MulW(r1, r1, W2).v
        xx == Resize(x, W2)
    IN Len(r) = w /\ Le(lo, xx) /\ Lt(xx, hi)

\* q, r are quotient and remainder of a by b # 0, as a relation: a = q * b + r and r < b
IsDivMod(a, b, q, r, w) ==
    /\ Lt(r, b)
    /\ LET p == MulW(q, b, w) IN
          ~p.ovf /\ LET s == Add(p.v, r) IN ~s.ovf /\ s.v = a

\* r = floor(log_b(x)) for b >= 2, x >= 1, as a relation: b^r <= x < b^(r+1)
IsLog(x, b, r, w) ==
    /\ Len(r) = w /\ IsSmall(r) /\ ToNat(r) <= 8 * w
    /\ LET p == Pow(b, ToNat(r), w) IN
          /\ ~p.ovf /\ Le(p.v, x)
          /\ LET q == MulW(p.v, b, w) IN q.ovf \/ Lt(x, q.v)          \* b^(r+1) = b^r * b

\* floor(log2(x)), x # 0, as a function: position of the highest set bit
RECURSIVE TopBit(_, _)
TopBit(byte, k) == IF byte \div Pow2(k) > 0 THEN k ELSE TopBit(byte, k - 1)
Log2Nat(x) == 8 * (SigLen(x) - 1) + TopBit(x[SigLen(x)], 7)

(***************************************************************************)
(* A numeric case: [ty, op, mode, a, b, n, t2]                             *)
(*   a, b : big-endian byte arrays (as they cross the JSON boundary) of    *)
(*          the operand type (b = <<>> for unary operations)               *)
(*   n    : exponent of pow / shift amount (a natural), else 0             *)
(*   t2   : target type of a conversion, else ""                           *)
(*   mode : "D" default flags; "W" panic-on-overflow disabled; "U" panic-  *)
(*          on-unsafe-math disabled                                        *)
(* NumExpect(c) = [out, items]: the test returns / reverts after logging   *)
(* items; an item is [k |-> "bytes", b] (exact log), [k |-> "sqrt", ...],  *)
(* [k |-> "log", ...], [k |-> "divmod", ...] (relational: the logged value *)
(* must satisfy the defining relation), [k |-> "any", n] (some n-byte      *)
(* value: documented not to revert, value undocumented).                   *)
(***************************************************************************)
XBytes(b)        == [k |-> "bytes", b |-> b]
XVal(v)          == XBytes(ToBE(v))                         \* an integer result of the type
XSqrt(x, w)      == [k |-> "sqrt", x |-> x, w |-> w]
XLog(x, b, w)    == [k |-> "log", x |-> x, base |-> b, w |-> w]
XDivMod(a, b, w) == [k |-> "divmod", a |-> a, b |-> b, w |-> w]
XAny(n)          == [k |-> "any", n |-> n]
Returns(items)   == [out |-> "return", items |-> items]
Reverts(items)   == [out |-> "revert", items |-> items]

NumItemMatches(it, bytes) ==
    CASE it.k = "bytes" -> bytes = it.b
      [] it.k = "any"   -> Len(bytes) = it.n
      [] it.k = "divmod" -> Len(bytes) = 2 * it.w
                            /\ IsDivMod(it.a, it.b, Tup(FromBE(SubSeq(bytes, 1, it.w))),
                                        Tup(FromBE(SubSeq(bytes, it.w + 1, 2 * it.w))), it.w)
      [] it.k = "sqrt"  -> Len(bytes) = it.w /\ IsSqrt(it.x, FromBE(bytes), it.w)
      [] it.k = "log"   -> Len(bytes) = it.w /\ IsLog(it.x, it.base, FromBE(bytes), it.w)

\* add / sub / mul on w bytes: [v, ovf]
Arith3(op, a, b, w) ==
    CASE op = "add" -> Add(a, b) [] op = "sub" -> Sub(a, b) [] op = "mul" -> MulW(a, b, w)

OptSome(bytes) == XBytes(BE8(1) \o bytes)
OptNone        == XBytes(BE8(0))

NumExpect(c) ==
    LET w == NW(c.ty)
        a == Tup(FromBE(c.a))
        b == Tup(FromBE(c.b))
        two == FromNat(2, w)
    IN
    CASE c.op \in {"add", "sub", "mul"} ->
            \* default: "Reverts on overflow / underflow"; W: wraps (flags.sw, wrapping_* docs, u128 tests)
            LET r == Arith3(c.op, a, b, w) IN
            IF r.ovf /\ c.mode # "W" THEN Reverts(<<>>) ELSE Returns(<<XVal(r.v)>>)
      [] c.op = "divmod" ->                  \* logs the pair (a / b, a % b): "Reverts if divisor is zero"
            IF IsZero(b) THEN (IF c.mode = "U" THEN Returns(<<XAny(2 * w)>>) ELSE Reverts(<<>>))
            ELSE Returns(<<XDivMod(a, b, w)>>)
      [] c.op \in {"wrapping_add", "wrapping_sub", "wrapping_mul"} ->
            \* modular result; afterwards the flags are as before: the same plain operation then behaves as in mode D
            LET plain == CASE c.op = "wrapping_add" -> "add" [] c.op = "wrapping_sub" -> "sub" [] c.op = "wrapping_mul" -> "mul"
                r == Arith3(plain, a, b, w)
            IN IF r.ovf THEN Reverts(<<XVal(r.v)>>) ELSE Returns(<<XVal(r.v), XVal(r.v)>>)
      [] c.op = "overflowing_add" ->        \* u64 x u64 -> U128, then flags restored: max + a must still revert
            LET r == Add(Resize(a, 16), Resize(b, 16)) IN Returns(<<XVal(r.v)>>)
      [] c.op = "overflowing_mul" ->
            Returns(<<XVal(MulW(a, b, 16).v)>>)
      [] c.op = "pow" ->                     \* c.n = exponent (natural); overflow: revert, or 0 when panic on overflow is disabled
            LET r == Pow(a, c.n, w) IN
            IF r.ovf THEN (IF c.mode = "W" THEN Returns(<<XVal(Zero(w))>>) ELSE Reverts(<<>>))
            ELSE Returns(<<XVal(r.v)>>)
      [] c.op = "sqrt" -> Returns(<<XSqrt(a, w)>>)
      [] c.op = "log" ->                     \* undefined for x = 0 and for base < 2: revert unless unsafe math is allowed
            IF IsZero(a) \/ Lt(b, two)
            THEN (IF c.mode = "U" THEN Returns(<<XAny(w)>>) ELSE Reverts(<<>>))
            ELSE Returns(<<XLog(a, b, w)>>)
      [] c.op = "log2" ->
            IF IsZero(a) THEN (IF c.mode = "U" THEN Returns(<<XAny(w)>>) ELSE Reverts(<<>>))
            ELSE Returns(<<XVal(FromNat(Log2Nat(a), w))>>)
      \* ---- U128 / u256 bit operations and comparisons
      [] c.op = "shl" -> Returns(<<XVal(IF c.n >= 8 * w THEN Zero(w) ELSE Shl(a, c.n))>>)
      [] c.op = "shr" -> Returns(<<XVal(IF c.n >= 8 * w THEN Zero(w) ELSE Shr(a, c.n))>>)
      [] c.op = "and" -> Returns(<<XVal(BAnd(a, b))>>)
      [] c.op = "or"  -> Returns(<<XVal(BOr(a, b))>>)
      [] c.op = "not" -> Returns(<<XVal(BNot(a))>>)
      [] c.op = "cmp" -> Returns(<<XBytes(<<IF Lt(a, b) THEN 1 ELSE 0>>), XBytes(<<IF Lt(b, a) THEN 1 ELSE 0>>),
                                   XBytes(<<IF a = b THEN 1 ELSE 0>>)>>)
      \* ---- conversions: c.t2 names the target type
      [] c.op = "widen" -> Returns(<<XVal(Resize(a, NW(c.t2)))>>)           \* as_uN / From: never fails
      [] c.op = "narrow" ->                                                 \* try_as_uN / TryFrom: None when it does not fit
            IF Fits(a, NW(c.t2)) THEN Returns(<<OptSome(ToBE(Resize(a, NW(c.t2))))>>) ELSE Returns(<<OptNone>>)
      [] c.op = "try_as_u64" ->                                             \* U128 -> Result<u64, U128Error>
            IF Fits(a, 8) THEN Returns(<<XBytes(BE8(0) \o ToBE(Resize(a, 8)))>>)
            ELSE Returns(<<XBytes(BE8(1) \o BE8(0))>>)

\* the documentation fixes the outcome of the case (cases outside are never generated)
Specified(c) ==
    LET w == NW(c.ty) IN
    /\ c.mode \in {"D", "W", "U"}
    /\ (c.op = "mul" /\ c.ty = "u128" /\ c.mode = "W") =>
            \* both upper words non-zero: std asserts on the *unsafe-math* flag; undocumented either way
            (Fits(FromBE(c.a), 8) \/ Fits(FromBE(c.b), 8))
    /\ (c.op = "sqrt" /\ c.ty = "u128") => ~IsZero(FromBE(c.a))       \* U128::sqrt(0): std reverts, undocumented
    /\ (c.mode = "U") => c.op \in {"divmod", "log", "log2"}
    /\ (c.mode = "W") => c.op \in {"add", "sub", "mul", "pow", "log", "log2", "sqrt"}
=============================================================================
