---------------------------- MODULE MC_AbiCodec ----------------------------
(***************************************************************************)
(* TLC-only additions to AbiCodec: bounded universes of type trees (each   *)
(* type tree is one initial state; the statements of AbiCodec section 6    *)
(* are invariants), golden checks of the transcription against the         *)
(* repository's own layout snapshot, and replay-record generation for the  *)
(* conformance step (C09.py, C10.py).                                      *)
(***************************************************************************)
EXTENDS AbiCodec, Json, Randomization

CONSTANTS Universe,        \* which universe the initial states range over: "d1" "d2" "d3" "q" "pool" "named"
          SampleD2, SampleD3,  \* sizes of the fixed-seed samples of deeper types in the conformance pool
          Part, NParts,        \* the conformance pool is generated in NParts slices of the depth<=1 trees
          WithNamed            \* whether this slice carries the hand-picked nestings

VARIABLES ty, lvl
vars == <<ty, lvl>>

(***************************************************************************)
(* Universes.  Level(C1, C2, C3, NS): every constructor applied to         *)
(* children from C1 (arity 1, arrays of lengths NS), C2 x C2 (arity 2),    *)
(* C3 x C3 x C3 (arity 3).                                                 *)
(***************************************************************************)
L(k) == TLeaf(k)
LFull == { L("u8"), L("u16"), L("u32"), L("u64"), L("u256"), L("b256"), L("bool"), L("unit"),
           TStrArr(0), TStrArr(3), TStrArr(8), TStrArr(9), L("str"), L("bytes"), L("string") }
K7 == { L("u8"), L("u16"), L("u64"), L("bool"), L("unit"), TStrArr(3), L("b256") }
J4 == { L("u8"), L("u64"), L("bool"), L("unit") }
J3 == { L("u8"), L("u64"), L("bool") }

Arity1(C, NS) ==
    { TTuple(<<a>>) : a \in C } \cup { TStruct(<<a>>) : a \in C } \cup { TEnum(<<a>>) : a \in C }
        \cup { TOption(a) : a \in C } \cup { TVec(a) : a \in C }
        \cup { TArray(a, n) : a \in C, n \in NS }
Arity2P(P) ==   \* P a set of pairs
    { TTuple(<<p[1], p[2]>>) : p \in P } \cup { TStruct(<<p[1], p[2]>>) : p \in P }
        \cup { TEnum(<<p[1], p[2]>>) : p \in P } \cup { TResult(p[1], p[2]) : p \in P }
Arity3(C) ==
    { TTuple(<<a, b, c>>) : a \in C, b \in C, c \in C } \cup { TStruct(<<a, b, c>>) : a \in C, b \in C, c \in C }
        \cup { TEnum(<<a, b, c>>) : a \in C, b \in C, c \in C }
Level(C1, C2, C3, NS) == Arity1(C1, NS) \cup Arity2P(C2 \X C2) \cup Arity3(C3)
Both(A, B) == (A \X B) \cup (B \X A)

\* (`()` is the unit leaf; an empty struct is legal and distinct.)  Universes take a dummy argument so
\* that TLC does not evaluate them eagerly at start-up.  Each universe is Seeds \cup UNION Expand(seed):
\* seeds are type trees themselves (initial states), Expand(a) the trees whose first-level component is a.
\* depth <= 1: every leaf; every constructor over all leaves (arity 3 over the core leaves)
D1 == LFull \cup { TStruct(<<>>) } \cup Level(LFull, LFull, K7, {0, 1, 2, 3})
ExpandD1(a) ==
    IF a \notin LFull THEN {}
    ELSE Arity1({a}, {0, 1, 2, 3}) \cup Arity2P({a} \X LFull)
            \cup (IF a \in K7 THEN { TTuple(<<a, b, c>>) : b \in K7, c \in K7 } \cup { TStruct(<<a, b, c>>) : b \in K7, c \in K7 }
                                      \cup { TEnum(<<a, b, c>>) : b \in K7, c \in K7 } ELSE {})
\* depth 2: seeds are the depth-1 trees
D1K(z) == Level(K7, K7, {}, {2})
D1J(z) == Level(J4, J4, {}, {2})
ExpandD2(a) ==
    IF a \in LFull THEN {}
    ELSE Arity1({a}, {1, 2})
            \cup (IF a \in D1K(0) THEN Arity2P(Both({a}, LFull)) ELSE {})
            \cup (IF a \in D1J(0) THEN Arity2P({a} \X D1J(0)) ELSE {})
\* depth 3 over three leaves: seeds are depth-2 trees
E1(z) == Level(J3, J3, {}, {2})
E2(z) == Arity1(E1(z), {2}) \cup Arity2P(Both(E1(z), J3))
ExpandD3(a) == Arity1({a}, {2}) \cup Arity2P(Both({a}, J3))
\* quick: a thin but complete slice
ExpandQ(a) ==
    (IF a \in K7 THEN Arity1({a}, {0, 2}) \cup Arity2P({a} \X K7) ELSE {})
        \cup (IF a \in D1J(0) THEN Arity1({a}, {2}) ELSE {})

(***************************************************************************)
(* The nestings the property text names, and other hand-picked shapes.     *)
(***************************************************************************)
E_ua  == TEnum(<<TUnit, L("u8"), TTuple(<<L("u16"), L("bool")>>)>>)
Named == {
    TStruct(<<TArray(E_ua, 2), TStrArr(3)>>),                                   \* enum inside array inside struct
    TStruct(<<L("u8"), TArray(TEnum(<<L("u64"), L("u64")>>), 2), L("b256")>>),
    TVec(TTuple(<<TOption(L("u8")), L("u64")>>)),                               \* Vec of tuples of Option
    TVec(TTuple(<<TOption(L("u64")), TOption(L("bool"))>>)),
    TResult(L("string"), L("u64")), TResult(L("u8"), L("string")),             \* String in Result
    TEnum(<<TUnit, TUnit, TUnit>>), TEnum(<<TStruct(<<>>), TArray(L("u64"), 0), TStrArr(0)>>),   \* zero-sized variants
    TEnum(<<TUnit, L("u64")>>), TEnum(<<L("u64"), TUnit>>), TEnum(<<L("u64"), L("u64")>>),
    TStruct(<<TStrArr(1), TStrArr(7), TStrArr(8), TStrArr(9), TStrArr(17)>>),    \* str[N], N mod 8 # 0
    TArray(TStrArr(5), 3), TTuple(<<L("u8"), TStrArr(5), L("u8")>>),
    TStruct(<<L("u8"), L("u16"), L("u32"), L("u64"), L("u256"), L("b256"), L("bool")>>),
    TStruct(<<L("bool"), L("u8"), L("bool"), L("u8"), L("u64")>>),
    TTuple(<<L("u64"), TTuple(<<L("u64"), TTuple(<<L("u64"), TTuple(<<L("u64"), L("u8")>>)>>)>>)>>),   \* depth 4
    TVec(TVec(TVec(L("u8")))), TVec(TVec(L("u64"))), TVec(L("unit")), TVec(TStruct(<<>>)),
    TOption(TOption(TOption(L("bool")))), TResult(TResult(L("u8"), L("u64")), TOption(L("b256"))),
    TArray(TArray(TArray(L("u8"), 2), 3), 2), TArray(TArray(L("bool"), 3), 3),
    TStruct(<<TVec(L("bytes")), L("string"), L("str")>>), TVec(L("string")), TVec(L("str")),
    TArray(L("u8"), 8), TArray(L("u8"), 9), TStruct(<<TArray(L("u8"), 8), L("u64")>>),
    TStruct(<<TArray(L("u8"), 16), TArray(L("bool"), 8)>>),
    TEnum(<<TArray(L("u8"), 8), L("u64")>>), TEnum(<<TStruct(<<L("u64"), L("u64")>>), TArray(L("u64"), 2)>>),
    TEnum(<<L("b256"), L("u256")>>), TEnum(<<L("b256"), L("u64")>>),
    TTuple(<<L("u64"), TEnum(<<L("u64"), L("u64")>>), L("b256")>>),
    TStruct(<<TEnum(<<TUnit, TUnit>>), L("u64")>>), TArray(TEnum(<<TUnit, TUnit>>), 3),
    TOption(L("u64")), TOption(L("unit")), TResult(L("u64"), L("u64")), TResult(L("unit"), L("unit")),
    TStruct(<<TOption(TVec(TEnum(<<L("u8"), L("string")>>))), TArray(TTuple(<<L("bool"), L("u16")>>), 2)>>)
}

\* a structural hash, used only to slice the pool deterministically
KindSeq == <<"u8", "u16", "u32", "u64", "u256", "b256", "bool", "unit", "strarr", "str", "bytes", "string",
             "tuple", "struct", "enum", "array", "option", "result", "vec">>
KindIx(k) == CHOOSE i \in DOMAIN KindSeq : KindSeq[i] = k
RECURSIVE THash(_)
THash(t) == (KindIx(t.k) * 7 + t.n * 3 + Len(t.es) + 31 * SeqSum([i \in DOMAIN t.es |-> (i + 1) * THash(t.es[i])])) % 9973

Seeds(z) == CASE Universe = "d1" -> LFull \cup { TStruct(<<>>) } \cup Named
              [] Universe = "d2" -> D1 \ LFull
              [] Universe = "d3" -> E2(z)
              [] Universe = "q" -> LFull \cup D1J(z) \cup Named
              [] Universe = "named" -> Named
              [] Universe = "pool" ->
                    (IF WithNamed THEN Named ELSE {})
                    \cup { t \in D1 \ Named : THash(t) % NParts = Part }
                    \cup (IF SampleD2 = 0 THEN {} ELSE RandomSubset(SampleD2, UNION { ExpandD2(a) : a \in D1 \ LFull }))
                    \cup (IF SampleD3 = 0 THEN {} ELSE RandomSubset(SampleD3, UNION { ExpandD3(a) : a \in E2(z) }))
Expand(a) == CASE Universe = "d1" -> ExpandD1(a)
               [] Universe = "d2" -> ExpandD2(a)
               [] Universe = "d3" -> ExpandD3(a)
               [] Universe = "q" -> ExpandQ(a)
               [] OTHER -> {}
\* the whole universe (for the statistics)
U(z) == LET S == Seeds(z) IN S \cup UNION { Expand(a) : a \in S }

(***************************************************************************)
(* State graph: a seed state per first-level component, expanded by Next   *)
(* into the type trees built on that seed (so that TLC's workers share the *)
(* universe; invariants of initial states are checked by one thread).      *)
(***************************************************************************)
Init == ty \in Seeds(0) /\ lvl = 0
Next == lvl = 0 /\ lvl' = 1 /\ ty' \in Expand(ty)
Spec == Init /\ [][Next]_vars

\* one invariant per property; on failure the names of the failing statements are printed with the type tree
FactsC09 == {"wellformed", "roundtrip", "prefixfree", "truncation", "swaysem"}
FactsC10 == {"layout", "trivialenc", "encimpl", "trivialdec", "decimpliesenc"}
Inv == IF AllFacts(ty) THEN TRUE ELSE Print(<<"FAILED-FACTS", FailedFacts(ty), ToJson(ty)>>, FALSE)
InvC09 == LET rs == Reps(ty) es == [i \in DOMAIN rs |-> EncT(ty, rs[i])] IN
          IF WellFormed(ty) /\ RoundTrip(ty, rs, es) /\ PrefixFree(ty, rs, es) /\ TruncationRejected(ty, rs, es)
             /\ AgreesWithSwaySem(ty, rs, es)
          THEN TRUE ELSE Print(<<"FAILED-FACTS", FailedFacts(ty) \cap FactsC09, ToJson(ty)>>, FALSE)
InvC10 == LET rs == Reps(ty) es == [i \in DOMAIN rs |-> EncT(ty, rs[i])] IN
          IF LayoutOK(ty, rs, es) /\ TrivialEncSound(ty, rs, es) /\ EncImplCanonical(ty, rs, es)
             /\ TrivialDecSound(ty, rs, es) /\ DecImpliesEnc(ty)
          THEN TRUE ELSE Print(<<"FAILED-FACTS", FailedFacts(ty) \cap FactsC10, ToJson(ty)>>, FALSE)

\* anti-vacuity: how many trees of the universe make each antecedent true (printed once)
Stats(z) == LET UU == U(z) IN
        [ types |-> Cardinality(UU),
           trivial_enc |-> Cardinality({ t \in UU : TrivialEnc(t) }),
           trivial_dec |-> Cardinality({ t \in UU : TrivialDec(t) }),
           memid_eq |-> Cardinality({ t \in UU : MemIdEq(t) }),
           memid_eq_not_trivial_enc |-> Cardinality({ t \in UU : MemIdEq(t) /\ ~TrivialEnc(t) }),
           static |-> Cardinality({ t \in UU : Static(t) }),
           fixed_len |-> Cardinality({ t \in UU : FixedLen(t) }),
           in_swaysem |-> Cardinality({ t \in UU : InSwaySem(t) }) ]
PrintStats(z) == PrintT(<<"STATS", ToJson(Stats(z))>>)
StatsInit == PrintStats(0) /\ ty = TUnit /\ lvl = 1
StatsSpec == StatsInit /\ [][Next]_vars

(***************************************************************************)
(* Mutants of the classification, to show that the statements bind: the    *)
(* mutant cfgs override TrivialEnc / TrivialDec and TLC must answer with a *)
(* counterexample type tree.                                               *)
(***************************************************************************)
RECURSIVE TrivialDecBoolMutant(_)
TrivialDecBoolMutant(t) ==         \* "bool is trivially decodable"
    CASE t.k \in {"b256", "u256", "u64", "u8", "unit", "bool"} -> TRUE
      [] t.k \in {"u32", "u16", "str", "strarr", "vec", "bytes", "string"} -> FALSE
      [] t.k = "array" -> TrivialDecBoolMutant(t.es[1])
      [] t.k \in ProdKinds -> MemIdEq(t) /\ \A i \in DOMAIN t.es : TrivialDecBoolMutant(t.es[i])
      [] t.k \in EnumKinds -> FALSE
RECURSIVE TrivialDecEnumMutant(_)
TrivialDecEnumMutant(t) ==         \* "enums follow the struct rule when decoding"
    CASE t.k \in {"b256", "u256", "u64", "u8", "unit"} -> TRUE
      [] t.k \in {"u32", "u16", "bool", "str", "strarr", "vec", "bytes", "string"} -> FALSE
      [] t.k = "array" -> TrivialDecEnumMutant(t.es[1])
      [] t.k \in ProdKinds -> MemIdEq(t) /\ \A i \in DOMAIN t.es : TrivialDecEnumMutant(t.es[i])
      [] t.k \in EnumKinds -> MemIdEq(t) /\ \A i \in DOMAIN Variants(t) : TrivialDecEnumMutant(Variants(t)[i])
RECURSIVE TrivialEncNoIdMutant(_)
TrivialEncNoIdMutant(t) ==         \* "the memory-id comparison is dropped"
    CASE t.k \in {"bool", "b256", "u256", "u64", "u8", "unit"} -> TRUE
      [] t.k \in {"u32", "u16", "str", "strarr", "vec", "bytes", "string"} -> FALSE
      [] t.k = "array" -> TrivialEncNoIdMutant(t.es[1])
      [] t.k \in ProdKinds -> \A i \in DOMAIN t.es : TrivialEncNoIdMutant(t.es[i])
      [] t.k \in EnumKinds -> \A i \in DOMAIN Variants(t) : TrivialEncNoIdMutant(Variants(t)[i])
RECURSIVE TrivialEncU16Mutant(_)
TrivialEncU16Mutant(t) ==          \* "u16 is trivially encodable"
    CASE t.k \in {"bool", "b256", "u256", "u64", "u8", "unit", "u16"} -> TRUE
      [] t.k \in {"u32", "str", "strarr", "vec", "bytes", "string"} -> FALSE
      [] t.k = "array" -> TrivialEncU16Mutant(t.es[1])
      [] t.k \in ProdKinds -> MemIdEq(t) /\ \A i \in DOMAIN t.es : TrivialEncU16Mutant(t.es[i])
      [] t.k \in EnumKinds -> MemIdEq(t) /\ \A i \in DOMAIN Variants(t) : TrivialEncU16Mutant(Variants(t)[i])

(***************************************************************************)
(* Golden check: the textual form of RtRepr / EncRepr on the types of the  *)
(* repository's snapshot test/.../language/type_layout/logs.snap.          *)
(***************************************************************************)
RECURSIVE Show(_), ShowSeq(_, _, _)
Show(r) ==
    CASE r.k = "pad" -> "p" \o ToString(r.n)
      [] r.k = "blob" -> "b" \o ToString(r.n)
      [] r.k = "and" -> "{" \o ShowSeq(r.es, 1, ",") \o "}"
      [] r.k = "or" -> "(" \o ShowSeq(r.es, 1, "|") \o ")"
      [] r.k = "arr" -> "[" \o Show(r.es[1]) \o ";" \o ToString(r.n) \o "]"
      [] r.k = "none" -> "None"
ShowSeq(s, i, sep) ==
    IF i > Len(s) THEN "" ELSE Show(s[i]) \o (IF i < Len(s) THEN sep ELSE "") \o ShowSeq(s, i + 1, sep)
Rt(t) == Show(RtRepr(Ir(t)))
En(t) == Show(EncRepr(t))
S1(a) == TStruct(<<a>>)
S2(a, b) == TStruct(<<a, b>>)
S3(a, b, c) == TStruct(<<a, b, c>>)
E1_(a) == TEnum(<<a>>)
E2_(a, b) == TEnum(<<a, b>>)
A(t, n) == TArray(t, n)
u8 == L("u8")  u16 == L("u16")  u32 == L("u32")  u64 == L("u64")  b256 == L("b256")  bool == L("bool")  unit == TUnit
\* <<type, runtime repr, encoding repr, ids equal, size>>
Golden == <<
    <<u16, "b8", "b2", FALSE, 8>>, <<u64, "b8", "b8", TRUE, 8>>, <<u32, "b8", "b4", FALSE, 8>>,
    <<unit, "{}", "{}", TRUE, 0>>, <<b256, "b32", "b32", TRUE, 32>>, <<bool, "b1", "b1", TRUE, 1>>,
    <<TStrArr(0), "b0", "b0", TRUE, 0>>, <<A(u64, 0), "[b8;0]", "[b8;0]", TRUE, 0>>,
    <<A(unit, 1), "[{};1]", "[{};1]", TRUE, 0>>, <<u8, "b1", "b1", TRUE, 1>>,
    <<A(u8, 2), "[b1;2]", "[b1;2]", TRUE, 2>>, <<A(u8, 3), "[b1;3]", "[b1;3]", TRUE, 3>>,
    <<A(u16, 2), "[b8;2]", "[b2;2]", FALSE, 16>>, <<A(u32, 3), "[b8;3]", "[b4;3]", FALSE, 24>>,
    <<A(u64, 2), "[b8;2]", "[b8;2]", TRUE, 16>>, <<A(bool, 2), "[b1;2]", "[b1;2]", TRUE, 2>>,
    <<A(b256, 2), "[b32;2]", "[b32;2]", TRUE, 64>>, <<A(A(u8, 2), 3), "[[b1;2];3]", "[[b1;2];3]", TRUE, 6>>,
    <<S2(u8, u8), "{{b1,p7},{b1,p7}}", "{b1,b1}", FALSE, 16>>,
    <<A(S2(u8, u8), 2), "[{{b1,p7},{b1,p7}};2]", "[{b1,b1};2]", FALSE, 32>>,
    <<E2_(u8, u8), "{b8,({p7,b1}|{p7,b1})}", "{b8,(b1|b1)}", FALSE, 16>>,
    <<A(E2_(u8, u8), 2), "[{b8,({p7,b1}|{p7,b1})};2]", "[{b8,(b1|b1)};2]", FALSE, 32>>,
    <<S1(unit), "{{}}", "{{}}", TRUE, 0>>, <<S2(unit, unit), "{{},{}}", "{{},{}}", TRUE, 0>>,
    <<S2(unit, u64), "{{},b8}", "{{},b8}", TRUE, 8>>, <<S2(u64, unit), "{b8,{}}", "{b8,{}}", TRUE, 8>>,
    <<S3(u64, unit, u64), "{b8,{},b8}", "{b8,{},b8}", TRUE, 16>>,
    <<S3(u64, u64, u64), "{b8,b8,b8}", "{b8,b8,b8}", TRUE, 24>>,
    <<S2(u8, unit), "{{b1,p7},{}}", "{b1,{}}", FALSE, 8>>,
    <<S3(u8, unit, u8), "{{b1,p7},{},{b1,p7}}", "{b1,{},b1}", FALSE, 16>>,
    <<S2(bool, u64), "{{b1,p7},b8}", "{b1,b8}", FALSE, 16>>,
    <<S1(A(u8, 2)), "{{[b1;2],p6}}", "{[b1;2]}", FALSE, 8>>,
    <<S2(A(A(u8, 2), 3), b256), "{{[[b1;2];3],p2},b32}", "{[[b1;2];3],b32}", FALSE, 40>>,
    <<S3(u8, A(A(u8, 2), 3), b256), "{{b1,p7},{[[b1;2];3],p2},b32}", "{b1,[[b1;2];3],b32}", FALSE, 48>>,
    <<S2(S2(u8, u8), u64), "{{{b1,p7},{b1,p7}},b8}", "{{b1,b1},b8}", FALSE, 24>>,
    <<S2(E2_(u8, u8), u64), "{{b8,({p7,b1}|{p7,b1})},b8}", "{{b8,(b1|b1)},b8}", FALSE, 24>>,
    <<E1_(unit), "{b8}", "{b8}", TRUE, 8>>, <<E2_(unit, unit), "{b8}", "{b8}", TRUE, 8>>,
    <<E2_(unit, u64), "{b8,({p8,{}}|b8)}", "{b8,({}|b8)}", FALSE, 16>>,
    <<E2_(u64, unit), "{b8,(b8|{p8,{}})}", "{b8,(b8|{})}", FALSE, 16>>,
    <<E2_(u64, u64), "{b8,(b8|b8)}", "{b8,(b8|b8)}", TRUE, 16>>,
    <<E2_(unit, u8), "{b8,({p8,{}}|{p7,b1})}", "{b8,({}|b1)}", FALSE, 16>>,
    <<E2_(u8, u64), "{b8,({p7,b1}|b8)}", "{b8,(b1|b8)}", FALSE, 16>>,
    <<E2_(bool, bool), "{b8,({p7,b1}|{p7,b1})}", "{b8,(b1|b1)}", FALSE, 16>>,
    <<E1_(A(u8, 2)), "{b8,({p6,[b1;2]})}", "{b8,([b1;2])}", FALSE, 16>>,
    <<E1_(A(A(u8, 2), 3)), "{b8,({p2,[[b1;2];3]})}", "{b8,([[b1;2];3])}", FALSE, 16>>,
    <<E2_(A(u8, 2), u64), "{b8,({p6,[b1;2]}|b8)}", "{b8,([b1;2]|b8)}", FALSE, 16>>,
    <<E1_(S2(u8, u8)), "{b8,({{b1,p7},{b1,p7}})}", "{b8,({b1,b1})}", FALSE, 24>>,
    <<TStrArr(1), "{b1,p7}", "b1", FALSE, 8>> >>
GoldenOK(g) == Rt(g[1]) = g[2] /\ En(g[1]) = g[3] /\ MemIdEq(g[1]) = g[4] /\ SizeOf(g[1]) = g[5]
GoldenFailures == { i \in DOMAIN Golden : ~GoldenOK(Golden[i]) }
ASSUME PrintT(<<"golden-layout-snapshot", Len(Golden), GoldenFailures>>)
ASSUME GoldenFailures = {}

(***************************************************************************)
(* Replay records.  One per type tree of the pool: the type, its           *)
(* classification, every representative value with its canonical bytes,    *)
(* and byte strings that are NOT encodings of any value (for C10).         *)
(* Python renders them to Sway; the verdict on what the programs do is     *)
(* Trace_AbiCodec's.                                                       *)
(***************************************************************************)
\* offsets (0-based) of the bool bytes and of the enum tags inside EncT(t, v)
RECURSIVE BoolOffs(_, _, _), TagOffs(_, _, _), OffsSeq(_, _, _, _, _), OffsElems(_, _, _, _, _)
BoolOffs(t, v, base) ==
    CASE t.k = "bool" -> {base}
      [] t.k \in LeafKinds -> {}
      [] t.k \in ProdKinds -> OffsSeq("b", t.es, v.es, 1, base)
      [] t.k = "array" -> OffsElems("b", t.es[1], v.es, 1, base)
      [] t.k \in EnumKinds -> BoolOffs(Variants(t)[v.tag + 1], v.v, base + 8)
      [] t.k = "vec" -> OffsElems("b", t.es[1], v.es, 1, base + 8)
TagOffs(t, v, base) ==           \* set of <<offset, number of variants>>
    CASE t.k \in LeafKinds -> {}
      [] t.k \in ProdKinds -> OffsSeq("t", t.es, v.es, 1, base)
      [] t.k = "array" -> OffsElems("t", t.es[1], v.es, 1, base)
      [] t.k \in EnumKinds -> {<<base, Len(Variants(t))>>} \cup TagOffs(Variants(t)[v.tag + 1], v.v, base + 8)
      [] t.k = "vec" -> OffsElems("t", t.es[1], v.es, 1, base + 8)
OffsSeq(w, ts, vs, i, base) ==
    IF i > Len(ts) THEN {}
    ELSE (IF w = "b" THEN BoolOffs(ts[i], vs[i], base) ELSE TagOffs(ts[i], vs[i], base))
            \cup OffsSeq(w, ts, vs, i + 1, base + Len(EncT(ts[i], vs[i])))
OffsElems(w, t, vs, i, base) ==
    IF i > Len(vs) THEN {}
    ELSE (IF w = "b" THEN BoolOffs(t, vs[i], base) ELSE TagOffs(t, vs[i], base))
            \cup OffsElems(w, t, vs, i + 1, base + Len(EncT(t, vs[i])))

SetAt(bs, off, b) == [bs EXCEPT ![off + 1] = b]
SetWord(bs, off, w) == [i \in DOMAIN bs |-> IF i > off /\ i <= off + 8 THEN w[i - off] ELSE bs[i]]
Invalids(t, v) ==
    LET e == EncT(t, v) IN
    { [kind |-> "bool", bytes |-> SetAt(e, o, b), len |-> Len(e)] : o \in BoolOffs(t, v, 0), b \in {2, 255} }
    \cup { [kind |-> "tag", bytes |-> SetWord(e, p[1], U64BE(p[2])), len |-> Len(e)] : p \in TagOffs(t, v, 0) }
    \cup { [kind |-> "tag", bytes |-> SetWord(e, p[1], Const(8, 255)), len |-> Len(e)] : p \in TagOffs(t, v, 0) }
    \cup { [kind |-> "truncated", bytes |-> e, len |-> n] :
              n \in (IF Len(e) = 0 THEN {} ELSE {0, Len(e) \div 2, Len(e) - 1}) }
\* keep the records small: invalid strings from the first and the last representative only
InvalidsOf(t) == Invalids(t, Reps(t)[1]) \cup Invalids(t, Reps(t)[Len(Reps(t))])
SetToSeq(S) == LET RECURSIVE F(_) F(X) == IF X = {} THEN <<>> ELSE LET x == CHOOSE y \in X : TRUE IN <<x>> \o F(X \ {x}) IN F(S)

ReplayRec(t) ==
    [ t |-> t,
      cls |-> [te |-> TrivialEnc(t), td |-> TrivialDec(t), ideq |-> MemIdEq(t), size |-> SizeOf(t),
               static |-> Static(t), depth |-> Depth(t)],
      reps |-> [i \in DOMAIN Reps(t) |-> [v |-> Reps(t)[i], enc |-> EncT(t, Reps(t)[i])]],
      invalid |-> SetToSeq(InvalidsOf(t)) ]
PrintReplay == PrintT(<<"REPLAY", ToJson(ReplayRec(ty))>>)
=============================================================================
