\* repaired protocol (.forc_index is the completion marker); exhaustive: 3 files, both reference
\* kinds, 1 crash or 1 I/O error at any fault point of any of 3 consecutive builds
CONSTANT NFiles = 3
CONSTANT ManifestIdx = 1
CONSTANT PlanNeeded = {1}
CONSTANT Needed = {1, 2}
CONSTANT MaxBuilds = 3
CONSTANT MaxFaults = 1
CONSTANT Protocol = "marker"
SPECIFICATION Spec
INVARIANT TypeOK
INVARIANT NoPartialCompile
INVARIANT CompiledComplete
INVARIANT ErrorThenRefetch
INVARIANT NoFailForever
INVARIANT CleanBuildCompiles
INVARIANT LockFreeBetweenBuilds
INVARIANT LockDiscipline
INVARIANT MarkerTruthful
CHECK_DEADLOCK FALSE
