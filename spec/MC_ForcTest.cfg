\* every suite of <= 2 tests over all behaviour variants x expectations + all core triples of a contract package,
\* every filter, every interleaving with 2 runner threads; each test on its own copy of the deployment state
CONSTANTS
  PType = "contract"
  MaxLen = 2
  CoreLen = 3
  Runners = 2
  Shared = FALSE
SPECIFICATION MCSpec
INVARIANT Isolation
INVARIANT OwnLogs
INVARIANT ExactOutcome
INVARIANT ExactReport
INVARIANT OnlySelected
INVARIANT OrderIndependent
INVARIANT PoolInv
CHECK_DEADLOCK FALSE
