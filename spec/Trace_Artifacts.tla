-------------------------- MODULE Trace_Artifacts --------------------------
(***************************************************************************)
(* Trace validation for C15.  One record per build performed in a fresh    *)
(* vh-exec process:                                                        *)
(*   [ev |-> "Built", pkg, profile, run, ok, bytecode, abi, slots, root]   *)
(* (sha256 hex digests of the files forc wrote, "none" where absent).      *)
(* The record is accepted iff Artifacts!Build is enabled: the first build  *)
(* of <<pkg, profile>> binds the artifact tuple, later ones must agree.    *)
(***************************************************************************)
EXTENDS Artifacts, Json, IOUtils

Rec == ndJsonDeserialize(IOEnv.TRACE)
VARIABLE l

ArtOf(r) == <<r.ok, r.bytecode, r.abi, r.slots, r.root>>

TraceInit == AInit /\ l = 1 /\ TLCSet(1, 1)

TrBuilt == /\ l <= Len(Rec) /\ Rec[l].ev = "Built"
           /\ Build(Rec[l].pkg, Rec[l].profile, ArtOf(Rec[l]))
           /\ l' = l + 1 /\ TLCSet(1, l + 1)

TraceNext == TrBuilt
TraceSpec == TraceInit /\ [][TraceNext]_<<avars, l>>

\* every bound key was bound by a record of the trace (sanity of the binding)
BoundKeysSeen == \A k \in DOMAIN art : \E i \in 1..(l - 1) : Rec[i].pkg = k[1] /\ Rec[i].profile = k[2]

Accepted ==
    IF TLCGet(1) = Len(Rec) + 1 THEN TRUE
    ELSE Print(<<"FIRST-UNMATCHED", TLCGet(1), ToJson(Rec[TLCGet(1)])>>, FALSE)
=============================================================================
