------------------------------ MODULE Pipeline ------------------------------
(***************************************************************************)
(* The compiler pipeline as a state machine over one build:                *)
(*   Src -> IR0 -> (RunPass)* -> Backend -> Bytecode -> Executed           *)
(* There is no state for "pass panicked", "IR not accepted by the          *)
(* verifier" or "printed IR does not parse back": a recorded build that    *)
(* needs such a step is not a behaviour of this specification.             *)
(*   C03/C07  ObsIsFunctionOfSource: the observable of a test entry is a   *)
(*            function of the source alone (not of the pass pipeline or    *)
(*            the asm-opt selection);                                      *)
(*   C04      every RunPass step leaves the IR verified (SSA dominance     *)
(*            included); no pass panics;                                   *)
(*   C05      at every stage the printed IR parses, the parsed module      *)
(*            verifies and its text is a fixpoint of parse -> print.       *)
(* The pass sequence of a build is PassOrder's: a build under pipeline p   *)
(* runs Flat(p) for at most Rounds rounds, stopping after a round that     *)
(* modified nothing.                                                       *)
(***************************************************************************)
EXTENDS Naturals, Sequences, FiniteSets, TLC

Rounds == 2      \* sway_ir::pass_manager::Options::default().rounds

VARIABLES stage,     \* "src" | "ir" | "backend" | "done"
          expected,  \* the pass list of this build (Flat(pipeline))
          pos,       \* passes of the current round already run
          round,     \* current round (1-based)
          roundMod,  \* did some pass of the current round modify the IR?
          obs        \* function: <<pkg, test>> -> observable (first one seen binds it)

pvars == <<stage, expected, pos, round, roundMod, obs>>

PInit == /\ stage = "src" /\ expected = <<>> /\ pos = 0 /\ round = 1 /\ roundMod = FALSE
         /\ obs = [x \in {} |-> 0]

\* IR generation produced a verified module that round-trips through its text form
StartBuild(passes, irOk) ==
    /\ stage \in {"src", "backend", "done"}
    /\ irOk
    /\ stage' = "ir" /\ expected' = passes /\ pos' = 0 /\ round' = 1 /\ roundMod' = FALSE
    /\ UNCHANGED obs

\* one pass of the pipeline; `ok` = the verifier accepted the result (and, for C05, the text round trip holds)
RunPass(name, modified, ok) ==
    /\ stage = "ir" /\ pos < Len(expected)
    /\ name = expected[pos + 1]
    /\ ok
    /\ pos' = pos + 1
    /\ roundMod' = (roundMod \/ modified)
    /\ UNCHANGED <<stage, expected, round, obs>>

\* a further round is taken only if the finished one modified the IR and rounds are left
NextRound ==
    /\ stage = "ir" /\ pos = Len(expected) /\ roundMod /\ round < Rounds
    /\ pos' = 0 /\ round' = round + 1 /\ roundMod' = FALSE
    /\ UNCHANGED <<stage, expected, obs>>

\* the backend accepted the final IR and produced bytecode
Backend ==
    /\ stage = "ir" /\ pos = Len(expected) /\ (~roundMod \/ round = Rounds)
    /\ stage' = "backend"
    /\ UNCHANGED <<expected, pos, round, roundMod, obs>>

\* running one test entry of the built package: the first observation binds obs, later ones must agree
Execute(key, o) ==
    /\ stage \in {"backend", "done"}
    /\ IF key \in DOMAIN obs THEN obs[key] = o /\ obs' = obs
       ELSE obs' = [k \in DOMAIN obs \cup {key} |-> IF k = key THEN o ELSE obs[k]]
    /\ stage' = "done"
    /\ UNCHANGED <<expected, pos, round, roundMod>>
=============================================================================
