\* every single mutation of every seed
CONSTANTS K = 0  Alphabet <- CoreAtoms  NSeeds <- NSeedsImpl  SeedTok <- SeedTokImpl  SeedDelims <- SeedDelimsImpl  MaxOps = 1  Q = 1
INIT MutInit
NEXT MutNext
INVARIANT PrintMut
CHECK_DEADLOCK FALSE
