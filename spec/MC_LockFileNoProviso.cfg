\* anti-vacuity: without the provisos the round-trip theorem must FAIL (parallel edges suffice)
CONSTANTS Family = "core" NMax = 2 E2 = 2 E3 = 0 Wide = FALSE BigN = 4 BigReps = 1
CONSTANTS SStr <- MC_SStr PSrc <- MC_PSrc PDep <- MC_PDep SProv <- MC_SProv
INIT MCInit
NEXT Next
INVARIANT RoundTripAlways
CHECK_DEADLOCK FALSE
