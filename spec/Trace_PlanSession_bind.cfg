\* binding only (used for the shard of histories that contain a Hang event): a Hang is accepted iff the model
\* hangs; PlanningTerminates itself is judged by Trace_PlanSession.cfg on the first such history and by MC_PlanSession_term.cfg
\* MaxEnv is irrelevant for traces (TrStart resets the counter); N bounds the package ids
CONSTANTS N = 4  MaxEnv = 1000
SPECIFICATION TraceSpec
INVARIANT TypeOK
INVARIANT PlannedGraphIsReachableClosure
INVARIANT PlannedEdgesAreManifestEntries
INVARIANT StaleLockNeverLeaks
INVARIANT LockInSync
INVARIANT OrderRespectsDeps
PROPERTY LockFixpoint
PROPERTY LockedFailsIffChanged
PROPERTY LockedNeverWrites
PROPERTY CycleFailsAndKeepsLock
POSTCONDITION Accepted
CHECK_DEADLOCK FALSE
