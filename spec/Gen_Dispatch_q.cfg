CONSTANT MaxCalls = 0
CONSTANT MaxSize = 5
CONSTANT PoolN = 12
CONSTANT GenStride = 15
SPECIFICATION GenSpec
INVARIANT PrintReplay
CHECK_DEADLOCK FALSE
