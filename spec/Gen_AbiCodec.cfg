\* replay records for the conformance pool (C09, C10).  This file is a template: the checks write a copy with
\* Part / NParts / SampleD2 / SampleD3 / WithNamed set (thorough: 4 slices + fixed-seed samples of depth 2 and 3;
\* quick: slice VERIF_SEED mod 16 of the depth<=1 trees + the named nestings).  Run with -seed 9 -workers 1.
CONSTANTS Universe = "pool" SampleD2 = 0 SampleD3 = 0 Part = 0 NParts = 16 WithNamed = TRUE
SPECIFICATION Spec
INVARIANT PrintReplay
CHECK_DEADLOCK FALSE
