\* InitDocs/Texts/MaxLen are not used by the trace specification (only the operators and actions are)
CONSTANTS
    InitDocs = {}
    Texts = {}
    MaxLen = 0
SPECIFICATION TraceSpec
POSTCONDITION Accepted
CHECK_DEADLOCK FALSE
