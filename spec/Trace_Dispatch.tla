--------------------------- MODULE Trace_Dispatch ---------------------------
(***************************************************************************)
(* Trace validation for C11.  One record per executed #[test] of a         *)
(* generated contract (every test starts from the deployment state):       *)
(*   [id, methods, fallback,                                               *)
(*    calls |-> << [sel, kind, args, ...] >>   the call sequence,          *)
(*    obs   |-> per call, the logs seen between its marker and the next:   *)
(*              << snapshot logged by the callee, result logged by the     *)
(*              caller >>, or << >> when the call never returned,          *)
(*    out   |-> "return" | "revert"]                                       *)
(* kind = "typed": a call through `abi(Decl, id).name(args)`; the caller   *)
(*         logs the decoded result (canonical encoding = returned bytes);  *)
(*        "wide": the same through an ABI that declares names the contract *)
(*         does not have (returns u64);                                    *)
(*        "raw": std::low_level_call with a hand-encoded selector and      *)
(*         hand-encoded arguments; the caller logs the returned bytes as   *)
(*         `Bytes` (length prefix + bytes).                                *)
(* The record is replayed through Dispatch!Deploy and Dispatch!Call; every *)
(* call must show exactly the snapshot and result the model computes, and  *)
(* the test must have reverted iff the model aborted.                      *)
(***************************************************************************)
EXTENDS Dispatch, Json, IOUtils

Rec == ndJsonDeserialize(IOEnv.TRACE)

VARIABLES l, k, phase, ok
tvars == <<vars, l, k, phase, ok>>

ContractOf(r) == [methods |-> r.methods, fallback |-> r.fallback]
EmptyContract == [methods |-> <<>>, fallback |-> FALSE]

\* what the caller logs for a result
ShownRet(kind, ret) == IF kind = "raw" THEN BE8(Len(ret)) \o ret ELSE ret
ObsMatches(r, i, lst) ==
    /\ i <= Len(r.obs)
    /\ IF lst.reverted THEN r.obs[i] = <<>>
       ELSE r.obs[i] = <<lst.snap, ShownRet(r.calls[i].kind, lst.ret)>>

TraceInit == /\ InitWith(EmptyContract) /\ l = 1 /\ k = 0 /\ phase = "start" /\ ok = TRUE
             /\ TLCSet(1, 1) /\ TLCSet(2, {})

TrStart == /\ phase = "start" /\ l <= Len(Rec)
           /\ Deploy(ContractOf(Rec[l]))
           /\ k' = 1 /\ phase' = "run" /\ ok' = TRUE /\ l' = l

TrCall == /\ phase = "run" /\ k <= Len(Rec[l].calls) /\ ~aborted
          /\ Call(Rec[l].calls[k].sel, Rec[l].calls[k].args)
          /\ ok' = (ok /\ ObsMatches(Rec[l], k, last'))
          /\ k' = k + 1 /\ UNCHANGED <<l, phase>>

TrEnd == /\ phase = "run" /\ (k > Len(Rec[l].calls) \/ aborted)
         /\ LET good == /\ ok /\ FrameOK
                        /\ Rec[l].out = (IF aborted THEN "revert" ELSE "return")
                        /\ Len(Rec[l].obs) = k - 1            \* nothing ran after an abort
            IN IF good THEN TRUE ELSE TLCSet(2, TLCGet(2) \cup {l})
         /\ TLCSet(1, l + 1)
         /\ l' = l + 1 /\ phase' = "start" /\ UNCHANGED <<vars, k, ok>>

TraceNext == TrStart \/ TrCall \/ TrEnd
TraceSpec == TraceInit /\ [][TraceNext]_tvars

Accepted ==
    IF TLCGet(1) # Len(Rec) + 1 THEN Print(<<"FIRST-UNMATCHED", TLCGet(1)>>, FALSE)
    ELSE IF TLCGet(2) = {} THEN TRUE
    ELSE Print(<<"REJECTED", ToJson({ [idx |-> i, id |-> Rec[i].id, why |-> Rec[i].test] : i \in TLCGet(2) })>>, FALSE)
=============================================================================
