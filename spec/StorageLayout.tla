--------------------------- MODULE StorageLayout ---------------------------
(***************************************************************************)
(* C12: the storage slots forc emits for a `storage { .. }` declaration    *)
(* make every field (and every struct sub-field) read back its declared    *)
(* initializer; distinct fields occupy disjoint slots; implicit keys are   *)
(*     sha256( <<0>> \o "storage" \o ("::" ns)* \o "." field ).            *)
(*                                                                         *)
(* Three readings live here:                                               *)
(*  Img      the language's memory layout of a value (irtype.rs sizes;     *)
(*           struct fields word-aligned in declaration order; an enum is   *)
(*           a tag word followed by a union in which the payload is        *)
(*           right-aligned; a lone byte is first in its word inside a      *)
(*           struct and last in its word as an enum payload);              *)
(*  Ser      sway-core/src/ir_generation/storage.rs                        *)
(*           serialize_to_storage_slots / serialize_to_words, transcribed; *)
(*  ReadAt   what `StorageKey<T>::read` loads: compile_get_storage_key     *)
(*           (slot + offset of a sub-field) followed by std's read_quads / *)
(*           slot_calculator, transcribed.                                 *)
(* The property is  ReadAt(Slots(decl), f, path) = TopImg(T, Init)  for    *)
(* every field f and struct path; TLC checks it on every enumerated        *)
(* declaration.  SHA-256 is an uninterpreted injective function: a slot    *)
(* address is the pair (key pre-image, slot offset); the harness applies   *)
(* the real hash to the spec-given pre-image (Trace_StorageLayout).        *)
(*                                                                         *)
(* UnitWord is the number of words the serializer emits for a unit         *)
(* constant inside an aggregate: 1 as originally written (the defect this  *)
(* check found: a payload-less variant of an enum that also has payload    *)
(* variants shifted everything behind it by one word), 0 as repaired.      *)
(***************************************************************************)
EXTENDS SwaySem, FiniteSets

CONSTANT UnitWord

(***************************************************************************)
(* Types  [k, n, fs]: k in bool u8 u16 u32 u64 u256 b256 unit str struct   *)
(* enum; n = length of str[n]; fs = field types (struct / tuple) or        *)
(* variant payload types (enum).                                           *)
(* Values: SwaySem's (IntV little-endian, BoolV, Unit, AggV, EnumV) plus   *)
(* StrV(bytes) for str[n].                                                 *)
(***************************************************************************)
T(k) == [k |-> k, n |-> 0, fs |-> <<>>]
TStr(n) == [k |-> "str", n |-> n, fs |-> <<>>]
TStruct(fs) == [k |-> "struct", n |-> 0, fs |-> fs]
TEnum(vs) == [k |-> "enum", n |-> 0, fs |-> vs]
StrV(b) == [k |-> "s", b |-> b]

ByteTypes == {"bool", "u8"}
WordTypes == {"u16", "u32", "u64"}
QuadTypes == {"u256", "b256"}

Up8(n) == ((n + 7) \div 8) * 8
Up32(n) == ((n + 31) \div 32) * 32
Zeros(n) == [i \in 1..n |-> 0]

\* sway-ir/src/irtype.rs Type::size, in bytes
RECURSIVE SizeB(_), SumAligned(_, _), MaxAligned(_, _)
SizeB(ty) ==
    CASE ty.k = "unit" -> 0
      [] ty.k \in ByteTypes -> 1
      [] ty.k \in WordTypes -> 8
      [] ty.k \in QuadTypes -> 32
      [] ty.k = "str" -> Up8(ty.n)
      [] ty.k = "struct" -> SumAligned(ty.fs, 1)
      [] ty.k = "enum" -> 8 + MaxAligned(ty.fs, 1)
SumAligned(fs, i) == IF i > Len(fs) THEN 0 ELSE Up8(SizeB(fs[i])) + SumAligned(fs, i + 1)
MaxAligned(fs, i) ==
    IF i > Len(fs) THEN 0
    ELSE LET a == Up8(SizeB(fs[i])) b == MaxAligned(fs, i + 1) IN IF a > b THEN a ELSE b

\* __is_reference_type: everything but unit, bool and the integers up to u64
IsRef(ty) == ty.k \notin (ByteTypes \cup WordTypes \cup {"unit"})

ByteOf(ty, v) == IF ty.k = "bool" THEN (IF v.v THEN 1 ELSE 0) ELSE v.b[1]

(***************************************************************************)
(* Canonical (ABI) encoding of a value -- what `log(x)` emits.  Agrees     *)
(* with SwaySem.Enc on values without strings (checked: EncAgrees).        *)
(***************************************************************************)
RECURSIVE EncV(_), EncVSeq(_, _)
EncV(v) ==
    CASE v.k = "s" -> v.b
      [] v.k = "i" -> ToBE(v.b)
      [] v.k = "b" -> IF v.v THEN <<1>> ELSE <<0>>
      [] v.k = "u" -> <<>>
      [] v.k = "a" -> EncVSeq(v.es, 1)
      [] v.k = "e" -> ToBE(FromNat(v.tag, 8)) \o EncV(v.v)
EncVSeq(es, i) == IF i > Len(es) THEN <<>> ELSE EncV(es[i]) \o EncVSeq(es, i + 1)

RECURSIVE HasStr(_)
HasStr(v) == CASE v.k = "s" -> TRUE
               [] v.k = "a" -> \E i \in DOMAIN v.es : HasStr(v.es[i])
               [] v.k = "e" -> HasStr(v.v)
               [] OTHER -> FALSE

(***************************************************************************)
(* Img(ty, v, pad): the memory image of v as a component of an aggregate,  *)
(* Up8(SizeB(ty)) bytes.  pad = "R": a byte-sized value comes first in its *)
(* word (struct field); "L": last (enum payload).                          *)
(***************************************************************************)
RECURSIVE Img(_, _, _), ImgSeq(_, _, _)
Img(ty, v, pad) ==
    CASE ty.k = "unit" -> <<>>
      [] ty.k \in ByteTypes ->
            IF pad = "R" THEN <<ByteOf(ty, v)>> \o Zeros(7) ELSE Zeros(7) \o <<ByteOf(ty, v)>>
      [] ty.k \in WordTypes -> ToBE(Resize(v.b, 8))
      [] ty.k \in QuadTypes -> ToBE(v.b)
      [] ty.k = "str" -> v.b \o Zeros(Up8(ty.n) - ty.n)
      [] ty.k = "struct" -> ImgSeq(ty.fs, v.es, 1)
      [] ty.k = "enum" ->
            LET vt == ty.fs[v.tag + 1] IN
            ToBE(FromNat(v.tag, 8)) \o Zeros(MaxAligned(ty.fs, 1) - Up8(SizeB(vt))) \o Img(vt, v.v, "L")
ImgSeq(fs, es, i) == IF i > Len(fs) THEN <<>> ELSE Img(fs[i], es[i], "R") \o ImgSeq(fs, es, i + 1)

\* the SizeB(ty) bytes a value of type ty occupies when it is not inside an aggregate
TopImg(ty, v) == IF ty.k \in ByteTypes THEN <<ByteOf(ty, v)>> ELSE Img(ty, v, "R")

(***************************************************************************)
(* Ser(ty, v, pad): serialize_to_words, as a byte sequence (8 per word).   *)
(***************************************************************************)
RECURSIVE Ser(_, _, _), SerSeq(_, _, _)
Ser(ty, v, pad) ==
    CASE ty.k = "unit" -> Zeros(8 * UnitWord)
      [] ty.k \in ByteTypes ->
            IF pad = "R" THEN <<ByteOf(ty, v)>> \o Zeros(7) ELSE Zeros(7) \o <<ByteOf(ty, v)>>
      [] ty.k \in WordTypes -> ToBE(Resize(v.b, 8))             \* n.to_be_bytes() of a u64
      [] ty.k \in QuadTypes -> ToBE(v.b)
      [] ty.k = "str" -> v.b \o Zeros(Up8(Len(v.b)) - Len(v.b))
      [] ty.k = "struct" -> SerSeq(ty.fs, v.es, 1)
      [] ty.k = "enum" ->
            \* a constant struct { tag: u64, union }: the tag, then the union arm:
            \* (size of the union - size of the constant) words of padding, then the constant, left padded
            LET vt == ty.fs[v.tag + 1]
                unionW == MaxAligned(ty.fs, 1) \div 8
                constW == Up8(SizeB(vt)) \div 8
            IN IF unionW = 0 THEN ToBE(FromNat(v.tag, 8))      \* const_eval: a tag-only enum constant has no payload
               ELSE ToBE(FromNat(v.tag, 8)) \o Zeros(8 * (unionW - constW)) \o Ser(vt, v.v, "L")
SerSeq(fs, es, i) == IF i > Len(fs) THEN <<>> ELSE Ser(fs[i], es[i], "R") \o SerSeq(fs, es, i + 1)

(***************************************************************************)
(* Storage keys.  A storage field is  [ns, name, ty, v, key]; key = <<>>   *)
(* for an implicit key, else the 32 big-endian bytes given with `in`.      *)
(***************************************************************************)
RECURSIVE JoinNs(_, _)
JoinNs(ns, i) == IF i > Len(ns) THEN "" ELSE "::" \o ns[i] \o JoinNs(ns, i + 1)
\* get_storage_key_string
KeyString(ns, name) == "storage" \o JoinNs(ns, 1) \o "." \o name
RECURSIVE JoinDots(_, _)
JoinDots(names, i) == IF i > Len(names) THEN "" ELSE "." \o names[i] \o JoinDots(names, i + 1)
\* get_storage_field_path_and_field_id: the pre-image of the field id of a struct sub-field access
FieldIdString(ns, name, subnames) == KeyString(ns, name) \o JoinDots(subnames, 1)

\* what is hashed: the domain byte followed by the string
PreImage(dom, s) == [dom |-> dom, s |-> s]
StorageDomain == 0

\* a slot address: base (explicit 32 bytes, or the pre-image of an uninterpreted injective hash) + offset
Base(f) == IF f.key # <<>> THEN [x |-> f.key, pre |-> PreImage(StorageDomain, "")]
           ELSE [x |-> <<>>, pre |-> PreImage(StorageDomain, KeyString(f.ns, f.name))]
Addr(base, off) == [base |-> base, off |-> off]
IsImplicit(f) == f.key = <<>>

(***************************************************************************)
(* serialize_to_storage_slots: the set of [a |-> address, val |-> 32 bytes]*)
(***************************************************************************)
Chunk(bytes, i) == SubSeq(bytes, 32 * i + 1, 32 * i + 32)
Min(a, b) == IF a < b THEN a ELSE b

SlotsOf(f) ==
    LET base == Base(f) ty == f.ty v == f.v IN
    CASE ty.k \in ByteTypes -> {[a |-> Addr(base, 0), val |-> <<ByteOf(ty, v)>> \o Zeros(31)]}
      [] ty.k \in WordTypes -> {[a |-> Addr(base, 0), val |-> ToBE(Resize(v.b, 8)) \o Zeros(24)]}
      [] ty.k \in QuadTypes -> {[a |-> Addr(base, 0), val |-> ToBE(v.b)]}
      [] ty.k \in {"str", "struct", "enum"} ->
            LET words == Ser(ty, v, "R")
                packed == words \o Zeros(Up32(Len(words)) - Len(words))
                nkeys == (SizeB(ty) + 31) \div 32           \* (0..type_size_in_bytes.div_ceil(32))
                n == Min(nkeys, Len(packed) \div 32)        \* zip
            IN {[a |-> Addr(base, i), val |-> Chunk(packed, i)] : i \in 0..(n - 1)}

RECURSIVE AllSlots(_, _)
AllSlots(decl, i) == IF i > Len(decl) THEN {} ELSE SlotsOf(decl[i]) \cup AllSlots(decl, i + 1)

(***************************************************************************)
(* Reading.  store: set of slots.  A struct sub-field is named by the path *)
(* of 1-based field indices from the storage field's type.                 *)
(***************************************************************************)
RECURSIVE SubType(_, _), SubVal(_, _), OffsetB(_, _)
SubType(ty, path) == IF path = <<>> THEN ty ELSE SubType(ty.fs[Head(path)], Tail(path))
SubVal(v, path) == IF path = <<>> THEN v ELSE SubVal(v.es[Head(path)], Tail(path))
\* Type::get_indexed_offset: sum of the word-aligned sizes of the preceding fields, level by level
OffsetB(ty, path) ==
    IF path = <<>> THEN 0
    ELSE SumAligned(SubSeq(ty.fs, 1, Head(path) - 1), 1) + OffsetB(ty.fs[Head(path)], Tail(path))

\* struct paths of a type (through structs only), the empty path included; zero-sized leaves excluded
RECURSIVE Paths(_)
Paths(ty) ==
    IF ty.k # "struct" THEN {<<>>}
    ELSE {<<>>} \cup UNION { { <<i>> \o p : p \in Paths(ty.fs[i]) } : i \in { j \in DOMAIN ty.fs : SizeB(ty.fs[j]) > 0 } }

Lookup(store, a) == { s \in store : s.a = a }
RECURSIVE LoadQuads(_, _, _, _)
\* __state_load_quad: n consecutive slots; fails when one of them was never set
LoadQuads(store, base, off, n) ==
    IF n = 0 THEN [ok |-> TRUE, b |-> <<>>]
    ELSE LET here == Lookup(store, Addr(base, off)) IN
         IF here = {} THEN [ok |-> FALSE, b |-> <<>>]
         ELSE LET rest == LoadQuads(store, base, off + 1, n - 1) IN
              [ok |-> rest.ok, b |-> (CHOOSE s \in here : TRUE).val \o rest.b]

\* std::storage::storage_api::read_quads::<T>(slot = base + slotOff, offset) with slot_calculator
ReadQuads(store, base, slotOff, offset, ty) ==
    LET size == SizeB(ty)
        lastSlot == ((offset * 8) + size + 31) \div 32
        place == offset % 4
        nslots == IF IsRef(ty) THEN ((place * 8) + size + 31) \div 32 ELSE 1
        first == slotOff + lastSlot - nslots
        ld == LoadQuads(store, base, first, nslots)
    IN IF size = 0 \/ ~ld.ok THEN [ok |-> FALSE, b |-> <<>>]
       ELSE [ok |-> TRUE, b |-> SubSeq(ld.b, place * 8 + 1, place * 8 + size)]

\* compile_get_storage_key + StorageKey::read
ReadAt(store, f, path) ==
    LET offW == OffsetB(f.ty, path) \div 8
    IN ReadQuads(store, Base(f), offW \div 4, offW % 4, SubType(f.ty, path))

(***************************************************************************)
(* The properties of a declaration (a sequence of fields with pairwise     *)
(* distinct (ns, name)).                                                   *)
(***************************************************************************)
ReadBackOK(decl) ==
    LET store == AllSlots(decl, 1) IN
    \A i \in DOMAIN decl : \A p \in Paths(decl[i].ty) :
        ReadAt(store, decl[i], p) = [ok |-> TRUE, b |-> TopImg(SubType(decl[i].ty, p), SubVal(decl[i].v, p))]

\* no address is written twice with different content, and implicit fields never share an address
DisjointOK(decl) ==
    \A i, j \in DOMAIN decl : (i < j /\ IsImplicit(decl[i]) /\ IsImplicit(decl[j])) =>
        { s.a : s \in SlotsOf(decl[i]) } \cap { s.a : s \in SlotsOf(decl[j]) } = {}

\* every access path (field, struct path) has its own field-id pre-image, and it differs from every key pre-image
\* of another field (names of struct fields are "f<i>")
RECURSIVE PathNames(_, _)
Digit(i) == CASE i = 1 -> "1" [] i = 2 -> "2" [] i = 3 -> "3" [] i = 4 -> "4" [] i = 5 -> "5" [] i = 6 -> "6"
              [] i = 7 -> "7" [] i = 8 -> "8" [] i = 9 -> "9"
PathNames(p, i) == IF i > Len(p) THEN <<>> ELSE <<"f" \o Digit(p[i])>> \o PathNames(p, i + 1)
AccessIds(decl) ==
    UNION { { <<i, p, FieldIdString(decl[i].ns, decl[i].name, PathNames(p, 1))>> : p \in Paths(decl[i].ty) } : i \in DOMAIN decl }
FieldIdsOK(decl) ==
    \A a, b \in AccessIds(decl) : (a[1] # b[1] \/ a[2] # b[2]) => a[3] # b[3]

\* layout sanity: images have the aligned size of their type; the serializer emits whole slots
ImgSizeOK(decl) == \A i \in DOMAIN decl : Len(Img(decl[i].ty, decl[i].v, "R")) = Up8(SizeB(decl[i].ty))
EncAgrees(decl) == \A i \in DOMAIN decl : ~HasStr(decl[i].v) => EncV(decl[i].v) = Enc(decl[i].v)

\* a legal declaration: no two fields with the same namespace path and name, and no field named like a
\* namespace of its own scope
IsPrefix(a, b) == Len(a) <= Len(b) /\ SubSeq(b, 1, Len(a)) = a
WellNamed(decl) ==
    \A i, j \in DOMAIN decl : i # j =>
        /\ <<decl[i].ns, decl[i].name>> # <<decl[j].ns, decl[j].name>>
        /\ ~(Len(decl[j].ns) > Len(decl[i].ns) /\ IsPrefix(decl[i].ns, decl[j].ns)
                /\ decl[j].ns[Len(decl[i].ns) + 1] = decl[i].name)
=============================================================================
