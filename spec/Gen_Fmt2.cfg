CONSTANT MaxIns = 2
INIT Init
NEXT Next
INVARIANT PrintReplay
CHECK_DEADLOCK FALSE
