CONSTANT MaxIns = 2
INIT Init
NEXT PairNext
INVARIANT PrintReplay
CHECK_DEADLOCK FALSE
