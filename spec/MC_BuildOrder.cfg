\* exhaustive: every directed graph (self-loops included) on 1..3 nodes, every planner behaviour
CONSTANT N = 3
SPECIFICATION Spec
INVARIANT PrefixRespectsDeps
INVARIANT DoneIsOrder
INVARIANT StuckIffCyclic
INVARIANT AcyclicProgress
CHECK_DEADLOCK FALSE
