\* ALL behaviours of 1 marker (mark; release) + 1 checker, no initial file, no crash.
CONSTANTS
  Procs = {1, 2}
  Prog <- Prog_1m1c
  AtomicPublish = TRUE
  InitFiles = {"absent"}
  MaxCrashes = 0
SPECIFICATION HSpec
INVARIANT PrintReplay
CHECK_DEADLOCK FALSE
