CONSTANT UnitWord = 1
SPECIFICATION TraceSpec
POSTCONDITION Accepted
CHECK_DEADLOCK FALSE
