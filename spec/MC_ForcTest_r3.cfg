\* every suite of <= 3 tests over all behaviour variants x expectations + all core quadruples of a contract package,
\* every filter, every interleaving with 3 runner threads; each test on its own copy of the deployment state
CONSTANTS
  PType = "contract"
  MaxLen = 3
  CoreLen = 4
  Runners = 3
  Shared = FALSE
SPECIFICATION MCSpec
INVARIANT Isolation
INVARIANT OwnLogs
INVARIANT ExactOutcome
INVARIANT ExactReport
INVARIANT OnlySelected
INVARIANT OrderIndependent
INVARIANT PoolInv
CHECK_DEADLOCK FALSE
