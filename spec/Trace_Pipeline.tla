-------------------------- MODULE Trace_Pipeline --------------------------
(***************************************************************************)
(* Trace validation of recorded builds against Pipeline.tla.               *)
(* Each record is one event (in order, per build):                         *)
(*  [ev |-> "Start",  pkg, cfg, passes, ok]                                *)
(*  [ev |-> "Pass",   pass, modified, changed, verify, rt_parse, rt_norm,  *)
(*                    rt_idem, rt_verify]                                  *)
(*  [ev |-> "Backend"]      (the build succeeded)                          *)
(*  [ev |-> "Exec",   pkg, test, logs, out, code]                          *)
(* A failed build (ICE, panic, time-out, verifier error) has no Backend    *)
(* event; the next Start is then not enabled (stage = "ir") and the trace  *)
(* is rejected at that record.  CheckRT = TRUE additionally demands the    *)
(* text round trip at every stage (C05).                                   *)
(***************************************************************************)
EXTENDS Pipeline, Json, IOUtils

CONSTANT CheckRT

Rec == ndJsonDeserialize(IOEnv.TRACE)
VARIABLE l

\* print -> parse succeeds, the parsed module verifies (SSA dominance included) and prints to a text that is a
\* fixpoint of parse -> print.  (The first print is not compared literally: the printer names values after
\* arena indices and repeats shared constants, so only the re-printed text can be a fixpoint -- the same
\* criterion the repository's own ir_generation tests use.)
RtOk(r) == ~CheckRT \/ (r.rt_parse = "ok" /\ r.rt_idem = "ok" /\ r.rt_verify = "ok")

TraceInit == PInit /\ l = 1 /\ TLCSet(1, 1)

Consume == l' = l + 1 /\ TLCSet(1, l + 1)

TrStart == /\ l <= Len(Rec) /\ Rec[l].ev = "Start"
           /\ StartBuild(Rec[l].passes, RtOk(Rec[l]))
           /\ Consume
TrPass ==  /\ l <= Len(Rec) /\ Rec[l].ev = "Pass"
           /\ RunPass(Rec[l].pass, Rec[l].modified, RtOk(Rec[l]))
           /\ Consume
\* NextRound is not logged: it is composed silently in front of the first pass of a new round
TrPassNewRound ==
           /\ l <= Len(Rec) /\ Rec[l].ev = "Pass"
           /\ stage = "ir" /\ pos = Len(expected) /\ roundMod /\ round < Rounds /\ Len(expected) > 0
           /\ Rec[l].pass = expected[1]
           /\ RtOk(Rec[l])
           /\ pos' = 1 /\ round' = round + 1 /\ roundMod' = Rec[l].modified
           /\ UNCHANGED <<stage, expected, obs>>
           /\ Consume
TrBackend == /\ l <= Len(Rec) /\ Rec[l].ev = "Backend" /\ Backend /\ Consume
TrExec ==  /\ l <= Len(Rec) /\ Rec[l].ev = "Exec"
           /\ Execute(<<Rec[l].pkg, Rec[l].test>>, <<Rec[l].logs, Rec[l].out, Rec[l].code>>)
           /\ Consume

\* end-of-trace sentinel: the last build must be complete as well
TrEnd ==   /\ l <= Len(Rec) /\ Rec[l].ev = "End"
           /\ stage \in {"src", "backend", "done"}
           /\ UNCHANGED pvars
           /\ Consume

TraceNext == TrStart \/ TrPass \/ TrPassNewRound \/ TrBackend \/ TrExec \/ TrEnd
TraceSpec == TraceInit /\ [][TraceNext]_<<pvars, l>>

Accepted ==
    IF TLCGet(1) = Len(Rec) + 1 THEN TRUE
    ELSE Print(<<"FIRST-UNMATCHED", TLCGet(1), ToJson(Rec[TLCGet(1)])>>, FALSE)
=============================================================================
