------------------------------- MODULE Bytes -------------------------------
(***************************************************************************)
(* Unsigned integers of arbitrary width as little-endian byte sequences.   *)
(* TLC integers are 32-bit, so u32/u64/u256 cannot be TLC Ints; every      *)
(* integer of the Sway semantics is a sequence of W bytes, least           *)
(* significant first.  All operators are total; overflow is reported in a  *)
(* flag, never by wrapping silently.                                       *)
(***************************************************************************)
EXTENDS Naturals, Sequences, Bitwise

Zero(w) == [i \in 1..w |-> 0]

\* a small natural (< 2^31) as w bytes (truncating)
RECURSIVE NatDigits(_, _, _)
NatDigits(n, i, w) == IF i > w THEN <<>> ELSE <<n % 256>> \o NatDigits(n \div 256, i + 1, w)
FromNat(n, w) == NatDigits(n, 1, w)

\* value of a byte sequence as a natural -- only meaningful below 2^31 (used for shift amounts, indices)
RECURSIVE ToNatFrom(_, _)
ToNatFrom(a, i) == IF i > Len(a) THEN 0 ELSE a[i] + 256 * ToNatFrom(a, i + 1)
\* TRUE iff a < 2^24 (so that ToNat is safe)
IsSmall(a) == \A i \in DOMAIN a : i > 3 => a[i] = 0
ToNat(a) == ToNatFrom(SubSeq(a, 1, IF Len(a) < 3 THEN Len(a) ELSE 3), 1)

IsZero(a) == \A i \in DOMAIN a : a[i] = 0

\* big-endian rendering / parsing (ABI byte order)
RECURSIVE Rev(_)
Rev(s) == IF s = <<>> THEN <<>> ELSE Rev(Tail(s)) \o <<Head(s)>>
ToBE(a) == Rev(a)
FromBE(s) == Rev(s)

\* zero-extend or truncate to w bytes
Resize(a, w) == [i \in 1..w |-> IF i <= Len(a) THEN a[i] ELSE 0]
\* does a fit in w bytes?
Fits(a, w) == \A i \in DOMAIN a : i > w => a[i] = 0

(***************************************************************************)
(* Addition / subtraction with carry / borrow out.                         *)
(***************************************************************************)
RECURSIVE AddFrom(_, _, _, _)
AddFrom(a, b, i, c) ==
    IF i > Len(a) THEN <<<<>>, c>>
    ELSE LET s == a[i] + b[i] + c
             rest == AddFrom(a, b, i + 1, s \div 256)
         IN <<<<s % 256>> \o rest[1], rest[2]>>
\* [v |-> sum mod 2^(8w), ovf |-> carry out]
Add(a, b) == LET r == AddFrom(a, b, 1, 0) IN [v |-> r[1], ovf |-> r[2] # 0]

RECURSIVE SubFrom(_, _, _, _)
SubFrom(a, b, i, c) ==
    IF i > Len(a) THEN <<<<>>, c>>
    ELSE LET s == a[i] - b[i] - c + 256
             rest == SubFrom(a, b, i + 1, IF s < 256 THEN 1 ELSE 0)
         IN <<<<s % 256>> \o rest[1], rest[2]>>
Sub(a, b) == LET r == SubFrom(a, b, 1, 0) IN [v |-> r[1], ovf |-> r[2] # 0]

(***************************************************************************)
(* Comparison (same length).                                               *)
(***************************************************************************)
RECURSIVE LtFrom(_, _, _)
LtFrom(a, b, i) == IF i = 0 THEN FALSE ELSE IF a[i] # b[i] THEN a[i] < b[i] ELSE LtFrom(a, b, i - 1)
Lt(a, b) == LtFrom(a, b, Len(a))
Le(a, b) == ~Lt(b, a)

(***************************************************************************)
(* Schoolbook multiplication, full 2w-byte product.                        *)
(***************************************************************************)
RECURSIVE ColSum(_, _, _, _)
\* sum of a[i] * b[k - i + 1] over valid i (column k of the product)
ColSum(a, b, k, i) ==
    IF i > Len(a) \/ i > k THEN 0
    ELSE LET j == k - i + 1
         IN (IF j <= Len(b) THEN a[i] * b[j] ELSE 0) + ColSum(a, b, k, i + 1)
RECURSIVE MulFrom(_, _, _, _)
MulFrom(a, b, k, c) ==
    IF k > Len(a) + Len(b) THEN <<>>
    ELSE LET s == ColSum(a, b, k, 1) + c
         IN <<s % 256>> \o MulFrom(a, b, k + 1, s \div 256)
MulFull(a, b) == MulFrom(a, b, 1, 0)
\* [v |-> product mod 2^(8w), ovf |-> product >= 2^(8w)]  (w = Len(a) = Len(b))
Mul(a, b) == LET p == MulFull(a, b)
                 w == Len(a)
             IN [v |-> SubSeq(p, 1, w), ovf |-> \E i \in (w + 1)..Len(p) : p[i] # 0]

(***************************************************************************)
(* Shifts by a natural number of bits; bits shifted out are dropped.       *)
(***************************************************************************)
Pow2(k) == CASE k = 0 -> 1 [] k = 1 -> 2 [] k = 2 -> 4 [] k = 3 -> 8 [] k = 4 -> 16
             [] k = 5 -> 32 [] k = 6 -> 64 [] k = 7 -> 128 [] k = 8 -> 256
Shl(a, n) ==
    LET w == Len(a) q == n \div 8 r == n % 8
        Byte(i) == IF i < 1 \/ i > w THEN 0 ELSE a[i]
    IN [i \in 1..w |-> ((Byte(i - q) * Pow2(r)) % 256) + (Byte(i - q - 1) \div Pow2(8 - r))]
Shr(a, n) ==
    LET w == Len(a) q == n \div 8 r == n % 8
        Byte(i) == IF i < 1 \/ i > w THEN 0 ELSE a[i]
    IN [i \in 1..w |-> (Byte(i + q) \div Pow2(r)) + ((Byte(i + q + 1) * Pow2(8 - r)) % 256)]

(***************************************************************************)
(* Bitwise operators, byte by byte (Bitwise module on 0..255).             *)
(***************************************************************************)
BAnd(a, b) == [i \in DOMAIN a |-> a[i] & b[i]]
BOr(a, b)  == [i \in DOMAIN a |-> a[i] | b[i]]
BXor(a, b) == [i \in DOMAIN a |-> a[i] ^^ b[i]]
BNot(a)    == [i \in DOMAIN a |-> 255 - a[i]]

(***************************************************************************)
(* Division: restoring binary long division, most significant bit first.   *)
(* DivMod(a, b) for b # 0 : [q, r] with a = q*b + r, r < b.                *)
(***************************************************************************)
Bit(a, k) == (a[(k \div 8) + 1] \div Pow2(k % 8)) % 2          \* k = 0 is the least significant bit
SetBit(a, k) == [a EXCEPT ![(k \div 8) + 1] = @ + Pow2(k % 8)]
RECURSIVE DivStep(_, _, _, _, _)
DivStep(a, b, k, q, r) ==
    IF k < 0 THEN [q |-> q, r |-> r]
    ELSE LET r2 == [Shl(r, 1) EXCEPT ![1] = @ + Bit(a, k)]      \* r := 2r + bit k of a   (r < b <= max so no overflow past w+1 bytes)
         IN IF Le(b, r2) THEN DivStep(a, b, k - 1, SetBit(q, k), Sub(r2, b).v)
            ELSE DivStep(a, b, k - 1, q, r2)
\* r is kept one byte wider than a so that 2r + 1 never overflows
DivMod(a, b) ==
    LET w == Len(a)
        res == DivStep(a, Resize(b, w + 1), 8 * w - 1, Zero(w), Zero(w + 1))
    IN [q |-> res.q, r |-> Resize(res.r, w)]
=============================================================================
