\* simulation pool (fixed -seed): complete behaviours of 1m2c printed as REPLAY records
CONSTANTS
  Procs = {1, 2, 3}
  Prog <- Prog_1m2c
  AtomicPublish = TRUE
  InitFiles = {"absent", "empty", "garbage", "ghost"}
  MaxCrashes = 1
SPECIFICATION MCSpec
INVARIANT PrintReplay
CHECK_DEADLOCK FALSE
