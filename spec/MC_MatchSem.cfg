\* quick smoke configuration: bool and u8 exhaustive pools, all model facts incl. the full-range region lemma
CONSTANT Sel = {"x_bool", "x_u8"}
CONSTANT NRand = 10
CONSTANT SliceK = 1
CONSTANT SliceR = 0
CONSTANT FullLemma = TRUE
SPECIFICATION Spec
INVARIANT WellFormed
INVARIANT Facts
INVARIANT Lemma
INVARIANT PrintReplay
CHECK_DEADLOCK FALSE
