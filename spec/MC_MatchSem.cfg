\* default configuration (smoke run by hand): the bool and u8 exhaustive pools with every model fact;
\* checks/C14.py writes one such configuration per pool piece (Sel, NRand, SliceK, SliceR, FullLemma) into work/C14
CONSTANT Sel = {"x_bool", "x_u8"}
CONSTANT NRand = 10
CONSTANT SliceK = 1
CONSTANT SliceR = 0
CONSTANT FullLemma = TRUE
SPECIFICATION Spec
INVARIANT WellFormed
INVARIANT Facts
INVARIANT Lemma
INVARIANT PrintReplay
CHECK_DEADLOCK FALSE
