\* exhaustive: 2 packages x 2 profiles x 2 artifact values, every sequence of <= 5 builds
CONSTANTS Pkgs = {"p", "q"}  Profiles = {"debug", "release"}  Values = {"a", "b"}  MaxBuilds = 5
SPECIFICATION MCSpec
INVARIANT ArtifactIsFunctionOfSource
INVARIANT DerivedIdsAgree
INVARIANT ArtMatchesHistory
CHECK_DEADLOCK FALSE
