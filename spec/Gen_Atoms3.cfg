\* every atom string of length <= 3 over the full alphabet
CONSTANTS K = 3  Alphabet <- AllAtoms  NSeeds = 0  SeedTok <- SeedTokImpl  SeedDelims <- SeedDelimsImpl  MaxOps = 0  Q = 1
INIT AtomInit
NEXT AtomNext
INVARIANT PrintAtoms
CHECK_DEADLOCK FALSE
