\* MC_LspSched.tla: the protocol as originally written w.r.t. this repair; TLC must report CexNoHang violated and print the schedule (mechanism late-open-store)
CONSTANTS NChange = 0  NSave = 0  NWait = 1
          NChecksFull = 7  TailFullCode = 1122110  NChecksCached = 2  TailCachedCode = 10
          FixNotify = TRUE  FixOpen = FALSE  FixClear = FALSE  FixSave = FALSE
          KnownMechs = {}
SPECIFICATION HistSpec
VIEW View
INVARIANT CexNoHang
CHECK_DEADLOCK FALSE
