\* termination of planning alone: EXPECTED TO BE VIOLATED (finding F1 of notes/X01.md); the
\* counterexample is the shortest session that makes validate_graph loop in find_path_root
CONSTANTS N = 3  MaxEnv = 2
SPECIFICATION Spec
INVARIANT PlanningTerminates
CHECK_DEADLOCK FALSE
