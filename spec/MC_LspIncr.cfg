\* exhaustive (quick): the sibling pair -- 3 modules (main, a, b), 2 names and <= 2 items per module, every kind of
\* edit, cancellation, histories of <= 4 client actions (the opening of main included)
CONSTANTS
  Mods = {"main", "a", "b"}
  NNames = 2
  MaxItems = 2
  MaxHist = 4
  Kinds = {"add", "delete", "rename", "sig", "arg", "ws"}
  CancelAt = {1}
  Inits = {"base", "err"}
  KeepHist = FALSE
SPECIFICATION Spec
INVARIANT TypeOK
INVARIANT MechComplete
INVARIANT MechSound
INVARIANT NoUnlistedMechanism
INVARIANT ReopenReuses
INVARIANT RecheckShape
INVARIANT TypedCurrentUnlessUncommitted
CHECK_DEADLOCK FALSE
