--------------------------- MODULE MC_SwayMutate ---------------------------
(* TLC-only additions to SwayMutate: the base packages are read from the ndjson file named by the     *)
(* environment variable BASE; one replay record is printed per mutant (the mutation descriptors and,  *)
(* per mutation, the top-level part of the package it touched -- a test, a function, a struct, an     *)
(* enum, prog.dups or prog.kind -- AFTER all edits, so that applying a record is `set part := node`); *)
(* SimNext draws one random mutation per step (deterministic under -seed) for the double mutations.   *)
EXTENDS Naturals, Sequences, FiniteSets, TLC, Json, IOUtils, Randomization

CONSTANT MaxDepth
VARIABLES pi, muts

\* (instantiating with a definition -- instead of overriding the constant in the cfg -- lets TLC evaluate the file once)
BaseFromFile == ndJsonDeserialize(IOEnv.BASE)
INSTANCE SwayMutate WITH Base <- BaseFromFile

Root(at) == IF at[1] = "tests" THEN SubSeq(at, 1, 2) ELSE SubSeq(at, 1, Min(3, Len(at)))
Desc(m) == [kind |-> m.kind, p |-> m.p, a |-> m.a]

Record == [base |-> BaseFromFile[pi].id,
           muts |-> ForSeq(Len(muts), LAMBDA i : <<Desc(muts[i])>>),
           edits |-> ForSeq(Len(muts), LAMBDA i : <<[root |-> Root(muts[i].at), node |-> GetAt(Cur, Root(muts[i].at))]>>)]

\* the operator names of the specification, for the driver's "every kind fired" count
ASSUME PrintT(<<"KINDS", ToJson(Kinds)>>)

PrintReplay == (Len(muts) = MaxDepth) => PrintT(<<"REPLAY", ToJson(Record)>>)

SimTake(ms) == /\ Len(muts) < MaxDepth
               /\ Len(ms) > 0
               /\ \E i \in RandomSubset(1, 1..Len(ms)) : muts' = Append(muts, ms[i])
               /\ UNCHANGED pi
SimNext ==
    \/ \E t \in RandomSubset(1, 1..Len(Cur.tests)) : SimTake(BMuts(Cur.tests[t].body, <<"tests", t, "body">>, Ctx(Cur, Cur.tests[t].body)))
    \/ \E f \in RandomSubset(1, DOMAIN Cur.prog.fns) : SimTake(FnMuts(Cur, f))
    \/ \E s \in RandomSubset(1, DOMAIN Cur.prog.structs) : SimTake(StructMuts(Cur, s))
    \/ \E en \in RandomSubset(1, DOMAIN Cur.prog.enums) : SimTake(EnumMuts(Cur, en))
SimSpec == MInit /\ [][SimNext]_mvars
=============================================================================
