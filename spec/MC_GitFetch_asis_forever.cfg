\* the protocol as found: F11, "fails forever" half.
\* EXPECTED RESULT: ErrorThenRefetch is violated (the build after a failed build does not refetch);
\* with that invariant removed, NoFailForever is violated (MC_GitFetch_asis_forever2.cfg)
CONSTANT NFiles = 3
CONSTANT ManifestIdx = 1
CONSTANT PlanNeeded = {1}
CONSTANT Needed = {1, 2}
CONSTANT MaxBuilds = 3
CONSTANT MaxFaults = 1
CONSTANT Protocol = "inplace"
SPECIFICATION Spec
INVARIANT TypeOK
INVARIANT ErrorThenRefetch
CHECK_DEADLOCK FALSE
