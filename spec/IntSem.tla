------------------------------- MODULE IntSem -------------------------------
(***************************************************************************)
(* The documented arithmetic of Sway's unsigned integer types.             *)
(* A value of type u8/u16/u32/u64/u256 is a little-endian byte sequence of *)
(* 1/2/4/8/32 bytes (Bytes.tla).  Every operator returns                   *)
(*    [ok |-> BOOLEAN, v |-> bytes]                                        *)
(* ok = FALSE means "the program reverts" (overflow, underflow, division   *)
(* or modulo by zero).  Shifts and bitwise operators never revert.         *)
(* One table; C01 (run-time semantics), C06 (compile-time evaluation) and  *)
(* C27 (std numerics) all use it.                                          *)
(***************************************************************************)
EXTENDS Bytes

IntTypes == {"u8", "u16", "u32", "u64", "u256"}
WidthOf(t) == CASE t = "u8" -> 1 [] t = "u16" -> 2 [] t = "u32" -> 4 [] t = "u64" -> 8 [] t = "u256" -> 32
                [] t = "b256" -> 32
BitsOf(t) == 8 * WidthOf(t)
MaxOf(t) == [i \in 1..WidthOf(t) |-> 255]

Ok(v) == [ok |-> TRUE, v |-> v]
Abort(w) == [ok |-> FALSE, v |-> Zero(w)]

ArithOps == {"add", "sub", "mul", "div", "mod"}
ShiftOps == {"shl", "shr"}
BitOps == {"and", "or", "xor"}
CmpOps == {"eq", "ne", "lt", "le", "gt", "ge"}

\* a, b : values of integer type t
Arith(op, t, a, b) ==
    LET w == WidthOf(t) IN
    CASE op = "add" -> LET r == Add(a, b) IN IF r.ovf THEN Abort(w) ELSE Ok(r.v)
      [] op = "sub" -> LET r == Sub(a, b) IN IF r.ovf THEN Abort(w) ELSE Ok(r.v)
      [] op = "mul" -> LET r == Mul(a, b) IN IF r.ovf THEN Abort(w) ELSE Ok(r.v)
      [] op = "div" -> IF IsZero(b) THEN Abort(w) ELSE Ok(DivMod(a, b).q)
      [] op = "mod" -> IF IsZero(b) THEN Abort(w) ELSE Ok(DivMod(a, b).r)

\* a : value of type t ; n : the shift amount, a u64 value (8 bytes).  Never reverts;
\* an amount >= the bit width yields 0; bits shifted out of the width are dropped.
Shift(op, t, a, n) ==
    LET w == WidthOf(t)
        big == ~IsSmall(n) \/ ToNat(n) >= 8 * w
    IN IF big THEN Ok(Zero(w))
       ELSE IF op = "shl" THEN Ok(Shl(a, ToNat(n))) ELSE Ok(Shr(a, ToNat(n)))

Bitw(op, t, a, b) ==
    CASE op = "and" -> Ok(BAnd(a, b))
      [] op = "or"  -> Ok(BOr(a, b))
      [] op = "xor" -> Ok(BXor(a, b))

NotOp(t, a) == Ok(BNot(a))

Cmp(op, a, b) ==
    CASE op = "eq" -> a = b
      [] op = "ne" -> a # b
      [] op = "lt" -> Lt(a, b)
      [] op = "le" -> Le(a, b)
      [] op = "gt" -> Lt(b, a)
      [] op = "ge" -> Le(b, a)

(***************************************************************************)
(* Conversions between widths.                                             *)
(*   widening (as_u64, as_u256, ...) never fails;                          *)
(*   narrowing try_as_* yields None when the value does not fit.           *)
(***************************************************************************)
Widen(a, t2) == Resize(a, WidthOf(t2))
FitsIn(a, t2) == Fits(a, WidthOf(t2))
Narrow(a, t2) == Resize(a, WidthOf(t2))       \* only meaningful when FitsIn
=============================================================================
