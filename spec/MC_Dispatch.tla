---------------------------- MODULE MC_Dispatch ----------------------------
(***************************************************************************)
(* TLC-only additions to Dispatch: the adversarial pool of method names,   *)
(* the enumeration of contracts (method-name subsets by bit mask x         *)
(* declaration order x fallback x signature pattern), the selectors tried  *)
(* against a contract (its own names, the rest of the pool, and derived    *)
(* near-misses), and the deterministic conformance pool.                   *)
(***************************************************************************)
EXTENDS Dispatch, Json

CONSTANTS MaxCalls,        \* calls per sequence in the exhaustive state machine
          MaxSize,         \* method-name subsets of size 1..MaxSize
          PoolN            \* how many names of the pool the state machine draws from

NamePool == <<"a", "ab", "abc", "abd", "b", "get", "get_", "get2", "set_", "transfer", "transfer_from", "ba">>
NP == Len(NamePool)

RECURSIVE Pow2n(_)
Pow2n(k) == IF k = 0 THEN 1 ELSE 2 * Pow2n(k - 1)
BitSet(mask, n) == { i \in 1..n : (mask \div Pow2n(i - 1)) % 2 = 1 }
RECURSIVE SortedSeq(_)
SortedSeq(S) == IF S = {} THEN <<>> ELSE LET m == CHOOSE x \in S : \A y \in S : x <= y IN <<m>> \o SortedSeq(S \ {m})
Reverse(s) == [i \in 1..Len(s) |-> s[Len(s) + 1 - i]]

\* shared first character (which includes shared prefixes) or equal length
Related(x, y) == Len(x) = Len(y) \/ SubSeq(x, 1, 1) = SubSeq(y, 1, 1)
HasRelatedPair(S) == Cardinality(S) = 1 \/ \E i, j \in S : i < j /\ Related(NamePool[i], NamePool[j])

\* signature pattern p: method j gets Sigs[((p + j) % 6) + 1]; p = 6: every method takes a u64
SigOf(p, j) == IF p = 6 THEN "u64" ELSE Sigs[((p + j) % 6) + 1]

MkContract(mask, n, rev, fb, pat) ==
    LET idx == SortedSeq(BitSet(mask, n))
        ord == IF rev THEN Reverse(idx) ELSE idx
    IN [methods |-> [j \in 1..Len(ord) |-> [name |-> NamePool[ord[j]], sig |-> SigOf(pat, j)]], fallback |-> fb]

GoodMasks(n, maxsize) == { m \in 1..(Pow2n(n) - 1) : Cardinality(BitSet(m, n)) <= maxsize /\ HasRelatedPair(BitSet(m, n)) }

(***************************************************************************)
(* Argument pools and selectors.                                           *)
(***************************************************************************)
U64(n) == IntV("u64", FromNat(n, 8))
BigU64 == IntV("u64", FromBE(<<17, 34, 51, 68, 85, 102, 119, 136>>))
StructP(a, b, x) == AggV(<<IntV("u8", <<a>>), b, BoolV(x)>>)
ArgPool(sig) ==
    CASE sig = "unit" -> << <<>>, <<>> >>
      [] sig = "u64" -> << <<BigU64>>, <<U64(0)>> >>
      [] sig = "u8bool" -> << <<IntV("u8", <<255>>), BoolV(TRUE)>>, <<IntV("u8", <<0>>), BoolV(FALSE)>> >>
      [] sig = "struct" -> << <<StructP(7, BigU64, TRUE)>>, <<StructP(0, U64(1), FALSE)>> >>
      [] sig = "vec" -> << <<VecV(<<U64(1), BigU64, U64(3)>>)>>, <<VecV(<<>>)>> >>
      [] sig = "str" -> << <<SliceV(<<104, 101, 108, 108, 111, 44, 32, 119, 111, 114, 108, 100>>)>>, <<SliceV(<<>>)>> >>

Names(k) == { k.methods[i].name : i \in DOMAIN k.methods }
\* near-misses derived from the contract's own names and from the packed string
DropLast(s) == SubSeq(s, 1, Len(s) - 1)
Derived(k) ==
    LET p == Packed(k) IN
    ( {""}
      \cup { DropLast(m) : m \in Names(k) }
      \cup { m \o "x" : m \in Names(k) }
      \cup { DropLast(m) \o "z" : m \in Names(k) }
      \* substrings of the packed names at every offset, of every declared length (arms compare at fixed offsets)
      \cup UNION { { SubSeq(p.names, o + 1, o + Len(m)) : o \in 0..(Len(p.names) - Len(m)) } : m \in Names(k) } )
    \ Names(k)
PoolOthers(k) == { NamePool[i] : i \in 1..NP } \ Names(k)
AllSels(k) == Names(k) \cup PoolOthers(k) \cup Derived(k)

(***************************************************************************)
(* 1. Static enumeration: every contract from the pool; the dispatcher is  *)
(*    exact on every selector.                                             *)
(***************************************************************************)
StaticContracts == { MkContract(m, NP, rev, FALSE, 6) : m \in GoodMasks(NP, MaxSize), rev \in BOOLEAN }

(***************************************************************************)
(* 2. State machine over call sequences (contracts over the first PoolN    *)
(*    names).                                                              *)
(***************************************************************************)
SeqContracts == { MkContract(m, PoolN, rev, fb, pat) : m \in GoodMasks(PoolN, MaxSize), rev \in BOOLEAN, fb \in BOOLEAN, pat \in {0, 6} }
SeqSels(k) == Names(k) \cup { s \in Derived(k) : \E m \in Names(k) : Len(s) = Len(m) } \cup {""}

Init == \E k \in SeqContracts : InitWith(k)
ArgsFor(k, sel) ==
    LET t == SpecTarget(k, sel) IN IF t = 0 THEN { <<>> } ELSE { ArgPool(k.methods[t].sig)[i] : i \in {1, 2} }
Next == /\ steps < MaxCalls
        /\ \E sel \in SeqSels(c) : \E args \in ArgsFor(c, sel) : Call(sel, args)
Spec == Init /\ [][Next]_vars

InvDispatchExact == DispatchExact(AllSels(c))
InvFrame == FrameOK
InvSum == CountersSum
InvUnique == UniqueNames(c)

\* A mutant of the dispatcher for the binding demonstration: no grouping by length -- an arm matches when the
\* selector's bytes are found at the arm's offset.  TLC must refute InvMutExact (e.g. "ab" against arm "abc").
MutTarget(k, sel) ==
    LET p == Packed(k)
        hits == { i \in DOMAIN k.methods :
                    /\ p.offs[i] + Len(sel) <= Len(p.names)
                    /\ SubSeq(p.names, p.offs[i] + 1, p.offs[i] + Len(sel)) = sel }
    IN IF hits = {} THEN 0 ELSE CHOOSE i \in hits : \A j \in hits : i <= j
InvMutExact == \A s \in AllSels(c) : MutTarget(c, s) = SpecTarget(c, s)

\* static enumeration as initial states only
StaticInit == \E k \in StaticContracts : InitWith(k)
StaticNext == FALSE /\ UNCHANGED vars
StaticSpec == StaticInit /\ [][StaticNext]_vars

(***************************************************************************)
(* 3. The conformance pool.  Contract g <-> the g-th good mask over the    *)
(*    whole pool; order, fallback and signature pattern by arithmetic.     *)
(***************************************************************************)
CONSTANT GenStride        \* every GenStride-th mask of size >= 3 (all masks of size <= 2)
GenMasks == { m \in GoodMasks(NP, 5) : Cardinality(BitSet(m, NP)) <= 2 \/ m % GenStride = 0 }
GenContract(m) == MkContract(m, NP, (m \div 2) % 2 = 1, m % 2 = 1, m % 7)

CallRec(k, sel, kind, variant) ==
    LET t == SpecTarget(k, sel)
        args == IF t = 0 THEN <<>> ELSE ArgPool(k.methods[t].sig)[variant]
    IN [sel |-> sel, kind |-> kind, args |-> args, argbytes |-> EncASeq(args, 1), blob |-> SelectorBlob(sel),
        sig |-> IF t = 0 THEN "unit" ELSE k.methods[t].sig]

RECURSIVE Chunks4(_)
Chunks4(s) == IF Len(s) <= 4 THEN (IF Len(s) = 0 THEN <<>> ELSE <<s>>) ELSE <<SubSeq(s, 1, 4)>> \o Chunks4(SubSeq(s, 5, Len(s)))

\* strings ordered by (length, then TLC's CHOOSE order, made deterministic by the length key and fixed pool)
RECURSIVE SortedStrs(_)
SortedStrs(S) ==
    IF S = {} THEN <<>>
    ELSE LET m == CHOOSE x \in S : \A y \in S : Len(x) <= Len(y) IN <<m>> \o SortedStrs(S \ {m})

\* unknown selectors tried with hand-encoded (raw) calls: deterministic choice of at most 6
RawUnknowns(k) ==
    LET D == Derived(k)
        pick == { s \in D : Len(s) = 0 \/ (\E m \in Names(k) : Len(s) = Len(m) \/ Len(s) = Len(m) + 1 \/ Len(s) + 1 = Len(m)) }
        sq == SortedStrs(pick)
    IN SubSeq(sq, 1, IF Len(sq) < 6 THEN Len(sq) ELSE 6)
TestsOf(k) ==
    LET n == Len(k.methods)
        nm(i) == k.methods[i].name
        typedAll == [i \in 1..n |-> CallRec(k, nm(i), "typed", 1)]
        rawAll == [i \in 1..n |-> CallRec(k, nm(n + 1 - i), "raw", 2)]
        repeat == <<CallRec(k, nm(1), "typed", 1), CallRec(k, nm(1), "raw", 2), CallRec(k, nm(n), "typed", 2), CallRec(k, nm(1), "typed", 2)>>
        others == SortedStrs(PoolOthers(k))
        wide == <<CallRec(k, nm(1), "typed", 2), CallRec(k, others[1], "wide", 1), CallRec(k, nm(n), "raw", 1), CallRec(k, others[Len(others)], "wide", 1)>>
        ru == RawUnknowns(k)
        rawU == IF k.fallback
                THEN Chunks4([i \in 1..(2 * Len(ru)) |-> IF i % 2 = 1 THEN CallRec(k, ru[(i + 1) \div 2], "raw", 1)
                                                                        ELSE CallRec(k, nm(((i \div 2) % n) + 1), "typed", 1)])
                ELSE [i \in 1..Len(ru) |-> <<CallRec(k, nm((i % n) + 1), "typed", 1), CallRec(k, ru[i], "raw", 1)>>]
    IN Chunks4(typedAll) \o Chunks4(rawAll) \o <<repeat, wide>> \o rawU

WideNames(k) == LET others == SortedStrs(PoolOthers(k)) IN <<others[1], others[Len(others)]>>
ReplayRec(m) == LET k == GenContract(m) IN
    [id |-> m, methods |-> k.methods, fallback |-> k.fallback, wide |-> WideNames(k), tests |-> TestsOf(k)]

\* the mask is carried in `steps`
GenInit2 == \E m \in GenMasks : /\ c = GenContract(m) /\ cnt = [i \in 1..(Len(GenContract(m).methods) + 1) |-> 0]
                                /\ aborted = FALSE /\ steps = m /\ last = NoCall
GenNext == FALSE /\ UNCHANGED vars
GenSpec == GenInit2 /\ [][GenNext]_vars
PrintReplay == PrintT(<<"REPLAY", ToJson(ReplayRec(steps))>>)
=============================================================================
