\* trace validation against the protocol as originally written (all repairs off)
CONSTANTS NChange = 3  NSave = 1  NWait = 2  ChecksFull = 7  ChecksCached = 2
          FixNotify = FALSE  FixOpen = FALSE  FixClear = FALSE  KnownMechs = {}
SPECIFICATION TraceSpec
POSTCONDITION Accepted
CHECK_DEADLOCK FALSE
