INIT C21DepInit
CONSTANTS Family = "core" NMax = 1 E2 = 0 E3 = 0 Wide = FALSE BigN = 4 BigReps = 1
CONSTANTS SStr <- MC_SStr PSrc <- MC_PSrc PDep <- MC_PDep SProv <- MC_SProv
NEXT NoNext
INVARIANT PrintItem
CHECK_DEADLOCK FALSE
