------------------------------ MODULE LockFile ------------------------------
(***************************************************************************)
(* Forc.lock: writing a resolved package graph and reading it back         *)
(* (C20), and the string grammar of the lock file's source strings and     *)
(* dependency lines, used as a generator of ill-formed inputs (C21).       *)
(*                                                                         *)
(* Transcribes forc-pkg/src/lock.rs (Lock::from_graph, Lock::to_graph,     *)
(* pkg_dep_line, parse_pkg_dep_line, names_requiring_disambiguation) and   *)
(* the Display / FromStr pairs of source::Pinned (source/mod.rs,           *)
(* git/mod.rs, path.rs, ipfs.rs, reg/mod.rs) at the level of character     *)
(* strings: TLC evaluates Len, SubSeq and \o on TLA+ strings, so the spec  *)
(* really splits at the first '?' or the last '#', trims, strips prefixes  *)
(* - the places where round-tripping breaks.                               *)
(*                                                                         *)
(* Abstract package graph                                                  *)
(*   node  = [name, src]      src = uniform record, see NoSrc              *)
(*   edge  = [from, to, dep, kind, salt]   from/to are nodes,              *)
(*           kind \in {"library","contract"}, salt = 64 hex ("" = library) *)
(*   graph = [nodes : set of node, edges : set of edge]                    *)
(* Abstract lock file (what serde sees of `Lock`)                          *)
(*   entry = [name, version, source, deps, cdeps]   source and the         *)
(*           elements of deps / cdeps are STRINGS; lock = set of entries    *)
(*           (BTreeSet<PkgLock>), deps / cdeps are sets of lines.          *)
(*                                                                         *)
(* Opaque sub-parsers (gix_url, semver, cid) are not transcribed: a URL,   *)
(* version or CID is the string the real parser prints back; the pools     *)
(* only contain strings those parsers accept and print unchanged           *)
(* (checked by conformance: a rejected pool string shows up as an error    *)
(* the spec did not predict).                                              *)
(***************************************************************************)
EXTENDS Integers, Sequences, FiniteSets, TLC

(***************************************************************************)
(* Strings                                                                 *)
(***************************************************************************)
Ch(s, i)   == SubSeq(s, i, i)
Take(s, n) == SubSeq(s, 1, n)
Drop(s, n) == SubSeq(s, n + 1, Len(s))
StartsWith(s, p) == Len(s) >= Len(p) /\ Take(s, Len(p)) = p
EndsWith(s, p)   == Len(s) >= Len(p) /\ Drop(s, Len(s) - Len(p)) = p

\* index of the first / last occurrence of p in s, 0 if none
RECURSIVE FindFrom(_, _, _)
FindFrom(s, p, i) ==
    IF i + Len(p) - 1 > Len(s) THEN 0
    ELSE IF SubSeq(s, i, i + Len(p) - 1) = p THEN i ELSE FindFrom(s, p, i + 1)
Find(s, p) == FindFrom(s, p, 1)
RECURSIVE RFindFrom(_, _, _)
RFindFrom(s, p, i) ==
    IF i < 1 THEN 0
    ELSE IF SubSeq(s, i, i + Len(p) - 1) = p THEN i ELSE RFindFrom(s, p, i - 1)
RFind(s, p) == RFindFrom(s, p, Len(s) - Len(p) + 1)
Contains(s, p) == Find(s, p) # 0

\* str::split_once / rsplit_once: <<found, before, after>>
SplitOnce(s, p) ==
    LET i == Find(s, p) IN
    IF i = 0 THEN <<FALSE, s, "">> ELSE <<TRUE, Take(s, i - 1), Drop(s, i + Len(p) - 1)>>
RSplitOnce(s, p) ==
    LET i == RFind(s, p) IN
    IF i = 0 THEN <<FALSE, s, "">> ELSE <<TRUE, Take(s, i - 1), Drop(s, i + Len(p) - 1)>>

\* str::split(p) as the sequence of all segments (never empty)
RECURSIVE Split(_, _)
Split(s, p) ==
    LET i == Find(s, p) IN
    IF i = 0 THEN <<s>> ELSE <<Take(s, i - 1)>> \o Split(Drop(s, i + Len(p) - 1), p)

Ws == {" ", "\t", "\n", "\r"}
RECURSIVE TrimStart(_)
TrimStart(s) == IF Len(s) > 0 /\ Ch(s, 1) \in Ws THEN TrimStart(Drop(s, 1)) ELSE s
RECURSIVE TrimEnd(_)
TrimEnd(s) == IF Len(s) > 0 /\ Ch(s, Len(s)) \in Ws THEN TrimEnd(Take(s, Len(s) - 1)) ELSE s
Trim(s) == TrimEnd(TrimStart(s))

AllIn(s, S) == \A i \in 1..Len(s) : Ch(s, i) \in S

Digit    == {"0","1","2","3","4","5","6","7","8","9"}
HexLo    == Digit \cup {"a","b","c","d","e","f"}
HexUp    == Digit \cup {"A","B","C","D","E","F"}
Hex      == HexLo \cup HexUp
LowerAz  == {"a","b","c","d","e","f","g","h","i","j","k","l","m","n","o","p","q","r","s","t","u","v","w","x","y","z"}
UpperAz  == {"A","B","C","D","E","F","G","H","I","J","K","L","M","N","O","P","Q","R","S","T","U","V","W","X","Y","Z"}
Alnum    == Digit \cup LowerAz \cup UpperAz
NameChar == Alnum \cup {"-", "_"}

UpHex(c) == CASE c = "a" -> "A" [] c = "b" -> "B" [] c = "c" -> "C" [] c = "d" -> "D"
              [] c = "e" -> "E" [] c = "f" -> "F" [] OTHER -> c
LoHex(c) == CASE c = "A" -> "a" [] c = "B" -> "b" [] c = "C" -> "c" [] c = "D" -> "d"
              [] c = "E" -> "e" [] c = "F" -> "f" [] OTHER -> c
RECURSIVE MapStr(_, _)
MapStr(s, up) == IF Len(s) = 0 THEN ""
                 ELSE (IF up THEN UpHex(Ch(s, 1)) ELSE LoHex(Ch(s, 1))) \o MapStr(Drop(s, 1), up)
RECURSIVE StripZeros(_)
StripZeros(s) == IF Len(s) > 1 /\ Ch(s, 1) = "0" THEN StripZeros(Drop(s, 1)) ELSE s
RECURSIVE ZeroPad(_, _)
ZeroPad(s, n) == IF Len(s) >= n THEN s ELSE ZeroPad("0" \o s, n)

(***************************************************************************)
(* Sources                                                                 *)
(***************************************************************************)
NoSrc == [kind |-> "", root |-> "", url |-> "", refk |-> "", refv |-> "", commit |-> "",
          cid |-> "", name |-> "", version |-> "", nsk |-> "", ns |-> ""]
MemberSrc            == [NoSrc EXCEPT !.kind = "member"]
PathSrc(r)           == [NoSrc EXCEPT !.kind = "path", !.root = r]
GitSrc(u, k, v, c)   == [NoSrc EXCEPT !.kind = "git", !.url = u, !.refk = k, !.refv = v, !.commit = c]
IpfsSrc(c)           == [NoSrc EXCEPT !.kind = "ipfs", !.cid = c]
RegSrc(n, v, c, k, d) == [NoSrc EXCEPT !.kind = "registry", !.name = n, !.version = v, !.cid = c,
                                      !.nsk = k, !.ns = d]

Ok(v) == [ok |-> TRUE, v |-> v]
Err   == [ok |-> FALSE, v |-> NoSrc]

\* ---- Display ------------------------------------------------------------
\* git::Pinned: git+<url>?<reference>#<commit>.  A `rev` that is not the pinned commit itself is
\* written as rev=<rev> (fix for F4); the bare `rev` of older lock files means Rev(<commit>).
RefStr(src) ==
    CASE src.refk = "branch"  -> "branch=" \o src.refv
      [] src.refk = "tag"     -> "tag=" \o src.refv
      [] src.refk = "rev"     -> IF src.refv = src.commit THEN "rev" ELSE "rev=" \o src.refv
      [] src.refk = "default" -> "default-branch"
      [] OTHER                -> "?"

SrcStr(src) ==
    CASE src.kind = "member"   -> "member"
      [] src.kind = "path"     -> "path+from-root-" \o src.root
      [] src.kind = "git"      -> "git+" \o src.url \o "?" \o RefStr(src) \o "#" \o src.commit
      [] src.kind = "ipfs"     -> "ipfs+" \o src.cid
      [] src.kind = "registry" -> "registry+" \o src.name \o "?" \o src.version \o "#" \o src.cid
                                  \o "!" \o (IF src.nsk = "domain" THEN src.ns ELSE "")
      [] OTHER                 -> "?"

\* ---- FromStr ------------------------------------------------------------
\* PinnedId: u64::from_str_radix(s, 16), printed as {:016X}
ParseHexId(s) ==
    LET t == IF StartsWith(s, "+") THEN Drop(s, 1) ELSE s
        z == StripZeros(t) IN
    IF Len(t) = 0 \/ ~AllIn(t, Hex) \/ Len(z) > 16 THEN [ok |-> FALSE, v |-> ""]
    ELSE [ok |-> TRUE, v |-> ZeroPad(MapStr(z, TRUE), 16)]

ParsePath(s) ==           \* s starts with "path+"
    LET segs == Split(Drop(s, 5), "from-root-") IN
    IF Len(segs) < 2 THEN Err
    ELSE LET id == ParseHexId(segs[2]) IN IF id.ok THEN Ok(PathSrc(id.v)) ELSE Err

CommitOk(c) == Len(c) = 40 /\ AllIn(c, Alnum)        \* validate_git_commit_hash

ParseGit(s) ==            \* s starts with "git+"
    LET a == SplitOnce(Drop(s, 4), "?") IN
    IF ~a[1] \/ Len(a[2]) = 0 THEN Err                  \* no '?'; gix_url rejects the empty URL
    ELSE LET b == RSplitOnce(a[3], "#") IN              \* the commit hash follows the LAST '#'
         IF ~b[1] \/ ~CommitOk(b[3]) THEN Err
         ELSE LET r == b[2] c == b[3] u == a[2] IN
              IF StartsWith(r, "branch=")   THEN Ok(GitSrc(u, "branch", Drop(r, 7), c))
              ELSE IF StartsWith(r, "tag=") THEN Ok(GitSrc(u, "tag", Drop(r, 4), c))
              ELSE IF r = "rev"             THEN Ok(GitSrc(u, "rev", c, c))
              ELSE IF StartsWith(r, "rev=") THEN Ok(GitSrc(u, "rev", Drop(r, 4), c))
              ELSE IF r = "default-branch"  THEN Ok(GitSrc(u, "default", "", c))
              ELSE Err

ParseIpfs(s) ==           \* s starts with "ipfs+"
    IF Len(s) = 5 THEN Err ELSE Ok(IpfsSrc(Drop(s, 5)))

\* necessary for semver::Version::from_str (the rest of semver is opaque)
SemverShape(v) == Len(v) > 0 /\ Ch(v, 1) \in Digit /\ AllIn(v, Alnum \cup {".", "-", "+"})

CidV0(c) == LET t == Trim(c) IN StartsWith(t, "Qm") /\ Len(t) = 46      \* reg::validate_cid

ParseReg(s) ==            \* s starts with "registry+"
    LET a == SplitOnce(Drop(s, 9), "?") IN
    IF ~a[1] THEN Err
    ELSE LET segs == Split(a[3], "#") IN
         IF ~SemverShape(segs[1]) \/ Len(segs) < 2 THEN Err      \* not a version; no '#'
         ELSE LET cn == Split(segs[2], "!") IN
              IF ~CidV0(cn[1]) THEN Err
              ELSE IF Len(cn) >= 2 /\ Len(cn[2]) > 0
                   THEN Ok(RegSrc(a[2], segs[1], cn[1], "domain", cn[2]))
                   ELSE Ok(RegSrc(a[2], segs[1], cn[1], "flat", ""))

\* source::Pinned::from_str: "root"/"member" are compared untrimmed, every other parser trims.
\* The prefixes are mutually exclusive, so the if-let chain is a dispatch on the prefix.
ParseSource(s0) ==
    IF s0 \in {"root", "member"} THEN Ok(MemberSrc)
    ELSE LET s == Trim(s0) IN
         IF StartsWith(s, "path+") THEN ParsePath(s)
         ELSE IF StartsWith(s, "git+") THEN ParseGit(s)
         ELSE IF StartsWith(s, "ipfs+") THEN ParseIpfs(s)
         ELSE IF StartsWith(s, "registry+") THEN ParseReg(s)
         ELSE Err

(***************************************************************************)
(* Dependency lines:  (<dep_name>) <name> <source> (<salt>)                *)
(***************************************************************************)
ZeroSalt == "0000000000000000000000000000000000000000000000000000000000000000"

\* pkg_name_disambiguated
Key(name, srcstr, disamb) == IF disamb THEN name \o " " \o srcstr ELSE name

\* pkg_dep_line
DepLine(dep, name, srcstr, kind, salt, disamb) ==
    (IF dep # name THEN "(" \o dep \o ") " ELSE "")
    \o Key(name, srcstr, disamb)
    \o (IF kind = "contract" /\ salt # ZeroSalt THEN " (" \o salt \o ")" ELSE "")

\* fuel_tx::Salt::from_str: 64 hex digits, optional 0x; printed in lower case
ParseSalt(x) ==
    LET y == IF StartsWith(x, "0x") THEN Drop(x, 2) ELSE x IN
    IF Len(y) = 64 /\ AllIn(y, Hex) THEN [ok |-> TRUE, v |-> MapStr(y, FALSE)] ELSE [ok |-> FALSE, v |-> ""]

\* parse_pkg_dep_line -> [ok, hasdep, dep, key, hassalt, salt]
DepErr == [ok |-> FALSE, hasdep |-> FALSE, dep |-> "", key |-> "", hassalt |-> FALSE, salt |-> ""]
ParseDepLine(line) ==
    LET s  == Trim(line)
        hd == StartsWith(s, "(")
        a  == IF hd THEN SplitOnce(Drop(s, 1), ")") ELSE <<TRUE, "", s>> IN
    IF ~a[1] THEN DepErr                                       \* "(abc": no closing parenthesis
    ELSE LET segs == Split(a[3], "(")
             key  == Trim(segs[1]) IN
         IF Len(segs) = 1
         THEN [ok |-> TRUE, hasdep |-> hd, dep |-> a[2], key |-> key, hassalt |-> FALSE, salt |-> ""]
         ELSE LET t == Trim(segs[2]) IN
              IF ~EndsWith(t, ")") THEN DepErr                 \* "a (": salt segment not closed
              ELSE LET sv == ParseSalt(Take(t, Len(t) - 1)) IN
                   IF ~sv.ok THEN DepErr
                   ELSE [ok |-> TRUE, hasdep |-> hd, dep |-> a[2], key |-> key,
                         hassalt |-> TRUE, salt |-> sv.v]

(***************************************************************************)
(* Memoization points.  The character-level operators are expensive for    *)
(* TLC's interpreter; MC_LockFile / Trace_LockFile override these four     *)
(* (cfg: PSrc <- ...) with lookups in tables of the SAME operators,        *)
(* computed once over the finite pool / the strings of a trace shard.      *)
(***************************************************************************)
SStr(src)  == SrcStr(src)
PSrc(s)    == ParseSource(s)
PDep(line) == ParseDepLine(line)

(***************************************************************************)
(* Graph -> lock (Lock::from_graph)                                        *)
(***************************************************************************)
\* names_requiring_disambiguation: names carried by more than one node
DisambNodes(g) == { n.name : n \in { m \in g.nodes : \E o \in g.nodes : o # m /\ o.name = m.name } }

ToLock(g) ==
    LET dis  == DisambNodes(g)
        str  == [n \in g.nodes |-> SStr(n.src)]
        line(e) == DepLine(e.dep, e.to.name, str[e.to], e.kind, e.salt, e.to.name \in dis)
        entry(n) ==
            LET outE == { e \in g.edges : e.from = n } IN
            [name    |-> n.name,
             version |-> IF n.src.kind = "registry" THEN n.src.version ELSE "",
             source  |-> str[n],
             deps    |-> { line(e) : e \in { x \in outE : x.kind = "library" } },
             cdeps   |-> { line(e) : e \in { x \in outE : x.kind = "contract" } }]
    IN { entry(n) : n \in g.nodes }

(***************************************************************************)
(* Lock -> graph (Lock::to_graph)                                          *)
(* Result: [k |-> "graph", g |-> graph] | [k |-> "error"] | [k |->         *)
(* "unordered"]: the last case stands for locks whose reading depends on   *)
(* the byte order of BTreeSet<PkgLock> / of the sorted dependency lists    *)
(* (two entries under one key, two lines of one entry reaching one         *)
(* package: update_edge keeps the last) - the spec does not order strings. *)
(***************************************************************************)
EmptyGraph == [nodes |-> {}, edges |-> {}]
RGraph(g)  == [k |-> "graph", g |-> g]
RError     == [k |-> "error", g |-> EmptyGraph]
RUnordered == [k |-> "unordered", g |-> EmptyGraph]

DisambLock(lock) == { en.name : en \in { a \in lock : \E b \in lock : b # a /\ b.name = a.name } }

FromLock(lock) ==
    LET dis    == DisambLock(lock)
        \* per entry: key in the name -> node map, parsed source   (functions: evaluated once)
        keyOf  == [en \in lock |-> Key(en.name, en.source, en.name \in dis)]
        srcOf  == [en \in lock |-> PSrc(en.source)]
        nodeOf == [en \in lock |-> [name |-> en.name, src |-> srcOf[en].v]]
        \* all (entry, line, kind) triples
        L      == UNION { { <<en, ln, "library">> : ln \in en.deps } \cup
                          { <<en, ln, "contract">> : ln \in en.cdeps } : en \in lock }
        pd     == [t \in L |-> PDep(t[2])]
        targets == [t \in L |-> { nodeOf[en] : en \in { x \in lock : keyOf[x] = pd[t].key } }]
        edgeOf == [t \in L |->
                    LET p  == pd[t]
                        to == CHOOSE n \in targets[t] : TRUE IN
                    [from |-> nodeOf[t[1]], to |-> to,
                     dep  |-> IF p.hasdep THEN p.dep ELSE to.name,
                     kind |-> t[3],
                     salt |-> IF t[3] = "library" THEN "" ELSE IF p.hassalt THEN p.salt ELSE ZeroSalt]]
    IN
    IF \E en \in lock : ~srcOf[en].ok THEN RError                       \* invalid 'source' entry
    ELSE IF \E t \in L : ~pd[t].ok THEN RError                          \* failed to parse dependency
    ELSE IF \E t \in L : targets[t] = {} THEN RError                    \* dep without node entry
    ELSE IF \E t \in L : Cardinality(targets[t]) > 1 THEN RUnordered    \* one key, two packages
    ELSE IF \E t, u \in L : t # u /\ t[1] = u[1] /\ edgeOf[t].to = edgeOf[u].to
         THEN RUnordered                                                \* update_edge: last line wins
    ELSE RGraph([nodes |-> { nodeOf[en] : en \in lock }, edges |-> { edgeOf[t] : t \in L }])

RoundTrip(g) == FromLock(ToLock(g))

(***************************************************************************)
(* Provisos of the round-trip theorem.  Each has a name; Provisos(g) is    *)
(* the set of names of the provisos g breaks.  "D-..." are properties      *)
(* every resolved graph has by construction (forc validates package        *)
(* names, fetch_deps uses update_edge, git2 prints 40-hex object ids);     *)
(* "M-..." are mechanisms by which a graph forc can resolve fails to       *)
(* round-trip (findings).                                                  *)
(***************************************************************************)
\* forc_util::validate_project_name, without the reserved-word lists
NameOk(n) == Len(n) >= 2 /\ Ch(n, 1) \in (LowerAz \cup UpperAz) /\ AllIn(n, NameChar)
SaltOk(x) == Len(x) = 64 /\ AllIn(x, HexLo)

SrcProvisos(src, dis) ==
    (IF src.kind = "git" /\ ~CommitOk(src.commit) THEN {"D-git-commit-hash"} ELSE {})
    \cup (IF src.kind = "git" /\ Contains(src.url, "?") THEN {"M-git-url-question-mark"} ELSE {})
    \cup (IF src.kind = "registry" /\ ~NameOk(src.name) THEN {"D-package-name"} ELSE {})
    \cup (IF src.kind = "registry" /\ src.nsk = "domain" /\ src.ns = ""
          THEN {"D-registry-namespace-empty"} ELSE {})
    \cup (IF src.kind = "registry" /\ src.nsk = "domain"
             /\ (Contains(src.ns, "!") \/ Contains(src.ns, "#") \/ TrimEnd(src.ns) # src.ns)
          THEN {"M-registry-namespace-separator"} ELSE {})
    \cup (IF src.kind = "registry" /\ ~CidV0(src.cid) THEN {"M-registry-cid-not-v0"} ELSE {})
    \cup (IF dis /\ Contains(SStr(src), "(") THEN {"M-disambiguated-source-parenthesis"} ELSE {})

SProv(src, dis) == SrcProvisos(src, dis)        \* memoization point, see above

Provisos(g) ==
    LET dis == DisambNodes(g) IN
    UNION { SProv(n.src, n.name \in dis) : n \in g.nodes }
    \cup (IF \E n \in g.nodes : ~NameOk(n.name) THEN {"D-package-name"} ELSE {})
    \cup (IF \E e \in g.edges : e.from \notin g.nodes \/ e.to \notin g.nodes THEN {"D-dangling-edge"} ELSE {})
    \cup (IF \E e, f \in g.edges : e # f /\ e.from = f.from /\ e.to = f.to
          THEN {"D-parallel-edges"} ELSE {})
    \cup (IF \E e \in g.edges : ~((e.kind = "library" /\ e.salt = "") \/ (e.kind = "contract" /\ SaltOk(e.salt)))
          THEN {"D-salt"} ELSE {})
    \cup (IF \E e \in g.edges : e.dep # e.to.name /\ Contains(e.dep, ")")
          THEN {"M-dep-name-parenthesis"} ELSE {})

WellFormed(g) == Provisos(g) = {}

(***************************************************************************)
(* The write / read cycle as a state machine (also replayed by             *)
(* Trace_LockFile against the real Lock::from_graph / Lock::to_graph).     *)
(***************************************************************************)
VARIABLES phase, g, lock, out
vars == <<phase, g, lock, out>>

\* MC_LockFile / Trace_LockFile supply the set of graphs
InitWith(Graphs) == phase = "graph" /\ g \in Graphs /\ lock = {} /\ out = RError

Write == phase = "graph" /\ phase' = "lock" /\ lock' = ToLock(g) /\ UNCHANGED <<g, out>>
Read  == phase = "lock"  /\ phase' = "read" /\ out' = FromLock(lock) /\ UNCHANGED <<g, lock>>

Next == Write \/ Read
SpecWith(Graphs) == InitWith(Graphs) /\ [][Next]_vars

\* C20: every graph satisfying the provisos is read back unchanged
RoundTripTheorem == (phase = "read" /\ WellFormed(g)) => out = RGraph(g)
\* the lock has one entry per node, every entry's source string parses back to the node's source
LockFaithful == (phase = "lock" /\ WellFormed(g)) =>
                   /\ Cardinality(lock) = Cardinality(g.nodes)
                   /\ \A n \in g.nodes : PSrc(SStr(n.src)) = Ok(n.src)
\* without the provisos the theorem is false (used to exhibit a witness for every proviso)
RoundTripAlways == (phase = "read") => out = RGraph(g)
=============================================================================
