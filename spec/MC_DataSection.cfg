\* C13 design-level model check: every sequence of <= 3 configurables over the 10 model types, one patch
CONSTANTS MaxCfgs = 3 MaxPatches = 1 Defaults = {0} Shapes = {1, 3} NBuilds = 0
SPECIFICATION MCSpec
INVARIANTS InvDisjoint InvInside InvPrelude InvObserve InvFrame InvLen
CHECK_DEADLOCK FALSE
