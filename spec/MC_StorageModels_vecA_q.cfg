\* quick tier: all histories over vecA, lengths 0..3
CONSTANT UnitWord = 0
CONSTANT Active = {"vecA"}
CONSTANT Vals = {1, 2}
CONSTANT Keys = {1, 2}
CONSTANT MaxLen = 3
CONSTANT SliceLens = {0, 1}
CONSTANT VecArgs = {0, 1, 21}
SPECIFICATION Spec
INVARIANT Refines
INVARIANT RetAgree
PROPERTY FrameProp
CHECK_DEADLOCK FALSE
