------------------------------ MODULE LspIncr ------------------------------
(***************************************************************************)
(* C26: incremental (LSP) compilation with module caching and garbage      *)
(* collection agrees with a fresh compilation after every edit.            *)
(*                                                                         *)
(* A workspace is a fixed module tree  main -> {a, b},  a -> {c}.  Each    *)
(* module's text is a sequence of abstract items (functions): a name, a    *)
(* parameter type and optionally one reference (a call, with an argument   *)
(* of some type) to an item of another module, imported with `use`;        *)
(* a -> b is a reference between SIBLING modules.                          *)
(*                                                                         *)
(* Two readings are defined side by side (DESIGN 3.3):                     *)
(*   Spec reading  SpecObs(text)   what a compilation from scratch of the  *)
(*                                 current text yields;                    *)
(*   Impl reading  ImplObs         what the server holds after the history *)
(*                                 of edits, obtained by transcribing the  *)
(*                                 rules of the code:                      *)
(*     - file_versions: only the edited document carries a version, every  *)
(*       other document None (notification.rs file_versions);              *)
(*     - is_ty_module_cache_up_to_date / is_parse_module_cache_up_to_date  *)
(*       (sway-core/src/lib.rs): "None => considered fresh; else           *)
(*       v <= cached version; and all dependencies valid", where the       *)
(*       dependencies of a module are its SUBMODULES only;                 *)
(*     - TyModule::type_check re-checks exactly the invalid modules, in    *)
(*       the namespace made of the re-checked modules and the CACHED       *)
(*       namespace of the reused ones; diagnostics of reused modules are   *)
(*       not re-emitted; the symbol collection phase and validate_root run *)
(*       over all modules every time;                                      *)
(*     - the worker (server_state.rs) garbage-collects the edited module   *)
(*       on a clone of the engines, and commits the caches / swaps the     *)
(*       engines only when the compilation succeeded; a cancelled or       *)
(*       failed compilation commits nothing;                               *)
(*     - session::traverse re-collects the tokens of the modified file     *)
(*       only.                                                             *)
(* The property is  Agree == ImplObs = SpecObs  after every completed      *)
(* compilation.  It does not hold; the ghost variable mech names, for      *)
(* every state that violates it, the mechanism(s) responsible.  TLC checks *)
(* that the naming is complete and sound (MechComplete, MechSound) and     *)
(* produces, per mechanism, a shortest history exhibiting it.  The trace   *)
(* specification Trace_LspIncr binds the real server to ImplObs and a      *)
(* fresh real server to SpecObs on every replayed history.                 *)
(***************************************************************************)
EXTENDS Naturals, Sequences, FiniteSets, TLC

CONSTANTS
    Mods,       \* modules present: "main" and a subset of {"a","b","c"}
    NNames,     \* size of the item-name pool of each module (1..3)
    MaxItems,   \* at most this many items in a module
    MaxHist,    \* at most this many client actions (edits, re-opens) per history
    Kinds,      \* enabled kinds of edit: subset of {"add","delete","rename","sig","arg","ws"}
    CancelAt,   \* check points (1..6) at which a compilation may be observed cancelled; {} = never
    Inits,      \* names of the initial workspaces (see InitText)
    KeepHist    \* TRUE: record the history of client actions (replay generation only)

(***************************************************************************)
(* Module tree, dependency lists and allowed references.                   *)
(***************************************************************************)
Children(m) == (CASE m = "main" -> {"a", "b"} [] m = "a" -> {"c"} [] OTHER -> {}) \cap Mods
\* ModuleCommonInfo.dependencies: the submodules of the module, nothing else
Deps(m) == Children(m)
\* Modules whose items a module may reference.  The order of type checking (submodules before their
\* parent; b before a as soon as a has a `use ::b::..`) guarantees that a target is processed before its user.
Targets(m) == (CASE m = "main" -> {"a", "b", "c"} [] m = "a" -> {"b", "c"} [] OTHER -> {}) \cap Mods

NameTable == [main |-> <<"m1", "m2", "m3">>, a |-> <<"g1", "g2", "g3">>,
              b |-> <<"f1", "f2", "f3">>, c |-> <<"h1", "h2", "h3">>]
Pool(m) == {NameTable[m][k] : k \in 1..NNames}

Types == {"u64", "bool"}
Flip(t) == IF t = "u64" THEN "bool" ELSE "u64"

NoRef == [m |-> "none", n |-> "", a |-> ""]
Ref(tm, tn, ta) == [m |-> tm, n |-> tn, a |-> ta]
Item(n, p, r) == [n |-> n, p |-> p, r |-> r]

(***************************************************************************)
(* Meaning of a text: diagnostics, symbols, resolved references.           *)
(* env[t] is the sequence of items module t exposes to the module being    *)
(* checked (its current text, or a cached namespace).                      *)
(***************************************************************************)
\* a name resolves to its LAST definition (0: undefined)
LastIdx(s, nm) ==
    LET S == {i \in DOMAIN s : s[i].n = nm}
    IN IF S = {} THEN 0 ELSE CHOOSE i \in S : \A j \in S : j <= i

HasRef(s, i) == s[i].r.m # "none"
ExtTargets(s) == {<<s[i].r.m, s[i].r.n>> : i \in {j \in DOMAIN s : HasRef(s, j)}}

\* a diagnostic: module, zero-based line in the rendering of the text it was computed for, kind
D(m, line, k) == [m |-> m, line |-> line, k |-> k]

\* zero-based lines of the fixed rendering: `library;`, one `pub mod` per child, one `use` per distinct external
\* target (sorted by module, then name), then one line per item
ModNo(t) == CASE t = "a" -> 1 [] t = "b" -> 2 [] t = "c" -> 3 [] OTHER -> 0
NameNo(t, n) == CHOOSE k \in 1..3 : NameTable[t][k] = n
Less(u, t) == ModNo(u[1]) < ModNo(t[1]) \/ (u[1] = t[1] /\ NameNo(u[1], u[2]) < NameNo(t[1], t[2]))
UseLine(m, s, t) == 1 + Cardinality(Children(m)) + Cardinality({u \in ExtTargets(s) : Less(u, t)})
ItemLine(m, s, i) == 1 + Cardinality(Children(m)) + Cardinality(ExtTargets(s)) + (i - 1)

\* `use ::tm::tn;` of an undefined item
UseDiag(m, s, env) ==
    {D(m, UseLine(m, s, t), "Unresolved") : t \in {u \in ExtTargets(s) : LastIdx(env[u[1]], u[2]) = 0}}

\* the call in item i: callee unresolved, or argument type differs from the callee's parameter type
ItemDiag(m, s, env) ==
    UNION {IF ~HasRef(s, i) THEN {}
           ELSE LET r == s[i].r
                    j == LastIdx(env[r.m], r.n)
                IN IF j = 0 THEN {D(m, ItemLine(m, s, i), "Unresolved")}
                   ELSE IF env[r.m][j].p # r.a THEN {D(m, ItemLine(m, s, i), "Mismatch")}
                   ELSE {}
           : i \in DOMAIN s}

\* type checking one module
TcDiag(m, s, env) == UseDiag(m, s, env) \cup ItemDiag(m, s, env)

\* validate_root: every definition of a name after the first
DupDiag(m, s) ==
    {D(m, ItemLine(m, s, j), "Duplicate") : j \in {k \in DOMAIN s : \E i \in 1..(k-1) : s[i].n = s[k].n}}

\* document symbols of a module
SymsOf(m, s) == {<<ItemLine(m, s, i), s[i].n, s[i].p>> : i \in DOMAIN s}

\* resolved, well-typed calls: <<line of the call, module of the definition, line of the definition>>
RefsOf(m, s, env) ==
    UNION {IF ~HasRef(s, i) THEN {}
           ELSE LET r == s[i].r
                    j == LastIdx(env[r.m], r.n)
                IN IF j # 0 /\ env[r.m][j].p = r.a
                   THEN {<<ItemLine(m, s, i), r.m, ItemLine(r.m, env[r.m], j)>>}
                   ELSE {}
           : i \in DOMAIN s}

\* modules to which the typed form of s holds resolved declaration references
LinksOf(s, env) == {s[i].r.m : i \in {j \in DOMAIN s : HasRef(s, j) /\ LastIdx(env[s[j].r.m], s[j].r.n) # 0}}

ItemsOf(T) == [t \in Mods |-> T[t].items]

\* ---- Spec reading: compile the text from scratch
SpecDiag(T) == UNION {TcDiag(m, T[m].items, ItemsOf(T)) \cup DupDiag(m, T[m].items) : m \in Mods}
SpecObs(T) == [diag |-> SpecDiag(T),
               syms |-> [m \in Mods |-> SymsOf(m, T[m].items)],
               refs |-> [m \in Mods |-> RefsOf(m, T[m].items, ItemsOf(T))]]

(***************************************************************************)
(* Initial workspaces.                                                     *)
(***************************************************************************)
Mod(s) == [items |-> s, pad |-> 0]
Restrict(T) == [m \in Mods |-> T[m]]
\* drop references to modules that are not present
Clean(T) == [m \in Mods |->
               [items |-> [i \in DOMAIN T[m].items |->
                              IF T[m].items[i].r.m \in Mods \cup {"none"} THEN T[m].items[i]
                              ELSE [T[m].items[i] EXCEPT !.r = NoRef]],
                pad |-> T[m].pad]]
InitText(name) ==
    Clean(Restrict(
      CASE name = "base" ->      \* well-formed: main -> a -> b (sibling), a -> c
             [main |-> Mod(<<Item("m1", "u64", Ref("a", "g1", "u64"))>>),
              a    |-> Mod(<<Item("g1", "u64", Ref("b", "f1", "u64")), Item("g2", "u64", Ref("c", "h1", "u64"))>>),
              b    |-> Mod(<<Item("f1", "u64", NoRef), Item("f2", "u64", NoRef)>>),
              c    |-> Mod(<<Item("h1", "u64", NoRef)>>)]
        [] name = "err" ->       \* a already has an ill-typed call into b
             [main |-> Mod(<<Item("m1", "u64", Ref("b", "f1", "u64"))>>),
              a    |-> Mod(<<Item("g1", "u64", Ref("b", "f1", "bool"))>>),
              b    |-> Mod(<<Item("f1", "u64", NoRef)>>),
              c    |-> Mod(<<Item("h1", "bool", NoRef)>>)]
        [] name = "small" ->     \* one item per module, a -> b
             [main |-> Mod(<<Item("m1", "u64", NoRef)>>),
              a    |-> Mod(<<Item("g1", "u64", Ref("b", "f1", "u64"))>>),
              b    |-> Mod(<<Item("f1", "u64", NoRef)>>),
              c    |-> Mod(<<Item("h1", "u64", NoRef)>>)]))

(***************************************************************************)
(* State.                                                                  *)
(***************************************************************************)
VARIABLES
    text,     \* [Mods -> [items, pad]]: the documents (what is on disk in the server's workspace clone)
    ver,      \* [Mods -> Nat]: LSP document version (1 after didOpen)
    opened,   \* modules for which the client sent didOpen
    phase,    \* "idle" | "pending" (an edit's compilation is in flight) | "cancelled" | "dead"
    pend,     \* the module whose edit is being compiled
    cache,    \* committed module cache: [Mods -> [pver, tver, typed, tdiag, links]] (0 = version None)
    sess,     \* what the server holds: [diag, tok]
    taint,    \* modules whose cached typed form refers to garbage-collected declarations
    unc,      \* [Mods -> "ok" | "cancelled" | "failed"]: fate of the module's last edit's compilation
    mech,     \* ghost: mechanisms by which ImplObs differs from SpecObs in this state
    steps,    \* number of client actions so far
    hist      \* history of client actions (only when KeepHist)

vars == <<text, ver, opened, phase, pend, cache, sess, taint, unc, mech, steps, hist>>

Cur == ItemsOf(text)

\* ---- Impl reading: what the server holds
ImplObs == [diag |-> sess.diag,
            syms |-> [m \in Mods |-> SymsOf(m, cache[m].typed)],    \* document symbols come from the typed program
            refs |-> sess.tok]

Agree == ImplObs = SpecObs(text)

(***************************************************************************)
(* The transcribed validity rules.  fv is the file_versions map of the     *)
(* request: fv[x] = 0 stands for None.                                     *)
(***************************************************************************)
FV(em, v) == [x \in Mods |-> IF x = em THEN v ELSE 0]
NoVersions == [x \in Mods |-> 0]

RECURSIVE TyValid(_, _, _)
TyValid(c, x, fv) ==
    /\ (fv[x] = 0 \/ (c[x].tver # 0 /\ fv[x] <= c[x].tver))    \* None => fresh; else v <= cached version
    /\ \A d \in Deps(x) : TyValid(c, d, fv)                       \* and all dependencies valid

RECURSIVE ParseValid(_, _, _)
ParseValid(c, x, fv) ==
    /\ (fv[x] = 0 \/ (c[x].pver # 0 /\ fv[x] <= c[x].pver))
    /\ \A d \in Deps(x) : ParseValid(c, d, fv)

\* modules that TyModule::type_check re-checks
Recheck(c, fv) == {x \in Mods : ~TyValid(c, x, fv)}

\* namespace seen while re-checking: re-checked modules expose the current text, reused ones their cached form
EnvOf(c, R) == [t \in Mods |-> IF t \in R THEN text[t].items ELSE c[t].typed]

\* the module cache after a committed compilation of a request with versions fv that re-checked R
NewCache(c, R, fv) ==
    [x \in Mods |->
        IF x \in R
        THEN [pver  |-> fv[x], tver |-> fv[x], typed |-> text[x].items,
              tdiag |-> TcDiag(x, text[x].items, EnvOf(c, R)),
              links |-> LinksOf(text[x].items, EnvOf(c, R))]
        ELSE [c[x] EXCEPT !.pver = fv[x]]]          \* every module is re-parsed: parsed version overwritten

\* diagnostics of the compilation: symbol collection over the parsed (current) text of ALL modules resolves the
\* `use` statements; type checking of the re-checked modules only; validate_root over all typed modules
NewDiag(c, R) ==
    LET env == EnvOf(c, R)
    IN UNION {UseDiag(x, text[x].items, Cur) : x \in Mods}
       \cup UNION {TcDiag(x, text[x].items, env) : x \in R}
       \cup UNION {DupDiag(x, env[x]) : x \in Mods}

\* reused modules holding declaration ids of the garbage-collected module em
Dangling(c, R, em) == {x \in Mods \ R : em \in c[x].links}

(***************************************************************************)
(* Ghost: name the mechanisms behind a disagreement (evaluated on the      *)
(* state reached by a completed compilation; R = modules just re-checked,  *)
(* em = the modified file or "none").                                      *)
(***************************************************************************)
Mechanisms(c, s, R, em, u) ==
    LET spec  == SpecObs(text)
        impl  == [diag |-> s.diag, syms |-> [m \in Mods |-> SymsOf(m, c[m].typed)], refs |-> s.tok]
        \* modules whose last edit was not committed (the server still holds the typed form and the diagnostics of
        \* an older text); named only when something observable differs
        Stale == IF impl = spec THEN {} ELSE {x \in Mods : c[x].typed # text[x].items \/ u[x] # "ok"}
        lost(x) == ~(TcDiag(x, text[x].items, Cur) \subseteq s.diag)
    IN  {"CancelledEditStaleTyped" : x \in {y \in Stale : u[y] = "cancelled"}}
        \cup {"FailedEditStaleTyped" : x \in {y \in Stale : u[y] # "cancelled"}}
        \cup {"ReuseTypedDropsDiags" :
                x \in {y \in Mods \ (R \cup Stale) : lost(y) /\ TcDiag(y, text[y].items, Cur) = c[y].tdiag}}
        \cup {"ReuseTypedSibling" :
                x \in {y \in Mods \ (R \cup Stale) : lost(y) /\ TcDiag(y, text[y].items, Cur) # c[y].tdiag}}
        \cup {"StaleTokensOtherFile" :
                x \in {y \in Mods \ ({em} \cup Stale) : s.tok[y] # spec.refs[y]}}

(***************************************************************************)
(* Initial state: the client opened main and the first compilation (all    *)
(* modules checked, all tokens collected) has been committed.              *)
(***************************************************************************)
FreshCache(T) ==
    [x \in Mods |-> [pver |-> 0, tver |-> 0, typed |-> T[x].items,
                     tdiag |-> TcDiag(x, T[x].items, ItemsOf(T)),
                     links |-> LinksOf(T[x].items, ItemsOf(T))]]
FreshSess(T) == [diag |-> SpecDiag(T), tok |-> SpecObs(T).refs]

H(act, m, at, chg, T) == [act |-> act, m |-> m, at |-> at, chg |-> chg, text |-> T]

Init ==
    /\ text \in {InitText(n) : n \in Inits}
    /\ ver = [m \in Mods |-> 1]
    /\ opened = {"main"}
    /\ phase = "idle" /\ pend = "none"
    /\ cache = FreshCache(text)
    /\ sess = FreshSess(text)
    /\ taint = {}
    /\ unc = [m \in Mods |-> "ok"]
    /\ mech = {}
    /\ steps = 1
    /\ hist = IF KeepHist THEN <<[act |-> "Open", m |-> "main", at |-> 0, chg |-> "open", text |-> text]>> ELSE <<>>

(***************************************************************************)
(* Client actions.                                                         *)
(***************************************************************************)
\* the texts an edit of the given kind can turn module m into
Edited(m, kind) ==
    LET s == text[m].items
        set(i, f) == [text[m] EXCEPT !.items = [s EXCEPT ![i] = f]]
    IN CASE kind = "ws"     -> {[text[m] EXCEPT !.pad = 1 - @]}
         [] kind = "delete" -> {[text[m] EXCEPT !.items = SubSeq(s, 1, i - 1) \o SubSeq(s, i + 1, Len(s))] : i \in DOMAIN s}
         [] kind = "rename" -> UNION {{set(i, [s[i] EXCEPT !.n = nn]) : nn \in Pool(m) \ {s[i].n}} : i \in DOMAIN s}
         [] kind = "sig"    -> {set(i, [s[i] EXCEPT !.p = Flip(@)]) : i \in DOMAIN s}
         [] kind = "arg"    -> {set(i, [s[i] EXCEPT !.r.a = Flip(@)]) : i \in {j \in DOMAIN s : HasRef(s, j)}}
         [] kind = "add"    -> IF Len(s) >= MaxItems THEN {}
                               ELSE {[text[m] EXCEPT !.items = Append(s, Item(nn, "u64", r))] :
                                        nn \in Pool(m),
                                        r \in {NoRef} \cup {Ref(t, NameTable[t][1], "u64") : t \in Targets(m)}}

\* didChange(m): the document changes, its version is bumped and a compilation request is queued
Edit(m, kind) ==
    /\ phase \in {"idle", "cancelled"}
    /\ m \in opened
    /\ steps < MaxHist
    /\ \E nt \in Edited(m, kind) :
          /\ text' = [text EXCEPT ![m] = nt]
          /\ ver' = [ver EXCEPT ![m] = @ + 1]
          /\ phase' = "pending" /\ pend' = m
          /\ steps' = steps + 1
          /\ hist' = IF KeepHist THEN Append(hist, H("Edit", m, 0, kind, [text EXCEPT ![m] = nt])) ELSE hist
          /\ UNCHANGED <<opened, cache, sess, taint, unc, mech>>

\* didOpen(m) of a document while nothing is in flight: a request without versions.  The root's parse cache is
\* up to date ("None => fresh"), the cached programs are returned, nothing is re-processed or committed.
Reopen(m) ==
    /\ phase = "idle"
    /\ steps < MaxHist
    /\ ParseValid(cache, "main", NoVersions)      \* always true after the first compilation (ReopenReuses)
    /\ opened' = opened \cup {m}
    /\ steps' = steps + 1
    /\ hist' = IF KeepHist THEN Append(hist, H("Open", m, 0, "open", text)) ELSE hist
    /\ mech' = Mechanisms(cache, sess, {}, "none", unc)
    /\ UNCHANGED <<text, ver, phase, pend, cache, sess, taint, unc>>

(***************************************************************************)
(* Worker.                                                                 *)
(***************************************************************************)
\* the request of the pending edit
PFV == FV(pend, ver[pend])
PR == Recheck(cache, PFV)
\* garbage collection of the edited module leaves these reused modules with dangling declaration ids
PRisk == (taint \ PR) \cup Dangling(cache, PR, pend)

\* The compilation succeeds: caches committed, engines swapped, diagnostics replaced, tokens of the modified
\* file re-collected.
CompileOk ==
    /\ phase = "pending"
    /\ LET nc == NewCache(cache, PR, PFV)
           ns == [diag |-> NewDiag(cache, PR),
                  tok  |-> [sess.tok EXCEPT ![pend] = RefsOf(pend, text[pend].items, EnvOf(cache, PR))]]
       IN /\ cache' = nc
          /\ sess' = ns
          /\ taint' = PRisk
          /\ unc' = [x \in Mods |-> IF x \in PR THEN "ok" ELSE unc[x]]
          /\ mech' = Mechanisms(nc, ns, PR, pend, unc')
    /\ phase' = "idle" /\ pend' = "none"
    /\ UNCHANGED <<text, ver, opened, steps, hist>>

\* The compilation is aborted at a check point because the next edit arrived: nothing is committed.
CompileCancelled(at) ==
    /\ phase = "pending"
    /\ steps < MaxHist                       \* the cancelling edit is part of the history
    /\ phase' = "cancelled" /\ pend' = "none"
    /\ hist' = IF KeepHist THEN [hist EXCEPT ![Len(hist)].act = "EditCancelled", ![Len(hist)].at = at] ELSE hist
    /\ unc' = [unc EXCEPT ![pend] = "cancelled"]
    /\ UNCHANGED <<text, ver, opened, cache, sess, taint, mech, steps>>

\* With dangling declaration ids in a reused module the slots freed by the garbage collector are re-used by
\* unrelated declarations.  The slot allocation is not modelled; its possible consequences are: none (CompileOk),
\* a spurious error in a later pass that makes the typed program unavailable (nothing committed, the server keeps
\* its previous state), or a panic of the compilation thread (the server is dead until restarted).
CompileFailed ==
    /\ phase = "pending"
    /\ PRisk # {}
    /\ phase' = "idle" /\ pend' = "none"
    /\ unc' = [unc EXCEPT ![pend] = "failed"]
    /\ mech' = Mechanisms(cache, sess, {}, "none", unc') \cup (IF Agree THEN {} ELSE {"DanglingDeclAfterGC"})
    /\ UNCHANGED <<text, ver, opened, cache, sess, taint, steps, hist>>

Crash ==
    /\ phase = "pending"
    /\ PRisk # {}
    /\ phase' = "dead" /\ pend' = "none"
    /\ mech' = {"DanglingDeclAfterGC"}
    /\ UNCHANGED <<text, ver, opened, cache, sess, taint, unc, steps, hist>>

\* the client restarts the server on the current text and re-opens its documents (main first)
Restart ==
    /\ phase = "dead"
    /\ phase' = "idle"
    /\ cache' = FreshCache(text) /\ sess' = FreshSess(text) /\ taint' = {} /\ mech' = {}
    /\ unc' = [m \in Mods |-> "ok"]
    /\ ver' = [m \in Mods |-> 1]
    /\ UNCHANGED <<text, opened, pend, steps, hist>>

Next ==
    \/ \E m \in Mods, k \in Kinds : Edit(m, k)
    \/ \E m \in Mods : Reopen(m)
    \/ CompileOk
    \/ \E at \in CancelAt : CompileCancelled(at)
    \/ CompileFailed
    \/ Crash
    \/ Restart

Spec == Init /\ [][Next]_vars

(***************************************************************************)
(* Properties.                                                             *)
(***************************************************************************)
Quiet == phase = "idle"

\* THE property (does not hold: see mech)
AgreeAfterCompile == Quiet => Agree

\* every disagreement is explained by a named mechanism, and a named mechanism implies a disagreement
MechComplete == (Quiet /\ ~Agree) => mech # {}
MechSound    == (Quiet /\ mech # {}) => ~Agree
\* one invariant per mechanism: TLC's counterexample is a shortest history exhibiting it
AllMechs == {"ReuseTypedSibling", "ReuseTypedDropsDiags", "CancelledEditStaleTyped", "FailedEditStaleTyped",
             "StaleTokensOtherFile", "DanglingDeclAfterGC"}
NoReuseTypedSibling         == ~(Quiet /\ "ReuseTypedSibling" \in mech)
NoReuseTypedDropsDiags      == ~(Quiet /\ "ReuseTypedDropsDiags" \in mech)
NoCancelledEditStaleTyped   == ~(Quiet /\ "CancelledEditStaleTyped" \in mech)
NoFailedEditStaleTyped      == ~(Quiet /\ "FailedEditStaleTyped" \in mech)
NoStaleTokensOtherFile      == ~(Quiet /\ "StaleTokensOtherFile" \in mech)
NoDanglingDeclAfterGC       == ~("DanglingDeclAfterGC" \in mech)
\* a disagreement that no listed mechanism explains
NoUnlistedMechanism == mech \subseteq AllMechs

\* a request without versions always finds the root's parse cache up to date
ReopenReuses == ParseValid(cache, "main", NoVersions)
\* an edit always invalidates the edited module and its ancestors, and nothing else
RecheckShape == phase = "pending" =>
                   PR = {pend} \cup {x \in Mods : pend \in Children(x) \/ \E y \in Children(x) : pend \in Children(y)}
\* a cached typed form differs from the typed form of the current text only for a module whose last edit was
\* not committed (cancelled / failed), or is being compiled
TypedCurrentUnlessUncommitted ==
    \A x \in Mods : cache[x].typed # text[x].items => (unc[x] # "ok" \/ x = pend \/ phase = "dead")

TypeOK ==
    /\ phase \in {"idle", "pending", "cancelled", "dead"}
    /\ opened \subseteq Mods /\ taint \subseteq Mods
    /\ \A m \in Mods : Len(text[m].items) <= MaxItems /\ text[m].pad \in {0, 1}
    /\ steps \in 1..MaxHist
=============================================================================
