\* C09 design-level model check over the universe "d1" of type trees (see MC_AbiCodec.tla)
CONSTANTS Universe = "d1" SampleD2 = 0 SampleD3 = 0 Part = 0 NParts = 1 WithNamed = TRUE
SPECIFICATION Spec
INVARIANT InvC09
CHECK_DEADLOCK FALSE
