\* exhaustive: every directed graph on 1..4 nodes (2^16 + ... graphs), every planner behaviour
CONSTANT N = 4
SPECIFICATION Spec
INVARIANT PrefixRespectsDeps
INVARIANT DoneIsOrder
INVARIANT StuckIffCyclic
INVARIANT AcyclicProgress
CHECK_DEADLOCK FALSE
