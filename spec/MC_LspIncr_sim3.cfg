\* fixed-seed random histories of 6 client actions on the sibling pair only (3 modules), as replay records
CONSTANTS
  Mods = {"main", "a", "b"}
  NNames = 2
  MaxItems = 3
  MaxHist = 6
  Kinds = {"add", "delete", "rename", "sig", "arg", "ws"}
  CancelAt = {}
  Inits = {"base", "err", "small"}
  KeepHist = TRUE
SPECIFICATION Spec
INVARIANT PrintReplay
CHECK_DEADLOCK FALSE
