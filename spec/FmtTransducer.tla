--------------------------- MODULE FmtTransducer ---------------------------
(***************************************************************************)
(* What swayfmt may do to a source text (C18, C19).                        *)
(*                                                                         *)
(* The formatter is an opaque function; this module does not predict its   *)
(* output, it delimits it (shape T of DESIGN.md).                          *)
(*                                                                         *)
(* C18  A formatting run is Fmt(cfg, in, out).  `done` remembers every run *)
(*      as a function (cfg, text) -> text (texts are content hashes).      *)
(*      Invariant Idempotent: every result is a fixpoint of the same       *)
(*      configuration, as far as it has been formatted again.              *)
(*                                                                         *)
(* C19  The input and the output are lexed (sway_parse::lex_commented) to  *)
(*      two streams each: the CODE tokens <<kind, text>> (kinds: "i" ident,*)
(*      "p" punctuation character, "o"/"c" open/close delimiter, "l"       *)
(*      literal, "d" doc comment -- doc comments are attributes, i.e. code)*)
(*      and the COMMENTS (text without trailing white space).  White space *)
(*      is not a token.  `pin`/`pout` give for every delimiter token the   *)
(*      index of its partner (0 for other tokens).                         *)
(*      A two-cursor transducer walks the code streams.  Its only moves    *)
(*      are Copy and one move per documented cosmetic rewrite, each        *)
(*      guarded by its context (see notes/C19.md for the justification of  *)
(*      every rewrite).  Comments can only be copied, in order.  The pair  *)
(*      is in the relation iff all cursors can reach the end.              *)
(***************************************************************************)
EXTENDS Naturals, Sequences, FiniteSets, TLC

----------------------------------------------------------------------------
(* Tokens *)
Comma  == <<"p", ",">>
Semi   == <<"p", ";">>
Colon  == <<"p", ":">>
LParen == <<"o", "(">>
LBrace == <<"o", "{">>
EOF    == <<"eof", "">>

Tok(s, i)   == IF i >= 1 /\ i <= Len(s) THEN s[i] ELSE EOF
IsOpen(t)   == t[1] = "o"
IsClose(t)  == t[1] = "c"
IsId(t, x)  == t[1] = "i" /\ t[2] = x
IsIdent(t)  == t[1] = "i"

\* keywords after which `(` starts a parenthesised expression or a tuple, not an argument list
ExprKeywords == {"return", "if", "else", "match", "while", "for", "in", "let", "mut", "ref",
                 "break", "continue", "as", "const", "panic", "where", "impl", "type"}

\* tokens that cannot occur in a type or path (an operator-free operand contains none of them)
Operators == {"+", "-", "*", "/", "%", "^", "|", "!", "=", ".", "#"}

----------------------------------------------------------------------------
(* Scanning helpers.  All scans are bounded by the enclosing group or statement. *)

\* Is there a `,` at nesting level 0 in s[q .. lim-1]?  (q starts right after an open delimiter)
RECURSIVE TopComma(_, _, _, _)
TopComma(s, p, q, lim) ==
    IF q >= lim THEN FALSE
    ELSE IF s[q] = Comma THEN TRUE
    ELSE IF IsOpen(s[q]) /\ p[q] > q THEN TopComma(s, p, p[q] + 1, lim)
    ELSE TopComma(s, p, q + 1, lim)

\* index of the first `;` at nesting level 0 at or after q (0 if none before the group ends)
RECURSIVE StmtEnd(_, _, _)
StmtEnd(s, p, q) ==
    IF q > Len(s) THEN 0
    ELSE IF s[q] = Semi THEN q
    ELSE IF IsClose(s[q]) THEN 0
    ELSE IF IsOpen(s[q]) /\ p[q] > q THEN StmtEnd(s, p, p[q] + 1)
    ELSE StmtEnd(s, p, q + 1)

\* walking backwards from q at nesting level 0: is the current item inside a `where` clause?
RECURSIVE InWhere(_, _, _)
InWhere(s, p, q) ==
    IF q < 1 THEN FALSE
    ELSE IF IsId(s[q], "where") THEN TRUE
    ELSE IF s[q] = Semi \/ IsOpen(s[q]) THEN FALSE
    ELSE IF IsClose(s[q]) THEN
         IF s[q][2] = "}" \/ p[q] = 0 \/ p[q] >= q THEN FALSE ELSE InWhere(s, p, p[q] - 1)
    ELSE InWhere(s, p, q - 1)

\* walking backwards from a `>` at q: does it close a generic argument list `<...>` of this item?
RECURSIVE ClosesAngle(_, _, _, _)
ClosesAngle(s, p, q, depth) ==
    IF q < 1 THEN FALSE
    ELSE IF s[q] = <<"p", ">">> THEN
         IF q > 1 /\ s[q-1] = <<"p", "-">> THEN FALSE ELSE ClosesAngle(s, p, q - 1, depth + 1)
    ELSE IF s[q] = <<"p", "<">> THEN
         IF depth = 1 THEN TRUE ELSE ClosesAngle(s, p, q - 1, depth - 1)
    ELSE IF s[q] = Semi \/ IsOpen(s[q]) \/ s[q][1] = "l" THEN FALSE
    ELSE IF s[q][1] = "p" /\ s[q][2] \in (Operators \ {"-"}) THEN FALSE
    ELSE IF IsClose(s[q]) THEN
         IF s[q][2] = "}" \/ p[q] = 0 \/ p[q] >= q THEN FALSE ELSE ClosesAngle(s, p, p[q] - 1, depth)
    ELSE ClosesAngle(s, p, q - 1, depth)

\* like TopComma, for a type: a `,` between `<` and `>` separates generic arguments, not tuple elements
\* (an operator-free token sequence has no comparison operators, so `<` `>` are angle brackets)
RECURSIVE TopCommaInType(_, _, _, _, _)
TopCommaInType(s, p, q, lim, depth) ==
    IF q >= lim THEN FALSE
    ELSE IF s[q] = Comma /\ depth = 0 THEN TRUE
    ELSE IF IsOpen(s[q]) /\ p[q] > q THEN TopCommaInType(s, p, p[q] + 1, lim, depth)
    ELSE IF s[q] = <<"p", "<">> THEN TopCommaInType(s, p, q + 1, lim, depth + 1)
    ELSE IF s[q] = <<"p", ">">> /\ depth > 0 THEN TopCommaInType(s, p, q + 1, lim, depth - 1)
    ELSE TopCommaInType(s, p, q + 1, lim, depth)

\* the `(` at o opens an argument / parameter / field list (one element with a trailing comma is
\* still a list), as opposed to a parenthesised expression or a tuple (where `(x)` and `(x,)` differ)
CallLike(s, p, o) ==
    /\ o > 1
    /\ LET t == s[o-1] IN
       \/ IsIdent(t) /\ t[2] \notin ExprKeywords
       \/ t \in {<<"c", ")">>, <<"c", "]">>}
       \/ t = <<"p", ">">> /\ ClosesAngle(s, p, o - 1, 0)

\* a trailing comma may be added to / dropped from the group opened at o, looking at the elements
\* in s[o+1 .. lim-1]: always for [..] and {..}; for (..) only if that cannot turn a parenthesised
\* expression into a one-element tuple or vice versa
\* (A `,` between `<` and `>` is taken for a generic-argument separator: `(G<a, b>)` is a
\* parenthesised type, not a tuple.  This is the conservative reading: for a tuple of comparisons
\* `(a < b, c > d)` a trailing-comma change is not admitted.)
CommaNeutral(s, p, o, lim) ==
    \/ s[o] # LParen
    \/ CallLike(s, p, o)
    \/ TopCommaInType(s, p, o + 1, lim, 0)

\* s[o] = `(` in a position where only a type can stand, or the group is a complete operand
TypePosition(s, o) ==
    /\ o > 1
    /\ \/ s[o-1] = <<"p", ">">> /\ o > 2 /\ s[o-2] = <<"p", "-">>                      \* -> (T)
       \/ s[o-1] = Colon /\ o > 2 /\ IsIdent(s[o-2])                                   \* name: (T)
       \/ s[o-1] = <<"p", "<">> /\ o > 3 /\ s[o-2] = Colon /\ s[o-3] = Colon           \* ::<(T)>

\* the group content s[o+1 .. p[o]-1] is non-empty, has no top-level comma and no operator
RECURSIVE OperatorFree(_, _, _)
OperatorFree(s, q, lim) ==
    IF q >= lim THEN TRUE
    ELSE IF s[q][1] = "p" /\ s[q][2] \in Operators THEN FALSE
    ELSE OperatorFree(s, q + 1, lim)

RedundantParens(s, p, o) ==
    /\ s[o] = LParen /\ p[o] > o + 1
    /\ TypePosition(s, o)
    /\ ~TopCommaInType(s, p, o + 1, p[o], 0)
    /\ OperatorFree(s, o + 1, p[o])
    /\ Tok(s, p[o] + 1) \in {Comma, Semi, LBrace, <<"p", "=">>, <<"p", ">">>,
                             <<"c", ")">>, <<"c", "}">>, <<"c", "]">>}

----------------------------------------------------------------------------
(* `use` statements: the imported paths, as a sequence of paths (a path is a sequence of texts). *)
(* s[a..b] is a use tree.                                                                        *)
Texts(s, a, b) == [k \in 1..(b - a + 1) |-> s[a + k - 1][2]]

RECURSIVE UseLeaves(_, _, _, _, _)
RECURSIVE GroupLeaves(_, _, _, _, _, _)
UseLeaves(s, p, a, b, prefix) ==
    IF a > b THEN << prefix \o <<"<missing>">> >>        \* `a::` without a suffix: not a use tree
    ELSE IF s[a] = LBrace /\ p[a] = b THEN GroupLeaves(s, p, a + 1, a + 1, b, prefix)
    ELSE IF a + 2 <= b /\ s[a+1] = Colon /\ s[a+2] = Colon /\ ~IsOpen(s[a])
         THEN UseLeaves(s, p, a + 3, b, Append(prefix, s[a][2]))
    ELSE IF a + 1 <= b /\ s[a] = Colon /\ s[a+1] = Colon          \* leading `::`
         THEN UseLeaves(s, p, a + 2, b, Append(prefix, "::"))
    ELSE << prefix \o <<"|">> \o Texts(s, a, b) >>      \* module path | imported item (`x`, `x as y`, `*`)

\* items of the group content s[start .. close-1], q scans for the next top-level comma
GroupLeaves(s, p, start, q, close, prefix) ==
    IF q >= close THEN (IF start >= close THEN <<>>     \* nothing after a trailing comma
                        ELSE UseLeaves(s, p, start, close - 1, prefix))
    ELSE IF s[q] = Comma
         THEN UseLeaves(s, p, start, q - 1, prefix) \o GroupLeaves(s, p, q + 1, q + 1, close, prefix)
    ELSE IF IsOpen(s[q]) /\ p[q] > q THEN GroupLeaves(s, p, start, p[q] + 1, close, prefix)
    ELSE GroupLeaves(s, p, start, q + 1, close, prefix)

Range(f) == { f[k] : k \in DOMAIN f }
BagOf(q) == [x \in Range(q) |-> Cardinality({k \in DOMAIN q : q[k] = x})]

----------------------------------------------------------------------------
(* The moves.  Each is a predicate over the two code streams a (input) and b (output), their    *)
(* partner maps pa, pb, the cursors x (input), y (output) and the stack pd of input positions of *)
(* `)` still to be dropped.                                                                       *)

\* (IF, not \/: TLC explores the disjuncts of an action separately)
NotPending(x, pd) == IF pd = <<>> THEN TRUE ELSE Head(pd) # x

\* the same token on both sides (`use` statements are handled as a whole by UseStmt)
CanCopy(a, b, x, y, pd) ==
    /\ x <= Len(a) /\ y <= Len(b)
    /\ a[x] = b[y]
    /\ ~IsId(a[x], "use")
    /\ NotPending(x, pd)

\* `e )` -> `e, )`: the output has a comma the input lacks, right before the same closing delimiter
\* (or before the `{` / `;` that ends a where clause)
CanAddTrailingComma(a, pa, b, x, y, pd) ==
    /\ x > 1 /\ x <= Len(a) /\ y < Len(b)
    /\ b[y] = Comma /\ a[x] # Comma
    /\ a[x-1] # Comma /\ ~IsOpen(a[x-1])          \* the list is not empty and had no trailing comma
    /\ b[y+1] = a[x]
    /\ NotPending(x, pd)
    /\ \/ IsClose(a[x]) /\ pa[x] > 0 /\ pa[x] < x /\ CommaNeutral(a, pa, pa[x], x)
       \/ a[x] \in {LBrace, Semi} /\ InWhere(a, pa, x - 1)

\* `e, )` -> `e )`
CanDropTrailingComma(a, pa, b, x, y, pd) ==
    /\ x < Len(a) /\ y <= Len(b)
    /\ a[x] = Comma /\ b[y] # Comma
    /\ b[y] = a[x+1]
    /\ \/ IsClose(a[x+1]) /\ pa[x+1] > 0 /\ pa[x+1] < x /\ CommaNeutral(a, pa, pa[x+1], x)
       \/ a[x+1] \in {LBrace, Semi} /\ InWhere(a, pa, x - 1)

\* `-> (T)` -> `-> T`: sway-parse itself parses `(ty)` as `ty`
CanDropOpenParen(a, pa, x, pd) ==
    /\ x <= Len(a)
    /\ RedundantParens(a, pa, x)
    /\ NotPending(x, pd)

\* Length of the run of Copy moves from (x, y) that trace validation takes in one step (at most W).
\* The run stops where Copy is not possible or where another move is possible as well
\* (DropOpenParen is the only move that can be enabled together with Copy), so no alternative is
\* lost.  CHOOSE over an interval: TLC takes the least such k; CopyN re-checks every position, so a
\* different choice could only make the validation reject, never accept.
CopyRun(a, pa, b, x, y, pd, W) ==
    CHOOSE k \in 0..W :
        \/ k = W
        \/ ~CanCopy(a, b, x + k, y + k, pd)
        \/ k > 0 /\ CanDropOpenParen(a, pa, x + k, pd)

CommentRun(a, b, x, y, W) ==
    CHOOSE k \in 0..W :
        \/ k = W
        \/ x + k > Len(a) \/ y + k > Len(b)
        \/ (x + k <= Len(a) /\ y + k <= Len(b) /\ a[x + k] # b[y + k])

CanDropCloseParen(x, pd) == IF pd = <<>> THEN FALSE ELSE Head(pd) = x

\* one `use` statement on each side importing the same bag of paths: covers dropping the braces of
\* a single-item group, sorting the items of a group, and trailing commas inside groups
CanUseStmt(a, pa, b, pb, x, y, pd) ==
    /\ x <= Len(a) /\ y <= Len(b)
    /\ IsId(a[x], "use") /\ IsId(b[y], "use")
    /\ NotPending(x, pd)
    /\ LET ex == StmtEnd(a, pa, x + 1)
           ey == StmtEnd(b, pb, y + 1)
       IN /\ ex > x + 1 /\ ey > y + 1
          /\ BagOf(UseLeaves(a, pa, x + 1, ex - 1, <<>>)) = BagOf(UseLeaves(b, pb, y + 1, ey - 1, <<>>))

----------------------------------------------------------------------------
(* The transducer as a state machine over one (input, output) pair.                              *)
(* `pair` identifies the pair; PairOf(pair) is the record                                         *)
(*   [cin, pin, cout, pout : code streams and partner maps, min, mout : comment streams,          *)
(*    parses : the output parsed to a tree without error diagnostics].                            *)
(* (In the exhaustive model the variable holds the record itself, in trace validation the index   *)
(* of the recorded event -- the streams are long and must not be part of the state.)              *)
CONSTANT PairOf(_)
VARIABLES pair,
          i, j, ci, cj, pend,       \* cursors; pending `)` drops
          done                      \* C18: (cfg, text) -> text of the runs seen so far

cin    == PairOf(pair).cin
pin    == PairOf(pair).pin
cout   == PairOf(pair).cout
pout   == PairOf(pair).pout
min    == PairOf(pair).min
mout   == PairOf(pair).mout
parses == PairOf(pair).parses

vars == <<pair, i, j, ci, cj, pend, done>>

\* n consecutive Copy moves (trace validation takes a whole run of equal tokens in one step)
CopyN(n) ==
    /\ n >= 1
    /\ \A k \in 0..(n - 1) : CanCopy(cin, cout, i + k, j + k, pend)
    /\ i' = i + n /\ j' = j + n
    /\ UNCHANGED <<pair, ci, cj, pend, done>>

Copy == CopyN(1)

AddTrailingComma ==
    /\ CanAddTrailingComma(cin, pin, cout, i, j, pend)
    /\ j' = j + 1
    /\ UNCHANGED <<pair, i, ci, cj, pend, done>>

DropTrailingComma ==
    /\ CanDropTrailingComma(cin, pin, cout, i, j, pend)
    /\ i' = i + 1
    /\ UNCHANGED <<pair, j, ci, cj, pend, done>>

DropOpenParen ==
    /\ CanDropOpenParen(cin, pin, i, pend)
    /\ i' = i + 1
    /\ pend' = <<pin[i]>> \o pend
    /\ UNCHANGED <<pair, j, ci, cj, done>>

DropCloseParen ==
    /\ CanDropCloseParen(i, pend)
    /\ i' = i + 1
    /\ pend' = Tail(pend)
    /\ UNCHANGED <<pair, j, ci, cj, done>>

UseStmt ==
    /\ CanUseStmt(cin, pin, cout, pout, i, j, pend)
    /\ i' = StmtEnd(cin, pin, i + 1) + 1
    /\ j' = StmtEnd(cout, pout, j + 1) + 1
    /\ UNCHANGED <<pair, ci, cj, pend, done>>

\* comments can only be copied
CopyCommentN(n) ==
    /\ n >= 1
    /\ ci + n - 1 <= Len(min) /\ cj + n - 1 <= Len(mout)
    /\ \A k \in 0..(n - 1) : min[ci + k] = mout[cj + k]
    /\ ci' = ci + n /\ cj' = cj + n
    /\ UNCHANGED <<pair, i, j, pend, done>>

CopyComment == CopyCommentN(1)

CodeNext == Copy \/ AddTrailingComma \/ DropTrailingComma \/ DropOpenParen \/ DropCloseParen \/ UseStmt
Next == CodeNext \/ CopyComment

CodeDone     == i = Len(cin) + 1 /\ j = Len(cout) + 1 /\ pend = <<>>
CommentsDone == ci = Len(min) + 1 /\ cj = Len(mout) + 1
\* the pair (input, output) is in the C19 relation
Related == CodeDone /\ CommentsDone /\ parses

----------------------------------------------------------------------------
(* C18 *)
\* formatting is a function of (configuration, text): a second run on the same text must agree
Fmt(cfg, in, out) ==
    /\ <<cfg, in>> \in DOMAIN done => done[<<cfg, in>>] = out
    /\ done' = [x \in DOMAIN done \cup {<<cfg, in>>} |-> IF x = <<cfg, in>> THEN out ELSE done[x]]

Idempotent ==
    \A x \in DOMAIN done :
        LET y == <<x[1], done[x]>> IN y \in DOMAIN done => done[y] = done[x]
=============================================================================
