\* every sequence of <= 2 configurables, both default choices, four shapes of preceding data, two patches
CONSTANTS MaxCfgs = 2 MaxPatches = 2 Defaults = {0, 1} Shapes = {1, 2, 3, 4} NBuilds = 0
SPECIFICATION MCSpec
INVARIANTS InvDisjoint InvInside InvPrelude InvObserve InvFrame InvLen
CHECK_DEADLOCK FALSE
