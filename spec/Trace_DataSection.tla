------------------------- MODULE Trace_DataSection -------------------------
(***************************************************************************)
(* Trace validation for C13.  One ndjson record per built script:          *)
(*   [id, profile,                                                         *)
(*    cfgs  |-> << [name, t, dflt, len] >>   the declared configurables    *)
(*              (declaration order; main logs them in this order),         *)
(*    abi   |-> << [name, off, ty] >>        `configurables` of the JSON   *)
(*              ABI: name, offset, projected type description,             *)
(*    blen, prelude (the 8 bytes at byte 16), base, tail (the bytecode     *)
(*    from byte `base` on, base = the smallest reported offset),           *)
(*    runs  |-> << [writes |-> << [i, v] >>, logs, out] >> ]               *)
(* A run patched a fresh copy of the bytecode (for every write: the bytes  *)
(* EncT(t_i, v) at the offset the ABI reports for cfgs[i].name), executed  *)
(* it as a script and recorded the LogData payloads.                       *)
(* The record is replayed through DataSection: the table and the bytes are *)
(* the real ones (offsets rebased to `base`), Patch is DataSection!PatchF. *)
(***************************************************************************)
EXTENDS DataSection, Json, IOUtils

Rec == ndJsonDeserialize(IOEnv.TRACE)

VARIABLES l, k, phase

AbiOf(r, name) == LET S == { j \in DOMAIN r.abi : r.abi[j].name = name } IN
                  IF Cardinality(S) = 1 THEN r.abi[CHOOSE j \in S : TRUE] ELSE [name |-> name, off |-> 0, ty |-> [k |-> "missing"]]
\* the table with real (absolute) offsets, and rebased to the tail
AbsTab(r) == [i \in DOMAIN r.cfgs |-> [name |-> r.cfgs[i].name, t |-> r.cfgs[i].t, off |-> AbiOf(r, r.cfgs[i].name).off, len |-> r.cfgs[i].len]]
RelTab(r) == [i \in DOMAIN r.cfgs |-> [AbsTab(r)[i] EXCEPT !.off = @ - r.base]]
Dflts(r) == [i \in DOMAIN r.cfgs |-> r.cfgs[i].dflt]

StaticChecks(r) ==
    LET at == AbsTab(r) rt == RelTab(r) IN
    [ abi_lists_each_once |-> Len(r.abi) = Len(r.cfgs)
            /\ \A i \in DOMAIN r.cfgs : Cardinality({ j \in DOMAIN r.abi : r.abi[j].name = r.cfgs[i].name }) = 1,
      abi_types |-> \A i \in DOMAIN r.cfgs : AbiDescribes(AbiOf(r, r.cfgs[i].name).ty, r.cfgs[i].t),
      typed |-> \A i \in DOMAIN r.cfgs : HasType(r.cfgs[i].dflt, r.cfgs[i].t) /\ r.cfgs[i].len = EncMax(r.cfgs[i].t),
      disjoint |-> RegionsDisjoint(at),
      inside |-> \A i \in DOMAIN at : 32 <= at[i].off /\ at[i].off + at[i].len <= r.blen,
      prelude |-> LET w == FromBE(r.prelude) IN IsSmall(w) /\ ToNat(w) = (IF at = <<>> THEN r.blen ELSE SetMin({ at[i].off : i \in DOMAIN at })),
      tail |-> r.base = (IF at = <<>> THEN r.blen ELSE SetMin({ at[i].off : i \in DOMAIN at })) /\ Len(r.tail) = r.blen - r.base,
      defaults_at_offsets |-> ObservesAll(rt, r.tail, Dflts(r)) ]

RECURSIVE ApplyWrites(_, _, _, _)
ApplyWrites(tb, st, ws, j) == IF j > Len(ws) THEN st ELSE ApplyWrites(tb, PatchF(tb, st, ws[j].i, ws[j].v), ws, j + 1)
RunExpectedLogs(r, st) == [i \in DOMAIN r.cfgs |-> EncT(r.cfgs[i].t, st.vals[i])]
RunChecks(r, run) ==
    LET rt == RelTab(r)
        st == ApplyWrites(rt, [bytes |-> r.tail, vals |-> Dflts(r)], run.writes, 1)
    IN [ patchable |-> \A j \in DOMAIN run.writes : run.writes[j].i \in DOMAIN rt /\ CanPatchF(rt, run.writes[j].i, run.writes[j].v),
         model_observes |-> ObservesAll(rt, st.bytes, st.vals),          \* the frame condition, on the real bytes
         returned |-> run.out = "return",
         observed |-> run.logs = RunExpectedLogs(r, st) ]

Holds(c) == \A x \in DOMAIN c : c[x]
FailedOf(c) == { x \in DOMAIN c : ~c[x] }
\* A failing build table / run is printed (<<"REJECT", json>>) and counted, and validation goes on, so that one
\* pass reports every disagreement; the trace is accepted iff nothing was rejected.
SetToSeq(S) == LET RECURSIVE F(_) F(X) == IF X = {} THEN <<>> ELSE LET x == CHOOSE y \in X : TRUE IN <<x>> \o F(X \ {x}) IN F(S)
RejectStatic(i) ==
    PrintT(<<"REJECT", ToJson([index |-> i, run |-> 0, failed |-> SetToSeq(FailedOf(StaticChecks(Rec[i]))),
                               expected |-> ToJson(AbsTab(Rec[i]))])>>) /\ TLCSet(3, TLCGet(3) + 1)
RejectRun(i, kk) ==
    LET r == Rec[i] IN
    PrintT(<<"REJECT", ToJson([index |-> i, run |-> kk, failed |-> SetToSeq(FailedOf(RunChecks(r, r.runs[kk]))),
                               expected |-> ToJson(RunExpectedLogs(r, ApplyWrites(RelTab(r), [bytes |-> r.tail, vals |-> Dflts(r)], r.runs[kk].writes, 1)))])>>)
        /\ TLCSet(3, TLCGet(3) + 1)

TraceInit ==
    /\ l = 1 /\ k = 0 /\ phase = "load"
    /\ bytes = <<>> /\ bytes0 = <<>> /\ tab = <<>> /\ vals = <<>> /\ meta = [dataStart |-> 0, cfgStart |-> 0] /\ npatch = 0
    /\ TLCSet(1, 1) /\ TLCSet(2, 0) /\ TLCSet(3, 0)
TrLoad ==
    /\ phase = "load" /\ l <= Len(Rec)
    /\ Holds(StaticChecks(Rec[l]))
    /\ bytes' = Rec[l].tail /\ bytes0' = Rec[l].tail /\ tab' = RelTab(Rec[l]) /\ vals' = Dflts(Rec[l])
    /\ npatch' = 0 /\ UNCHANGED meta
    /\ phase' = "run" /\ k' = 1 /\ l' = l
    /\ TLCSet(2, 1)
\* a build whose table is rejected is reported and its runs are skipped
TrSkip ==
    /\ phase = "load" /\ l <= Len(Rec)
    /\ ~Holds(StaticChecks(Rec[l])) /\ RejectStatic(l)
    /\ l' = l + 1 /\ UNCHANGED <<dsvars, k, phase>>
    /\ TLCSet(1, l + 1)
TrRun ==
    /\ phase = "run" /\ k <= Len(Rec[l].runs)
    /\ IF Holds(RunChecks(Rec[l], Rec[l].runs[k])) THEN TRUE ELSE RejectRun(l, k)
    /\ LET st == ApplyWrites(tab, [bytes |-> bytes0, vals |-> Dflts(Rec[l])], Rec[l].runs[k].writes, 1) IN
           bytes' = st.bytes /\ vals' = st.vals
    /\ npatch' = Len(Rec[l].runs[k].writes)
    /\ UNCHANGED <<bytes0, tab, meta, l, phase>>
    /\ k' = k + 1 /\ TLCSet(2, k + 1)
TrNextBuild ==
    /\ phase = "run" /\ k > Len(Rec[l].runs)
    /\ l' = l + 1 /\ k' = 0 /\ phase' = "load"
    /\ UNCHANGED dsvars
    /\ TLCSet(1, l + 1) /\ TLCSet(2, 0)
TraceNext == TrLoad \/ TrSkip \/ TrRun \/ TrNextBuild
TraceSpec == TraceInit /\ [][TraceNext]_<<dsvars, l, k, phase>>

Accepted ==
    /\ TLCGet(1) = Len(Rec) + 1 \/ Print(<<"FIRST-UNMATCHED", TLCGet(1), TLCGet(2)>>, FALSE)   \* could not be evaluated
    /\ TLCGet(3) = 0 \/ Print(<<"REJECTED", TLCGet(3)>>, FALSE)
=============================================================================
