CONSTANT N = 4
SPECIFICATION TraceSpec
INVARIANT PrefixRespectsDeps
INVARIANT DoneIsOrder
POSTCONDITION Accepted
CHECK_DEADLOCK FALSE
