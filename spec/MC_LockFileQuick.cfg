\* quick: 2 names x 4 sources; <= 2 nodes with <= 2 edges (parallel edges), 3 nodes with <= 1 edge.
\* Also prints every graph as a replay record.
CONSTANTS Family = "core" NMax = 3 E2 = 2 E3 = 1 Wide = FALSE BigN = 4 BigReps = 1
CONSTANTS SStr <- MC_SStr PSrc <- MC_PSrc PDep <- MC_PDep SProv <- MC_SProv
INIT MCInit
NEXT Next
INVARIANT RoundTripTheorem
INVARIANT LockFaithful
INVARIANT PrintWitness
INVARIANT PrintReplay
CHECK_DEADLOCK FALSE
