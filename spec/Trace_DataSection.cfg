SPECIFICATION TraceSpec
INVARIANTS TrInvDisjoint TrInvObserve TrInvFrame
POSTCONDITION Accepted
CHECK_DEADLOCK FALSE
