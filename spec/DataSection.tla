---------------------------- MODULE DataSection ----------------------------
(***************************************************************************)
(* Configurables in the bytecode of a Sway program (C13).                  *)
(*                                                                         *)
(* bytecode = prelude (32 bytes; the word at byte 16 holds the offset of   *)
(*            the first configurable -- PRELUDE_CONFIGURABLES_OFFSET_IN_   *)
(*            BYTES, sway-core/src/lib.rs)                                 *)
(*          o code (4-byte instructions, one NOOP appended when needed to  *)
(*            word-align the data section -- finalized_asm.rs)             *)
(*          o data section: the non-configurable entries, then one entry   *)
(*            per configurable; every entry starts on a word boundary      *)
(*            (DataSection::absolute_idx_to_offset / serialize_to_bytes).  *)
(* With encoding v1 the entry of a configurable of type t is a byte array  *)
(* of EncMax(t) bytes: the canonical encoding of the initializer, zero     *)
(* filled (ir_generation/compile.rs compile_configurables); the program    *)
(* decodes it on start-up (abi_decode_in_place).  The JSON ABI reports     *)
(* for each configurable its name, type and the offset of its entry from   *)
(* the start of the bytecode (forc-pkg/src/pkg.rs).                        *)
(*                                                                         *)
(* An SDK sets a configurable by overwriting the bytes at the reported     *)
(* offset with the encoding of the new value: Patch.                       *)
(***************************************************************************)
EXTENDS AbiCodec

Overwrite(bs, off, new) == [i \in DOMAIN bs |-> IF i > off /\ i <= off + Len(new) THEN new[i - off] ELSE bs[i]]
Slice(bs, off, len) == SubSeq(bs, off + 1, off + len)
ZeroFill(bs, n) == bs \o [i \in 1..(n - Len(bs)) |-> 0]

\* a configurable table entry: [name, t, off, len]; len = EncMax(t) is what the compiler reserves
Region(e) == [lo |-> e.off, hi |-> e.off + e.len]          \* [lo, hi)
Disjoint(a, b) == a.off + a.len <= b.off \/ b.off + b.len <= a.off

\* ---- the statements of C13 about a bytecode `bs` with configurable table `tab` (a sequence)
RegionsDisjoint(tab) == \A i, j \in DOMAIN tab : i # j => Disjoint(tab[i], tab[j])
RegionsInside(tab, bs, dataStart) ==
    \A i \in DOMAIN tab : dataStart <= tab[i].off /\ tab[i].off + tab[i].len <= Len(bs)
FirstOffset(tab, bs) == IF tab = <<>> THEN Len(bs) ELSE SetMin({ tab[i].off : i \in DOMAIN tab })
\* the prelude word points at the first configurable (at the end of the bytecode when there is none)
PreludeOK(tab, bs) ==
    LET w == FromBE(Slice(bs, 16, 8)) IN IsSmall(w) /\ ToNat(w) = FirstOffset(tab, bs)
\* what the program observes for configurable e: the value its start-up code decodes from the entry
Observe(e, bs) == DecT(e.t, Slice(bs, e.off, e.len))
ObservesAll(tab, bs, vals) ==
    \A i \in DOMAIN tab : LET d == Observe(tab[i], bs) IN d.ok /\ d.v = vals[i]

(***************************************************************************)
(* The compiler's layout as a function (used by the model and offered to   *)
(* the trace spec as the reference for "tightly packed in entry order").   *)
(* entries: sequence of byte sequences; returns the sequence of offsets    *)
(* relative to the start of the data section.                              *)
(***************************************************************************)
RECURSIVE EntryOffsets(_, _, _)
EntryOffsets(entries, i, off) ==
    IF i > Len(entries) THEN <<>>
    ELSE <<off>> \o EntryOffsets(entries, i + 1, Aligned(off + Len(entries[i])))
RECURSIVE Serialize(_, _)
Serialize(entries, i) ==
    IF i > Len(entries) THEN <<>>
    ELSE LET e == entries[i] IN e \o [k \in 1..(Aligned(Len(e)) - Len(e)) |-> 0] \o Serialize(entries, i + 1)
\* NB serialize_to_bytes pads the running buffer, absolute_idx_to_offset rounds the running offset: the same
\* thing because every entry starts aligned.

CodeByte == 71      \* filler standing for instruction bytes
NonCfgByte == 78    \* filler standing for non-configurable data

\* cfgs: sequence of [name, t, dflt]; noncfg: sequence of entry sizes; ninstr: number of 4-byte instructions
Build(cfgs, noncfg, ninstr) ==
    LET codeLen == 32 + 4 * ninstr
        dataStart == IF codeLen % 8 = 0 THEN codeLen ELSE codeLen + 4
        nonEntries == [i \in DOMAIN noncfg |-> [k \in 1..noncfg[i] |-> NonCfgByte]]
        cfgEntries == [i \in DOMAIN cfgs |-> ZeroFill(EncT(cfgs[i].t, cfgs[i].dflt), EncMax(cfgs[i].t))]
        entries == nonEntries \o cfgEntries
        offs == EntryOffsets(entries \o <<<<>>>>, 1, 0)      \* one more: where the next entry would start
        tab == [i \in DOMAIN cfgs |-> [name |-> cfgs[i].name, t |-> cfgs[i].t,
                                      off |-> dataStart + offs[Len(noncfg) + i], len |-> EncMax(cfgs[i].t)]]
        body == [k \in 1..(dataStart - 32) |-> CodeByte] \o Serialize(entries, 1)
        first == IF cfgs = <<>> THEN dataStart + Len(Serialize(entries, 1)) ELSE SetMin({ tab[i].off : i \in DOMAIN tab })
        prelude == [k \in 1..16 |-> CodeByte] \o U64BE(first) \o [k \in 1..8 |-> CodeByte]
    IN [bytes |-> prelude \o body, tab |-> tab, dataStart |-> dataStart,
        cfgStart |-> dataStart + offs[Len(noncfg) + 1]]

(***************************************************************************)
(* State machine: a built program, then patches.                           *)
(***************************************************************************)
VARIABLES bytes,      \* the bytecode
          bytes0,     \* the bytecode as built
          tab,        \* the configurable table the ABI reports
          vals,       \* vals[i]: the value configurable i currently has (ghost)
          meta,       \* [dataStart, cfgStart]
          npatch
dsvars == <<bytes, bytes0, tab, vals, meta, npatch>>

InitFrom(cfgs, noncfg, ninstr) ==
    LET b == Build(cfgs, noncfg, ninstr) IN
    /\ bytes = b.bytes /\ bytes0 = b.bytes /\ tab = b.tab
    /\ vals = [i \in DOMAIN cfgs |-> cfgs[i].dflt]
    /\ meta = [dataStart |-> b.dataStart, cfgStart |-> b.cfgStart]
    /\ npatch = 0

\* write the encoding of v at the offset reported for configurable i  (st = [bytes, vals])
CanPatchF(tb, i, v) == HasType(v, tb[i].t) /\ Len(EncT(tb[i].t, v)) <= tb[i].len
PatchF(tb, st, i, v) ==
    [bytes |-> Overwrite(st.bytes, tb[i].off, EncT(tb[i].t, v)), vals |-> [st.vals EXCEPT ![i] = v]]
CanPatch(i, v) == CanPatchF(tab, i, v)
Patch(i, v) ==
    /\ CanPatch(i, v)
    /\ bytes' = PatchF(tab, [bytes |-> bytes, vals |-> vals], i, v).bytes
    /\ vals' = PatchF(tab, [bytes |-> bytes, vals |-> vals], i, v).vals
    /\ npatch' = npatch + 1
    /\ UNCHANGED <<bytes0, tab, meta>>

\* ---- invariants
InvDisjoint == RegionsDisjoint(tab)
InvInside == RegionsInside(tab, bytes, meta.dataStart) /\ \A i \in DOMAIN tab : meta.cfgStart <= tab[i].off
InvPrelude == PreludeOK(tab, bytes)
\* every configurable is observed with its current value: the patched one with the new value, all others unchanged
InvObserve == ObservesAll(tab, bytes, vals)
\* nothing outside the configurables' regions ever changes
InvFrame ==
    \A k \in DOMAIN bytes :
        bytes[k] # bytes0[k] => \E i \in DOMAIN tab : tab[i].off < k /\ k <= tab[i].off + tab[i].len
InvLen == Len(bytes) = Len(bytes0)
=============================================================================
