\* binding demonstration: the classification TrivialDec replaced by the mutant TrivialDecEnumMutant -- TLC must find a counterexample type tree
CONSTANTS Universe = "d1" SampleD2 = 0 SampleD3 = 0
CONSTANT TrivialDec <- TrivialDecEnumMutant
SPECIFICATION Spec
INVARIANT Inv
CHECK_DEADLOCK FALSE
