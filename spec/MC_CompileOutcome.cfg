CONSTANTS Pkgs = {"p", "q"}  Max = 4
SPECIFICATION MCSpec
INVARIANT TypeOK
INVARIANT OnlyTwoOutcomes
INVARIANT CountsMatchHistory
INVARIANT CompilingCanFinish
CHECK_DEADLOCK FALSE
