--------------------------- MODULE StorageModels ---------------------------
(***************************************************************************)
(* C28: StorageVec / StorageMap / StorageBytes / StorageString behave like *)
(* vectors, maps and byte strings, and an operation on one field or key    *)
(* never changes another.                                                  *)
(*                                                                         *)
(* Two layers.                                                             *)
(*  L1 (abstract)  The state is one mathematical value per field:          *)
(*       vecA : Seq(u64)      vecB : Seq(T3)  (24-byte struct: elements    *)
(*       vecC : Seq(u8)               straddle slot boundaries)            *)
(*       mapA : u64 -> u64    mapB : (u64, u64) -> T3                      *)
(*       mapN : u64 -> (u64 -> u64)      nested map                        *)
(*       mapV : u64 -> Seq(u64)          vector inside a map               *)
(*       bytesA, strA : Seq(byte)                                          *)
(*     ADo(st, op) gives the new state, the returned value and whether     *)
(*     the call reverts.  Element values are small codes; Val maps a code  *)
(*     to the typed value.  This layer is what the VM is compared with     *)
(*     (Trace_StorageModels).                                              *)
(*  L2 (slots)  sway-lib-std/src/storage/{storage_api, storage_vec,        *)
(*     storage_map, storable_slice, storage_bytes, storage_string,         *)
(*     storage_key}.sw transcribed over a store of 32-byte slots whose     *)
(*     addresses are (hash term, offset): sha256 is an uninterpreted       *)
(*     injective function whose values are far apart.  SDo(store, op)      *)
(*     gives the new store and the returned value.                         *)
(* TLC checks that L2 refines L1: after every history, reading everything  *)
(* back through L2 (View) yields exactly the L1 state, every returned      *)
(* value agrees, and L2 reverts iff L1 does -- which contains the frame    *)
(* property: an operation on field/key x leaves the read-back of every     *)
(* other field/key unchanged.                                              *)
(***************************************************************************)
EXTENDS StorageLayout

VecFields == {"vecA", "vecB", "vecC"}
MapFields == {"mapA", "mapB"}
SliceFields == {"bytesA", "strA"}
Fields == VecFields \cup MapFields \cup {"mapN", "mapV"} \cup SliceFields

TU64 == T("u64")
T3 == TStruct(<<T("u64"), T("u64"), T("u64")>>)
\* element type of a vector field / value type of a map field
ElemTy(f) == CASE f = "vecA" -> TU64 [] f = "vecB" -> T3 [] f = "vecC" -> T("u8")
               [] f = "mapA" -> TU64 [] f = "mapB" -> T3 [] f = "mapN" -> TU64 [] f = "mapV" -> TU64

\* the typed value a code stands for: every byte of a word carries the code, the last one also the position
Word(cd, pos) == IntV("u64", FromBE(<<cd, cd, cd, cd, cd, cd, cd, 16 * cd + pos>>))
Val(ty, cd) == CASE ty.k = "u64" -> Word(cd, 0)
                 [] ty.k = "u8" -> IntV("u8", <<17 * cd>>)
                 [] ty.k = "struct" -> AggV(<<Word(cd, 1), Word(cd, 2), Word(cd, 3)>>)
\* content of a byte string written with (length, seed)
SliceBytes(n, seed) == [i \in 1..n |-> 33 + ((7 * seed + i) % 90)]

\* least-significant-digit-first decimal digits: the vector argument of store_vec (0 = the empty vector)
RECURSIVE Digits(_)
Digits(a) == IF a = 0 THEN <<>> ELSE <<a % 10>> \o Digits(a \div 10)

(***************************************************************************)
(* L1: the abstract state and operations.                                  *)
(* An operation is [f, op, a, b, c] (unused arguments are 0).              *)
(* Returned values: [k |-> "none"] | [k |-> "opt", some, v] (v a code) |   *)
(*   [k |-> "val", v] | [k |-> "bool", v] | [k |-> "res", ok, v]           *)
(***************************************************************************)
EmptyFn == [x \in {} |-> 0]
InitState == [vecA |-> <<>>, vecB |-> <<>>, vecC |-> <<>>, mapA |-> EmptyFn, mapB |-> EmptyFn,
              mapN |-> EmptyFn, mapV |-> EmptyFn, bytesA |-> <<>>, strA |-> <<>>]

RNone == [k |-> "none", some |-> FALSE, v |-> 0]
ROpt(some, v) == [k |-> "opt", some |-> some, v |-> v]
RVal(v) == [k |-> "val", some |-> TRUE, v |-> v]
RBool(b) == [k |-> "bool", some |-> b, v |-> 0]
RRes(ok, v) == [k |-> "res", some |-> ok, v |-> v]

Res(st, ret, rev) == [st |-> st, ret |-> ret, rev |-> rev]
Revert(st) == Res(st, RNone, TRUE)

Put(m, key, v) == [x \in DOMAIN m \cup {key} |-> IF x = key THEN v ELSE m[x]]
Del(m, key) == [x \in DOMAIN m \ {key} |-> m[x]]

InsertAt(s, i, v) == SubSeq(s, 1, i) \o <<v>> \o SubSeq(s, i + 1, Len(s))          \* i = 0-based index
RemoveAt(s, i) == SubSeq(s, 1, i) \o SubSeq(s, i + 2, Len(s))
\* (Rev, the reversal of a sequence, comes from Bytes)

AVec(st, f, o) ==
    LET s == st[f] n == Len(st[f]) W(x) == [st EXCEPT ![f] = x] IN
    CASE o.op = "push" -> Res(W(Append(s, o.a)), RNone, FALSE)
      [] o.op = "pop" -> IF n = 0 THEN Res(st, ROpt(FALSE, 0), FALSE)
                         ELSE Res(W(SubSeq(s, 1, n - 1)), ROpt(TRUE, s[n]), FALSE)
      [] o.op = "set" -> IF o.a >= n THEN Revert(st) ELSE Res(W([s EXCEPT ![o.a + 1] = o.b]), RNone, FALSE)
      [] o.op = "insert" -> IF o.a > n THEN Revert(st) ELSE Res(W(InsertAt(s, o.a, o.b)), RNone, FALSE)
      [] o.op = "remove" -> IF o.a >= n THEN Revert(st) ELSE Res(W(RemoveAt(s, o.a)), RVal(s[o.a + 1]), FALSE)
      [] o.op = "swap_remove" ->
            IF o.a >= n THEN Revert(st)
            ELSE Res(W(SubSeq([s EXCEPT ![o.a + 1] = s[n]], 1, n - 1)), RVal(s[o.a + 1]), FALSE)
      [] o.op = "swap" -> IF o.a >= n \/ o.b >= n THEN Revert(st)
                          ELSE Res(W([s EXCEPT ![o.a + 1] = s[o.b + 1], ![o.b + 1] = s[o.a + 1]]), RNone, FALSE)
      [] o.op = "reverse" -> Res(W(Rev(s)), RNone, FALSE)
      [] o.op = "fill" -> Res(W([i \in 1..n |-> o.a]), RNone, FALSE)
      [] o.op = "resize" -> Res(W([i \in 1..o.a |-> IF i <= n THEN s[i] ELSE o.b]), RNone, FALSE)
      [] o.op = "store_vec" -> Res(W(Digits(o.a)), RNone, FALSE)
      [] o.op = "clear" -> Res(W(<<>>), RNone, FALSE)

MapKey(f, o) == IF f = "mapB" THEN <<o.a, o.a + 10>> ELSE o.a
AMap(st, f, o) ==
    LET m == st[f] key == MapKey(f, o) W(x) == [st EXCEPT ![f] = x] IN
    CASE o.op = "insert" -> Res(W(Put(m, key, o.b)), RNone, FALSE)
      [] o.op = "remove" -> Res(W(Del(m, key)), RBool(key \in DOMAIN m), FALSE)
      [] o.op = "try_insert" -> IF key \in DOMAIN m THEN Res(st, RRes(FALSE, m[key]), FALSE)
                                ELSE Res(W(Put(m, key, o.b)), RRes(TRUE, o.b), FALSE)

\* mapN: keys <<k1, k2>>
ANested(st, o) ==
    LET m == st.mapN key == <<o.a, o.b>> W(x) == [st EXCEPT !.mapN = x] IN
    CASE o.op = "insert" -> Res(W(Put(m, key, o.c)), RNone, FALSE)
      [] o.op = "remove" -> Res(W(Del(m, key)), RBool(key \in DOMAIN m), FALSE)

\* mapV: a vector per key (absent = empty)
VecAt(m, key) == IF key \in DOMAIN m THEN m[key] ELSE <<>>
AMapVec(st, o) ==
    LET m == st.mapV s == VecAt(st.mapV, o.a) n == Len(VecAt(st.mapV, o.a))
        W(x) == [st EXCEPT !.mapV = IF x = <<>> THEN Del(m, o.a) ELSE Put(m, o.a, x)] IN
    CASE o.op = "push" -> Res(W(Append(s, o.b)), RNone, FALSE)
      [] o.op = "pop" -> IF n = 0 THEN Res(st, ROpt(FALSE, 0), FALSE)
                         ELSE Res(W(SubSeq(s, 1, n - 1)), ROpt(TRUE, s[n]), FALSE)
      [] o.op = "clear" -> Res(W(<<>>), RNone, FALSE)

ASlice(st, f, o) ==
    CASE o.op = "write" -> Res([st EXCEPT ![f] = SliceBytes(o.a, o.b)], RNone, FALSE)
      [] o.op = "clear" -> Res([st EXCEPT ![f] = <<>>], RNone, FALSE)

ADo(st, o) ==
    CASE o.f \in VecFields -> AVec(st, o.f, o)
      [] o.f \in MapFields -> AMap(st, o.f, o)
      [] o.f = "mapN" -> ANested(st, o)
      [] o.f = "mapV" -> AMapVec(st, o)
      [] o.f \in SliceFields -> ASlice(st, o.f, o)

(***************************************************************************)
(* What a full read-back logs (the `dump` of the generated contract), and  *)
(* what an operation's returned value logs.  Keys read back: KeyPool.      *)
(***************************************************************************)
KeyPool == <<1, 2, 3>>
BE8n(n) == ToBE(FromNat(n, 8))
EncOpt(ty, some, cd) == IF some THEN BE8n(1) \o EncV(Val(ty, cd)) ELSE BE8n(0)
BoolByte(b) == IF b THEN <<1>> ELSE <<0>>
RECURSIVE EncCodes(_, _, _)
EncCodes(ty, s, i) == IF i > Len(s) THEN <<>> ELSE EncV(Val(ty, s[i])) \o EncCodes(ty, s, i + 1)

DumpVec(ty, s) ==
    <<BE8n(Len(s)), BoolByte(Len(s) = 0)>>
    \o [i \in 1..Len(s) |-> EncV(Val(ty, s[i]))]
    \o <<BoolByte(TRUE),                                           \* get(len) is None
         EncOpt(ty, Len(s) > 0, IF Len(s) > 0 THEN s[1] ELSE 0),   \* first
         EncOpt(ty, Len(s) > 0, IF Len(s) > 0 THEN s[Len(s)] ELSE 0),   \* last
         BE8n(Len(s)) \o EncCodes(ty, s, 1)>>                      \* load_vec
DumpMap(f, m) ==
    [i \in 1..Len(KeyPool) |->
        LET key == IF f = "mapB" THEN <<KeyPool[i], KeyPool[i] + 10>> ELSE KeyPool[i]
        IN EncOpt(ElemTy(f), key \in DOMAIN m, IF key \in DOMAIN m THEN m[key] ELSE 0)]
DumpNested(m) ==
    [i \in 1..(Len(KeyPool) * Len(KeyPool)) |->
        LET key == <<KeyPool[((i - 1) \div Len(KeyPool)) + 1], KeyPool[((i - 1) % Len(KeyPool)) + 1]>>
        IN EncOpt(TU64, key \in DOMAIN m, IF key \in DOMAIN m THEN m[key] ELSE 0)]
RECURSIVE DumpMapVec(_, _)
DumpMapVec(m, i) ==
    IF i > Len(KeyPool) THEN <<>>
    ELSE LET s == VecAt(m, KeyPool[i]) IN
         <<BE8n(Len(s))>> \o [j \in 1..Len(s) |-> EncV(Val(TU64, s[j]))] \o DumpMapVec(m, i + 1)
DumpSlice(b) == <<BE8n(Len(b)), IF Len(b) = 0 THEN BE8n(0) ELSE BE8n(1) \o BE8n(Len(b)) \o b>>

Dump(st) ==
    DumpVec(TU64, st.vecA) \o DumpVec(T3, st.vecB) \o DumpVec(T("u8"), st.vecC)
    \o DumpMap("mapA", st.mapA) \o DumpMap("mapB", st.mapB) \o DumpNested(st.mapN) \o DumpMapVec(st.mapV, 1)
    \o DumpSlice(st.bytesA) \o DumpSlice(st.strA)

\* the log of a returned value (<<>> = nothing is logged); ty = element/value type of the field
RetLog(f, r) ==
    LET ty == ElemTy(f) IN
    CASE r.k = "none" -> <<>>
      [] r.k = "opt" -> <<EncOpt(ty, r.some, r.v)>>
      [] r.k = "val" -> <<EncV(Val(ty, r.v))>>
      [] r.k = "bool" -> <<BoolByte(r.some)>>
      \* Result<V, StorageMapError<V>>: Ok(v) = tag 0; Err(OccupiedError(v)) = tag 1, tag 0
      [] r.k = "res" -> <<IF r.some THEN BE8n(0) \o EncV(Val(ty, r.v)) ELSE BE8n(1) \o BE8n(0) \o EncV(Val(ty, r.v))>>

(***************************************************************************)
(* L2: the slot store.  Address = [p |-> hash term, o |-> offset].         *)
(* A hash term is a sequence of strings (the construction path), so two    *)
(* terms are equal iff they were built the same way: injectivity.          *)
(***************************************************************************)
FieldId(f) == <<"storage." \o f>>                     \* sha256((0u8, "storage.<f>"))
Sha(t) == t \o <<"sha">>                              \* sha256(t)
NumStr(n) == CASE n = 0 -> "0" [] n = 1 -> "1" [] n = 2 -> "2" [] n = 3 -> "3" [] n = 4 -> "4" [] n = 5 -> "5"
               [] n = 6 -> "6" [] n = 7 -> "7" [] n = 8 -> "8" [] n = 9 -> "9" [] n = 11 -> "11" [] n = 12 -> "12"
               [] n = 13 -> "13" [] n = 10 -> "10"
\* the key as hashed; f tells whether it is a pair (mapB) or a number
KeyStr(f, key) == IF f = "mapB" THEN NumStr(key[1]) \o "," \o NumStr(key[2]) ELSE NumStr(key)
MapSlot(key, t) == t \o <<"map:" \o key>>             \* sha256((1u8, key, t)); key already a string
A(t, o) == [p |-> t, o |-> o]

EmptyStore == [x \in {} |-> <<>>]
IsSet(store, a) == a \in DOMAIN store
Quad(store, a) == IF IsSet(store, a) THEN store[a] ELSE Zeros(32)

\* __state_load_quad: the n slots' bytes (zeros for unset slots) and whether all of them were set
RECURSIVE LoadQ(_, _, _, _)
LoadQ(store, t, o, n) ==
    IF n = 0 THEN [b |-> <<>>, ok |-> TRUE]
    ELSE LET r == LoadQ(store, t, o + 1, n - 1) IN
         [b |-> Quad(store, A(t, o)) \o r.b, ok |-> IsSet(store, A(t, o)) /\ r.ok]
\* __state_store_quad: n slots from bytes (bytes is n * 32 long)
StoreQ(store, t, o, n, bytes) ==
    [x \in DOMAIN store \cup { A(t, o + i) : i \in 0..(n - 1) } |->
        IF x.p = t /\ x.o >= o /\ x.o < o + n THEN SubSeq(bytes, 32 * (x.o - o) + 1, 32 * (x.o - o) + 32) ELSE store[x]]
\* __state_clear: unset n slots; TRUE iff all of them were set
ClearQ(store, t, o, n) ==
    [s |-> [x \in DOMAIN store \ { A(t, o + i) : i \in 0..(n - 1) } |-> store[x]],
     ok |-> \A i \in 0..(n - 1) : IsSet(store, A(t, o + i))]

\* slot_calculator::<T>(slot = (t, 0), offset in words): first slot (relative), number of slots, place in slot
SlotCalc(ty, offset) ==
    LET size == SizeB(ty)
        lastSlot == ((offset * 8) + size + 31) \div 32
        place == offset % 4
        n == IF IsRef(ty) THEN ((place * 8) + size + 31) \div 32 ELSE 1
    IN [first |-> lastSlot - n, n |-> n, place |-> place]

\* read_quads::<T>(slot, offset) -> [ok, b]   (size 0 never occurs here)
SRead(store, t, ty, offset) ==
    LET c == SlotCalc(ty, offset) ld == LoadQ(store, t, c.first, c.n) IN
    [ok |-> ld.ok, b |-> SubSeq(ld.b, c.place * 8 + 1, c.place * 8 + SizeB(ty))]
\* write_quads::<T>(slot, offset, value image)
Splice(buf, at, img) == SubSeq(buf, 1, at) \o img \o SubSeq(buf, at + Len(img) + 1, Len(buf))
SWrite(store, t, ty, offset, img) ==
    LET size == SizeB(ty) IN
    IF size % 32 = 0 /\ offset = 0 THEN StoreQ(store, t, 0, size \div 32, img)
    ELSE LET c == SlotCalc(ty, offset) ld == LoadQ(store, t, c.first, c.n)
         IN StoreQ(store, t, c.first, c.n, Splice(ld.b, c.place * 8, img))
\* clear_quads::<T>(slot, offset)
SClear(store, t, ty, offset) == LET c == SlotCalc(ty, offset) IN ClearQ(store, t, c.first, c.n)

\* offset_calculator::<T>(index), in words
OffCalc(ty, index) == (index * Up8(SizeB(ty))) \div 8

U64Img(n) == BE8n(n)
\* the length word of a vector / slice at term t (read_quads::<u64>(t, 0).unwrap_or(0)), as a natural number
SLen(store, t) == LET r == SRead(store, t, TU64, 0) IN IF r.ok THEN ToNat(FromBE(r.b)) ELSE 0
SSetLen(store, t, n) == SWrite(store, t, TU64, 0, U64Img(n))

ImgOf(ty, cd) == TopImg(ty, Val(ty, cd))
\* the code whose image these bytes are; -1 when they are no value's image (garbage)
Codes == 0..9
CodeOf(ty, b) == IF \E cd \in Codes : ImgOf(ty, cd) = b THEN CHOOSE cd \in Codes : ImgOf(ty, cd) = b ELSE 0 - 1

SRes(s, ret, rev) == [s |-> s, ret |-> ret, rev |-> rev]
SRevert(s) == SRes(s, RNone, TRUE)

\* element i of the vector whose length lives at t
SElem(store, t, ty, i) == SRead(store, Sha(t), ty, OffCalc(ty, i))
SPutElem(store, t, ty, i, img) == SWrite(store, Sha(t), ty, OffCalc(ty, i), img)

\* remove: shift elements index+1 .. len-1 down by one
RECURSIVE ShiftDown(_, _, _, _, _)
ShiftDown(store, t, ty, count, len) ==
    IF count >= len THEN store
    ELSE ShiftDown(SPutElem(store, t, ty, count - 1, SElem(store, t, ty, count).b), t, ty, count + 1, len)
\* insert: shift elements len-1 .. index up by one, from the top
RECURSIVE ShiftUp(_, _, _, _, _)
ShiftUp(store, t, ty, count, index) ==
    LET s2 == SPutElem(store, t, ty, count + 1, SElem(store, t, ty, count).b) IN
    IF count = 0 \/ count - 1 < index THEN s2 ELSE ShiftUp(s2, t, ty, count - 1, index)
RECURSIVE RevLoop(_, _, _, _, _)
RevLoop(store, t, ty, i, len) ==
    IF i >= len \div 2 THEN store
    ELSE LET x == SElem(store, t, ty, i).b y == SElem(store, t, ty, len - i - 1).b
             s1 == SPutElem(store, t, ty, i, y)
         IN RevLoop(SPutElem(s1, t, ty, len - i - 1, x), t, ty, i + 1, len)
RECURSIVE FillLoop(_, _, _, _, _, _)
FillLoop(store, t, ty, i, upto, img) ==
    IF i >= upto THEN store ELSE FillLoop(SPutElem(store, t, ty, i, img), t, ty, i + 1, upto, img)

\* store_vec: elements padded to words, written as whole slots from sha256(t), then the length
RECURSIVE PaddedImgs(_, _, _)
PaddedImgs(ty, s, i) ==
    IF i > Len(s) THEN <<>>
    ELSE LET img == ImgOf(ty, s[i]) IN img \o Zeros(Up8(SizeB(ty)) - Len(img)) \o PaddedImgs(ty, s, i + 1)

\* StorageKey<StorageVec<V>> methods at hash term t (= field id), element type ty
SVec(store, t, ty, o) ==
    LET len == SLen(store, t) IN
    CASE o.op = "push" -> SRes(SSetLen(SPutElem(store, t, ty, len, ImgOf(ty, o.a)), t, len + 1), RNone, FALSE)
      [] o.op = "pop" ->
            IF len = 0 THEN SRes(store, ROpt(FALSE, 0), FALSE)
            ELSE LET s1 == SSetLen(store, t, len - 1) r == SElem(s1, t, ty, len - 1)
                 IN SRes(s1, ROpt(r.ok, IF r.ok THEN CodeOf(ty, r.b) ELSE 0), FALSE)
      [] o.op = "set" -> IF ~(o.a < len) THEN SRevert(store) ELSE SRes(SPutElem(store, t, ty, o.a, ImgOf(ty, o.b)), RNone, FALSE)
      [] o.op = "insert" ->
            IF ~(o.a <= len) THEN SRevert(store)
            ELSE IF len = o.a THEN SRes(SSetLen(SPutElem(store, t, ty, o.a, ImgOf(ty, o.b)), t, len + 1), RNone, FALSE)
            ELSE LET s1 == ShiftUp(store, t, ty, len - 1, o.a)
                 IN SRes(SSetLen(SPutElem(s1, t, ty, o.a, ImgOf(ty, o.b)), t, len + 1), RNone, FALSE)
      [] o.op = "remove" ->
            IF ~(o.a < len) THEN SRevert(store)
            ELSE LET r == SElem(store, t, ty, o.a) IN
                 IF ~r.ok THEN SRevert(store)            \* .unwrap()
                 ELSE SRes(SSetLen(ShiftDown(store, t, ty, o.a + 1, len), t, len - 1), RVal(CodeOf(ty, r.b)), FALSE)
      [] o.op = "swap_remove" ->
            IF ~(o.a < len) THEN SRevert(store)
            ELSE LET r == SElem(store, t, ty, o.a) lst == SElem(store, t, ty, len - 1) IN
                 IF ~r.ok \/ ~lst.ok THEN SRevert(store)
                 ELSE SRes(SSetLen(SPutElem(store, t, ty, o.a, lst.b), t, len - 1), RVal(CodeOf(ty, r.b)), FALSE)
      [] o.op = "swap" ->
            IF ~(o.a < len) \/ ~(o.b < len) THEN SRevert(store)
            ELSE IF o.a = o.b THEN SRes(store, RNone, FALSE)
            ELSE LET x == SElem(store, t, ty, o.a) y == SElem(store, t, ty, o.b) IN
                 IF ~x.ok \/ ~y.ok THEN SRevert(store)
                 ELSE SRes(SPutElem(SPutElem(store, t, ty, o.a, y.b), t, ty, o.b, x.b), RNone, FALSE)
      [] o.op = "reverse" -> IF len < 2 THEN SRes(store, RNone, FALSE) ELSE SRes(RevLoop(store, t, ty, 0, len), RNone, FALSE)
      [] o.op = "fill" -> SRes(FillLoop(store, t, ty, 0, len, ImgOf(ty, o.a)), RNone, FALSE)
      [] o.op = "resize" -> SRes(SSetLen(FillLoop(store, t, ty, len, o.a, ImgOf(ty, o.b)), t, o.a), RNone, FALSE)
      [] o.op = "store_vec" ->
            LET s == Digits(o.a)
                bytes == PaddedImgs(ty, s, 1)
                n == (Len(bytes) + 31) \div 32
                s1 == StoreQ(store, Sha(t), 0, n, bytes \o Zeros(32 * n - Len(bytes)))
            IN SRes(SSetLen(s1, t, Len(s)), RNone, FALSE)
      \* StorageKey::clear for a zero-sized T: clear_quads::<u64>(field_id, 0)
      [] o.op = "clear" -> SRes(SClear(store, t, TU64, 0).s, RNone, FALSE)

\* StorageKey<StorageMap<K, V>> at term t; single-slot or multi-slot values at offset 0
SMapOps(store, t, ty, keystr, o, val) ==
    LET slot == MapSlot(keystr, t) IN
    CASE o.op = "insert" -> SRes(SWrite(store, slot, ty, 0, ImgOf(ty, val)), RNone, FALSE)
      [] o.op = "remove" -> LET r == SClear(store, slot, ty, 0) IN SRes(r.s, RBool(r.ok), FALSE)
      [] o.op = "try_insert" ->
            LET r == SRead(store, slot, ty, 0) IN
            IF r.ok THEN SRes(store, RRes(FALSE, CodeOf(ty, r.b)), FALSE)
            ELSE SRes(SWrite(store, slot, ty, 0, ImgOf(ty, val)), RRes(TRUE, val), FALSE)

\* write_slice_quads / clear_slice_quads at term t
SSlice(store, t, o) ==
    CASE o.op = "write" ->
            LET bytes == SliceBytes(o.a, o.b)
                n == (Len(bytes) + 31) \div 32
                s1 == StoreQ(store, Sha(t), 0, n, bytes \o Zeros(32 * n - Len(bytes)))
            IN SRes(SSetLen(s1, t, Len(bytes)), RNone, FALSE)
      [] o.op = "clear" ->
            LET len == SLen(store, t) n == (len + 31) \div 32
                s1 == ClearQ(store, t, 0, 1).s
            IN SRes(ClearQ(s1, Sha(t), 0, n).s, RNone, FALSE)

SDo(store, o) ==
    CASE o.f \in VecFields -> SVec(store, FieldId(o.f), ElemTy(o.f), o)
      [] o.f \in MapFields -> SMapOps(store, FieldId(o.f), ElemTy(o.f), KeyStr(o.f, MapKey(o.f, o)), o, o.b)
      \* storage.mapN.get(k1) is a key with slot = field_id = MapSlot(k1, ..); then .insert(k2, v) on it
      [] o.f = "mapN" -> SMapOps(store, MapSlot(KeyStr("mapN", o.a), FieldId("mapN")), TU64, KeyStr("mapN", o.b), o, o.c)
      \* storage.mapV.get(k) is a StorageKey<StorageVec<u64>> whose field_id is the map slot
      [] o.f = "mapV" -> SVec(store, MapSlot(KeyStr("mapV", o.a), FieldId("mapV")), TU64,
                              [o EXCEPT !.a = o.b])              \* push(value = o.b); pop; clear
      [] o.f \in SliceFields -> SSlice(store, FieldId(o.f), o)

(***************************************************************************)
(* View: the L1 state obtained by reading everything back through L2       *)
(* (len, get(i).read(), map get(k).try_read(), read_slice).                *)
(***************************************************************************)
VecView(store, t, ty) ==
    LET len == SLen(store, t) IN
    [i \in 1..len |-> LET r == SElem(store, t, ty, i - 1) IN IF r.ok THEN CodeOf(ty, r.b) ELSE 0 - 2]
MapView(store, f, keys) ==
    LET t == FieldId(f) ty == ElemTy(f)
        present == { key \in keys : SRead(store, MapSlot(KeyStr(f, key), t), ty, 0).ok } IN
    [key \in present |-> CodeOf(ty, SRead(store, MapSlot(KeyStr(f, key), t), ty, 0).b)]
NestedSlot(kk) == MapSlot(KeyStr("mapN", kk[2]), MapSlot(KeyStr("mapN", kk[1]), FieldId("mapN")))
NestedView(store, keys) ==
    LET present == { kk \in keys \X keys : SRead(store, NestedSlot(kk), TU64, 0).ok } IN
    [kk \in present |-> CodeOf(TU64, SRead(store, NestedSlot(kk), TU64, 0).b)]
MapVecView(store, keys) ==
    LET nonempty == { key \in keys : SLen(store, MapSlot(KeyStr("mapV", key), FieldId("mapV"))) > 0 } IN
    [key \in nonempty |-> VecView(store, MapSlot(KeyStr("mapV", key), FieldId("mapV")), TU64)]
\* read_slice_quads: None when the length is 0, else the first len bytes of the slots at sha256(t)
SliceView(store, t) ==
    LET len == SLen(store, t) IN
    IF len = 0 THEN <<>> ELSE SubSeq(LoadQ(store, Sha(t), 0, (len + 31) \div 32).b, 1, len)

View(store, keys, pairKeys) ==
    [vecA |-> VecView(store, FieldId("vecA"), TU64), vecB |-> VecView(store, FieldId("vecB"), T3),
     vecC |-> VecView(store, FieldId("vecC"), T("u8")),
     mapA |-> MapView(store, "mapA", keys), mapB |-> MapView(store, "mapB", pairKeys),
     mapN |-> NestedView(store, keys), mapV |-> MapVecView(store, keys),
     bytesA |-> SliceView(store, FieldId("bytesA")), strA |-> SliceView(store, FieldId("strA"))]
=============================================================================
