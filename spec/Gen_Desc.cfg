\* mutation descriptors for arbitrary files: op x position quantile (Q = 8) x atom
CONSTANTS K = 0  Alphabet <- CoreAtoms  NSeeds = 0  SeedTok <- SeedTokImpl  SeedDelims <- SeedDelimsImpl  MaxOps = 0  Q = 8
INIT DescInit
NEXT DescNext
INVARIANT PrintDesc
CHECK_DEADLOCK FALSE
