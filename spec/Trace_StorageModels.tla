------------------------ MODULE Trace_StorageModels ------------------------
(***************************************************************************)
(* Trace validation for C28.  One record per executed history (one #[test] *)
(* = one contract call interpreting the whole history from the deployment  *)
(* state):                                                                 *)
(*   [id, ops  |-> << [f, op, a, b, c] >>,                                 *)
(*        obs  |-> per completed operation [ret |-> logs before the        *)
(*                 read-back (the returned value, if the operation has     *)
(*                 one), dump |-> the logs of the full read-back of every  *)
(*                 field and key],                                         *)
(*        tail |-> logs after the last completed read-back,                *)
(*        out  |-> "return" | "revert"]                                    *)
(* Replayed through StorageModels!ADo (the abstract layer): operation k    *)
(* must have logged exactly RetLog and then exactly Dump of the new state; *)
(* a reverting operation must be the last thing that happened.             *)
(***************************************************************************)
EXTENDS StorageModels, Json, IOUtils

Rec == ndJsonDeserialize(IOEnv.TRACE)

VARIABLES l, k, st, ok, aborted
tvars == <<l, k, st, ok, aborted>>

TraceInit == l = 1 /\ k = 1 /\ st = InitState /\ ok = TRUE /\ aborted = FALSE /\ TLCSet(1, 1) /\ TLCSet(2, {})

TrOp == /\ l <= Len(Rec) /\ k <= Len(Rec[l].ops) /\ ~aborted
        /\ LET o == Rec[l].ops[k] r == ADo(st, o) IN
           /\ st' = r.st /\ aborted' = r.rev
           /\ ok' = (ok /\ IF r.rev THEN Len(Rec[l].obs) = k - 1
                           ELSE /\ k <= Len(Rec[l].obs)
                                /\ Rec[l].obs[k].ret = RetLog(o.f, r.ret)
                                /\ Rec[l].obs[k].dump = Dump(r.st))
        /\ k' = k + 1 /\ l' = l

TrEnd == /\ l <= Len(Rec) /\ (k > Len(Rec[l].ops) \/ aborted)
         /\ LET good == /\ ok
                        /\ Rec[l].out = (IF aborted THEN "revert" ELSE "return")
                        /\ (~aborted => Len(Rec[l].obs) = Len(Rec[l].ops) /\ Rec[l].tail.ret = <<>> /\ Rec[l].tail.dump = <<>>)
            IN IF good THEN TRUE ELSE TLCSet(2, TLCGet(2) \cup {l})
         /\ TLCSet(1, l + 1)
         /\ l' = l + 1 /\ k' = 1 /\ st' = InitState /\ ok' = TRUE /\ aborted' = FALSE

TraceNext == TrOp \/ TrEnd
TraceSpec == TraceInit /\ [][TraceNext]_tvars

Accepted ==
    IF TLCGet(1) # Len(Rec) + 1 THEN Print(<<"FIRST-UNMATCHED", TLCGet(1)>>, FALSE)
    ELSE IF TLCGet(2) = {} THEN TRUE
    ELSE Print(<<"REJECTED", ToJson({ [idx |-> i, id |-> Rec[i].id, why |-> "history"] : i \in TLCGet(2) })>>, FALSE)
=============================================================================
