\* exhaustive: all programs of <= 4 instructions over const/mov/out/jnz (straight-line, branches, loops)
CONSTANTS
  MaxLen = 4
  NV = 3
  NP = 2
  Kinds = {"const", "mov", "out", "jnz"}
  Rule = "spec"
  Filter = TRUE
  RandLens = {}
  RandKinds = {}
  RandCount = 0
SPECIFICATION Spec
INVARIANT AllocatedRunAgrees
INVARIANT LiveAgree
CHECK_DEADLOCK FALSE
