------------------------- MODULE Trace_BuildOrder -------------------------
(***************************************************************************)
(* Trace validation for C22: every record is one call of                   *)
(* forc_pkg::compilation_order on a graph; an Ok(order) result must be a   *)
(* behaviour of BuildOrder's planner that ends in Done (replayed one Emit  *)
(* at a time), an Err result is accepted iff the graph is cyclic.          *)
(* record: [n |-> Nat, edges |-> Seq(<<a,b>>), ok |-> BOOLEAN, order |-> Seq(Nat)] *)
(***************************************************************************)
EXTENDS BuildOrder, Json, IOUtils

Rec == ndJsonDeserialize(IOEnv.TRACE)

VARIABLES l, k        \* current record, number of its order entries consumed

GraphOf(r) == [nodes |-> 1..r.n, edges |-> { <<r.edges[i][1], r.edges[i][2]>> : i \in DOMAIN r.edges }]

TraceInit ==
    /\ l = 1 /\ k = 0
    /\ g = (IF Len(Rec) = 0 THEN [nodes |-> {}, edges |-> {}] ELSE GraphOf(Rec[1]))
    /\ emitted = <<>>
    /\ TLCSet(1, 1)

TrEmit ==
    /\ l <= Len(Rec) /\ Rec[l].ok /\ k < Len(Rec[l].order)
    /\ Rec[l].order[k+1] \in g.nodes
    /\ Emit(Rec[l].order[k+1])
    /\ k' = k + 1 /\ l' = l

RecordAccepted ==
    IF Rec[l].ok THEN k = Len(Rec[l].order) /\ Done   \* the planner emitted everything
    ELSE Cyclic(g)                                     \* an error is allowed only for a cyclic graph

TrNextRecord ==
    /\ l <= Len(Rec) /\ RecordAccepted
    /\ l' = l + 1 /\ k' = 0 /\ emitted' = <<>>
    /\ g' = (IF l + 1 <= Len(Rec) THEN GraphOf(Rec[l+1]) ELSE g)
    /\ TLCSet(1, l + 1)

TraceNext == TrEmit \/ TrNextRecord

TraceSpec == TraceInit /\ [][TraceNext]_<<vars, l, k>>

Accepted ==
    IF TLCGet(1) = Len(Rec) + 1 THEN TRUE
    ELSE Print(<<"FIRST-UNMATCHED", TLCGet(1), ToJson(Rec[TLCGet(1)])>>, FALSE)
=============================================================================
