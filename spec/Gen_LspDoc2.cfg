\* histories of two changes: 6 initial documents x every change of EditsOf (4 texts) x every change of
\* EditsOf on the result restricted to 3 texts (plus a full-text change as second step)
CONSTANTS
    InitDocs <- Docs6
    Texts <- Texts4
    Texts2 <- Texts3
    MaxLen = 40
    Algo = "utf16walk"
    MaxEdits = 2
    SimPick = 3
SPECIFICATION GenSpec
INVARIANT PrintReplay
CHECK_DEADLOCK FALSE
