\* thorough: edit distance <= 2
CONSTANT Edits = 2
CONSTANT PairOf <- Identity
INIT MCInit
NEXT MCNext
INVARIANT EssentialPreserved
INVARIANT TuplesPreserved
INVARIANT FewAlternatives
POSTCONDITION Expectations
CHECK_DEADLOCK FALSE
