---------------------------- MODULE MC_ParseInv ----------------------------
(* TLC-only additions to ParseInv: replay-record printing for the three generators. *)
EXTENDS ParseInv, Json, IOUtils

SeedMeta == IF "SEEDS" \in DOMAIN IOEnv THEN ndJsonDeserialize(IOEnv.SEEDS) ELSE <<>>
NSeedsImpl == Len(SeedMeta)
SeedTokImpl(n) == SeedMeta[n].ntok
SeedDelimsImpl(n) == Range(SeedMeta[n].delims)

PrintAtoms == PrintT(<<"A", s>>)
PrintMut   == (Len(ops) = MaxOps) => PrintT(<<"M", seed, ops>>)
PrintDesc  == PrintT(<<"D", desc>>)
=============================================================================
