----------------------------- MODULE Trace_Fmt -----------------------------
(***************************************************************************)
(* Trace validation for C18 and C19 against FmtTransducer.                 *)
(*                                                                         *)
(* IOEnv.TRACE is an ndjson file written by vh-fmt, one event per          *)
(* (input, configuration):                                                 *)
(*   [ev |-> "Fmt", cfg, status, inh, outh, status2, out2h, parses,        *)
(*    cin, pin, cout, pout, min, mout]   (the streams as table indexes)    *)
(* status / status2: "ok" | "rejected" (not a source the formatter         *)
(* accepts) | "error" | "panic" | "abort" | "timeout" for Formatter::format *)
(* of the input / of the output.  The streams are present iff status="ok". *)
(*                                                                         *)
(* Every event is validated on its own: there is one initial state per     *)
(* event, and an event is ACCEPTED iff some behaviour from its initial     *)
(* state reaches the accepting step.  The set of accepted events is kept   *)
(* in TLC register 1 (single worker); the POSTCONDITION demands that it is *)
(* all of them and prints the rejected ones otherwise.  With DETAIL set in *)
(* the environment, registers 2 and 3 hold per event the furthest cursor   *)
(* positions reached (used to describe rejected events in replays).        *)
(***************************************************************************)
EXTENDS FmtTransducer, Json, IOUtils

Rec == ndJsonDeserialize(IOEnv.TRACE)
\* Token streams are interned (purely mechanically, by exact equality) by the driver: the events
\* carry indexes into the table IOEnv.TABLE, one JSON array per line.  (The code streams of one
\* file are mostly the same under all configurations and for all comment variants.)
Tab == IF "TABLE" \in DOMAIN IOEnv THEN ndJsonDeserialize(IOEnv.TABLE) ELSE <<>>
TracePairOf(x) ==
    LET e == Rec[x] IN
    [cin |-> Tab[e.cin], pin |-> Tab[e.pin], cout |-> Tab[e.cout], pout |-> Tab[e.pout],
     min |-> Tab[e.min], mout |-> Tab[e.mout], parses |-> e.parses]

VARIABLE phase      \* "code" -> "comments" -> "end"   (C19);  "fmt" -> "again" -> "end"  (C18)

tvars == <<vars, phase>>
r == Rec[pair]
Max(a, b) == IF a > b THEN a ELSE b
Detail == "DETAIL" \in DOMAIN IOEnv
Zero == [x \in 1..Len(Rec) |-> 0]

Accept == TLCSet(1, TLCGet(1) \cup {pair})

Common ==
    /\ pair \in 1..Len(Rec)
    /\ i = 1 /\ j = 1 /\ ci = 1 /\ cj = 1 /\ pend = <<>>
    /\ done = <<>>
    /\ TLCSet(1, {}) /\ TLCSet(2, Zero) /\ TLCSet(3, Zero)

----------------------------------------------------------------------------
(* C19 *)
Init19 == Common /\ phase = "code"

\* the properties quantify over accepted / parseable sources: other inputs are skipped.
\* A source is accepted when Formatter::format returned a text.
TrSkip ==
    /\ phase = "code" /\ r.status # "ok"
    /\ Accept
    /\ phase' = "end" /\ UNCHANGED vars

\* a maximal run of Copy moves in one step, or any other move
TrCode ==
    /\ phase = "code" /\ r.status = "ok"
    /\ \/ LET n == CopyRun(cin, pin, cout, i, j, pend, 4000) IN CopyN(n)
       \/ AddTrailingComma \/ DropTrailingComma \/ DropOpenParen \/ DropCloseParen \/ UseStmt
    /\ Detail => /\ TLCSet(2, [TLCGet(2) EXCEPT ![pair] = Max(@, i')])
                 /\ TLCSet(3, [TLCGet(3) EXCEPT ![pair] = Max(@, j')])
    /\ UNCHANGED phase

TrCodeDone ==
    /\ phase = "code" /\ r.status = "ok" /\ CodeDone
    /\ phase' = "comments" /\ UNCHANGED vars

TrComment ==
    /\ phase = "comments"
    /\ LET n == CommentRun(min, mout, ci, cj, 4000) IN CopyCommentN(n)
    /\ UNCHANGED phase

TrRelated ==
    /\ phase = "comments" /\ Related
    /\ Accept
    /\ phase' = "end" /\ UNCHANGED vars

Next19 == TrSkip \/ TrCode \/ TrCodeDone \/ TrComment \/ TrRelated
TraceSpec19 == Init19 /\ [][Next19]_tvars

----------------------------------------------------------------------------
(* C18 *)
Init18 == Common /\ phase = "fmt"

TrSkip18 ==
    /\ phase = "fmt" /\ r.status # "ok"
    /\ Accept
    /\ phase' = "end" /\ UNCHANGED vars

TrFmt ==
    /\ phase = "fmt" /\ r.status = "ok"
    /\ Fmt(r.cfg, r.inh, r.outh)
    /\ phase' = "again" /\ UNCHANGED <<pair, i, j, ci, cj, pend>>

\* formatting the output again must return a text (there is no move for any other outcome) ...
TrFmtAgain ==
    /\ phase = "again" /\ r.status2 = "ok"
    /\ Fmt(r.cfg, r.outh, r.out2h)
    /\ phase' = "check" /\ UNCHANGED <<pair, i, j, ci, cj, pend>>

\* ... and the invariant of the specification must hold on what has been recorded
TrIdempotent ==
    /\ phase = "check" /\ Idempotent
    /\ Accept
    /\ phase' = "end" /\ UNCHANGED vars

Next18 == TrSkip18 \/ TrFmt \/ TrFmtAgain \/ TrIdempotent
TraceSpec18 == Init18 /\ [][Next18]_tvars

----------------------------------------------------------------------------
Accepted ==
    IF TLCGet(1) = 1..Len(Rec) THEN TRUE
    ELSE /\ \A x \in (1..Len(Rec)) \ TLCGet(1) : PrintT(<<"REJECTED", x, TLCGet(2)[x], TLCGet(3)[x]>>)
         /\ FALSE
=============================================================================
