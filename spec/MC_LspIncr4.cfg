\* exhaustive (thorough): 4 modules, <= 3 items, histories of <= 5 client actions
CONSTANTS
  Mods = {"main", "a", "b", "c"}
  NNames = 2
  MaxItems = 3
  MaxHist = 5
  Kinds = {"add", "delete", "rename", "sig", "arg", "ws"}
  CancelAt = {1}
  Inits = {"base"}
  KeepHist = FALSE
SPECIFICATION Spec
INVARIANT TypeOK
INVARIANT MechComplete
INVARIANT MechSound
INVARIANT NoUnlistedMechanism
INVARIANT ReopenReuses
INVARIANT RecheckShape
INVARIANT TypedCurrentUnlessUncommitted
CHECK_DEADLOCK FALSE
