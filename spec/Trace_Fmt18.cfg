\* C18: every recorded output must be a fixpoint of its configuration
CONSTANT PairOf <- TracePairOf
INIT Init18
NEXT Next18
POSTCONDITION Accepted
CHECK_DEADLOCK FALSE
