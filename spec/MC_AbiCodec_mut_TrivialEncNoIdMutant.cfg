\* binding demonstration: the classification TrivialEnc replaced by the mutant TrivialEncNoIdMutant -- TLC must find a counterexample type tree
CONSTANTS Universe = "d1" SampleD2 = 0 SampleD3 = 0 Part = 0 NParts = 1 WithNamed = TRUE
CONSTANT TrivialEnc <- TrivialEncNoIdMutant
SPECIFICATION Spec
INVARIANT InvC10
CHECK_DEADLOCK FALSE
