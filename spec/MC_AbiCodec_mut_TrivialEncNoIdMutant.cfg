\* binding demonstration: the classification TrivialEnc replaced by the mutant TrivialEncNoIdMutant -- TLC must find a counterexample type tree
CONSTANTS Universe = "d1" SampleD2 = 0 SampleD3 = 0
CONSTANT TrivialEnc <- TrivialEncNoIdMutant
SPECIFICATION Spec
INVARIANT Inv
CHECK_DEADLOCK FALSE
