CONSTANT F12Fixed = TRUE
CONSTANT B256CmpFixed = TRUE
CONSTANT ClsSel = {"bin","shift","not","widen","narrow","chain"}
CONSTANT TySel = {"u256"}
SPECIFICATION Spec
INVARIANT Agreement
INVARIANT NoSubstitution
INVARIANT NoPanic
INVARIANT InRange
INVARIANT FoldSound
INVARIANT PrintReplay
CHECK_DEADLOCK FALSE
