CONSTANT F12Fixed = TRUE
CONSTANT ClsSel = {"bin", "shift", "not", "widen", "narrow", "chain"}
CONSTANT TySel = {"u8"}
SPECIFICATION Spec
INVARIANT PrintReplay
CHECK_DEADLOCK FALSE
