CONSTANTS
  MaxLen = 3
  NV = 3
  NP = 2
  Kinds = {"const", "mov", "inc", "add", "out", "jnz", "jmp"}
  Rule = "spec"
  Filter = FALSE
  RandLen = 0
  RandCount = 0
SPECIFICATION Spec
INVARIANT LivenessIsPathLiveness
CHECK_DEADLOCK FALSE
