CONSTANTS
  MaxLen = 3
  NV = 3
  NP = 1
  Kinds = {"const", "mov", "inc", "add", "out", "jnz", "jmp"}
  Rule = "spec"
  Filter = FALSE
  RandLens = {5, 6}
  RandKinds = {"const", "mov", "inc", "add", "out", "jnz", "jmp"}
  RandCount = 20000
SPECIFICATION Spec
INVARIANT LivenessIsPathLiveness
CHECK_DEADLOCK FALSE
