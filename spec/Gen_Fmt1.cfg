CONSTANT MaxIns = 1
INIT Init
NEXT Next
INVARIANT PrintReplay
CHECK_DEADLOCK FALSE
