\* binding demonstration: the classification TrivialDec replaced by the mutant TrivialDecBoolMutant -- TLC must find a counterexample type tree
CONSTANTS Universe = "d1" SampleD2 = 0 SampleD3 = 0 Part = 0 NParts = 1 WithNamed = TRUE
CONSTANT TrivialDec <- TrivialDecBoolMutant
SPECIFICATION Spec
INVARIANT InvC10
CHECK_DEADLOCK FALSE
