\* PRE-FIX EVIDENCE ONLY: protocol as found, conformance without the property invariants.
\* The unrepaired code (before the fix commit) matches this model event for event.
CONSTANT NFiles = 7
CONSTANT ManifestIdx = 2
CONSTANT PlanNeeded = {2, 4}
CONSTANT Needed = {2, 4, 5, 6}
CONSTANT MaxBuilds = 3
CONSTANT MaxFaults = 1
CONSTANT Protocol = "inplace"
SPECIFICATION TraceSpec
INVARIANT TypeOK
INVARIANT LockFreeBetweenBuilds
INVARIANT MarkerTruthful
POSTCONDITION Accepted
CHECK_DEADLOCK FALSE
