----------------------------- MODULE GitFetch -----------------------------
(***************************************************************************)
(* Crash safety of fetching a git dependency into the forc cache (C30).    *)
(*                                                                         *)
(* The model is a transcription, one action per hook-H7 fault point, of    *)
(*   forc-pkg/src/source/git/mod.rs:  <Source as Pin>::pin  (pin phase),   *)
(*   <Pinned as Fetch>::fetch, fetch(), with_tmp_git_repo()                *)
(* executed by a sequence of build processes (one at a time) that share    *)
(* the file system under $HOME/.forc:                                      *)
(*   tmp      the temporary clone of the running process                   *)
(*            (git/checkouts/tmp/<fetch_id>-<name>-<hash>; the fetch_id is *)
(*            fresh per process, so a dead process's clone is never reused *)
(*            nor removed: it becomes `litter`)                            *)
(*   coDir, coFiles, coIndex                                               *)
(*            the checkout directory git/checkouts/<name>-<hash>/<commit>: *)
(*            does it exist, how many of the commit's NFiles files have    *)
(*            been written (libgit2 writes them in tree order, so the      *)
(*            content is the prefix 1..coFiles), is `.forc_index` there    *)
(*   lock     the advisory (flock) lock on the checkout path; the kernel   *)
(*            drops it when its holder dies                                *)
(*                                                                         *)
(* pc is the fault point the running process stands at: the operation the  *)
(* point announces has NOT happened yet.  Between any two steps the        *)
(* process may Crash (abort: no destructors run) or suffer an IoError (the *)
(* operation returns Err, which propagates with `?`: scope guards run, the *)
(* build ends in an error).  After a build has ended, the next build is a  *)
(* fresh process running the same code from the top.                       *)
(*                                                                         *)
(* Protocol = "inplace" is the code as found: the "already fetched" test   *)
(* of Fetch::fetch is `repo_path.exists()` although fetch() creates that   *)
(* directory first and fills it in place.  Protocol = "marker" is the      *)
(* repaired code: `.forc_index`, which fetch() writes last, is the         *)
(* completion marker.                                                      *)
(*                                                                         *)
(* Properties (C30): a build never compiles against a partial checkout     *)
(* (NoPartialCompile); a fault-free build that ends in an error is         *)
(* followed by a build that fetches again (ErrorThenRefetch) and two       *)
(* consecutive fault-free builds never both fail (NoFailForever).          *)
(***************************************************************************)
EXTENDS Naturals, FiniteSets, Sequences, TLC

CONSTANTS
    NFiles,        \* number of files in the pinned commit's tree (checkout order 1..NFiles)
    ManifestIdx,   \* position of the dependency's Forc.toml
    PlanNeeded,    \* files the planner needs: the manifest and the entry file it names
    Needed,        \* files a successful compilation needs (manifest + every source file)
    MaxBuilds,     \* number of build processes
    MaxFaults,     \* number of injected faults (crash or I/O error) over all builds
    Protocol       \* "inplace" (as found) | "marker" (repaired)

ASSUME /\ NFiles \in Nat \ {0}
       /\ ManifestIdx \in 1..NFiles
       /\ ManifestIdx \in PlanNeeded /\ PlanNeeded \subseteq Needed /\ Needed \subseteq 1..NFiles
       /\ Protocol \in {"inplace", "marker"}

VARIABLES
    localFirst,  \* the manifest's git reference is a tag/rev: pin() first looks for a local checkout
                 \* (search_source_locally: needs .forc_index) and only otherwise clones to pin;
                 \* for a branch / the default branch it always clones to pin
    build,       \* ordinal of the running build process
    pc,          \* where it stands
    tmp,         \* "absent" | "inited" | "fetched"
    litter,      \* states of the temporary clones left behind by dead processes
    coDir, coFiles, coIndex,
    lock,        \* "free" | "held"
    faults,      \* faults injected so far
    faulted,     \* a fault was injected into the running build
    refetched,   \* the running build entered fetch() (it "fetches again")
    outcome,     \* of the build that has just ended: "compiled" | "error" | "crashed" ("none" while running)
    compiledWith,\* number of checkout files present when the last Compile step ran (NFiles+1: never)
    prevCleanErr,\* the previous build was fault-free and ended in an error
    cleanErrs    \* number of consecutive fault-free builds that have ended in an error

fsvars == <<tmp, litter, coDir, coFiles, coIndex, lock>>
vars == <<localFirst, build, pc, tmp, litter, coDir, coFiles, coIndex, lock, faults, faulted,
          refetched, outcome, compiledWith, prevCleanErr, cleanErrs>>

(***************************************************************************)
(* Program points.  The fault points of hook H7 in code order; the pin     *)
(* phase runs with_tmp_git_repo too, its points carry the prefix "pin.".   *)
(***************************************************************************)
PinPcs   == {"pin.tmp.rm_stale", "pin.tmp.init", "pin.tmp.fetch_refs", "pin.tmp.fetched", "pin.tmp.done"}
FetchPcs == {"tmp.rm_stale", "tmp.init", "tmp.fetch_refs", "tmp.fetched", "fetch.set_head",
             "fetch.mkdir", "fetch.checkout", "fetch.checkout.file", "fetch.checked_out",
             "fetch.write_index", "fetch.index_written", "tmp.done"}
FaultPcs == PinPcs \cup {"Fetch.locked"} \cup FetchPcs
OtherPcs == {"start", "find", "compile", "ended", "halt"}

\* the name the hook reports for a program point
PointName(p) ==
    CASE p = "pin.tmp.rm_stale"   -> "tmp.rm_stale"
      [] p = "pin.tmp.init"       -> "tmp.init"
      [] p = "pin.tmp.fetch_refs" -> "tmp.fetch_refs"
      [] p = "pin.tmp.fetched"    -> "tmp.fetched"
      [] p = "pin.tmp.done"       -> "tmp.done"
      [] OTHER                    -> p

Checkout == IF ~coDir THEN "Absent" ELSE IF coFiles = NFiles THEN "Complete" ELSE "Partial"
Present  == IF coDir THEN 1..coFiles ELSE {}

\* the "already fetched" test of <Pinned as Fetch>::fetch
AlreadyFetched == IF Protocol = "inplace" THEN coDir ELSE coDir /\ coIndex

\* search_source_locally(): only checkouts with a readable .forc_index are candidates
FoundLocally == coDir /\ coIndex

TypeOK ==
    /\ localFirst \in BOOLEAN /\ build \in 1..(MaxBuilds + 1)
    /\ pc \in FaultPcs \cup OtherPcs
    /\ tmp \in {"absent", "inited", "fetched"} /\ litter \subseteq {"inited", "fetched"}
    /\ coDir \in BOOLEAN /\ coFiles \in 0..NFiles /\ coIndex \in BOOLEAN
    /\ (~coDir => coFiles = 0 /\ ~coIndex)
    /\ lock \in {"free", "held"} /\ faults \in 0..MaxFaults
    /\ faulted \in BOOLEAN /\ refetched \in BOOLEAN
    /\ outcome \in {"none", "compiled", "error", "crashed"}
    /\ compiledWith \in 0..(NFiles + 1)
    /\ prevCleanErr \in BOOLEAN /\ cleanErrs \in 0..MaxBuilds

Init ==
    /\ localFirst \in BOOLEAN
    /\ build = 1 /\ pc = "start"
    /\ tmp = "absent" /\ litter = {}
    /\ coDir = FALSE /\ coFiles = 0 /\ coIndex = FALSE
    /\ lock = "free" /\ faults = 0 /\ faulted = FALSE /\ refetched = FALSE
    /\ outcome = "none" /\ compiledWith = NFiles + 1
    /\ prevCleanErr = FALSE /\ cleanErrs = 0

Running == pc \notin {"ended", "halt"}

\* frame: everything except pc and the variables listed by the action
Keep(v) == UNCHANGED v
Book == <<localFirst, build, faults, faulted, outcome, compiledWith, prevCleanErr, cleanErrs>>

(***************************************************************************)
(* <Source as Pin>::pin                                                    *)
(***************************************************************************)
\* tag / rev with a local indexed checkout: no clone for pinning; straight to Fetch::fetch, which
\* takes the write lock (blocks while somebody holds it)
StartLocal ==
    /\ pc = "start" /\ localFirst /\ FoundLocally
    /\ lock = "free" /\ lock' = "held"
    /\ pc' = "Fetch.locked"
    /\ UNCHANGED <<tmp, litter, coDir, coFiles, coIndex, refetched>> /\ UNCHANGED Book

StartPin ==
    /\ pc = "start" /\ ~(localFirst /\ FoundLocally)
    /\ pc' = "pin.tmp.rm_stale"
    /\ UNCHANGED fsvars /\ UNCHANGED refetched /\ UNCHANGED Book

\* with_tmp_git_repo (both phases): remove a stale clone of the same fetch_id (there is none: the
\* id is fresh), git init, fetch the refspecs, run the closure, drop the scope guard (rm clone)
RmStale(p, q) == pc = p /\ pc' = q /\ tmp' = "absent" /\ UNCHANGED <<litter, coDir, coFiles, coIndex, lock, refetched>> /\ UNCHANGED Book
GitInit(p, q) == pc = p /\ pc' = q /\ tmp' = "inited" /\ UNCHANGED <<litter, coDir, coFiles, coIndex, lock, refetched>> /\ UNCHANGED Book
FetchRefs(p, q) == pc = p /\ pc' = q /\ tmp' = "fetched" /\ UNCHANGED <<litter, coDir, coFiles, coIndex, lock, refetched>> /\ UNCHANGED Book
Skip(p, q) == pc = p /\ pc' = q /\ UNCHANGED fsvars /\ UNCHANGED refetched /\ UNCHANGED Book

PinRmStale   == RmStale("pin.tmp.rm_stale", "pin.tmp.init")
PinInit      == GitInit("pin.tmp.init", "pin.tmp.fetch_refs")
PinFetchRefs == FetchRefs("pin.tmp.fetch_refs", "pin.tmp.fetched")
PinResolve   == Skip("pin.tmp.fetched", "pin.tmp.done")          \* Reference::resolve: reads only
\* return from with_tmp_git_repo (guard removes the clone), then Fetch::fetch: path_lock + lock.write()
PinDone ==
    /\ pc = "pin.tmp.done"
    /\ tmp' = "absent"
    /\ lock = "free" /\ lock' = "held"
    /\ pc' = "Fetch.locked"
    /\ UNCHANGED <<litter, coDir, coFiles, coIndex, refetched>> /\ UNCHANGED Book

(***************************************************************************)
(* <Pinned as Fetch>::fetch                                                *)
(***************************************************************************)
\* the existence test, "already fetched" branch: drop the write guard, go and find the manifest
ExistsSkip ==
    /\ pc = "Fetch.locked" /\ AlreadyFetched
    /\ lock' = "free" /\ pc' = "find"
    /\ UNCHANGED <<tmp, litter, coDir, coFiles, coIndex, refetched>> /\ UNCHANGED Book

ExistsFetch ==
    /\ pc = "Fetch.locked" /\ ~AlreadyFetched
    /\ refetched' = TRUE /\ pc' = "tmp.rm_stale"
    /\ UNCHANGED fsvars /\ UNCHANGED Book

(***************************************************************************)
(* fetch(): with_tmp_git_repo + the checkout closure                       *)
(***************************************************************************)
TmpRmStale   == RmStale("tmp.rm_stale", "tmp.init")
TmpInit      == GitInit("tmp.init", "tmp.fetch_refs")
TmpFetchRefs == FetchRefs("tmp.fetch_refs", "tmp.fetched")
TmpFetched   == Skip("tmp.fetched", "fetch.set_head")
\* set_head_detached (inside the clone), then `if path.exists() { remove_dir_all(path) }`
SetHead ==
    /\ pc = "fetch.set_head" /\ pc' = "fetch.mkdir"
    /\ coDir' = FALSE /\ coFiles' = 0 /\ coIndex' = FALSE
    /\ UNCHANGED <<tmp, litter, lock, refetched>> /\ UNCHANGED Book
\* create_dir_all(path): from here on the final path exists
Mkdir ==
    /\ pc = "fetch.mkdir" /\ pc' = "fetch.checkout"
    /\ coDir' = TRUE
    /\ UNCHANGED <<tmp, litter, coFiles, coIndex, lock, refetched>> /\ UNCHANGED Book
\* checkout_head: libgit2 reports progress once before the first file and once after each file
CheckoutBegin == Skip("fetch.checkout", "fetch.checkout.file")
CheckoutFile ==
    /\ pc = "fetch.checkout.file" /\ coFiles < NFiles
    /\ coFiles' = coFiles + 1 /\ pc' = pc
    /\ UNCHANGED <<tmp, litter, coDir, coIndex, lock, refetched>> /\ UNCHANGED Book
CheckoutEnd ==
    /\ pc = "fetch.checkout.file" /\ coFiles = NFiles
    /\ pc' = "fetch.checked_out"
    /\ UNCHANGED fsvars /\ UNCHANGED refetched /\ UNCHANGED Book
CheckedOut == Skip("fetch.checked_out", "fetch.write_index")     \* read HEAD's time
WriteIndex ==
    /\ pc = "fetch.write_index" /\ pc' = "fetch.index_written"
    /\ coIndex' = TRUE
    /\ UNCHANGED <<tmp, litter, coDir, coFiles, lock, refetched>> /\ UNCHANGED Book
IndexWritten == Skip("fetch.index_written", "tmp.done")
\* return from with_tmp_git_repo (guard removes the clone) and from the write-locked block
TmpDone ==
    /\ pc = "tmp.done" /\ pc' = "find"
    /\ tmp' = "absent" /\ lock' = "free"
    /\ UNCHANGED <<litter, coDir, coFiles, coIndex, refetched>> /\ UNCHANGED Book

(***************************************************************************)
(* After the fetch: find + load the dependency's manifest (under the read  *)
(* lock), finish the plan, compile.                                        *)
(***************************************************************************)
EndWith(o) ==
    /\ pc' = "ended" /\ outcome' = o
    /\ UNCHANGED <<localFirst, build, faults, faulted, prevCleanErr, cleanErrs>>

PlanOk == PlanNeeded \subseteq Present
FindOk ==
    /\ pc = "find" /\ PlanOk /\ pc' = "compile"
    /\ UNCHANGED fsvars /\ UNCHANGED refetched /\ UNCHANGED Book
FindErr ==
    /\ pc = "find" /\ ~PlanOk /\ EndWith("error")
    /\ UNCHANGED fsvars /\ UNCHANGED <<refetched, compiledWith>>

CompileOk == Needed \subseteq Present
Compile ==
    /\ pc = "compile"
    /\ compiledWith' = coFiles
    /\ EndWith(IF CompileOk THEN "compiled" ELSE "error")
    /\ UNCHANGED fsvars /\ UNCHANGED refetched

(***************************************************************************)
(* Faults.                                                                 *)
(***************************************************************************)
\* abort(): nothing is cleaned up; the kernel closes the lock file (flock released)
Crash ==
    /\ pc \in FaultPcs /\ faults < MaxFaults
    /\ faults' = faults + 1 /\ faulted' = TRUE
    /\ litter' = litter \cup ({tmp} \ {"absent"}) /\ tmp' = "absent"
    /\ lock' = "free"
    /\ pc' = "ended" /\ outcome' = "crashed"
    /\ UNCHANGED <<localFirst, build, coDir, coFiles, coIndex, refetched, compiledWith, prevCleanErr, cleanErrs>>

\* the operation fails: `?` propagates, the scope guard of with_tmp_git_repo removes the clone, the
\* lock guard is dropped, the plan (hence the build) fails.  An Err injected inside libgit2's
\* progress callback cannot be returned and is ignored by the hook, so that point only crashes.
IoError ==
    /\ pc \in FaultPcs \ {"fetch.checkout.file"} /\ faults < MaxFaults
    /\ faults' = faults + 1 /\ faulted' = TRUE
    /\ tmp' = "absent" /\ lock' = "free"
    /\ pc' = "ended" /\ outcome' = "error"
    /\ UNCHANGED <<localFirst, build, litter, coDir, coFiles, coIndex, refetched, compiledWith, prevCleanErr, cleanErrs>>

(***************************************************************************)
(* The next build: a fresh process.                                        *)
(***************************************************************************)
CleanErr == outcome = "error" /\ ~faulted
NextBuild ==
    /\ pc = "ended"
    /\ build' = build + 1
    /\ pc' = IF build < MaxBuilds THEN "start" ELSE "halt"
    /\ prevCleanErr' = CleanErr
    /\ cleanErrs' = IF CleanErr THEN cleanErrs + 1 ELSE 0
    /\ faulted' = FALSE /\ refetched' = FALSE /\ outcome' = "none"
    /\ UNCHANGED fsvars /\ UNCHANGED <<localFirst, faults, compiledWith>>

Step ==
    \/ StartLocal \/ StartPin
    \/ PinRmStale \/ PinInit \/ PinFetchRefs \/ PinResolve \/ PinDone
    \/ ExistsSkip \/ ExistsFetch
    \/ TmpRmStale \/ TmpInit \/ TmpFetchRefs \/ TmpFetched
    \/ SetHead \/ Mkdir \/ CheckoutBegin \/ CheckoutFile \/ CheckoutEnd
    \/ CheckedOut \/ WriteIndex \/ IndexWritten \/ TmpDone
    \/ FindOk \/ FindErr \/ Compile

Next == Step \/ Crash \/ IoError \/ NextBuild

Spec == Init /\ [][Next]_vars

(***************************************************************************)
(* Properties.                                                             *)
(***************************************************************************)
\* a build never starts compiling against a partially written checkout
NoPartialCompile == pc = "compile" => Checkout = "Complete"
\* (the same, remembered: what the last compilation saw)
CompiledComplete == compiledWith \in {NFiles, NFiles + 1}

\* "... or fetches it again": after a fault-free build that ended in an error, the next fault-free
\* build, once past the existence test, has entered fetch()
ErrorThenRefetch == (prevCleanErr /\ ~faulted /\ pc \in {"find", "compile"}) => refetched

\* never "fails forever": two consecutive fault-free builds do not both end in an error
NoFailForever == cleanErrs < 2
\* stronger, holds for the repaired protocol only: a fault-free build always compiles
CleanBuildCompiles == (pc = "ended" /\ ~faulted) => outcome = "compiled"

\* the advisory lock never outlives its holder (a dead process cannot block later builds)
LockFreeBetweenBuilds == pc \in {"start", "ended", "halt"} => lock = "free"
\* a live process holds the lock exactly while it is inside the write-locked block
LockDiscipline == (lock = "held") <=> (pc \in {"Fetch.locked"} \cup FetchPcs)

\* the completion marker is truthful: .forc_index implies every file is there
MarkerTruthful == coIndex => Checkout = "Complete"
=============================================================================
