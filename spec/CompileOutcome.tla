--------------------------- MODULE CompileOutcome ---------------------------
(***************************************************************************)
(* C17 The compiler never crashes on any package.                          *)
(*                                                                         *)
(* Compiling a package is an opaque step; the property delimits how it may *)
(* END.  A compilation has exactly two terminal outcomes:                  *)
(*     "artifacts"    the build succeeded (bytecode, ABI, ...)             *)
(*     "diagnostics"  the build was refused AND the compiler said why      *)
(*                    (error diagnostics / an error message)               *)
(* There is no action for a panic, an "internal compiler error" text in    *)
(* the diagnostics, a process that died (abort, stack overflow) or a       *)
(* compilation that did not terminate within the time limit: a recorded    *)
(* compilation that ended in one of those ways is not a behaviour of this  *)
(* specification.                                                          *)
(*                                                                         *)
(* The state machine follows one compiler process: it is idle, starts a    *)
(* package, and must finish it with one of the two outcomes before the     *)
(* next package is started.                                                *)
(***************************************************************************)
EXTENDS Naturals, TLC

Outcomes == {"artifacts", "diagnostics"}

VARIABLES phase,      \* "idle" | "compiling"
          current,    \* the package being compiled (or "" when idle)
          finished    \* [artifacts |-> n, diagnostics |-> m]: number of compilations finished per outcome

cvars == <<phase, current, finished>>

CInit == /\ phase = "idle" /\ current = ""
         /\ finished = [o \in Outcomes |-> 0]

Start(pkg) ==
    /\ phase = "idle"
    /\ phase' = "compiling" /\ current' = pkg
    /\ UNCHANGED finished

\* the compilation of `pkg` terminated with outcome o
Compiled(pkg, o) ==
    /\ phase = "compiling" /\ current = pkg
    /\ o \in Outcomes
    /\ phase' = "idle" /\ current' = ""
    /\ finished' = [finished EXCEPT ![o] = @ + 1]

\* ---- invariants
TypeOK == /\ phase \in {"idle", "compiling"}
          /\ DOMAIN finished = Outcomes
          /\ (phase = "idle") <=> (current = "")
=============================================================================
