---------------------------- MODULE MC_LockFile ----------------------------
(***************************************************************************)
(* TLC-only additions to LockFile: the finite pools of names, sources,     *)
(* dependency names and salts; the families of small graphs explored       *)
(* exhaustively; replay-record printing; a fixed-seed family of larger     *)
(* graphs; and the generator of ill-formed source strings / dependency     *)
(* lines / lock entries for C21.                                           *)
(***************************************************************************)
EXTENDS LockFile, Json, Randomization

CONSTANTS Family,      \* "core" | "adv" | "big"
          NMax,        \* core: maximal number of nodes
          E2,          \* core: maximal number of edges of a graph with <= 2 nodes
          E3,          \* core: maximal number of edges of a graph with 3 nodes
          Wide,        \* core: TRUE = all well-formed sources, FALSE = a small core
          BigN, BigReps \* big: node counts 4..BigN, BigReps graphs per count

H1 == "0123456789abcdef0123456789abcdef01234567"
H2 == "64092602DD6158F3E41D775ED889389440A2CD86"
Q1 == "QmYwAPJzv5CZsnA625s3Xf2nemtYgPpHdWEz79ojWnPbdG"
Q2 == "QmdMVqLqpba2mMB5AUjYCxubC6tLGevQFunpBkbC2UbrKS"
B1 == "bafybeigdyrzt5sfp7udm7hu76uh7y26nf3efuylqabf3oclgtqy55fbzdi"
S1 == "0000000000000000000000000000000000000000000000000000000000000001"
S2 == "f00dfacef00dfacef00dfacef00dfacef00dfacef00dfacef00dfacef00dface"
U1 == "https://github.com/FuelLabs/sway"

\* ---- well-formed sources ---------------------------------------------------
SmallSrcs == { MemberSrc, PathSrc("0123456789ABCDEF"), GitSrc(U1, "branch", "master", H1),
               RegSrc("std", "0.1.0", Q1, "flat", "") }
WideSrcs == SmallSrcs \cup
    { PathSrc("00000000000000A1"),
      GitSrc(U1, "tag", "v0.1.0", H1), GitSrc(U1, "rev", H1, H1), GitSrc(U1, "rev", "abc123", H1),
      GitSrc(U1, "default", "", H1), GitSrc(U1, "branch", "master", H2),
      GitSrc("git@github.com:FuelLabs/sway.git", "branch", "release/v1", H1),
      IpfsSrc(Q1), IpfsSrc(B1),
      RegSrc("std", "1.0.0-alpha.1+build.5", Q2, "domain", "com/fuel") }
\* ---- adversarial sources: legal values of the Rust types that strain the string forms
\* (ASCII only: TLC's state queue does not preserve non-ASCII characters in state variables)
AdvSrcs ==
    { GitSrc(U1, "branch", "fix#12", H1), GitSrc(U1, "branch", "f(x)", H1), GitSrc(U1, "branch", "", H1),
      GitSrc(U1, "branch", "a=b", H1), GitSrc(U1, "branch", "what?", H1), GitSrc(U1, "branch", "tag=x", H1),
      GitSrc(U1, "tag", "x y", H1), GitSrc(U1, "tag", "v1.0\\n", H1), GitSrc(U1, "tag", "rev", H1),
      GitSrc(U1, "rev", "a#b", H1), GitSrc(U1, "rev", "", H1), GitSrc(U1, "rev", "HEAD~3", H1),
      GitSrc(U1, "rev", H2, H1),
      GitSrc("https://x.y/z?a=b", "branch", "master", H1), GitSrc("https://x.y/z#frag", "branch", "master", H1),
      GitSrc("/home/u/my repo", "branch", "master", H1), GitSrc("file:///home/u/repo", "default", "", H1),
      GitSrc("https://user:pw@host.xz:8080/p.git", "tag", "v1", H1),
      GitSrc(U1, "branch", "master", "abc"), GitSrc(U1, "branch", "master", ""),
      RegSrc("std", "0.1.0", Q1, "domain", ""), RegSrc("std", "0.1.0", Q1, "domain", "a!b"),
      RegSrc("std", "0.1.0", Q1, "domain", "a#b"), RegSrc("std", "0.1.0", Q1, "domain", "x "),
      RegSrc("std", "0.1.0", Q1, "domain", "n(s)"), RegSrc("std", "0.1.0", Q1, "domain", "a?b"),
      RegSrc("std", "0.1.0", B1, "flat", ""), RegSrc("a?b", "0.1.0", Q1, "flat", ""),
      RegSrc("other-name", "0.1.0", Q1, "flat", "") }

CoreNames == { "aa", "b-b" }
AdvNames  == { "a b", "a(b", "(ab", "ab ", " ab", "a)b", "a", "", "aa member" }
\* names a dependency can be given in the manifest (TOML keys: any string)
AdvDeps   == { "dd", "d)", "d(", "d d", "", " d ", "(d)", "q\"\\", ")" }
KindSalts == { <<"library", "">>, <<"contract", ZeroSalt>>, <<"contract", S1>> }

\* ---- subsets of bounded size ------------------------------------------------
UpTo1(X) == {{}} \cup { {x} : x \in X }
UpTo2(X) == UpTo1(X) \cup { {x, y} : x, y \in X }
UpTo3(X) == UpTo2(X) \cup { {x, y, z} : x, y, z \in X }
UpTo(X, k) == CASE k = 0 -> {{}} [] k = 1 -> UpTo1(X) [] k = 2 -> UpTo2(X) [] OTHER -> UpTo3(X)

EdgeCands(N, deps) ==
    { [from |-> a, to |-> b, dep |-> d, kind |-> ks[1], salt |-> ks[2]] :
        a \in N, b \in N, d \in deps, ks \in KindSalts }
\* the dependency keeps the package's name, or is renamed
Renamed(E) == { [e EXCEPT !.dep = IF e.dep = "=" THEN e.to.name ELSE e.dep] : e \in E }

\* ---- family "core": every graph over a small pool ------------------------------
CoreCands == CoreNames \X (IF Wide THEN WideSrcs ELSE SmallSrcs)
CoreNodeSets == { { [name |-> c[1], src |-> c[2]] : c \in S } : S \in UpTo(CoreCands, NMax) }
CoreEdgeSets(N) ==
    LET C == Renamed({ e \in EdgeCands(N, {"=", "dd"}) : e.from # e.to }) IN
    UpTo(C, IF Cardinality(N) <= 2 THEN E2 ELSE E3)

\* ---- family "adv": an anchor package depending on one adversarial package ------
AdvCands == ((CoreNames \cup AdvNames) \X (WideSrcs \cup AdvSrcs))
AdvNodeSets ==
    { { [name |-> an, src |-> as], [name |-> c[1], src |-> c[2]] } :
        c \in AdvCands, an \in {"aa"}, as \in {MemberSrc} }
    \cup { { [name |-> c[1], src |-> PathSrc("0123456789ABCDEF")], [name |-> c[1], src |-> c[2]] } :
        c \in AdvCands }                                          \* same name twice: disambiguation
AdvEdgeSets(N) ==
    UpTo1(Renamed({ e \in EdgeCands(N, {"="} \cup AdvDeps) :
                      e.from # e.to /\ e.from.src.kind \in {"member", "path"} }))

\* ---- family "big": fixed-seed larger graphs (deterministic under -seed) ---------
BigCands == { [name |-> c[1], src |-> c[2]] : c \in (CoreNames \cup {"std", "core_lib", "x_1"}) \X WideSrcs }
BigGraphs ==
    UNION { { LET N == RandomSubset(n, BigCands)
                  C == Renamed({ e \in EdgeCands(N, {"=", "dd"}) : e.from # e.to })
                  \* at most one edge per ordered pair, as fetch_deps builds it
                  P == RandomSubset(2 * n, { <<a, b>> \in N \X N : a # b })
              IN [nodes |-> N,
                  edges |-> { CHOOSE e \in RandomSubset(1, { x \in C : x.from = p[1] /\ x.to = p[2] }) : TRUE
                              : p \in P }]
            : r \in 1..BigReps } : n \in 4..BigN }

\* ---- memo tables over the pools (see LockFile "Memoization points") ----------------
AllSrcs == WideSrcs \cup AdvSrcs
SStrT   == [s \in AllSrcs |-> SrcStr(s)]
PSrcT   == [x \in { SStrT[s] : s \in AllSrcs } |-> ParseSource(x)]
SProvT  == [p \in AllSrcs \X BOOLEAN |-> SrcProvisos(p[1], p[2])]
\* the dependency lines the "core" and "big" families can write
CoreLines == { DepLine(d, n, SStrT[s], ks[1], ks[2], dis) :
                 n \in CoreNames \cup {"std", "core_lib", "x_1"}, d \in CoreNames \cup {"std", "core_lib", "x_1", "dd"},
                 s \in WideSrcs, ks \in KindSalts, dis \in BOOLEAN }
PDepT   == [x \in (IF Family = "adv" THEN {} ELSE CoreLines) |-> ParseDepLine(x)]
MC_SStr(src)  == IF src \in DOMAIN SStrT THEN SStrT[src] ELSE SrcStr(src)
MC_PSrc(x)    == IF x \in DOMAIN PSrcT THEN PSrcT[x] ELSE ParseSource(x)
MC_PDep(x)    == IF x \in DOMAIN PDepT THEN PDepT[x] ELSE ParseDepLine(x)
MC_SProv(src, dis) == IF src \in AllSrcs THEN SProvT[<<src, dis>>] ELSE SrcProvisos(src, dis)

MCInit ==
    /\ phase = "graph" /\ lock = {} /\ out = RError
    /\ CASE Family = "core" -> \E N \in CoreNodeSets : \E E \in CoreEdgeSets(N) : g = [nodes |-> N, edges |-> E]
         [] Family = "adv"  -> \E N \in AdvNodeSets : \E E \in AdvEdgeSets(N) : g = [nodes |-> N, edges |-> E]
         [] Family = "big"  -> g \in BigGraphs

\* ---- replay records ---------------------------------------------------------------
RECURSIVE SetAsSeq(_)
SetAsSeq(S) == IF S = {} THEN <<>> ELSE LET x == CHOOSE y \in S : TRUE IN <<x>> \o SetAsSeq(S \ {x})
NodeSeq(gr) == SetAsSeq(gr.nodes)
IdxOf(sq, n) == CHOOSE i \in DOMAIN sq : sq[i] = n
GraphJson(gr) ==
    LET ns == NodeSeq(gr) IN
    [nodes |-> ns,
     edges |-> { [from |-> IdxOf(ns, e.from), to |-> IdxOf(ns, e.to), dep |-> e.dep,
                  kind |-> e.kind, salt |-> e.salt] : e \in gr.edges }]
PrintReplay == (phase = "graph") => PrintT(<<"REPLAY", ToJson(GraphJson(g))>>)
\* generation only: no transitions
NoNext == FALSE /\ UNCHANGED vars

\* one witness per proviso: a graph that breaks exactly that proviso and does not round-trip
PrintWitness ==
    (phase = "read" /\ out # RGraph(g) /\ Cardinality(Provisos(g)) = 1 /\ Cardinality(g.nodes) <= 2) =>
        PrintT(<<"WITNESS", ToJson(Provisos(g))>>)

(***************************************************************************)
(* C21: ill-formed inputs.  Every field of a source string / dependency    *)
(* line is drawn from a set of variants {well-formed, empty, separator     *)
(* missing, separator doubled, wrong prefix, non-ASCII, very long,         *)
(* separator only, ...}; TLC enumerates the product.                       *)
(***************************************************************************)
Long == "xxxxxxxxxxxxxxxxxxxxxxxxxxxxxxxxxxxxxxxxxxxxxxxxxxxxxxxxxxxxxxxxxxxxxxxxxxxxxxxxxxxxxxxxxxxxxxxxxxxxxxxxxxxxxxxxxxxxxxxxxxxxxxxx"
Long4 == Long \o Long \o Long \o Long
Junk == { "", " ", "é", "€𝄞", "x", Long4, "abc", "éééé", "ééééé" }

SrcPrefixes == { "", "member", "path+", "path", "git+", "ipfs+", "registry+", "registry", "registry++",
              "é+", " git+", "xxxxxxxxx" }
Seps1 == { "?", "", "??", "#" }                 \* in place of '?'
Seps2 == { "#", "", "##", "!" }                 \* in place of '#'
Heads == { U1, "std", "", "é", "from-root-0123456789ABCDEF", "from-root-", Q1, Long }
Mids  == { "branch=master", "tag=", "rev", "default-branch", "", "0.1.0", "é", "rev=a#b" }
Tails == { H1, "", "abc", "é", Q1, Q1 \o "!ns", B1, Long }

\* prefix head sep1 mid sep2 tail
SourceStrings ==
    { p \o h \o s1 \o m \o s2 \o t : p \in SrcPrefixes, h \in Heads, s1 \in Seps1, m \in Mids, s2 \in Seps2, t \in Tails }
    \cup Junk \cup { " member", "member ", "root", "root ", "Member", "member+", "path+from-root-", "ipfs+ " \o Q1,
                     " ipfs+" \o Q1 \o " ", "path+from-root-FFFFFFFFFFFFFFFFF", "path+from-root-+1",
                     "path+from-root--1", "path+from-root-zz", "path+from-root-1from-root-2",
                     "registry+std?0.1.0#" \o Q1 \o "!!", "registry+std?0.1.0#Qm!", "registry+std?1.0#" \o Q1,
                     "git+" \o U1 \o "?branch=a#" \o H1 \o "#" \o H1, "git+" \o U1 \o "?default#" \o H1 }

\* a dependency line  (dep) key (salt)  with each bracket and field varied
Opens  == { "", "(", "((", " (" }
DepNs  == { "", "dd", "é", ")" }
Closes == { "", ")", ") ", "))" }
Keys   == { "b-b", "", "b-b path+from-root-0123456789ABCDEF", "é", "zz" }
SaltOs == { "", " (", "(", " ((" }
SaltVs == { "", S1, "0x" \o S1, "1", "é", ZeroSalt \o "0" }
SaltCs == { "", ")", "))", "é" }
DepLines ==
    { o \o d \o c \o k \o so \o sv \o sc :
        o \in Opens, d \in DepNs, c \in Closes, k \in Keys, so \in SaltOs, sv \in SaltVs, sc \in SaltCs }

\* C21 generation is a plain enumeration, one state per string (carried in `g`)
C21SourceInit == phase = "c21" /\ g \in SourceStrings /\ lock = {} /\ out = RError
C21DepInit    == phase = "c21" /\ g \in DepLines /\ lock = {} /\ out = RError
PrintItem     == PrintT(<<"ITEM", ToJson([s |-> g])>>)
=============================================================================
