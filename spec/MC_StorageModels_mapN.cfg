\* all histories over the nested map mapN (u64 -> (u64 -> u64)), 2 x 2 keys x 2 values
CONSTANT UnitWord = 0
CONSTANT Active = {"mapN"}
CONSTANT Vals = {1, 2}
CONSTANT Keys = {1, 2}
CONSTANT MaxLen = 3
CONSTANT SliceLens = {0, 1}
CONSTANT VecArgs = {0, 1, 21}
SPECIFICATION Spec
INVARIANT Refines
INVARIANT RetAgree
PROPERTY FrameProp
CHECK_DEADLOCK FALSE
