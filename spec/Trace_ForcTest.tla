--------------------------- MODULE Trace_ForcTest ---------------------------
(***************************************************************************)
(* Trace validation for C29.  One record = one run of forc_test on one     *)
(* generated package:                                                      *)
(*   [id, ptype, runners, filter, suite, results]                          *)
(*   suite   : the package's tests in declaration order, each              *)
(*             [name, beh, key, val, code, exp, expcode] (ForcTest)        *)
(*   results : the reported TestResults, in the order reported, each       *)
(*             [test, out, codeb, logs, passed, cond, condcode]            *)
(*             out "return" | "revert"; codeb the revert code (8 BE bytes);*)
(*             logs the data of the Log/LogData receipts; passed =         *)
(*             TestResult::passed(); cond / condcode the pass condition    *)
(*             forc-pkg extracted from the attribute.                      *)
(* Every reported result is replayed as Start(i) ; Finish(i) of the        *)
(* specification (own copy of the deployment state) and must equal the     *)
(* model's result: state and code, logs (own logs only; a read sees the    *)
(* initial value), reported `passed`, declared expectation.  At the end of *)
(* the run exactly the tests selected by the filter have been reported.    *)
(***************************************************************************)
EXTENDS ForcTest, Json, IOUtils

Rec == ndJsonDeserialize(IOEnv.TRACE)

VARIABLES l, k, cur        \* record, next result of the record, test index in flight (0 = none)
tvars == <<suite, filter, world, inflight, results, l, k, cur>>

BE8(n) == <<0, 0, 0, 0, 0, 0, (n \div 256) % 256, n % 256>>
CodeBytes(c) ==
    CASE c = "zero"    -> <<0, 0, 0, 0, 0, 0, 0, 0>>
      [] c = "c42"     -> <<0, 0, 0, 0, 0, 0, 0, 42>>
      [] c = "big"     -> <<255, 255, 255, 255, 255, 255, 255, 255>>
      [] c = "assert"  -> <<255, 255, 255, 255, 255, 255, 0, 4>>     \* FAILED_ASSERT_SIGNAL
      [] c = "require" -> <<255, 255, 255, 255, 255, 255, 0, 0>>     \* FAILED_REQUIRE_SIGNAL

SuiteOf(i) == IF i <= Len(Rec) THEN Rec[i].suite ELSE <<>>
FilterOf(i) == IF i <= Len(Rec) THEN Rec[i].filter ELSE ""

IndexOf(s, name) == IF \E i \in DOMAIN s : s[i].name = name THEN CHOOSE i \in DOMAIN s : s[i].name = name ELSE 0

TraceInit ==
    /\ l = 1 /\ k = 1 /\ cur = 0
    /\ Init0(SuiteOf(1), FilterOf(1))
    /\ TLCSet(1, 1) /\ TLCSet(3, 0)

NextRun ==
    /\ l' = l + 1 /\ k' = 1 /\ cur' = 0
    /\ suite' = SuiteOf(l + 1) /\ filter' = FilterOf(l + 1)
    /\ world' = Deploy /\ inflight' = NoFn /\ results' = NoFn
    /\ TLCSet(1, l + 1)

\* the k-th reported result names a test: it is started on its own copy of the deployment state
TrStart ==
    /\ l <= Len(Rec) /\ cur = 0 /\ k <= Len(Rec[l].results)
    /\ LET i == IndexOf(suite, Rec[l].results[k].test) IN
          /\ i # 0
          /\ Start(i)
          /\ cur' = i
    /\ UNCHANGED <<l, k>>

EventAgrees(ev, t, r) ==
    /\ ev.out = r.res.out
    /\ (r.res.out = "revert") => ev.codeb = CodeBytes(r.res.code)
    /\ ev.logs = [x \in DOMAIN r.res.logs |-> BE8(r.res.logs[x])]
    /\ ev.passed = r.passed
    /\ ev.cond = t.exp
    /\ (t.exp = "should_revert_code") => ev.condcode = CodeBytes(t.expcode)

\* the specification's own result of the test in flight
ModelResult(i) == [res |-> RunAlone(suite[i]), passed |-> Passed(suite[i], RunAlone(suite[i]))]

\* ... and finished: what was reported must be the model's result
TrFinish ==
    /\ l <= Len(Rec) /\ cur # 0
    /\ Finish(cur)
    \* the specification's result for this test is the test alone on the deployment state, reported exactly
    /\ results'[cur] = ModelResult(cur)
    /\ (suite[cur].beh = "read") => results'[cur].res.logs = <<Deploy[suite[cur].key]>>
    /\ EventAgrees(Rec[l].results[k], suite[cur], results'[cur])
    /\ cur' = 0 /\ k' = k + 1 /\ l' = l

\* end of the run: exactly the selected tests were reported
TrEndRun ==
    /\ l <= Len(Rec) /\ cur = 0 /\ k > Len(Rec[l].results)
    /\ AllDone
    /\ NextRun

Expected(i, j) ==
    LET r == Rec[i] IN
    IF j > Len(r.results)
    THEN ToJson([at |-> "end of run", selected |-> { r.suite[x].name : x \in { y \in DOMAIN r.suite : Selected(r.suite[y], r.filter) } }])
    ELSE LET x == IndexOf(r.suite, r.results[j].test) IN
         IF x = 0 THEN ToJson([at |-> j, unknown_test |-> r.results[j].test])
         ELSE LET t == r.suite[x] res == RunAlone(t) IN
              ToJson([at |-> j, test |-> t, selected |-> Selected(t, r.filter), out |-> res.out,
                      codeb |-> IF res.out = "revert" THEN CodeBytes(res.code) ELSE <<>>,
                      logs |-> [y \in DOMAIN res.logs |-> BE8(res.logs[y])], passed |-> Passed(t, res)])

\* A reported result that is not the specification's is printed (REJECTED: run, result, id, expectation) and
\* skipped, so that one TLC run decides every result of the trace.
Reject(i, j) ==
    /\ PrintT(<<"REJECTED", i, j, Rec[i].id, Expected(i, j)>>)
    /\ TLCSet(3, TLCGet(3) + 1)

\* the result names no test of the suite, an unselected test, or a test already reported
TrRejectStart ==
    /\ l <= Len(Rec) /\ cur = 0 /\ k <= Len(Rec[l].results)
    /\ LET i == IndexOf(suite, Rec[l].results[k].test) IN
          i = 0 \/ ~Selected(suite[i], filter) \/ i \in DOMAIN results
    /\ Reject(l, k)
    /\ k' = k + 1
    /\ UNCHANGED <<suite, filter, world, inflight, results, l, cur>>
\* the result differs from the specification's
TrRejectFinish ==
    /\ l <= Len(Rec) /\ cur # 0
    /\ ~EventAgrees(Rec[l].results[k], suite[cur], ModelResult(cur))
    /\ Finish(cur)
    /\ Reject(l, k)
    /\ cur' = 0 /\ k' = k + 1 /\ l' = l
\* a selected test was not reported
TrRejectEnd ==
    /\ l <= Len(Rec) /\ cur = 0 /\ k > Len(Rec[l].results)
    /\ ~AllDone
    /\ Reject(l, k)
    /\ NextRun

TraceNext == TrStart \/ TrFinish \/ TrEndRun \/ TrRejectStart \/ TrRejectFinish \/ TrRejectEnd
TraceSpec == TraceInit /\ [][TraceNext]_tvars

Accepted ==
    IF TLCGet(1) = Len(Rec) + 1 /\ TLCGet(3) = 0 THEN TRUE
    ELSE Print(<<"NOT-ACCEPTED", "consumed", TLCGet(1) - 1, "of", Len(Rec), "rejected", TLCGet(3)>>, FALSE)
=============================================================================
