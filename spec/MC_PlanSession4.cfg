\* exhaustive: 4 packages, 3 base manifests, every session with <= 2 environment actions
\* (manifest edits, lock deletion, lock corruption) interleaved with any number of planning steps
CONSTANTS N = 4  MaxEnv = 2
SPECIFICATION Spec
INVARIANT TypeOK
INVARIANT PlannedGraphIsReachableClosure
INVARIANT PlannedEdgesAreManifestEntries
INVARIANT StaleLockNeverLeaks
INVARIANT LockInSync
INVARIANT OrderRespectsDeps
INVARIANT NoLockEdgeSurvives
INVARIANT MapNeverFails
PROPERTY LockFixpoint
PROPERTY LockedFailsIffChanged
PROPERTY LockedNeverWrites
PROPERTY CycleFailsAndKeepsLock
PROPERTY SummaryAgrees
CHECK_DEADLOCK FALSE
