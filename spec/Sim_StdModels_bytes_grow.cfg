\* generated once by the C27 builder; see MC_StdModels.tla
CONSTANTS
  MKind = "bytes"
  MEty = "u8"
  Prefixes <- PrefNew
  OpNames = {"push", "pop", "insert", "remove", "set", "swap", "get", "iter", "append", "split_at"}
  MaxOps = 40
  NumSel <- NumSel_none
SPECIFICATION SimSpec
INVARIANT PrintLeaf
CHECK_DEADLOCK FALSE
