\* all histories over mapA (u64 -> u64), mapB ((u64, u64) -> 24-byte struct) and the nested map mapN, 2 keys x 2 values
CONSTANT UnitWord = 0
CONSTANT Active = {"mapA", "mapB", "mapN"}
CONSTANT Vals = {1, 2}
CONSTANT Keys = {1, 2}
CONSTANT MaxLen = 3
CONSTANT SliceLens = {0, 1}
CONSTANT VecArgs = {0, 1, 21}
SPECIFICATION Spec
INVARIANT Refines
INVARIANT RetAgree
PROPERTY FrameProp
CHECK_DEADLOCK FALSE
