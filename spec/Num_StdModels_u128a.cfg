\* numeric case pool of type u128a (C27); see MC_StdModels.tla
CONSTANTS
  MKind = "vec"
  MEty = "u64"
  Prefixes <- PrefNew
  OpNames = {}
  MaxOps = 0
  NumSel <- NumSel_u128a
SPECIFICATION NumSpec
INVARIANT NumLaws
INVARIANT PrintNum
CHECK_DEADLOCK FALSE
