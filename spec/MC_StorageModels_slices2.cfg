\* StorageBytes and StorageString at once, lengths 0, 33
CONSTANT UnitWord = 0
CONSTANT Active = {"bytesA", "strA"}
CONSTANT Vals = {1, 2}
CONSTANT Keys = {1, 2}
CONSTANT MaxLen = 3
CONSTANT SliceLens = {0, 33}
CONSTANT VecArgs = {0, 1, 21}
SPECIFICATION Spec
INVARIANT Refines
INVARIANT RetAgree
PROPERTY FrameProp
CHECK_DEADLOCK FALSE
