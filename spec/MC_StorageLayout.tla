------------------------- MODULE MC_StorageLayout -------------------------
(***************************************************************************)
(* TLC-only additions to StorageLayout:                                    *)
(*  - the enumerator of declarations (a declaration is built one field at  *)
(*    a time, name positions in increasing order, so every declaration is  *)
(*    reached exactly once) on which the properties are invariants;        *)
(*  - the deterministic conformance pool (replay records for checks/C12).  *)
(***************************************************************************)
EXTENDS StorageLayout, Json

CONSTANTS MaxFields,      \* fields per declaration
          PoolSel         \* "full" | "small": which (type, value) pool the enumerator draws from

U(t, n) == IntV(t, FromNat(n, WidthOf(t)))
IntBE(t, be) == IntV(t, FromBE(be))
Seq32(start) == [i \in 1..32 |-> (start + i) % 256]
Ascii(n, start) == [i \in 1..n |-> 97 + ((start + i) % 26)]

TP == TStruct(<<T("u8"), T("u64"), T("bool")>>)                   \* 24 bytes
TQ == TStruct(<<T("u64"), T("b256"), T("u64")>>)                  \* 48 bytes, the b256 straddles two slots
TN == TStruct(<<TP, T("u64"), TQ>>)                               \* 80 bytes, nested
TR == TStruct(<<T("u64"), T("u64"), T("u64"), T("u64")>>)         \* exactly one slot
T5 == TStruct(<<T("u64"), T("u32"), T("u16"), T("u8"), T("u64")>>)  \* 40 bytes
TS == TStruct(<<TStr(5), T("u8"), TStr(9)>>)                      \* 8 + 8 + 16
TB == TStruct(<<T("bool"), T("u8"), T("bool")>>)
TE == TEnum(<<T("unit"), T("u64"), TP>>)                          \* union of 24 bytes
TF == TEnum(<<T("unit"), T("u64")>>)
TG == TEnum(<<T("unit"), T("unit")>>)                             \* tag only
TH == TEnum(<<T("u8"), T("b256"), T("bool")>>)                    \* byte payloads are left padded
TW == TStruct(<<TE, T("u64")>>)                                   \* enum followed by a field
TFF == TStruct(<<TF, T("u64"), TF, T("u8")>>)
TO == TEnum(<<TE, T("u64")>>)                                     \* enum in enum
TOT == TStruct(<<TO, T("u64")>>)
TK == TEnum(<<TW, T("unit"), TStr(3)>>)
TKT == TStruct(<<T("u8"), TK, T("u256")>>)

VP(a, b, c) == AggV(<<U("u8", a), U("u64", b), BoolV(c)>>)
VQ(a, s, c) == AggV(<<U("u64", a), IntBE("b256", Seq32(s)), U("u64", c)>>)
BigU64 == IntBE("u64", <<17, 34, 51, 68, 85, 102, 119, 136>>)
MaxU64 == IntBE("u64", <<255, 255, 255, 255, 255, 255, 255, 255>>)

TV(ty, v) == [ty |-> ty, v |-> v]

FullPool == <<
    TV(T("bool"), BoolV(TRUE)), TV(T("bool"), BoolV(FALSE)),
    TV(T("u8"), U("u8", 171)), TV(T("u16"), U("u16", 4660)), TV(T("u32"), IntBE("u32", <<18, 52, 86, 120>>)),
    TV(T("u64"), BigU64), TV(T("u64"), U("u64", 0)), TV(T("u64"), MaxU64),
    TV(T("u256"), IntBE("u256", Seq32(0))), TV(T("b256"), IntBE("b256", Seq32(200))),
    TV(TStr(1), StrV(Ascii(1, 0))), TV(TStr(5), StrV(Ascii(5, 3))), TV(TStr(8), StrV(Ascii(8, 1))),
    TV(TStr(10), StrV(Ascii(10, 7))), TV(TStr(33), StrV(Ascii(33, 11))),
    TV(TP, VP(9, 10, TRUE)), TV(TQ, VQ(1, 48, 3)), TV(TStruct(<<T("u8"), T("u64")>>), AggV(<<U("u8", 3), U("u64", 4)>>)),
    TV(TN, AggV(<<VP(1, 2, FALSE), U("u64", 77), VQ(5, 96, 6)>>)),
    TV(TR, AggV(<<U("u64", 1), U("u64", 2), U("u64", 3), BigU64>>)),
    TV(T5, AggV(<<BigU64, U("u32", 70000), U("u16", 513), U("u8", 255), U("u64", 5)>>)),
    TV(TS, AggV(<<StrV(Ascii(5, 0)), U("u8", 200), StrV(Ascii(9, 5))>>)),
    TV(TB, AggV(<<BoolV(TRUE), U("u8", 2), BoolV(TRUE)>>)),
    TV(TE, EnumV(0, Unit)), TV(TE, EnumV(1, U("u64", 5))), TV(TE, EnumV(2, VP(1, 2, TRUE))),
    TV(TF, EnumV(0, Unit)), TV(TF, EnumV(1, BigU64)), TV(TG, EnumV(1, Unit)),
    TV(TH, EnumV(0, U("u8", 7))), TV(TH, EnumV(1, IntBE("b256", Seq32(100)))), TV(TH, EnumV(2, BoolV(TRUE))),
    TV(TW, AggV(<<EnumV(0, Unit), U("u64", 99)>>)), TV(TW, AggV(<<EnumV(1, U("u64", 7)), U("u64", 98)>>)),
    TV(TW, AggV(<<EnumV(2, VP(4, 5, TRUE)), U("u64", 97)>>)),
    TV(TFF, AggV(<<EnumV(0, Unit), U("u64", 102), EnumV(1, U("u64", 3)), U("u8", 9)>>)),
    TV(TFF, AggV(<<EnumV(1, U("u64", 8)), U("u64", 103), EnumV(0, Unit), U("u8", 10)>>)),
    TV(TOT, AggV(<<EnumV(0, EnumV(0, Unit)), U("u64", 104)>>)), TV(TOT, AggV(<<EnumV(1, U("u64", 6)), U("u64", 105)>>)),
    TV(TOT, AggV(<<EnumV(0, EnumV(2, VP(6, 7, FALSE))), U("u64", 106)>>)),
    TV(TKT, AggV(<<U("u8", 1), EnumV(0, AggV(<<EnumV(0, Unit), U("u64", 11)>>)), IntBE("u256", Seq32(7))>>)),
    TV(TKT, AggV(<<U("u8", 2), EnumV(1, Unit), IntBE("u256", Seq32(8))>>)),
    TV(TKT, AggV(<<U("u8", 3), EnumV(2, StrV(Ascii(3, 2))), IntBE("u256", Seq32(9))>>))
>>

SmallPool == <<
    TV(T("u8"), U("u8", 171)), TV(T("u64"), BigU64), TV(TP, VP(9, 10, TRUE)), TV(TQ, VQ(1, 48, 3)),
    TV(TW, AggV(<<EnumV(0, Unit), U("u64", 99)>>)), TV(TStr(33), StrV(Ascii(33, 11)))
>>

Pool == IF PoolSel = "full" THEN FullPool ELSE SmallPool

ExplicitKeys == << [i \in 1..32 |-> IF i = 31 THEN 1 ELSE 0],                   \* 0x...0100
                   [i \in 1..32 |-> IF i = 32 THEN 240 ELSE 255],               \* 0xff..f0
                   Seq32(64) >>

Place(ns, name, key) == [ns |-> ns, name |-> name, key |-> key]
\* name positions of the enumerator: adversarial reuse of the same identifiers as namespace and field names
NameSlots == <<
    Place(<<>>, "a", <<>>), Place(<<>>, "b", <<>>), Place(<<>>, "k", ExplicitKeys[1]),
    Place(<<"a">>, "a", <<>>), Place(<<"a">>, "b", <<>>),
    Place(<<"a", "b">>, "a", <<>>), Place(<<"a", "a">>, "b", <<>>), Place(<<"b">>, "k", ExplicitKeys[2])
>>

Field(pl, tv) == [ns |-> pl.ns, name |-> pl.name, key |-> pl.key, ty |-> tv.ty, v |-> tv.v]

VARIABLES decl, nexti
vars == <<decl, nexti>>

Init == decl = <<>> /\ nexti = 1
AddField(i, t) ==
    /\ Len(decl) < MaxFields /\ i >= nexti
    /\ decl' = Append(decl, Field(NameSlots[i], Pool[t]))
    /\ WellNamed(decl')
    /\ nexti' = i + 1
Next == \E i \in DOMAIN NameSlots, t \in DOMAIN Pool : AddField(i, t)
Spec == Init /\ [][Next]_vars

InvReadBack == ReadBackOK(decl)
InvDisjoint == DisjointOK(decl)
InvFieldIds == FieldIdsOK(decl)
InvImgSize == ImgSizeOK(decl)
InvEncAgrees == EncAgrees(decl)
InvWellNamed == WellNamed(decl)

(***************************************************************************)
(* The conformance pool: deterministic (no randomness), indexed 1..NGen.   *)
(***************************************************************************)
NTV == Len(FullPool)
GenPlaces == <<
    Place(<<>>, "fa", <<>>), Place(<<"na">>, "fa", <<>>), Place(<<"na", "nb">>, "fa", <<>>), Place(<<>>, "fk", ExplicitKeys[1]),
    Place(<<>>, "fb", <<>>), Place(<<"na">>, "fb", <<>>), Place(<<"nb">>, "fa", <<>>), Place(<<"na", "nb">>, "na", <<>>),
    Place(<<"na", "na">>, "fa", <<>>), Place(<<"nb">>, "fk", ExplicitKeys[2]), Place(<<>>, "nanb", <<>>), Place(<<"nb", "na">>, "fb", <<>>),
    Place(<<"nc">>, "fc", <<>>), Place(<<>>, "fc", <<>>), Place(<<"nc", "nd">>, "fk", ExplicitKeys[3]), Place(<<>>, "fd", <<>>)
>>
NPl == Len(GenPlaces)

\* P1: every (type, value) alone at each of the first four places
P1(r) == LET t == ((r - 1) \div 4) + 1 p == ((r - 1) % 4) + 1 IN <<Field(GenPlaces[p], FullPool[t])>>
NP1 == 4 * NTV
\* P2: 2..4 fields, places and (type, value)s by modular arithmetic
P2Width(r) == 2 + (r % 3)
P2(r) == [j \in 1..P2Width(r) |->
            Field(GenPlaces[((r + 5 * (j - 1)) % NPl) + 1], FullPool[((7 * r + 11 * j) % NTV) + 1])]
\* P3: wide declarations: 12 fields at distinct places
P3(r) == [j \in 1..12 |-> Field(GenPlaces[((r + j) % NPl) + 1], FullPool[((5 * r + 3 * j) % NTV) + 1])]

CONSTANTS NP2, NP3
NGen == NP1 + NP2 + NP3
GenDecl(g) == IF g <= NP1 THEN P1(g) ELSE IF g <= NP1 + NP2 THEN P2(g - NP1) ELSE P3(g - NP1 - NP2)

\* the pre-images the harness must hash, the reads it must generate
RECURSIVE SeqOfSet(_)
SeqOfSet(S) == IF S = {} THEN <<>> ELSE LET x == CHOOSE y \in S : TRUE IN <<x>> \o SeqOfSet(S \ {x})
ReadsOf(d) == [i \in DOMAIN d |-> SeqOfSet(Paths(d[i].ty))]
PresOf(d) == [i \in DOMAIN d |-> Base(d[i]).pre]
ReplayRec(g) == LET d == GenDecl(g) IN [id |-> g, fields |-> d, reads |-> ReadsOf(d), pres |-> PresOf(d)]

\* the generator reuses the enumerator's variables: decl = the declaration, nexti = its pool index
GenInit == \E g \in 1..NGen : decl = GenDecl(g) /\ nexti = g
GenNext == FALSE /\ UNCHANGED vars
GenSpec == GenInit /\ [][GenNext]_vars
\* the generated declarations are well named and satisfy the model's properties too
GenOK == WellNamed(decl) /\ ReadBackOK(decl) /\ DisjointOK(decl)
PrintReplay == PrintT(<<"REPLAY", ToJson(ReplayRec(nexti))>>)
=============================================================================
