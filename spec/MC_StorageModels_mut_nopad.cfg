\* binding demonstration: element offsets computed without padding the element size to a word must be refuted (vecC: u8 elements)
CONSTANT UnitWord = 0
CONSTANT Active = {"vecC"}
CONSTANT Vals = {1, 2}
CONSTANT Keys = {1, 2}
CONSTANT MaxLen = 3
CONSTANT SliceLens = {0, 1}
CONSTANT VecArgs = {0, 1, 21}
CONSTANT OffCalc <- OffCalcNoPad
SPECIFICATION Spec
INVARIANT Refines
INVARIANT RetAgree
PROPERTY FrameProp
CHECK_DEADLOCK FALSE
