\* 1 marker + 2 checkers
CONSTANTS
  Procs = {1, 2, 3}
  Prog <- Prog_1m2c
  AtomicPublish = TRUE
  InitFiles = {"absent", "empty", "garbage", "ghost"}
  MaxCrashes = 1
SPECIFICATION MCSpec
INVARIANT TypeOK
INVARIANT CulpritRecorded
INVARIANT LossReport
INVARIANT UnseenReport
INVARIANT StaleWitness
CHECK_DEADLOCK FALSE
