------------------------------ MODULE PidLock ------------------------------
(***************************************************************************)
(* C25  Dirty-file flags are never lost between processes.                 *)
(*                                                                         *)
(* File-system level model of forc-util/src/fs_locking.rs (PidFileLocking, *)
(* is_file_dirty) as used by sway-lsp (PidLockedFiles) and forc-fmt /      *)
(* forc-migrate.  One flag file  ~/.forc/.lsp-locks/<hash>.lock .          *)
(*                                                                         *)
(* ONE ACTION PER FILE-SYSTEM CALL, in code order.  The value of pc is the *)
(* name of the H6 step point (cfg fuellabs_sway_verif) that the real code  *)
(* announces immediately BEFORE that call; taking the action = performing  *)
(* the call and running on to the next step point:                         *)
(*                                                                         *)
(*   start           begin of the operation (command delivered); for       *)
(*                   mark/check: PidFileLocking::new -> cleanup_stale_files*)
(*                   -> read_dir (sees the flag name or not)               *)
(*   cleanup.open    File::open(entry)           (cleanup_stale_files)     *)
(*   cleanup.read    read_to_string ; parse                                *)
(*   cleanup.ps      is_pid_active (ps -p pid)                             *)
(*   cleanup.remove  remove_file(entry)                                    *)
(*   pid.open        File::open(path)            (get_locker_pid)          *)
(*   pid.read        read_to_string ; parse                                *)
(*   pid.ps          is_pid_active                                         *)
(*   pid.remove      remove_file(path), NotFound ignored                   *)
(*   release.remove  remove_file(path), NotFound ignored  (release)        *)
(*   lock.create     as written: File::create(path)  (new inode, or        *)
(*                   TRUNCATE of the inode the name points to)             *)
(*                   repaired:   File::create(<path>.<pid>.tmp)            *)
(*   lock.write      write_all(pid) ; sync_all                             *)
(*   lock.rename     repaired only: rename(tmp, path)  (atomic publish)    *)
(*                                                                         *)
(* Operations (prog[p] is the sequence a process executes):                *)
(*   "mark"    PidLockedFiles::mark_file_as_dirty =                        *)
(*             PidFileLocking::lsp(path) [new => cleanup] ; lock() =       *)
(*             release() [is_locked = get_locker_pid ; Err => a 2nd        *)
(*             get_locker_pid for the message | remove_file] ;             *)
(*             create_dir_all ; create ; write ; [rename]                  *)
(*   "release" PidLockedFiles::remove_dirty_flag = release() on the        *)
(*             instance kept since mark (no cleanup); no-op if the mark    *)
(*             failed (the uri is not in the map)                          *)
(*   "check"   is_file_dirty = PidFileLocking::lsp(path) [cleanup] ;       *)
(*             is_locked()                                                 *)
(*                                                                         *)
(* File system: a directory entry (flag, tmp[p]) names an INODE; content   *)
(* belongs to the inode; an open handle (hnd for readers, mine for the     *)
(* writer) refers to the inode, so a write after another process unlinked  *)
(* the name lands in an unlinked inode, and a reader that opened before a  *)
(* rename/unlink keeps reading the old inode.                              *)
(*                                                                         *)
(* This is the Impl-reading: defects of the protocol are transcribed, not  *)
(* repaired.  The property is stated separately (Lost / visBad / staleBad) *)
(* and every way of breaking it is classified by the ghost  culprit  = the *)
(* call site whose step unlinked / truncated / overwrote the inode holding *)
(* a flag (DESIGN 3.3).                                                    *)
(***************************************************************************)
EXTENDS Integers, Sequences, FiniteSets, TLC

CONSTANTS Procs,           \* process ids, a set 1..N
          Prog(_),         \* Prog(p): sequence over {"mark","release","check"}
          AtomicPublish,   \* FALSE: lock() as written at the pinned commit; TRUE: write-temp-then-rename
          InitFiles,       \* subset of {"absent","empty","garbage","ghost"}: what is at the flag name initially
          MaxCrashes       \* bound on the number of crashes (processes killed between two fs calls)

ABSENT  == -2              \* "no such file" (observation value, never an inode content)
GARBAGE == -1              \* non-empty, does not parse as usize
EMPTY   == 0               \* zero length: what File::create leaves, what legacy versions wrote
GHOST   == 99              \* pid of a process that is not running (a stale flag of an earlier session)
INITINO == 1               \* inode of the initial file, if any
MaxOps  == 4
Ino(p, k) == 10 * p + k    \* inode created by p's k-th operation (canonical naming: no allocator state)
Inodes  == {INITINO} \cup { Ino(p, k) : p \in Procs, k \in 1..MaxOps }

VARIABLES
    prog,      \* [Procs -> Seq(op)], never changes (a variable so that one trace-validation run can host several configurations)
    flag,      \* inode the flag name points to, 0 = no directory entry
    tmp,       \* [Procs -> inode | 0]   the per-pid temp name (repaired protocol)
    content,   \* [Inodes -> EMPTY | GARBAGE | pid]
    alive,     \* [Procs -> BOOLEAN]  = what `ps -p` reports
    loc,       \* [Procs -> record] program counter and locals, see InitLoc
    holds,     \* [Procs -> BOOLEAN]  mark completed Ok, release not started, alive
    mine,      \* [Procs -> inode | 0] inode the process wrote its pid to in its latest lock()
    culprit,   \* ghost [Inodes -> [key, via]] call site that last unlinked/truncated/overwrote the inode; NoCulprit
    wit,       \* ghost [Procs -> SUBSET Procs] markers holding continuously since this checker's is_locked began
    eng,       \* ghost [Procs -> BOOLEAN] some marker was engaged (in mark, holding, in release) during this check
    visBad,    \* ghost [Procs -> SUBSET culprit records] culprits of flags a completed check failed to see
    staleBad   \* ghost [Procs -> BOOLEAN] a completed check with no engaged marker said dirty / left the file

fsVars    == <<flag, tmp, content>>
ghostVars == <<culprit, wit, eng, visBad, staleBad>>
vars      == <<prog, flag, tmp, content, alive, loc, holds, mine, culprit, wit, eng, visBad, staleBad>>

InitLoc == [opi |-> 1,          \* index of the current operation in prog[p]
            pc  |-> "start",    \* step point the process is stopped at; "end" = program finished
            ctx |-> "lk",       \* which get_locker_pid call: "lk" = is_locked(), "err" = the one formatting release()'s error
            hnd |-> 0,          \* inode of the last successful open (the basis of the next decision); 0 = saw no file
            rd  |-> ABSENT,     \* content read through hnd
            why |-> "none",     \* what the pending decision is based on: absent|empty|garbage|dead|self|other
            res |-> "none",     \* result of the last completed operation: ok|err|dirty|clean
            has |-> FALSE]      \* PidLockedFiles.locks contains the uri

NoCulprit == [key |-> "none", via |-> "none"]

\* the initial state for programs P (a function Procs -> Seq(op)) and initial file kind k, as a record
Initial(P, k) ==
    [prog    |-> P,
     flag    |-> IF k = "absent" THEN 0 ELSE INITINO,
     tmp     |-> [p \in Procs |-> 0],
     content |-> [i \in Inodes |-> IF i = INITINO
                                    THEN (CASE k = "garbage" -> GARBAGE [] k = "ghost" -> GHOST [] OTHER -> EMPTY)
                                    ELSE EMPTY],
     alive   |-> [p \in Procs |-> TRUE],
     loc     |-> [p \in Procs |-> IF Len(P[p]) = 0 THEN [InitLoc EXCEPT !.pc = "end"] ELSE InitLoc],
     holds   |-> [p \in Procs |-> FALSE],
     mine    |-> [p \in Procs |-> 0],
     culprit |-> [i \in Inodes |-> NoCulprit],
     wit     |-> [p \in Procs |-> {}],
     eng     |-> [p \in Procs |-> FALSE],
     visBad  |-> [p \in Procs |-> {}],
     staleBad |-> [p \in Procs |-> FALSE]]

StateIs(s) ==
    /\ prog = s.prog /\ flag = s.flag /\ tmp = s.tmp /\ content = s.content /\ alive = s.alive
    /\ loc = s.loc /\ holds = s.holds /\ mine = s.mine /\ culprit = s.culprit /\ wit = s.wit
    /\ eng = s.eng /\ visBad = s.visBad /\ staleBad = s.staleBad

Init == \E k \in InitFiles : StateIs(Initial([p \in Procs |-> Prog(p)], k))

-----------------------------------------------------------------------------
Running(p) == alive[p] /\ loc[p].pc \notin {"end"}
Op(p)      == prog[p][loc[p].opi]
At(p, pt)  == alive[p] /\ loc[p].pc = pt
IsPid(v)   == v \in Procs \cup {GHOST}
PsAlive(v) == v \in Procs /\ alive[v]                      \* `ps -p v` lists v
InOp(p)    == alive[p] /\ loc[p].pc \notin {"start", "end"}
Engaged(m) == alive[m] /\ (holds[m] \/ (InOp(m) /\ Op(m) \in {"mark", "release"}))
InCheck(q) == InOp(q) /\ Op(q) = "check"

\* call site of the step p is about to take, as the caller chain inside fs_locking.rs
Chain(p) == LET pt == loc[p].pc IN
    CASE pt = "cleanup.remove" -> "cleanup_stale_files>remove_file"
      [] pt = "pid.remove"     -> "get_locker_pid>remove_file"
      [] pt = "release.remove" -> IF Op(p) = "mark" THEN "lock>release>remove_file" ELSE "release>remove_file"
      [] pt = "lock.create"    -> "lock>create"
      [] pt = "lock.write"     -> "lock>write"
      [] pt = "lock.rename"    -> "lock>rename"
      [] OTHER                 -> pt
\* ... and as public operation : step point [@err = inside the get_locker_pid that formats release()'s error]
Via(p) == Op(p) \o ":" \o loc[p].pc \o (IF loc[p].ctx = "err" THEN "@err" ELSE "")
\* "same": the name still points to the inode p's decision was based on (p destroys the very file it
\*         inspected -- whose content was completed after p read it);
\* "stale": the name has been re-pointed since (or p saw no file at all): check-then-act on the NAME
Kind(p) == IF loc[p].hnd # 0 /\ loc[p].hnd = flag THEN "same" ELSE "stale"
Blame(p, i) == IF i = 0 THEN culprit
               ELSE [culprit EXCEPT ![i] = [key |-> Chain(p) \o "/" \o Kind(p), via |-> Via(p)]]

\* the current operation ends with result r
Finish(p, l, r) ==
    [l EXCEPT !.res = r, !.ctx = "lk",
              !.opi = @ + 1,
              !.pc  = IF l.opi < Len(prog[p]) THEN "start" ELSE "end",
              !.has = IF Op(p) = "mark" THEN r = "ok" ELSE IF Op(p) = "release" THEN FALSE ELSE @]

\* get_locker_pid returned; locked = Some(pid) with pid # own pid
AfterG(p, l, locked) ==
    IF l.ctx = "err" THEN Finish(p, l, "err")
    ELSE IF Op(p) = "check" THEN Finish(p, l, IF locked THEN "dirty" ELSE "clean")
    ELSE IF locked THEN [l EXCEPT !.ctx = "err", !.pc = "pid.open"]
    ELSE [l EXCEPT !.pc = "release.remove"]

\* ghost bookkeeping when p's get_locker_pid returns (w = the witnesses, flagAfter = flag name after the step)
GhostAfterG(p, locked, w, flagAfter, culpritAfter) ==
    IF Op(p) = "check"
    THEN /\ visBad' = [visBad EXCEPT ![p] = IF locked THEN {} ELSE { culpritAfter[mine[m]] : m \in w }]
         /\ staleBad' = [staleBad EXCEPT ![p] = ~eng[p] /\ (locked \/ flagAfter # 0)]
    ELSE UNCHANGED <<visBad, staleBad>>

SetLoc(p, l) == loc' = [loc EXCEPT ![p] = l]

-----------------------------------------------------------------------------
(* start: the operation begins.  mark/check: PidFileLocking::new runs      *)
(* cleanup_stale_files, whose read_dir either lists the flag name or not.  *)
Begin(p) ==
    /\ At(p, "start")
    /\ LET op == Op(p)
           l0 == [loc[p] EXCEPT !.hnd = 0, !.rd = ABSENT, !.why = "none", !.ctx = "lk"] IN
       /\ SetLoc(p, IF op = "release"         \* remove_dirty_flag: Ok(()) without touching anything if the uri is not in the map
                    THEN (IF loc[p].has THEN [l0 EXCEPT !.pc = "pid.open"] ELSE Finish(p, l0, "ok"))
                    ELSE IF op = "mark" /\ loc[p].has   \* mark_file_as_dirty: nothing to do if the uri is in the map
                    THEN Finish(p, l0, "ok")
                    ELSE [l0 EXCEPT !.pc = IF flag # 0 THEN "cleanup.open" ELSE "pid.open"])
       /\ holds' = IF op = "release" THEN [holds EXCEPT ![p] = FALSE] ELSE holds
       /\ wit' = IF op = "release" THEN [q \in Procs |-> wit[q] \ {p}] ELSE wit
       /\ eng' = [q \in Procs |->
                    IF q = p THEN (op = "check" /\ \E m \in Procs \ {p} : Engaged(m))
                    ELSE IF ((op = "mark" /\ ~loc[p].has) \/ (op = "release" /\ loc[p].has)) /\ InCheck(q) THEN TRUE ELSE eng[q]]
    /\ UNCHANGED <<prog, flag, tmp, content, alive, mine, culprit, visBad, staleBad>>

CleanupOpen(p) ==
    /\ At(p, "cleanup.open")
    /\ SetLoc(p, IF flag = 0 THEN [loc[p] EXCEPT !.pc = "pid.open", !.hnd = 0]      \* open fails: entry skipped
                 ELSE [loc[p] EXCEPT !.pc = "cleanup.read", !.hnd = flag])
    /\ UNCHANGED <<prog, fsVars, alive, holds, mine, ghostVars>>

CleanupRead(p) ==
    /\ At(p, "cleanup.read")
    /\ LET v == content[loc[p].hnd] IN
       SetLoc(p, IF IsPid(v) THEN [loc[p] EXCEPT !.pc = "cleanup.ps", !.rd = v]
                 ELSE [loc[p] EXCEPT !.pc = "cleanup.remove", !.rd = v,
                                     !.why = IF v = EMPTY THEN "empty" ELSE "garbage"])
    /\ UNCHANGED <<prog, fsVars, alive, holds, mine, ghostVars>>

CleanupPs(p) ==
    /\ At(p, "cleanup.ps")
    /\ SetLoc(p, IF PsAlive(loc[p].rd) THEN [loc[p] EXCEPT !.pc = "pid.open"]
                 ELSE [loc[p] EXCEPT !.pc = "cleanup.remove", !.why = "dead"])
    /\ UNCHANGED <<prog, fsVars, alive, holds, mine, ghostVars>>

CleanupRemove(p) ==            \* remove_file(entry)?  -- NotFound aborts the cleanup, which is ignored by new()
    /\ At(p, "cleanup.remove")
    /\ flag' = 0
    /\ culprit' = Blame(p, flag)
    /\ SetLoc(p, [loc[p] EXCEPT !.pc = "pid.open"])
    /\ UNCHANGED <<prog, tmp, content, alive, holds, mine, wit, eng, visBad, staleBad>>

PidOpen(p) ==
    /\ At(p, "pid.open")
    /\ LET isCheck == Op(p) = "check"
           w == IF isCheck THEN { m \in Procs \ {p} : holds[m] } ELSE wit[p] IN
       /\ wit' = [wit EXCEPT ![p] = w]
       /\ IF flag = 0
          THEN /\ SetLoc(p, AfterG(p, [loc[p] EXCEPT !.hnd = 0, !.rd = ABSENT, !.why = "absent"], FALSE))
               /\ GhostAfterG(p, FALSE, w, flag, culprit)
          ELSE /\ SetLoc(p, [loc[p] EXCEPT !.pc = "pid.read", !.hnd = flag])
               /\ UNCHANGED <<visBad, staleBad>>
    /\ UNCHANGED <<prog, fsVars, alive, holds, mine, culprit, eng>>

PidRead(p) ==
    /\ At(p, "pid.read")
    /\ LET v == content[loc[p].hnd] IN
       IF IsPid(v)
       THEN /\ SetLoc(p, [loc[p] EXCEPT !.pc = "pid.ps", !.rd = v])
            /\ UNCHANGED <<visBad, staleBad>>
       ELSE /\ SetLoc(p, AfterG(p, [loc[p] EXCEPT !.rd = v, !.why = IF v = EMPTY THEN "empty" ELSE "garbage"], FALSE))
            /\ GhostAfterG(p, FALSE, wit[p], flag, culprit)
    /\ UNCHANGED <<prog, fsVars, alive, holds, mine, culprit, wit, eng>>

PidPs(p) ==
    /\ At(p, "pid.ps")
    /\ LET v == loc[p].rd IN
       IF PsAlive(v)
       THEN /\ SetLoc(p, AfterG(p, [loc[p] EXCEPT !.why = IF v = p THEN "self" ELSE "other"], v # p))
            /\ GhostAfterG(p, v # p, wit[p], flag, culprit)
       ELSE /\ SetLoc(p, [loc[p] EXCEPT !.pc = "pid.remove", !.why = "dead"])
            /\ UNCHANGED <<visBad, staleBad>>
    /\ UNCHANGED <<prog, fsVars, alive, holds, mine, culprit, wit, eng>>

PidRemove(p) ==
    /\ At(p, "pid.remove")
    /\ flag' = 0
    /\ culprit' = Blame(p, flag)
    /\ SetLoc(p, AfterG(p, loc[p], FALSE))
    /\ GhostAfterG(p, FALSE, wit[p], 0, Blame(p, flag))
    /\ UNCHANGED <<prog, tmp, content, alive, holds, mine, wit, eng>>

ReleaseRemove(p) ==
    /\ At(p, "release.remove")
    /\ flag' = 0
    /\ culprit' = Blame(p, flag)
    /\ SetLoc(p, IF Op(p) = "release" THEN Finish(p, loc[p], "ok")
                 ELSE [loc[p] EXCEPT !.pc = "lock.create"])          \* create_dir_all: no effect on the flag
    /\ UNCHANGED <<prog, tmp, content, alive, holds, mine, wit, eng, visBad, staleBad>>

LockCreate(p) ==
    /\ At(p, "lock.create")
    /\ LET n == Ino(p, loc[p].opi) IN
       IF AtomicPublish
       THEN /\ tmp' = [tmp EXCEPT ![p] = n]                          \* File::create(<path>.<pid>.tmp): always a new name
            /\ content' = [content EXCEPT ![n] = EMPTY]
            /\ mine' = [mine EXCEPT ![p] = n]
            /\ UNCHANGED <<flag, culprit>>
       ELSE IF flag = 0
       THEN /\ flag' = n                                             \* File::create(path): new inode ...
            /\ content' = [content EXCEPT ![n] = EMPTY]
            /\ mine' = [mine EXCEPT ![p] = n]
            /\ UNCHANGED <<tmp, culprit>>
       ELSE /\ content' = [content EXCEPT ![flag] = EMPTY]           \* ... or O_TRUNC of whatever the name points to
            /\ mine' = [mine EXCEPT ![p] = flag]
            /\ culprit' = Blame(p, flag)
            /\ UNCHANGED <<flag, tmp>>
    /\ SetLoc(p, [loc[p] EXCEPT !.pc = "lock.write"])
    /\ UNCHANGED <<prog, alive, holds, wit, eng, visBad, staleBad>>

LockWrite(p) ==
    /\ At(p, "lock.write")
    /\ LET i == mine[p] IN
       /\ content' = [content EXCEPT ![i] = p]
       /\ culprit' = IF content[i] \in Procs \ {p} THEN Blame(p, i) ELSE culprit
    /\ IF AtomicPublish
       THEN /\ SetLoc(p, [loc[p] EXCEPT !.pc = "lock.rename"])
            /\ UNCHANGED holds
       ELSE /\ SetLoc(p, Finish(p, loc[p], "ok"))
            /\ holds' = [holds EXCEPT ![p] = TRUE]
    /\ UNCHANGED <<prog, flag, tmp, alive, mine, wit, eng, visBad, staleBad>>

LockRename(p) ==               \* rename(tmp, path) replaces whatever the name points to
    /\ At(p, "lock.rename")
    /\ flag' = tmp[p]
    /\ tmp' = [tmp EXCEPT ![p] = 0]
    /\ culprit' = Blame(p, flag)
    /\ holds' = [holds EXCEPT ![p] = TRUE]
    /\ SetLoc(p, Finish(p, loc[p], "ok"))
    /\ UNCHANGED <<prog, content, alive, mine, wit, eng, visBad, staleBad>>

\* Only crashes of processes that ever write their pid matter: a checker's pid is never read by
\* anyone, so its crash is the same as never scheduling it again (every prefix is a behaviour).
Crash(p) ==
    /\ Running(p)
    /\ \E k \in DOMAIN prog[p] : prog[p][k] = "mark"
    /\ Cardinality({ q \in Procs : ~alive[q] }) < MaxCrashes
    /\ alive' = [alive EXCEPT ![p] = FALSE]
    /\ holds' = [holds EXCEPT ![p] = FALSE]
    /\ wit' = [q \in Procs |-> wit[q] \ {p}]
    /\ UNCHANGED <<prog, fsVars, loc, mine, culprit, eng, visBad, staleBad>>

Step(p) == \/ Begin(p) \/ CleanupOpen(p) \/ CleanupRead(p) \/ CleanupPs(p) \/ CleanupRemove(p)
           \/ PidOpen(p) \/ PidRead(p) \/ PidPs(p) \/ PidRemove(p)
           \/ ReleaseRemove(p) \/ LockCreate(p) \/ LockWrite(p) \/ LockRename(p)

Next == \E p \in Procs : Step(p) \/ Crash(p)
Spec == Init /\ [][Next]_vars

Terminal == \A p \in Procs : ~Running(p)

-----------------------------------------------------------------------------
(* The property.                                                           *)

\* state form of "a flag set by a still-running process stays visible until that process clears it"
Lost(m)     == holds[m] /\ ~(flag = mine[m] /\ content[mine[m]] = m)
CulpritOf(m) == culprit[mine[m]]
\* every mechanism that is reachable: the culprit strings of lost flags and of flags a complete check missed
LossKeys    == { CulpritOf(m) : m \in { x \in Procs : Lost(x) } } \cup UNION { visBad[q] : q \in Procs }

FlagVisible  == \A m \in Procs : ~Lost(m)                     \* state form
FlagSeen     == \A q \in Procs : visBad[q] = {}               \* operation form: a complete later is_locked says dirty
StaleCleared == \A q \in Procs : ~staleBad[q]                 \* owner dead, nobody engaged => check says clean, file gone

\* classification is total: a loss always has a recorded call site
CulpritRecorded == NoCulprit \notin LossKeys

TypeOK ==
    /\ flag \in Inodes \cup {0}
    /\ \A p \in Procs : tmp[p] \in Inodes \cup {0} /\ mine[p] \in Inodes \cup {0}
    /\ \A i \in Inodes : content[i] \in Procs \cup {EMPTY, GARBAGE, GHOST}
    /\ \A p \in Procs : loc[p].pc \in {"start", "end", "cleanup.open", "cleanup.read", "cleanup.ps", "cleanup.remove",
                                        "pid.open", "pid.read", "pid.ps", "pid.remove", "release.remove",
                                        "lock.create", "lock.write", "lock.rename"}
    /\ \A p \in Procs : holds[p] => alive[p] /\ loc[p].has /\ mine[p] # 0

\* what an outside observer of the directory sees (compared with the real directory after every step)
View(v) == IF v = 0 THEN ABSENT ELSE content[v]
FsView == [flag |-> View(flag), tmp |-> [p \in Procs |-> View(tmp[p])], other |-> 0]   \* other: files nobody should create
=============================================================================
