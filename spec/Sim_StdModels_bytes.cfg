\* generated once by the C27 builder; see MC_StdModels.tla
CONSTANTS
  MKind = "bytes"
  MEty = "u8"
  Prefixes <- PrefNew
  OpNames = {"push", "pop", "clear", "clone", "insert", "remove", "set", "swap", "resize", "get", "iter", "append", "append_self", "split_at", "splice", "via_vec"}
  MaxOps = 40
  NumSel <- NumSel_none
SPECIFICATION SimSpec
INVARIANT PrintLeaf
CHECK_DEADLOCK FALSE
