CONSTANTS N = 3  BigMin = 5  BigMax = 5  Reps = 1
INIT Init
NEXT NoNext
INVARIANT PrintReplay
CHECK_DEADLOCK FALSE
