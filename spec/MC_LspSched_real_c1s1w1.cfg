\* LspSched.tla, repaired protocol, check points / abort tails as measured on the real code
CONSTANTS NChange = 1  NSave = 1  NWait = 1
          NChecksFull = 7  TailFullCode = 1122110  NChecksCached = 2  TailCachedCode = 10
          FixNotify = TRUE  FixOpen = TRUE  FixClear = TRUE  FixSave = TRUE
          KnownMechs = {}
SPECIFICATION Spec
INVARIANT TypeOK
INVARIANT TokenOK
INVARIANT SendNeverBlocks
INVARIANT CheckReadsAtomic
INVARIANT ClassificationSound
INVARIANT NoHangButKnown
INVARIANT NoLostEditButKnown
INVARIANT NoDefectEvent
CHECK_DEADLOCK FALSE
