\* histories of one change: 12 initial documents x every change of EditsOf (9 texts)
CONSTANTS
    InitDocs <- Docs12
    Texts <- Texts9
    Texts2 <- Texts3
    MaxLen = 40
    Algo = "utf16walk"
    MaxEdits = 1
    SimPick = 3
SPECIFICATION GenSpec
INVARIANT PrintReplay
CHECK_DEADLOCK FALSE
