\* quick: every sequence of <= 2 configurables, one patch
CONSTANTS MaxCfgs = 2 MaxPatches = 1 Defaults = {0} Shapes = {1, 3} NBuilds = 0
SPECIFICATION MCSpec
INVARIANTS InvDisjoint InvInside InvPrelude InvObserve InvFrame InvLen
CHECK_DEADLOCK FALSE
