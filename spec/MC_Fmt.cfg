\* quick: every seed with every output at edit distance <= 1
CONSTANT Edits = 1
CONSTANT PairOf <- Identity
INIT MCInit
NEXT MCNext
INVARIANT EssentialPreserved
INVARIANT TuplesPreserved
INVARIANT FewAlternatives
POSTCONDITION Expectations
CHECK_DEADLOCK FALSE
