\* trace validation against the protocol as written at the pinned commit (used only to demonstrate binding on a pre-fix build)
CONSTANTS
  Procs = {1, 2, 3}
  Prog <- NoProg
  AtomicPublish = FALSE
  InitFiles = {"absent"}
  MaxCrashes = 3
SPECIFICATION TraceSpec
INVARIANT TypeOK
POSTCONDITION Accepted
CHECK_DEADLOCK FALSE
