SPECIFICATION TraceSpec
INVARIANT TypeOK
INVARIANT Consumed
POSTCONDITION Accepted
CHECK_DEADLOCK FALSE
