CONSTANT UnitWord = 0
CONSTANT Active = {}
CONSTANT Vals = {1, 2, 3}
CONSTANT Keys = {1, 2, 3}
CONSTANT MaxLen = 5
CONSTANT SliceLens = {0, 1, 31, 32, 33, 70}
CONSTANT VecArgs = {0, 3, 21, 321, 1231}
CONSTANT NGen = 60
SPECIFICATION GenSpec
INVARIANT GenRefines
INVARIANT PrintReplay
CHECK_DEADLOCK FALSE
