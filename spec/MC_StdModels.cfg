\* design-level model check of the collection model (C27): every history  new ++ <= 3 operations  of a Bytes over the
\* full operation alphabet; CapInv and the algebraic Laws in every state.  (The Gen_StdModels_*.cfg pools check the same
\* invariants on every history they print.)
CONSTANTS
  MKind = "bytes"
  MEty = "u8"
  Prefixes <- PrefNew
  OpNames = {"push", "pop", "clear", "clone", "insert", "remove", "set", "swap", "resize", "get", "iter", "append", "append_self", "split_at", "splice", "via_vec"}
  MaxOps = 3
  NumSel <- NumSel_none
SPECIFICATION GenSpec
INVARIANT TypeInv
INVARIANT ModelInv
CHECK_DEADLOCK FALSE
