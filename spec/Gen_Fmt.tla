------------------------------ MODULE Gen_Fmt ------------------------------
(***************************************************************************)
(* Input pool generator for C18/C19: "comments at arbitrary token          *)
(* boundaries".  IOEnv.SEEDS lists the seed files with their number of     *)
(* tokens, [file |-> STRING, ntok |-> Nat].  A variant is a seed plus a    *)
(* sequence of insertions <<boundary, kind>>: boundary 0 is before the     *)
(* first token, boundary k after the k-th token; the kinds are a line      *)
(* comment, an inline block comment, a multi-line block comment, a doc     *)
(* comment, a run of blank lines and a line comment on its own line.       *)
(* Breadth-first search with MaxIns = 1 enumerates every single insertion; *)
(* PairNext with MaxIns = 2 enumerates every pair of comments at           *)
(* neighbouring token boundaries.                                          *)
(* vh-fmt renders a variant textually.                                     *)
(***************************************************************************)
EXTENDS Naturals, Sequences, TLC, Json, IOUtils

CONSTANT MaxIns
Seeds == ndJsonDeserialize(IOEnv.SEEDS)
Kinds == {"line", "block", "mblock", "doc", "blank", "nlline"}

VARIABLES seed, ins
vars == <<seed, ins>>

Init == seed \in 1..Len(Seeds) /\ ins = <<>>

Insert(b, k) ==
    /\ Len(ins) < MaxIns
    /\ b \in 0..Seeds[seed].ntok
    /\ ins' = Append(ins, <<b, k>>)
    /\ UNCHANGED seed

Next == \E b \in 0..Seeds[seed].ntok, k \in Kinds : Insert(b, k)

\* pairs, exhaustively for the interacting case: a trailing or inline comment followed by a second
\* comment at the next token boundary
PairNext ==
    IF ins = <<>>
    THEN \E b \in 0..Seeds[seed].ntok, k \in {"line", "block"} : Insert(b, k)
    ELSE \E k \in {"line", "block", "nlline"} : Insert(ins[1][1] + 1, k)

\* one replay record per complete variant
PrintReplay ==
    (Len(ins) = MaxIns) => PrintT(<<"REPLAY", ToJson([seed |-> seed, ins |-> ins])>>)
=============================================================================
