------------------------------ MODULE Gen_Fmt ------------------------------
(***************************************************************************)
(* Input pool generator for C18/C19: "comments at arbitrary token          *)
(* boundaries".  IOEnv.SEEDS lists the seed files with their number of     *)
(* tokens, [file |-> STRING, ntok |-> Nat].  A variant is a seed plus a    *)
(* sequence of insertions <<boundary, kind>>: boundary 0 is before the     *)
(* first token, boundary k after the k-th token; the kinds are a line      *)
(* comment, an inline block comment, a multi-line block comment, a doc     *)
(* comment, a run of blank lines and a line comment on its own line.       *)
(* Breadth-first search with MaxIns = 1 enumerates every single insertion; *)
(* `-simulate -depth 3` with a fixed seed and MaxIns = 2 samples pairs.    *)
(* vh-fmt renders a variant textually.                                     *)
(***************************************************************************)
EXTENDS Naturals, Sequences, TLC, Json, IOUtils

CONSTANT MaxIns
Seeds == ndJsonDeserialize(IOEnv.SEEDS)
Kinds == {"line", "block", "mblock", "doc", "blank", "nlline"}

VARIABLES seed, ins
vars == <<seed, ins>>

Init == seed \in 1..Len(Seeds) /\ ins = <<>>

Insert(b, k) ==
    /\ Len(ins) < MaxIns
    /\ b \in 0..Seeds[seed].ntok
    /\ ins' = Append(ins, <<b, k>>)
    /\ UNCHANGED seed

Next == \E b \in 0..Seeds[seed].ntok, k \in Kinds : Insert(b, k)

\* one replay record per complete variant
PrintReplay ==
    (Len(ins) = MaxIns) => PrintT(<<"REPLAY", ToJson([seed |-> seed, ins |-> ins])>>)
=============================================================================
