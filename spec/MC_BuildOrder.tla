--------------------------- MODULE MC_BuildOrder ---------------------------
(* TLC-only additions to BuildOrder: replay-record printing and a fixed-seed *)
(* pool of larger random graphs (Randomization; deterministic under -seed).  *)
EXTENDS BuildOrder, Json, Randomization

CONSTANTS BigMin, BigMax, Reps

\* one replay record per initial state (= per graph)
PrintReplay ==
    (emitted = <<>>) =>
        PrintT(<<"REPLAY", ToJson([n |-> Cardinality(g.nodes), edges |-> g.edges])>>)

Pairs(n) == (1..n) \X (1..n)
Forward(n) == { p \in Pairs(n) : p[1] > p[2] }       \* acyclic by construction

\* larger graphs: DAGs, DAGs plus one back edge or self-loop, and arbitrary edge sets
BigGraphs ==
    UNION { UNION {
        { [nodes |-> 1..n, edges |-> RandomSubset(m, Forward(n))],
          [nodes |-> 1..n, edges |-> RandomSubset(m, Forward(n)) \cup RandomSubset(1, Pairs(n) \ Forward(n))],
          [nodes |-> 1..n, edges |-> RandomSubset(m, Pairs(n))] }
        : m \in { n - 1, n, 2 * n } } : n \in BigMin..BigMax, r \in 1..Reps }

BigInit == g \in BigGraphs /\ emitted = <<>>
\* only the initial states matter for record generation
NoNext == FALSE /\ UNCHANGED vars
BigSpec == BigInit /\ [][NoNext]_vars
=============================================================================
