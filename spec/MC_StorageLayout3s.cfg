\* quick tier: every declaration with <= 3 fields over the small pool
CONSTANT UnitWord = 0
CONSTANT MaxFields = 3
CONSTANT PoolSel = "small"
CONSTANT NP2 = 0
CONSTANT NP3 = 0
SPECIFICATION Spec
INVARIANT InvReadBack
INVARIANT InvDisjoint
INVARIANT InvFieldIds
INVARIANT InvImgSize
INVARIANT InvEncAgrees
INVARIANT InvWellNamed
CHECK_DEADLOCK FALSE
