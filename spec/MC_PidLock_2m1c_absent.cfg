\* 2 markers + 1 checker, no initial file (quick tier; the full one is MC_PidLock_2m1c.cfg)
CONSTANTS
  Procs = {1, 2, 3}
  Prog <- Prog_2m1c
  AtomicPublish = TRUE
  InitFiles = {"absent"}
  MaxCrashes = 1
SPECIFICATION MCSpec
INVARIANT TypeOK
INVARIANT CulpritRecorded
INVARIANT LossReport
INVARIANT UnseenReport
INVARIANT StaleWitness
CHECK_DEADLOCK FALSE
