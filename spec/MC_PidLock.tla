---------------------------- MODULE MC_PidLock ----------------------------
(* TLC-only additions to PidLock: the program tables of the exhaustive      *)
(* configurations, the loss classifier (one shortest witness per reachable  *)
(* culprit key, printed as a REPLAY record) and replay-record printing for  *)
(* simulation / all-behaviours runs.                                        *)
EXTENDS PidLock, TLCExt, Json

MR == <<"mark", "release">>
C  == <<"check">>
Prog_1m1c(p) == IF p = 1 THEN MR ELSE C            \* Procs = {1,2}
Prog_m1c(p)  == IF p = 1 THEN <<"mark">> ELSE C    \* Procs = {1,2}   (smallest: all behaviours are replayed)
Prog_1m2c(p) == IF p = 1 THEN MR ELSE C            \* Procs = {1,2,3}
Prog_2m1c(p) == IF p \in {1, 2} THEN MR ELSE C     \* Procs = {1,2,3}
Prog_2m(p)   == MR                                 \* Procs = {1,2}
Prog_3m(p)   == MR                                 \* Procs = {1,2,3}
Prog_2r1c(p) == IF p = 1 THEN MR \o MR ELSE C      \* Procs = {1,2}: mark; release; mark; release

\* projection of a state (record of all variables) to what a replay needs: who is where, and what the
\* directory shows -- the model's expectation after each step
ViewIn(s, v) == IF v = 0 THEN ABSENT ELSE s.content[v]
Proj(s) == [pc    |-> [p \in Procs |-> s.loc[p].pc],
            opi   |-> [p \in Procs |-> s.loc[p].opi],
            res   |-> [p \in Procs |-> s.loc[p].res],
            alive |-> s.alive,
            holds |-> s.holds,
            fs    |-> [flag |-> ViewIn(s, s.flag), tmp |-> [p \in Procs |-> ViewIn(s, s.tmp[p])]]]
BehaviourOf(t) == [i \in DOMAIN t |-> Proj(t[i])]
CfgRec(t) == [progs |-> [p \in Procs |-> prog[p]],
           init  |-> LET s == t[1] IN
                     IF s.flag = 0 THEN "absent"
                     ELSE CASE s.content[INITINO] = GARBAGE -> "garbage"
                            [] s.content[INITINO] = GHOST -> "ghost"
                            [] OTHER -> "empty",
           atomic |-> AtomicPublish]

\* register 2 = culprit keys already printed (set once at start-up; not in Init, which TLC re-evaluates
\* whenever it reconstructs a trace)
ASSUME TLCSet(2, {})
MCSpec == Init /\ [][Next]_vars

\* StaleCleared is classified the same way (one key), so that a violation comes with a replayable witness
ReportKeys == LossKeys \cup (IF \E q \in Procs : staleBad[q]
                              THEN {[key |-> "stale-flag-not-cleared", via |-> "check"]} ELSE {})

\* Never false.  Prints, for every culprit key that is reachable, the first (breadth-first: shortest)
\* behaviour that reaches it.  Run with -workers 1.
LossReport ==
    \A k \in ReportKeys :
        \/ k \in TLCGet(2)
        \/ /\ TLCSet(2, TLCGet(2) \cup {k})
           /\ LET t == Trace IN
              PrintT(<<"REPLAY", ToJson([kind |-> "loss", key |-> k.key, via |-> k.via, cfg |-> CfgRec(t), states |-> BehaviourOf(t)])>>)

\* Operation form of the property: the first behaviour, per culprit key, in which a COMPLETE is_file_dirty
\* that began while the owner was holding returned false.  (register 3)
ASSUME TLCSet(3, {})
UnseenReport ==
    \A k \in UNION { visBad[q] : q \in Procs } :
        \/ k \in TLCGet(3)
        \/ /\ TLCSet(3, TLCGet(3) \cup {k})
           /\ LET t == Trace IN
              PrintT(<<"REPLAY", ToJson([kind |-> "unseen", key |-> k.key, via |-> k.via, cfg |-> CfgRec(t), states |-> BehaviourOf(t)])>>)

\* Anti-vacuity of StaleCleared: the first behaviour in which a marker died owning the flag and a later
\* complete check (no marker engaged during it) removed the file and answered clean.  (register 4)
ASSUME TLCSet(4, FALSE)
StaleClearedHere ==
    \E q \in Procs, m \in Procs :
        /\ ~alive[m] /\ mine[m] # 0 /\ content[mine[m]] = m /\ flag = 0
        /\ culprit[mine[m]].via \in {"check:cleanup.remove", "check:pid.remove"}
        /\ prog[q] = C /\ loc[q].pc = "end" /\ loc[q].res = "clean" /\ ~eng[q] /\ ~staleBad[q]
StaleWitness ==
    (StaleClearedHere /\ ~TLCGet(4)) =>
        /\ TLCSet(4, TRUE)
        /\ LET t == Trace IN
           PrintT(<<"REPLAY", ToJson([kind |-> "stale-cleared", key |-> "", via |-> "", cfg |-> CfgRec(t), states |-> BehaviourOf(t)])>>)

\* every complete behaviour (simulation mode, or breadth-first with the history variable of MC_PidLockAll)
PrintReplay ==
    Terminal => LET t == Trace IN
                PrintT(<<"REPLAY", ToJson([kind |-> "run", key |-> "", via |-> "", cfg |-> CfgRec(t), states |-> BehaviourOf(t)])>>)
=============================================================================
