SPECIFICATION TraceSpec
INVARIANT BoundKeysSeen
POSTCONDITION Accepted
CHECK_DEADLOCK FALSE
