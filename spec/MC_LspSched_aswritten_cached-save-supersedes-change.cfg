\* MC_LspSched.tla: the protocol as originally written w.r.t. this repair; TLC must report CexNoLostEdit violated and print the schedule (mechanism cached-save-supersedes-change)
CONSTANTS NChange = 1  NSave = 1  NWait = 1
          NChecksFull = 7  TailFullCode = 1122110  NChecksCached = 2  TailCachedCode = 10
          FixNotify = TRUE  FixOpen = TRUE  FixClear = TRUE  FixSave = FALSE
          KnownMechs = {}
SPECIFICATION HistSpec
VIEW View
INVARIANT CexNoLostEdit
CHECK_DEADLOCK FALSE
