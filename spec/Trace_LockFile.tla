--------------------------- MODULE Trace_LockFile ---------------------------
(***************************************************************************)
(* Trace validation for C20 and C21.  Records are produced by vh-lock from *)
(* the real forc_pkg code; this module decides them with LockFile's        *)
(* operators and actions.                                                  *)
(*                                                                         *)
(* C20  {"ev":"RoundTrip","id","g":{nodes,edges},"lock":[entry..],         *)
(*       "out":{"k":"graph",nodes,edges}|{"k":"error",..}|{"k":"panic",..}} *)
(*   Begin : g  := the graph the real code was given                       *)
(*   Write : LockFile!Write, and the lock the real Lock::from_graph built  *)
(*           (as serde sees it) must equal ToLock(g)                       *)
(*   Read  : LockFile!Read, and what the real toml::from_str + to_graph    *)
(*           returned must be FromLock(lock); then the property: the graph *)
(*           read back is g itself, or g breaks a named proviso of the     *)
(*           theorem (printed for the driver).                             *)
(*   A panic, a lock or a result that differs from the spec's, or a        *)
(*   well-formed graph that does not come back, enables no action: the     *)
(*   trace is rejected at that record.                                     *)
(*                                                                         *)
(* C21  {"ev":"ParseSource","s","outcome":"ok|error|panic","src"}           *)
(*      {"ev":"Load","outcome":"graph|error|panic", "lock"?:[entry..]}      *)
(*   There is no action for outcome "panic".  Beyond that: a source string *)
(*   the grammar rejects must be reported as an error and an accepted one  *)
(*   must be of the kind (and fields) the grammar assigns; a lock given in *)
(*   abstract form must be an error when FromLock says error, and (when    *)
(*   its sources involve no opaque sub-parser) a graph when FromLock says  *)
(*   graph.                                                                *)
(***************************************************************************)
EXTENDS LockFile, Json, IOUtils

\* (keep trace shards small: with this TLC build the cost of a step grows with the size of Rec)
Rec == ndJsonDeserialize(IOEnv.TRACE)

VARIABLE l            \* index of the current record

Range(sq) == { sq[i] : i \in DOMAIN sq }

GraphOf(x) ==
    LET ns == x.nodes IN
    [nodes |-> Range(ns),
     edges |-> { [from |-> ns[e.from], to |-> ns[e.to], dep |-> e.dep, kind |-> e.kind, salt |-> e.salt]
                 : e \in Range(x.edges) }]

LockOf(x) ==
    { [name |-> e.name, version |-> e.version, source |-> e.source,
       deps |-> Range(e.deps), cdeps |-> Range(e.cdeps)] : e \in Range(x) }

Cur == Rec[l]
Is(ev) == l <= Len(Rec) /\ Cur.ev = ev

\* ---- memo tables over the strings of this trace shard (see LockFile "Memoization points") ----
RT       == { i \in 1..Len(Rec) : Rec[i].ev = "RoundTrip" }
TSrcs    == UNION { { n.src : n \in Range(Rec[i].g.nodes) } : i \in RT }
TSStrT   == [s \in TSrcs |-> SrcStr(s)]
TSources == { TSStrT[s] : s \in TSrcs } \cup UNION { { e.source : e \in Range(Rec[i].lock) } : i \in RT }
TPSrcT   == [x \in TSources |-> ParseSource(x)]
TLines   == UNION { UNION { Range(e.deps) \cup Range(e.cdeps) : e \in Range(Rec[i].lock) } : i \in RT }
TPDepT   == [x \in TLines |-> ParseDepLine(x)]
TSProvT  == [p \in TSrcs \X BOOLEAN |-> SrcProvisos(p[1], p[2])]
T_SStr(src)  == IF src \in TSrcs THEN TSStrT[src] ELSE SrcStr(src)
T_PSrc(x)    == IF x \in TSources THEN TPSrcT[x] ELSE ParseSource(x)
T_PDep(x)    == IF x \in TLines THEN TPDepT[x] ELSE ParseDepLine(x)
T_SProv(src, dis) == IF src \in TSrcs THEN TSProvT[<<src, dis>>] ELSE SrcProvisos(src, dis)

TraceInit ==
    /\ TLCSet(1, 1)
    /\ l = 1 /\ phase = "idle" /\ g = EmptyGraph /\ lock = {} /\ out = RError

\* ---- C20 ------------------------------------------------------------------------
TrBegin ==
    /\ Is("RoundTrip") /\ phase \in {"idle", "read"}
    /\ phase' = "graph" /\ g' = GraphOf(Cur.g) /\ lock' = {} /\ out' = RError /\ UNCHANGED l

TrWrite ==
    /\ Is("RoundTrip") /\ Write
    /\ lock' = LockOf(Cur.lock)                        \* the real Lock::from_graph agrees with ToLock
    /\ UNCHANGED l

\* what the real read side returned agrees with FromLock
OutMatches(o, m) ==
    CASE m.k = "graph"     -> o.k = "graph" /\ GraphOf(o) = m.g
      [] m.k = "error"     -> o.k = "error"
      [] m.k = "unordered" -> o.k \in {"graph", "error"}

\* Read, then the property: the graph read back is g itself, or g breaks a named proviso of the
\* round-trip theorem (printed; the driver reports the "M-" ones as findings).
TrRead ==
    /\ Is("RoundTrip") /\ Read /\ OutMatches(Cur.out, out')
    /\ \/ out' = RGraph(g)                              \* C20: the same packages and edges
       \/ /\ out' # RGraph(g) /\ Provisos(g) # {}
          /\ PrintT(<<"PROVISO", ToJson([id |-> Cur.id, provisos |-> Provisos(g), k |-> Cur.out.k])>>)
    /\ l' = l + 1 /\ TLCSet(1, l + 1)

\* ---- C21 ------------------------------------------------------------------------
SameButOpaque(a, b) ==        \* url / cid / version are printed by parsers the spec does not transcribe
    /\ a.kind = b.kind /\ a.root = b.root /\ a.refk = b.refk /\ a.refv = b.refv
    /\ a.commit = b.commit /\ a.name = b.name /\ a.nsk = b.nsk /\ a.ns = b.ns

TrParseSource ==
    /\ Is("ParseSource") /\ phase \in {"idle", "read"}
    /\ Cur.outcome \in {"ok", "error"}                                  \* never a panic
    /\ LET p == ParseSource(Cur.s) IN
         /\ ~p.ok => Cur.outcome = "error"                              \* malformed => reported as error
         /\ Cur.outcome = "ok" => SameButOpaque(Cur.src, p.v)
    /\ l' = l + 1 /\ TLCSet(1, l + 1) /\ UNCHANGED vars

TrLoad ==
    /\ Is("Load") /\ phase \in {"idle", "read"}
    /\ Cur.outcome \in {"graph", "error"}                               \* never a panic
    /\ ("lock" \in DOMAIN Cur) =>
          LET lk == LockOf(Cur.lock)
              m  == FromLock(lk)
              \* member / path sources involve no opaque sub-parser: the prediction is exact
              exact == \A en \in lk : en.source = "member" \/ StartsWith(en.source, "path+") IN
          /\ m.k = "error" => Cur.outcome = "error"
          /\ (m.k = "graph" /\ exact) => Cur.outcome = "graph"
    /\ l' = l + 1 /\ TLCSet(1, l + 1) /\ UNCHANGED vars

TraceNext == TrBegin \/ TrWrite \/ TrRead \/ TrParseSource \/ TrLoad

TraceSpec == TraceInit /\ [][TraceNext]_<<vars, l>>

Accepted ==
    IF TLCGet(1) = Len(Rec) + 1 THEN TRUE
    ELSE Print(<<"FIRST-UNMATCHED", TLCGet(1), ToJson([id |-> Rec[TLCGet(1)].id, ev |-> Rec[TLCGet(1)].ev])>>, FALSE)
=============================================================================
