\* replay records for C13 (run with -seed and -workers 1)
CONSTANTS MaxCfgs = 0 MaxPatches = 0 Defaults = {0} Shapes = {1} NBuilds = 24
SPECIFICATION GenSpec
INVARIANT PrintReplay
CHECK_DEADLOCK FALSE
