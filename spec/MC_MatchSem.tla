---------------------------- MODULE MC_MatchSem ----------------------------
(***************************************************************************)
(* TLC-only part of C14: the scrutinee types, the pattern generator, the   *)
(* pools of matrices (exhaustive enumeration over small pattern sets and   *)
(* fixed-seed random matrices over the full depth-2 pattern sets), the     *)
(* model-level facts checked on every matrix, and replay-record printing.  *)
(***************************************************************************)
EXTENDS MatchSem, Json, Randomization

CONSTANTS
    Sel,        \* set of pool names to generate (see Pools)
    NRand,      \* random matrices per type and arm count
    SliceK, SliceR,   \* keep the matrices whose first arm has index SliceR modulo SliceK (1, 0 = all)
    FullLemma   \* also check RegionLemma over the full value space, u8 = 0..255 (types with <= 1 u8 leaf)

S == INSTANCE SwaySem

(***************************************************************************)
(* Scrutinee types                                                         *)
(***************************************************************************)
TBool == [k |-> "bool"]
TU8   == [k |-> "u8"]
TUnit == [k |-> "unit"]
Tup(ts) == [k |-> "tuple", ts |-> ts]
Ea == [k |-> "enum", name |-> "Ea", ts |-> <<TUnit, TBool, TU8>>]
Eb == [k |-> "enum", name |-> "Eb", ts |-> <<Tup(<<TBool, TBool>>), Ea>>]
Sa == [k |-> "struct", name |-> "Sa", ts |-> <<TBool, TU8>>]
Sb == [k |-> "struct", name |-> "Sb", ts |-> <<Ea, TBool, TBool>>]
Ec == [k |-> "enum", name |-> "Ec", ts |-> <<TUnit, Sa>>]

Types == [ bool |-> TBool, u8 |-> TU8, Ea |-> Ea, Eb |-> Eb, Ec |-> Ec, Sa |-> Sa, Sb |-> Sb,
           bb |-> Tup(<<TBool, TBool>>), bu |-> Tup(<<TBool, TU8>>), eb |-> Tup(<<Ea, TBool>>),
           bbb |-> Tup(<<TBool, TBool, TBool>>), uu |-> Tup(<<TU8, TU8>>), es |-> Tup(<<Ea, Sa>>),
           tbb |-> Tup(<<Tup(<<TBool, TBool>>), TBool, TBool>>) ]

FieldName(i) == <<"f", "g", "h">>[i]

(***************************************************************************)
(* Pattern generator.  Pats(t, d, nm, b, o, L): patterns of type t with at *)
(* most d nested constructors; nm = binder name at this position; b =      *)
(* binders allowed; o = or-patterns allowed; L = u8 literal pool.          *)
(***************************************************************************)
Lit(n) == [k |-> "lit", t |-> "u8", b |-> <<n>>]
Bind(x) == [k |-> "bind", x |-> x]

Atoms(t, nm, b, L) ==
    {Wild} \cup (IF b THEN {Bind(nm)} ELSE {})
    \cup (CASE t.k = "bool" -> { [k |-> "bool", v |-> TRUE], [k |-> "bool", v |-> FALSE] }
            [] t.k = "u8" -> { Lit(n) : n \in L }
            [] OTHER -> {})

\* ways to write the field list of a struct pattern with n fields: <<order written, has `..`>>
RECURSIVE IncSeqs(_, _)
IncSeqs(i, n) ==    \* increasing sequences over i..n
    IF i > n THEN { <<>> }
    ELSE LET r == IncSeqs(i + 1, n) IN r \cup { <<i>> \o s : s \in r }
Forms(n) ==
    { <<[i \in 1..n |-> i], FALSE>>, <<[i \in 1..n |-> n + 1 - i], FALSE>> }
    \cup { <<s, TRUE>> : s \in { x \in IncSeqs(1, n) : Len(x) < n } }

RECURSIVE Pats(_, _, _, _, _, _), Simple(_, _, _, _, _, _), PProd(_, _, _, _, _, _, _), FProd(_, _, _, _, _, _, _, _)
Simple(t, d, nm, b, o, L) ==
    Atoms(t, nm, b, L) \cup
    (IF d = 0 THEN {} ELSE
     CASE t.k = "tuple" -> { [k |-> "tuple", ps |-> ps] : ps \in PProd(t.ts, 1, d - 1, nm, b, o, L) }
       [] t.k = "struct" ->
            UNION { { [k |-> "struct", name |-> t.name, rest |-> f[2], fs |-> fs]
                      : fs \in FProd(t, f[1], 1, d - 1, nm, b, o, L) } : f \in Forms(Len(t.ts)) }
       [] t.k = "enum" ->
            UNION { { [k |-> "variant", name |-> t.name, v |-> i - 1, p |-> q]
                      : q \in (IF t.ts[i].k = "unit" THEN {Wild}
                               ELSE Pats(t.ts[i], d - 1, nm \o ToString(i), b, o, L)) } : i \in DOMAIN t.ts }
       [] OTHER -> {})
\* or-patterns: two alternatives without binders and without nested or-patterns
Pats(t, d, nm, b, o, L) ==
    Simple(t, d, nm, b, o, L) \cup
    (IF ~o THEN {} ELSE
     LET A == Simple(t, d, "", FALSE, FALSE, L) IN { [k |-> "or", ps |-> <<p1, p2>>] : p1 \in A, p2 \in A })
PProd(ts, i, d, nm, b, o, L) ==
    IF i > Len(ts) THEN { <<>> }
    ELSE { <<h>> \o r : h \in Pats(ts[i], d, nm \o ToString(i), b, o, L), r \in PProd(ts, i + 1, d, nm, b, o, L) }
FProd(t, ord, j, d, nm, b, o, L) ==
    IF j > Len(ord) THEN { <<>> }
    ELSE { <<[i |-> ord[j], p |-> h]>> \o r :
             h \in Pats(t.ts[ord[j]], d, FieldName(ord[j]), b, o, L), r \in FProd(t, ord, j + 1, d, nm, b, o, L) }

(***************************************************************************)
(* Pools.  A pool element is [ty |-> type name, M |-> matrix].             *)
(***************************************************************************)
L3 == {0, 1, 255}
L5 == {0, 1, 3, 254, 255}

\* top-level binder allowed, nested binders not, no or-patterns
Small(t) == Simple(t, 2, "b", FALSE, FALSE, L3) \cup { Bind("b") }
\* small set plus top-level or-patterns of binder-free atoms (bool, u8 only)
SmallOr(t) == Small(t) \cup
    { [k |-> "or", ps |-> <<p1, p2>>] : p1 \in Atoms(t, "", FALSE, L3), p2 \in Atoms(t, "", FALSE, L3) }

SeqsUpTo(P, n) == UNION { [1..m -> P] : m \in 1..n }
AsSeq(f) == [i \in 1..Len(f) |-> f[i]]

\* sfx: u8 literals are written with the type suffix (`0u8`): the analysis then works on u8 ranges
\* instead of u64 ("numeric") ranges; the meaning is the same
Exh(ty, P, n) == { [ty |-> ty, sfx |-> FALSE, M |-> AsSeq(f)] : f \in SeqsUpTo(P, n) }
ExhS(ty, P, n) == { [ty |-> ty, sfx |-> TRUE, M |-> AsSeq(f)] : f \in SeqsUpTo(P, n) }
(***************************************************************************)
(* Random matrices over the full depth-2 pattern language (binders and     *)
(* nested or-patterns anywhere, literals from L5, every way of writing a   *)
(* struct field list).  The pattern set is far too large to build, so a    *)
(* pattern is drawn constructor by constructor with TLC's RandomElement;   *)
(* the draw is a function of the -seed given on the command line (fixed by *)
(* the driver), so the pool is finite and deterministic.                   *)
(***************************************************************************)
\* a copy of p with the same binders in the same places and the other leaves redrawn
RECURSIVE Mut(_, _)
Mut(p, t) ==
    CASE p.k = "bind" -> p
      [] p.k = "wild" \/ p.k = "bool" \/ p.k = "lit" ->
            IF t.k = "bool" /\ RandomElement(1..3) # 1 THEN [k |-> "bool", v |-> RandomElement(BOOLEAN)]
            ELSE IF t.k = "u8" /\ RandomElement(1..3) # 1 THEN Lit(RandomElement(L5))
            ELSE Wild
      [] p.k = "tuple" -> [k |-> "tuple", ps |-> [i \in DOMAIN p.ps |-> Mut(p.ps[i], t.ts[i])]]
      [] p.k = "struct" ->
            [k |-> "struct", name |-> p.name, rest |-> p.rest,
             fs |-> [j \in DOMAIN p.fs |-> [i |-> p.fs[j].i, p |-> Mut(p.fs[j].p, t.ts[p.fs[j].i])]]]
      [] p.k = "variant" -> [k |-> "variant", name |-> p.name, v |-> p.v, p |-> Mut(p.p, t.ts[p.v + 1])]
      [] OTHER -> p

RECURSIVE RP(_, _, _, _, _, _)
\* top: the pattern is a whole arm (or an alternative of one): irrefutable patterns are drawn rarely
\* there, because they make everything below them dead
RP(t, d, nm, b, o, top) ==
    LET r == RandomElement(1..100)
        orW == IF o THEN 22 ELSE 0
        wildW == orW + (IF top THEN 5 ELSE 16)
        bindW == wildW + (IF ~b THEN 0 ELSE IF top THEN 3 ELSE 8)
    IN
    IF r <= orW THEN
        LET n == IF RandomElement(1..4) = 1 THEN 3 ELSE 2 IN
        IF b /\ RandomElement(1..3) = 1 THEN
            \* alternatives that bind the same variables: the first is drawn with binders (and without
            \* nested or-patterns), the others are copies of it with the refutable leaves redrawn
            LET first == RP(t, d, nm, TRUE, FALSE, top)
            IN [k |-> "or", ps |-> [i \in 1..n |-> IF i = 1 THEN first ELSE Mut(first, t)]]
        ELSE [k |-> "or", ps |-> [i \in 1..n |-> RP(t, d, "", FALSE, (d > 0) /\ RandomElement(1..4) = 1, top)]]
    ELSE IF r <= wildW THEN Wild
    ELSE IF r <= bindW THEN Bind(nm)
    ELSE CASE t.k = "bool" -> [k |-> "bool", v |-> RandomElement(BOOLEAN)]
           [] t.k = "u8"   -> Lit(RandomElement(L5))
           [] t.k = "unit" -> Wild
           [] d = 0 -> Wild
           [] t.k = "tuple" ->
                [k |-> "tuple", ps |-> [i \in DOMAIN t.ts |-> RP(t.ts[i], d - 1, nm \o ToString(i), b, o, FALSE)]]
           [] t.k = "struct" ->
                LET f == RandomElement(Forms(Len(t.ts))) IN
                [k |-> "struct", name |-> t.name, rest |-> f[2],
                 fs |-> [j \in DOMAIN f[1] |->
                            [i |-> f[1][j], p |-> RP(t.ts[f[1][j]], d - 1, FieldName(f[1][j]), b, o, FALSE)]]]
           [] t.k = "enum" ->
                LET i == RandomElement(DOMAIN t.ts) IN
                [k |-> "variant", name |-> t.name, v |-> i - 1,
                 p |-> IF t.ts[i].k = "unit" THEN Wild ELSE RP(t.ts[i], d - 1, nm \o ToString(i), b, o, FALSE)]

\* one random matrix with 2..n arms; one matrix in three is free of or-patterns; one in four writes
\* its u8 literals with the type suffix
RM(ty, n) ==
    LET len == RandomElement(2..n)
        o == RandomElement(1..3) # 1
    IN [ty |-> ty, sfx |-> (RandomElement(1..4) = 1), M |-> [i \in 1..len |-> RP(Types[ty], 2, "b", TRUE, o, TRUE)]]
Rnd(ty, n) == { RM(ty, n) : i \in 1..NRand }

\* (an operator, not a constant: TLC evaluates constant definitions eagerly at start-up)
Pool(s) ==
    CASE s = "x_bool" -> Exh("bool", SmallOr(TBool), 3)
      [] s = "x_u8"   -> Exh("u8", SmallOr(TU8), 2)
      [] s = "x_u8s"  -> ExhS("u8", SmallOr(TU8), 2)
      [] s = "x_Ea"   -> Exh("Ea", Small(Ea), 3)
      [] s = "x_bb"   -> Exh("bb", Small(Types["bb"]), 3)
      [] s = "x_bu"   -> Exh("bu", Small(Types["bu"]), 3)
      [] s = "x_eb"   -> Exh("eb", Small(Types["eb"]), 2)
      [] s = "x_Sa"   -> Exh("Sa", Small(Sa), 2)
      [] s = "x_Eb"   -> Exh("Eb", Small(Eb), 2)
      [] s = "x_Ec"   -> Exh("Ec", Small(Ec), 2)
      [] s = "x_bbb"  -> Exh("bbb", Small(Types["bbb"]), 2)
      [] s = "x_Sb"   -> Exh("Sb", Small(Sb), 1)
      [] s = "r_u8"   -> Rnd("u8", 5)
      [] s = "r_Ea"   -> Rnd("Ea", 5)
      [] s = "r_Eb"   -> Rnd("Eb", 4)
      [] s = "r_Ec"   -> Rnd("Ec", 4)
      [] s = "r_Sa"   -> Rnd("Sa", 4)
      [] s = "r_Sb"   -> Rnd("Sb", 4)
      [] s = "r_bb"   -> Rnd("bb", 5)
      [] s = "r_bu"   -> Rnd("bu", 5)
      [] s = "r_eb"   -> Rnd("eb", 4)
      [] s = "r_bbb"  -> Rnd("bbb", 5)
      [] s = "r_uu"   -> Rnd("uu", 4)
      [] s = "r_es"   -> Rnd("es", 3)
      [] s = "r_tbb"  -> Rnd("tbb", 4)

VARIABLE m
vars == <<m>>

SE == INSTANCE SequencesExt

\* a pool is generated in SliceK pieces (by the position of the first arm in TLC's fixed value order)
Sliced(pool) ==
    IF SliceK = 1 THEN pool
    ELSE LET firsts == SE!SetToSeq({ x.M[1] : x \in pool })
             Idx(p) == CHOOSE i \in DOMAIN firsts : firsts[i] = p
         IN { x \in pool : Idx(x.M[1]) % SliceK = SliceR }

Init == \E s \in Sel : m \in Sliced(Pool(s))
Next == FALSE /\ UNCHANGED m
Spec == Init /\ [][Next]_vars

(***************************************************************************)
(* Agreement with the dynamic semantics used by C01 (SwaySem.Match /       *)
(* EvalMatch): same vocabulary, struct patterns normalised to "all fields  *)
(* in declaration order".                                                  *)
(***************************************************************************)
RECURSIVE Norm(_, _)
Norm(p, t) ==
    CASE p.k = "tuple" -> [k |-> "tuple", ps |-> [i \in DOMAIN p.ps |-> Norm(p.ps[i], t.ts[i])]]
      [] p.k = "struct" ->
            [k |-> "struct", name |-> p.name,
             ps |-> [i \in DOMAIN t.ts |->
                        IF \E j \in DOMAIN p.fs : p.fs[j].i = i
                        THEN Norm(p.fs[CHOOSE j \in DOMAIN p.fs : p.fs[j].i = i].p, t.ts[i]) ELSE Wild]]
      [] p.k = "variant" -> [k |-> "variant", name |-> p.name, v |-> p.v, p |-> Norm(p.p, t.ts[p.v + 1])]
      [] p.k = "or" -> [k |-> "or", ps |-> [i \in DOMAIN p.ps |-> Norm(p.ps[i], t)]]
      [] OTHER -> p

\* the arm SwaySem's EvalMatch takes: first i with Match(arms[i].p, v).m
RECURSIVE SwayArm(_, _, _)
SwayArm(NM, v, i) ==
    IF i > Len(NM) THEN 0 ELSE IF S!Match(NM[i], v).m THEN i ELSE SwayArm(NM, v, i + 1)

AgreesWithSwaySem(M, t) ==
    LET NM == [i \in DOMAIN M |-> Norm(M[i], t)] IN
    \A v \in AbsVal(t, M) : Arm(M, v) = SwayArm(NM, v, 1)

(***************************************************************************)
(* Model-level facts, checked on every generated matrix                    *)
(***************************************************************************)
T == Types[m.ty]

WellFormed == \A i \in DOMAIN m.M : WF(m.M[i], T)
Facts ==
    /\ ExhaustiveIffWildUseless(m.M, T)
    /\ BelowCatchAllDead(m.M, T)
    /\ TableIsDefinitional(m.M, T)
    /\ WitnessExists(m.M, T)
    /\ AgreesWithSwaySem(m.M, T)
\* RegionLemma over the full value space (u8 = 0..255) for types with at most one u8 leaf on any
\* path (<= 1024 values); the lemma is compositional, so wider products add nothing new.
Max(X) == CHOOSE x \in X : \A y \in X : y <= x
RECURSIVE SumSeq(_, _)
SumSeq(q, i) == IF i > Len(q) THEN 0 ELSE q[i] + SumSeq(q, i + 1)
RECURSIVE U8Leaves(_)
U8Leaves(t) ==
    CASE t.k = "u8" -> 1
      [] t.k = "enum" -> LET n == Len(t.ts) IN
            IF n = 0 THEN 0 ELSE Max({ U8Leaves(t.ts[i]) : i \in 1..n })
      [] t.k = "tuple" \/ t.k = "struct" -> SumSeq([i \in DOMAIN t.ts |-> U8Leaves(t.ts[i])], 1)
      [] OTHER -> 0
Lemma == AtomRegionLemma(m.M) /\ ((FullLemma /\ U8Leaves(T) <= 1) => RegionLemma(m.M, T))

(***************************************************************************)
(* Replay records: the matrix, its abstract value space and the verdicts   *)
(***************************************************************************)
Record ==
    LET M == m.M
        tb == Table(M, T)
        vs == SE!SetToSeq(DOMAIN tb)
    IN [ ty |-> m.ty, sfx |-> m.sfx, t |-> T, M |-> M,
         exh |-> TExh(tb),
         unreach |-> TUnreach(M, tb),
         vals |-> vs,
         arm |-> [j \in DOMAIN vs |-> TArm(tb, vs[j])] ]

PrintReplay == PrintT(<<"REPLAY", ToJson(Record)>>)
=============================================================================
